(** * The per-instance validator of [replace] — executable Gallina only.

    [validate block call] = the side conditions under which [inline_call] is meaning preserving hold
    ([inline_ok]) and the inlined call, with its windows eliminated, equals the replaced block up to
    alpha and the normalisation of integer sums.  Proved sound in ProofsValidate.v. *)
From Coq Require Import ZArith List Bool.
From Core Require Import Syntax Sem Wf.
From Unify Require Import Inline Alpha Elim.
Import ListNotations.

(** ** typed scopes of a callee: [cs] = control variables in scope, [bs] = buffers/windows/scalars in
    scope; a binder has to be new (not in scope, not in [av] = formal names + free variables of the
    actual arguments).  Every procedure the front end accepts passes (Syms are unique). *)
Fixpoint tc_e (cs bs : list sym) (e : expr) {struct e} : bool :=
  match e with
  | Var y => mem y cs
  | Int _ | BoolC _ | Real _ | ReadCfg _ => true
  | Read y idx => mem y bs && forallb (tc_e cs bs) idx
  | USub a => tc_e cs bs a
  | BinOp _ a b => tc_e cs bs a && tc_e cs bs b
  | Extern _ args => forallb (tc_e cs bs) args
  | WindowE y acc =>
      mem y bs && forallb (fun w => match w with
                                    | Point a => tc_e cs bs a
                                    | Interval a b => tc_e cs bs a && tc_e cs bs b
                                    end) acc
  | Stride y _ => mem y bs
  end.

Definition tc_w (cs bs : list sym) (w : wacc) : bool :=
  match w with Point a => tc_e cs bs a | Interval a b => tc_e cs bs a && tc_e cs bs b end.

Definition fresh_b (av cs bs : list sym) (x : sym) : bool :=
  negb (mem x av) && negb (mem x cs) && negb (mem x bs).

Fixpoint tc_s (av cs bs : list sym) (s : stmt) {struct s} : option (list sym * list sym) :=
  match s with
  | Assign y idx rhs | Reduce y idx rhs =>
      if mem y bs && forallb (tc_e cs bs) idx && tc_e cs bs rhs then Some (cs, bs) else None
  | WriteCfg _ rhs => if tc_e cs bs rhs then Some (cs, bs) else None
  | Pass => Some (cs, bs)
  | If c a b =>
      if tc_e cs bs c then
        match (fix go (cs bs : list sym) (l : list stmt) {struct l} : option (list sym * list sym) :=
                 match l with
                 | [] => Some (cs, bs)
                 | s' :: r => match tc_s av cs bs s' with Some (cs', bs') => go cs' bs' r | None => None end
                 end) cs bs a,
              (fix go (cs bs : list sym) (l : list stmt) {struct l} : option (list sym * list sym) :=
                 match l with
                 | [] => Some (cs, bs)
                 | s' :: r => match tc_s av cs bs s' with Some (cs', bs') => go cs' bs' r | None => None end
                 end) cs bs b with
        | Some _, Some _ => Some (cs, bs)
        | _, _ => None
        end
      else None
  | For i lo hi body _ =>
      if tc_e cs bs lo && tc_e cs bs hi && fresh_b av cs bs i then
        match (fix go (cs bs : list sym) (l : list stmt) {struct l} : option (list sym * list sym) :=
                 match l with
                 | [] => Some (cs, bs)
                 | s' :: r => match tc_s av cs bs s' with Some (cs', bs') => go cs' bs' r | None => None end
                 end) (i :: cs) bs body with
        | Some _ => Some (cs, bs)
        | None => None
        end
      else None
  | Alloc y shape => if forallb (tc_e cs bs) shape && fresh_b av cs bs y then Some (cs, y :: bs) else None
  | Call _ args => if forallb (tc_e cs bs) args then Some (cs, bs) else None
  | WindowS y rhs => if tc_e cs bs rhs && fresh_b av cs bs y then Some (cs, y :: bs) else None
  end.

Fixpoint tc_ss (av cs bs : list sym) (l : list stmt) {struct l} : option (list sym * list sym) :=
  match l with
  | [] => Some (cs, bs)
  | s :: r => match tc_s av cs bs s with Some (cs', bs') => tc_ss av cs' bs' r | None => None end
  end.

Definition is_ctl (k : argkind) : bool :=
  match k with KSize | KIndex | KBool | KStride => true | _ => false end.

Definition ctl_formals (fs : list (sym * argkind)) : list sym :=
  map fst (filter (fun fk => is_ctl (snd fk)) fs).
Definition buf_formals (fs : list (sym * argkind)) : list sym :=
  map fst (filter (fun fk => negb (is_ctl (snd fk))) fs).

Fixpoint nodup (l : list sym) : bool :=
  match l with [] => true | x :: r => negb (mem x r) && nodup r end.

(** the actual of a control formal is an environment-only expression; the actual of a buffer formal is a
    whole buffer / scalar name or a window expression *)
Definition arg_ok (k : argkind) (a : expr) : bool :=
  if is_ctl k then ctrl a
  else match a with
       | Read _ [] => true
       | WindowE _ _ => true
       | _ => false
       end.

Fixpoint args_ok (fs : list (sym * argkind)) (args : list expr) : bool :=
  match fs, args with
  | [], [] => true
  | (_, k) :: fr, a :: ar => arg_ok k a && args_ok fr ar
  | _, _ => false
  end.

Definition inline_ok (f : proc) (args : list expr) : bool :=
  match f with
  | Proc formals _ body =>
      let xs := map fst formals in
      let fva := flat_map fv_e args in
      nodup xs && args_ok formals args && forallb (fun y => negb (mem y xs)) fva &&
      match tc_ss (xs ++ fva) (ctl_formals formals) (buf_formals formals) body with Some _ => true | None => false end
  end.

Definition aeq_ok (strict : bool) (a b : list stmt) : bool :=
  match aeq_ss strict [] a b with Some _ => true | None => false end.

(** [validate]: the call, inlined and with its windows eliminated, is the block *)
Definition validate (block : list stmt) (call : stmt) : bool :=
  match call with
  | Call f args => inline_ok f args && aeq_ok false (elim_ws (inline_call f args)) block
  | _ => false
  end.

(** plain alpha-equality with the inlined call (no window elimination, no sums) *)
Definition validate_strict (block : list stmt) (call : stmt) : bool :=
  match call with
  | Call f args => inline_ok f args && aeq_ok true (inline_call f args) block
  | _ => false
  end.

(** the block leaves no binding behind (then "same final state" is literal) *)
Definition binds_nothing (l : list stmt) : bool :=
  forallb (fun s => match s with Alloc _ _ | WindowS _ _ => false | _ => true end) l.
