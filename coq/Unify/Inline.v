(** * Model of [DoInline] (src/exo/rewrite/LoopIR_scheduling.py) over Core.Syntax — executable Gallina only.

    Python:
      win_binds = []
      map_bind(nm, a) = if a is WindowExpr: win_binds += [WindowStmt(nm, a)]; return Read(nm, [])  else a
      call_bind = { formal.name : map_bind(formal.name, a) }            (dict over zip(f.args, call.args))
      body      = SubstArgs(f.body, call_bind)
      new_body  = Alpha_Rename(win_binds + body)

    [SubstArgs] (src/exo/core/LoopIR.py): a read without indices of a bound name becomes the bound
    expression; an indexed read / window / stride / assignment target of a bound name gets the NAME of the
    bound expression (which has to be an index-free read).  On the deep embedding a control read is [Var],
    a numeric read is [Read]; the dispatch below is on the ACTUAL only, as in Python:
      - [WindowE]         -> window statement, the formal keeps its own name (bound to [Read formal []])
      - [Read z []]       -> the formal is renamed to [z]                    (whole buffer / scalar by reference)
      - anything else     -> the formal is replaced by the expression        (size/index/bool/stride)
    [Alpha_Rename] gives every binder of the spliced code a fresh Sym; on the id level this is the identity
    up to alpha, which is how the correspondence (harness/props/C05.py) and the validator compare
    ([alpha_rename] below is the fresh-id renaming itself, used by the correspondence on binder freshness). *)
From Coq Require Import ZArith List Bool.
From Core Require Import Syntax Sem.
Import ListNotations.

Inductive sub := SExpr (e : expr) | SName (y : sym).
Definition subst := list (sym * sub).

Definition ren (sg : subst) (y : sym) : sym :=
  match lookup y sg with Some (SName z) => z | _ => y end.

Fixpoint subst_e (sg : subst) (e : expr) {struct e} : expr :=
  match e with
  | Var y => match lookup y sg with
             | Some (SExpr a) => a
             | Some (SName z) => Var z      (* ill-typed (a control read of a buffer name): keep it a control read *)
             | None => Var y
             end
  | Int _ | BoolC _ | Real _ | ReadCfg _ => e
  | Read y idx => Read (ren sg y) (map (subst_e sg) idx)
  | USub a => USub (subst_e sg a)
  | BinOp op a b => BinOp op (subst_e sg a) (subst_e sg b)
  | Extern f args => Extern f (map (subst_e sg) args)
  | WindowE y acc =>
      WindowE (ren sg y)
              (map (fun w => match w with
                             | Point a => Point (subst_e sg a)
                             | Interval a b => Interval (subst_e sg a) (subst_e sg b)
                             end) acc)
  | Stride y d => Stride (ren sg y) d
  end.

Definition subst_w (sg : subst) (w : wacc) : wacc :=
  match w with Point a => Point (subst_e sg a) | Interval a b => Interval (subst_e sg a) (subst_e sg b) end.

(** the callee of a nested call is a separate procedure with its own symbols: untouched, as in Python *)
Fixpoint subst_s (sg : subst) (s : stmt) {struct s} : stmt :=
  match s with
  | Assign y idx rhs => Assign (ren sg y) (map (subst_e sg) idx) (subst_e sg rhs)
  | Reduce y idx rhs => Reduce (ren sg y) (map (subst_e sg) idx) (subst_e sg rhs)
  | WriteCfg c rhs => WriteCfg c (subst_e sg rhs)
  | Pass => Pass
  | If c a b => If (subst_e sg c) (map (subst_s sg) a) (map (subst_s sg) b)
  | For i lo hi body par => For i (subst_e sg lo) (subst_e sg hi) (map (subst_s sg) body) par
  | Alloc y shape => Alloc y (map (subst_e sg) shape)
  | Call f args => Call f (map (subst_e sg) args)
  | WindowS y rhs => WindowS y (subst_e sg rhs)
  end.

(** window statements and the substitution of one call site ([zip] truncates to the shorter list) *)
Fixpoint mk_binding (formals : list (sym * argkind)) (args : list expr) : list stmt * subst :=
  match formals, args with
  | (x, _) :: fr, a :: ar =>
      let (ws, sg) := mk_binding fr ar in
      match a with
      | WindowE _ _ => (WindowS x a :: ws, sg)
      | Read z [] => (ws, (x, SName z) :: sg)
      | _ => (ws, (x, SExpr a) :: sg)
      end
  | _, _ => ([], [])
  end.

Definition inline_call (f : proc) (args : list expr) : list stmt :=
  match f with
  | Proc formals _ body => let (ws, sg) := mk_binding formals args in ws ++ map (subst_s sg) body
  end.

(** ** [Alpha_Rename]: every binder (window statement, allocation, loop variable) gets the next fresh id;
    uses are renamed in the scope of the binder (ChainMap push/pop around If bodies and For bodies). *)
Definition rmap := list (sym * sym).
Definition rn (m : rmap) (y : sym) : sym := match lookup y m with Some z => z | None => y end.

Fixpoint rn_e (m : rmap) (e : expr) {struct e} : expr :=
  match e with
  | Var y => Var (rn m y)
  | Int _ | BoolC _ | Real _ | ReadCfg _ => e
  | Read y idx => Read (rn m y) (map (rn_e m) idx)
  | USub a => USub (rn_e m a)
  | BinOp op a b => BinOp op (rn_e m a) (rn_e m b)
  | Extern f args => Extern f (map (rn_e m) args)
  | WindowE y acc =>
      WindowE (rn m y)
              (map (fun w => match w with
                             | Point a => Point (rn_e m a)
                             | Interval a b => Interval (rn_e m a) (rn_e m b)
                             end) acc)
  | Stride y d => Stride (rn m y) d
  end.

(** returns the renamed statement, the map for the following statements and the next fresh id *)
Fixpoint rn_s (m : rmap) (next : positive) (s : stmt) {struct s} : stmt * rmap * positive :=
  match s with
  | Assign y idx rhs => (Assign (rn m y) (map (rn_e m) idx) (rn_e m rhs), m, next)
  | Reduce y idx rhs => (Reduce (rn m y) (map (rn_e m) idx) (rn_e m rhs), m, next)
  | WriteCfg c rhs => (WriteCfg c (rn_e m rhs), m, next)
  | Pass => (Pass, m, next)
  | If c a b =>
      let '(a', _, n1) :=
        (fix go (m : rmap) (n : positive) (l : list stmt) : list stmt * rmap * positive :=
           match l with
           | [] => ([], m, n)
           | s' :: r => let '(s2, m2, n2) := rn_s m n s' in
                        let '(r2, m3, n3) := go m2 n2 r in (s2 :: r2, m3, n3)
           end) m next a in
      let '(b', _, n2) :=
        (fix go (m : rmap) (n : positive) (l : list stmt) : list stmt * rmap * positive :=
           match l with
           | [] => ([], m, n)
           | s' :: r => let '(s2, m2, n2) := rn_s m n s' in
                        let '(r2, m3, n3) := go m2 n2 r in (s2 :: r2, m3, n3)
           end) m n1 b in
      (If (rn_e m c) a' b', m, n2)
  | For i lo hi body par =>
      let i' := next in
      let '(body', _, n1) :=
        (fix go (m : rmap) (n : positive) (l : list stmt) : list stmt * rmap * positive :=
           match l with
           | [] => ([], m, n)
           | s' :: r => let '(s2, m2, n2) := rn_s m n s' in
                        let '(r2, m3, n3) := go m2 n2 r in (s2 :: r2, m3, n3)
           end) ((i, i') :: m) (Pos.succ next) body in
      (For i' (rn_e m lo) (rn_e m hi) body' par, m, n1)
  | Alloc y shape => (Alloc next (map (rn_e m) shape), (y, next) :: m, Pos.succ next)
  | Call f args => (Call f (map (rn_e m) args), m, next)
  | WindowS y rhs => (WindowS next (rn_e m rhs), (y, next) :: m, Pos.succ next)
  end.

Fixpoint rn_ss (m : rmap) (next : positive) (l : list stmt) : list stmt * rmap * positive :=
  match l with
  | [] => ([], m, next)
  | s :: r => let '(s2, m2, n2) := rn_s m next s in
              let '(r2, m3, n3) := rn_ss m2 n2 r in (s2 :: r2, m3, n3)
  end.

Definition alpha_rename (next : positive) (l : list stmt) : list stmt :=
  let '(l', _, _) := rn_ss [] next l in l'.

(** [DoInline]: the statements spliced in place of the call, binders renamed to ids from [next] on *)
Definition do_inline (next : positive) (f : proc) (args : list expr) : list stmt :=
  alpha_rename next (inline_call f args).
