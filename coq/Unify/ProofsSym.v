(** * The strict comparison (plain alpha-equality) is symmetric. *)
From Coq Require Import ZArith List Bool Lia QArith Qcanon.
From Core Require Import Syntax Sem Equiv Induction Wf PartialEvalSound.
From Unify Require Import Inline Alpha Elim Validate ProofsBase ProofsAlpha.
Import ListNotations.

Definition flipm (m : bmap) : bmap :=
  map (fun pq => match pq with (p, Some q) => (q, Some p) | (p, None) => (p, None) end) m.

Definition allsome (m : bmap) : bool :=
  forallb (fun pq => match snd pq with Some _ => true | None => false end) m.

Lemma vmatch_flip : forall m y y', allsome m = true -> vmatch (flipm m) y' y = vmatch m y y'.
Proof.
  induction m as [|[p [q|]] r IH]; intros y y' Ha; cbn [flipm map vmatch allsome forallb snd] in *.
  - apply Pos.eqb_sym.
  - fold (flipm r). destruct (Pos.eqb y p), (Pos.eqb y' q); try reflexivity. apply IH, Ha.
  - discriminate Ha.
Qed.

Lemma all2_sym : forall A B (f : A -> B -> bool) (g : B -> A -> bool) l,
  Forall (fun a => forall b, g b a = f a b) l -> forall l', all2 g l' l = all2 f l l'.
Proof.
  intros A B f g l H. induction H as [|a r Ha Hr IH]; intros [|b r']; cbn [all2]; try reflexivity.
  rewrite Ha, IH. reflexivity.
Qed.

Lemma binop_eqb_sym : forall a b, binop_eqb a b = binop_eqb b a.
Proof. intros [] []; reflexivity. Qed.
Lemma extfn_eqb_sym : forall a b, extfn_eqb a b = extfn_eqb b a.
Proof. intros [] []; reflexivity. Qed.
Lemma qc_eqb_sym : forall a b, qc_eqb a b = qc_eqb b a.
Proof. intros a b. unfold qc_eqb. destruct (Qc_eq_dec a b), (Qc_eq_dec b a); congruence. Qed.
Lemma bool_eqb_sym : forall a b, Bool.eqb a b = Bool.eqb b a.
Proof. intros [] []; reflexivity. Qed.

Section Sym.
  Variable m : bmap.
  Hypothesis Hm : allsome m = true.

  Theorem aeq_e_sym : forall e e', aeq_e (flipm m) e' e = aeq_e m e e'.
  Proof.
    induction e using expr_ind2; intros e'; destruct e'; cbn [aeq_e]; try reflexivity.
    - apply vmatch_flip, Hm.
    - apply Z.eqb_sym.
    - apply bool_eqb_sym.
    - apply qc_eqb_sym.
    - rewrite (vmatch_flip m x x0 Hm). f_equal. apply all2_sym. exact H.
    - apply IHe.
    - rewrite (binop_eqb_sym op0 op), IHe1, IHe2. reflexivity.
    - rewrite (extfn_eqb_sym f0 f). f_equal. apply all2_sym. exact H.
    - rewrite (vmatch_flip m x x0 Hm). f_equal. apply all2_sym.
      eapply Forall_impl; [|exact H]. intros [a|a b] Hw [a'|a' b']; cbn [PW] in Hw; try reflexivity.
      + apply Hw.
      + destruct Hw as [Ha Hb]. rewrite Ha, Hb. reflexivity.
    - rewrite (vmatch_flip m x x0 Hm), Nat.eqb_sym. reflexivity.
    - apply Pos.eqb_sym.
  Qed.

  Lemma aeq_i_strict : forall m0 e e', aeq_i true m0 e e' = aeq_e m0 e e'.
  Proof. intros. unfold aeq_i. cbn [negb andb]. apply orb_false_r. Qed.

  Theorem aeq_x_sym : forall e e', aeq_x true (flipm m) e' e = aeq_x true m e e'.
  Proof.
    induction e using expr_ind2; intros e'; destruct e'; cbn [aeq_x aeq_e]; try reflexivity;
      try (apply aeq_e_sym; fail).
    - apply vmatch_flip, Hm.
    - apply Z.eqb_sym.
    - apply bool_eqb_sym.
    - apply qc_eqb_sym.
    - rewrite (vmatch_flip m x x0 Hm). f_equal. apply all2_sym. apply Forall_forall. intros a _ b.
      rewrite !aeq_i_strict. apply aeq_e_sym.
    - apply IHe.
    - rewrite (binop_eqb_sym op0 op). destruct (binop_eqb op op0) eqn:Eo; [|reflexivity]. cbn [andb].
      assert (op = op0) as -> by (destruct op, op0; cbn in Eo; try discriminate; reflexivity).
      destruct (int_operands op0); [rewrite !aeq_i_strict, !aeq_e_sym|rewrite IHe1, IHe2]; reflexivity.
    - rewrite (extfn_eqb_sym f0 f). f_equal. apply all2_sym. exact H.
    - rewrite (vmatch_flip m x x0 Hm). f_equal. apply all2_sym. apply Forall_forall.
      intros [a|a b] _ [a'|a' b']; try reflexivity; rewrite !aeq_i_strict, !aeq_e_sym; reflexivity.
    - rewrite (vmatch_flip m x x0 Hm), Nat.eqb_sym. reflexivity.
    - apply Pos.eqb_sym.
  Qed.
End Sym.

Lemma allsome_cons : forall m x y, allsome m = true -> allsome ((x, Some y) :: m) = true.
Proof. intros. cbn. assumption. Qed.

Definition ssym (s : stmt) : Prop :=
  forall s' m m', allsome m = true -> aeq_s true m s s' = Some m' ->
  aeq_s true (flipm m) s' s = Some (flipm m') /\ allsome m' = true.

Lemma aeq_ss_strict_cons : forall m s r l',
  aeq_ss true m (s :: r) l' =
  match l' with
  | s' :: r' => match aeq_s true m s s' with Some m1 => aeq_ss true m1 r r' | None => None end
  | [] => None
  end.
Proof.
  intros. cbn [aeq_ss]. destruct l' as [|s' r'].
  - destruct s; reflexivity.
  - destruct (aeq_s true m s s'); [reflexivity|]. destruct s; reflexivity.
Qed.

Lemma aeq_ss_sym_aux : forall l, Forall ssym l -> forall l' m m', allsome m = true ->
  aeq_ss true m l l' = Some m' -> aeq_ss true (flipm m) l' l = Some (flipm m') /\ allsome m' = true.
Proof.
  intros l H. induction H as [|s r Hs Hr IH]; intros l' m m' Hm Ha.
  - cbn in Ha. destruct l'; [|discriminate]. inversion Ha; subst. cbn. auto.
  - rewrite aeq_ss_strict_cons in Ha. destruct l' as [|s' r']; [discriminate|].
    destruct (aeq_s true m s s') as [m1|] eqn:E1; [|discriminate].
    destruct (Hs _ _ _ Hm E1) as [H1 Hm1]. destruct (IH _ _ _ Hm1 Ha) as [H2 Hm2].
    rewrite aeq_ss_strict_cons, H1. auto.
Qed.

Theorem aeq_s_sym : forall s, ssym s.
Proof.
  induction s using stmt_ind2; unfold ssym; intros s' m m' Hm Ha; destruct s'; try (cbn [aeq_s] in Ha; discriminate).
  - cbn [aeq_s] in *. rewrite (vmatch_flip m x x0 Hm), (aeq_x_sym m Hm rhs rhs0).
    rewrite (all2_sym _ _ (aeq_i true m) (aeq_i true (flipm m)) idx)
      by (apply Forall_forall; intros a _ b; rewrite !aeq_i_strict; apply aeq_e_sym, Hm).
    destruct (vmatch m x x0 && all2 (aeq_i true m) idx idx0 && aeq_x true m rhs rhs0); [|discriminate].
    inversion Ha; subst. auto.
  - cbn [aeq_s] in *. rewrite (vmatch_flip m x x0 Hm), (aeq_x_sym m Hm rhs rhs0).
    rewrite (all2_sym _ _ (aeq_i true m) (aeq_i true (flipm m)) idx)
      by (apply Forall_forall; intros a _ b; rewrite !aeq_i_strict; apply aeq_e_sym, Hm).
    destruct (vmatch m x x0 && all2 (aeq_i true m) idx idx0 && aeq_x true m rhs rhs0); [|discriminate].
    inversion Ha; subst. auto.
  - cbn [aeq_s] in *. rewrite (Pos.eqb_sym c0 c), (aeq_x_sym m Hm rhs rhs0).
    destruct (Pos.eqb c c0 && aeq_x true m rhs rhs0); [|discriminate]. inversion Ha; subst. auto.
  - cbn in *. inversion Ha; subst. auto.
  - rewrite aeq_s_If in *. rewrite (aeq_x_sym m Hm c c0). destruct (aeq_x true m c c0); [|discriminate].
    destruct (aeq_ss true m a body) as [ma|] eqn:Ea; [|discriminate].
    destruct (aeq_ss true m b orelse) as [mb|] eqn:Eb; [|discriminate]. inversion Ha; subst m'.
    destruct (aeq_ss_sym_aux a H _ _ _ Hm Ea) as [H1 _]. destruct (aeq_ss_sym_aux b H0 _ _ _ Hm Eb) as [H2 _].
    rewrite H1, H2. auto.
  - rewrite aeq_s_For in *. rewrite !aeq_i_strict in *. rewrite !(aeq_e_sym m Hm).
    destruct (aeq_e m lo lo0 && aeq_e m hi hi0); [|discriminate].
    destruct (aeq_ss true ((i, Some i0) :: m) a body) as [mb|] eqn:Eb; [|discriminate]. inversion Ha; subst m'.
    destruct (aeq_ss_sym_aux a H _ _ _ (allsome_cons m i i0 Hm) Eb) as [H1 _].
    cbn [flipm map] in H1. fold (flipm m) in H1. rewrite H1. auto.
  - cbn [aeq_s] in *.
    rewrite (all2_sym _ _ (aeq_i true m) (aeq_i true (flipm m)) shape)
      by (apply Forall_forall; intros a _ b; rewrite !aeq_i_strict; apply aeq_e_sym, Hm).
    destruct (all2 (aeq_i true m) shape shape0); [|discriminate]. inversion Ha; subst. cbn. auto.
  - cbn [aeq_s] in *. rewrite (aeq_x_sym m Hm rhs rhs0). destruct (aeq_x true m rhs rhs0); [|discriminate].
    inversion Ha; subst. cbn. auto.
Qed.

Theorem aeq_ss_sym : forall l l' m m', allsome m = true ->
  aeq_ss true m l l' = Some m' -> aeq_ss true (flipm m) l' l = Some (flipm m').
Proof.
  intros l l' m m' Hm Ha. eapply aeq_ss_sym_aux; eauto. apply Forall_forall. intros s _. apply aeq_s_sym.
Qed.
