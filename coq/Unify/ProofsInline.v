(** * Correctness of [inline_call]: the body of the callee run in the callee's environment and the
    substituted body run in the caller's environment (extended by the window statements) simulate each
    other step by step. *)
From Coq Require Import ZArith List Bool Lia.
From Core Require Import Syntax Sem Equiv Induction Wf PartialEvalSound.
From Unify Require Import Inline Alpha Elim Validate ProofsBase.
Import ListNotations.
Local Open Scope Z_scope.

(** ** the body, under an abstract description of the two initial environments *)
Section Body.
  Variable sg : subst.
  Variable av : list sym.          (* names no binder of the body may take *)
  Variable envc0 envi0 : env.      (* callee environment (formals) / caller environment + window bindings *)

  (** an actual expression keeps its value while the body runs *)
  Definition stable (a : expr) (v : value) : Prop :=
    forall st loc, s_env st = loc ++ envi0 -> (forall y, In y (dom loc) -> ~ In y av) -> eval st a = Ok v.

  Hypothesis H_ctl : forall x v, lookup x envc0 = Some (BVal v) ->
    exists a, lookup x sg = Some (SExpr a) /\ stable a v.
  Hypothesis H_buf : forall x w, lookup x envc0 = Some (BView w) ->
    lookup (ren sg x) envi0 = Some (BView w) /\ In (ren sg x) av.
  Hypothesis H_dom : forall x, lookup x sg <> None -> In x av.
  Hypothesis H_sexpr : forall x a, lookup x sg = Some (SExpr a) -> ctrl a = true.

  Definition Sc (cs bs : list sym) (e : env) : Prop :=
    (forall y, mem y cs = true -> exists v, lookup y e = Some (BVal v)) /\
    (forall y, mem y bs = true -> exists w, lookup y e = Some (BView w)).

  Definition Rel (cs bs : list sym) (stc sti : state) : Prop :=
    same_mem stc sti /\
    exists loc, s_env stc = loc ++ envc0 /\ s_env sti = loc ++ envi0 /\
                (forall y, In y (dom loc) -> ~ In y av) /\ Sc cs bs (s_env stc).

  Lemma local_unsubst : forall y, ~ In y av -> lookup y sg = None.
  Proof. intros y H. destruct (lookup y sg) eqn:E; [|reflexivity]. exfalso. apply H, H_dom. congruence. Qed.

  Lemma rel_val : forall cs bs stc sti y v, Rel cs bs stc sti ->
    lookup y (s_env stc) = Some (BVal v) -> eval sti (subst_e sg (Var y)) = Ok v.
  Proof.
    intros cs bs stc sti y v (Hm & loc & Hc & Hi & Hloc & Hsc) Hl.
    rewrite Hc, lookup_app in Hl. destruct (lookup y loc) eqn:El.
    - inversion Hl; subst. pose proof (lookup_some_dom _ _ _ _ El) as Hd.
      cbn [subst_e]. rewrite (local_unsubst y (Hloc y Hd)). cbn [eval]. rewrite Hi, lookup_app, El. reflexivity.
    - destruct (H_ctl y v Hl) as (a & Ha & Hst). cbn [subst_e]. rewrite Ha. eapply Hst; eauto.
  Qed.

  Lemma rel_view : forall cs bs stc sti y w, Rel cs bs stc sti ->
    lookup y (s_env stc) = Some (BView w) -> lookup (ren sg y) (s_env sti) = Some (BView w).
  Proof.
    intros cs bs stc sti y w (Hm & loc & Hc & Hi & Hloc & Hsc) Hl.
    rewrite Hc, lookup_app in Hl. rewrite Hi, lookup_app. destruct (lookup y loc) eqn:El.
    - inversion Hl; subst. pose proof (lookup_some_dom _ _ _ _ El) as Hd.
      unfold ren. rewrite (local_unsubst y (Hloc y Hd)), El. reflexivity.
    - destruct (H_buf y w Hl) as [Hz Hav]. rewrite lookup_notin; [exact Hz|].
      intro Hd. exact (Hloc _ Hd Hav).
  Qed.

  Lemma get_view_sim : forall cs bs stc sti y, Rel cs bs stc sti -> mem y bs = true ->
    rsim eq (get_view stc y) (get_view sti (ren sg y)).
  Proof.
    intros cs bs stc sti y HR Hy. pose proof HR as (_ & _ & _ & _ & _ & _ & Hb).
    destruct (Hb y Hy) as [w Hw]. unfold get_view. rewrite Hw, (rel_view _ _ _ _ _ _ HR Hw). cbn. reflexivity.
  Qed.

  Definition esim (cs bs : list sym) (stc sti : state) (e : expr) : Prop :=
    tc_e cs bs e = true -> rsim eq (eval stc e) (eval sti (subst_e sg e)).

  Lemma eval_ints_sim : forall cs bs stc sti l, Forall (esim cs bs stc sti) l -> forallb (tc_e cs bs) l = true ->
    rsim eq (eval_ints stc l) (eval_ints sti (map (subst_e sg) l)).
  Proof.
    intros cs bs stc sti l H. induction H as [|a r Ha Hr IH]; intro Ht; [cbn; reflexivity|].
    cbn [forallb] in Ht. apply andb_true_iff in Ht as [H1 H2]. cbn [map eval_ints].
    eapply rsim_eq_bind; [exact (Ha H1)|]. intro v. destruct (as_int v); cbn [bind]; [|exact I].
    eapply rsim_eq_bind; [exact (IH H2)|]. intro zs. cbn. reflexivity.
  Qed.

  Lemma eval_vals_sim : forall cs bs stc sti l, Forall (esim cs bs stc sti) l -> forallb (tc_e cs bs) l = true ->
    rsim eq (eval_vals stc l) (eval_vals sti (map (subst_e sg) l)).
  Proof.
    intros cs bs stc sti l H. induction H as [|a r Ha Hr IH]; intro Ht; [cbn; reflexivity|].
    cbn [forallb] in Ht. apply andb_true_iff in Ht as [H1 H2]. cbn [map eval_vals].
    eapply rsim_eq_bind; [exact (Ha H1)|]. intro v.
    eapply rsim_eq_bind; [exact (IH H2)|]. intro zs. cbn. reflexivity.
  Qed.

  Lemma eval_waccs_sim : forall cs bs stc sti l, Forall (PW (esim cs bs stc sti)) l -> forallb (tc_w cs bs) l = true ->
    rsim eq (eval_waccs stc l) (eval_waccs sti (map (subst_w sg) l)).
  Proof.
    intros cs bs stc sti l H. induction H as [|w r Hw Hr IH]; intro Ht; [cbn; reflexivity|].
    cbn [forallb] in Ht. apply andb_true_iff in Ht as [H1 H2].
    destruct w as [a|a b]; cbn [map subst_w eval_waccs PW tc_w] in *.
    - eapply rsim_eq_bind; [exact (Hw H1)|]. intro v. destruct (as_int v); cbn [bind]; [|exact I].
      eapply rsim_eq_bind; [exact (IH H2)|]. intro rs. cbn. reflexivity.
    - destruct Hw as [Ha Hb]. apply andb_true_iff in H1 as [H1a H1b].
      eapply rsim_eq_bind; [exact (Ha H1a)|]. intro v. destruct (as_int v); cbn [bind]; [|exact I].
      eapply rsim_eq_bind; [exact (Hb H1b)|]. intro v'. destruct (as_int v'); cbn [bind]; [|exact I].
      eapply rsim_eq_bind; [exact (IH H2)|]. intro rs. cbn. reflexivity.
  Qed.

  Lemma subst_w_map : forall acc,
    map (fun w => match w with
                  | Point a => Point (subst_e sg a)
                  | Interval a b => Interval (subst_e sg a) (subst_e sg b)
                  end) acc = map (subst_w sg) acc.
  Proof. intro acc. apply map_ext. intros [a|a b]; reflexivity. Qed.

  Lemma tc_w_forallb : forall cs bs acc,
    forallb (fun w => match w with
                      | Point a => tc_e cs bs a
                      | Interval a b => tc_e cs bs a && tc_e cs bs b
                      end) acc = forallb (tc_w cs bs) acc.
  Proof. intros cs bs acc. induction acc as [|[a|a b] r IH]; cbn [forallb tc_w]; [reflexivity| |]; rewrite IH; reflexivity. Qed.

  Theorem eval_sim : forall cs bs stc sti e, Rel cs bs stc sti -> esim cs bs stc sti e.
  Proof.
    intros cs bs stc sti e HR. unfold esim. induction e using expr_ind2; intro Ht; cbn [tc_e] in Ht.
    - (* Var *) pose proof HR as (_ & _ & _ & _ & _ & Hc & _). destruct (Hc x Ht) as [v Hv].
      rewrite (rel_val _ _ _ _ _ _ HR Hv). cbn [eval]. rewrite Hv. cbn. reflexivity.
    - cbn. reflexivity.
    - cbn. reflexivity.
    - cbn. reflexivity.
    - (* Read *) apply andb_true_iff in Ht as [Hx Hidx]. cbn [subst_e]. rewrite !eval_Read.
      eapply rsim_eq_bind; [eapply get_view_sim; eauto|]. intro w.
      eapply rsim_eq_bind; [apply (eval_ints_sim cs bs); assumption|]. intro is.
      destruct HR as ((Hh & _) & _). rewrite Hh. apply rsim_refl.
    - (* USub *) cbn [subst_e eval]. eapply rsim_eq_bind; [exact (IHe Ht)|]. intro v. apply rsim_refl.
    - (* BinOp *) apply andb_true_iff in Ht as [H1 H2]. cbn [subst_e eval].
      eapply rsim_eq_bind; [exact (IHe1 H1)|]. intro v1.
      eapply rsim_eq_bind; [exact (IHe2 H2)|]. intro v2. apply rsim_refl.
    - (* Extern *) cbn [subst_e]. rewrite !eval_Extern.
      eapply rsim_eq_bind; [apply (eval_vals_sim cs bs); assumption|]. intro vs. apply rsim_refl.
    - (* WindowE *) cbn [subst_e eval]. exact I.
    - (* Stride *) cbn [subst_e eval].
      eapply rsim_eq_bind; [eapply get_view_sim; eauto|]. intro w. apply rsim_refl.
    - (* ReadCfg *) cbn [subst_e eval]. destruct HR as ((_ & _ & Hc) & _). rewrite Hc. apply rsim_refl.
  Qed.

  Lemma eval_ints_sim' : forall cs bs stc sti l, Rel cs bs stc sti -> forallb (tc_e cs bs) l = true ->
    rsim eq (eval_ints stc l) (eval_ints sti (map (subst_e sg) l)).
  Proof.
    intros. apply (eval_ints_sim cs bs); [|assumption]. apply Forall_forall. intros e _. apply eval_sim; assumption.
  Qed.

  Lemma ctrl_no_view : forall st a, ctrl a = true -> eval_view st a = Err TypeErr.
  Proof. intros st a H. destruct a; cbn in H; try discriminate; reflexivity. Qed.

  Lemma eval_view_sim : forall cs bs stc sti e, Rel cs bs stc sti -> tc_e cs bs e = true ->
    rsim eq (eval_view stc e) (eval_view sti (subst_e sg e)).
  Proof.
    intros cs bs stc sti e HR Ht. destruct e; try (cbn; exact I).
    - (* Var *) cbn [subst_e]. destruct (lookup x sg) as [[a|z]|] eqn:E; try (cbn; exact I).
      rewrite (ctrl_no_view sti a (H_sexpr _ _ E)). cbn. exact I.
    - (* Read *) cbn [tc_e] in Ht. apply andb_true_iff in Ht as [Hx Hidx]. cbn [subst_e]. destruct idx as [|a r].
      + cbn [map eval_view]. eapply get_view_sim; eauto.
      + cbn [map eval_view]. change (subst_e sg a :: map (subst_e sg) r) with (map (subst_e sg) (a :: r)).
        eapply rsim_eq_bind; [eapply get_view_sim; eauto|]. intro w.
        eapply rsim_eq_bind; [apply (eval_ints_sim' cs bs); assumption|]. intro is. apply rsim_refl.
    - (* WindowE *) cbn [tc_e] in Ht. apply andb_true_iff in Ht as [Hx Hacc]. rewrite tc_w_forallb in Hacc.
      cbn [subst_e]. rewrite subst_w_map. cbn [eval_view].
      eapply rsim_eq_bind; [eapply get_view_sim; eauto|]. intro w.
      eapply rsim_eq_bind; [apply (eval_waccs_sim cs bs); [|assumption]|].
      { apply Forall_forall. intros wa _. destruct wa; cbn [PW]; [|split]; apply eval_sim; assumption. }
      intro av0. apply rsim_refl.
  Qed.

  (** ** statements *)
  Lemma tc_go : forall l cs bs,
    (fix go (cs bs : list sym) (l : list stmt) {struct l} : option (list sym * list sym) :=
       match l with
       | [] => Some (cs, bs)
       | s' :: r => match tc_s av cs bs s' with Some (cs', bs') => go cs' bs' r | None => None end
       end) cs bs l = tc_ss av cs bs l.
  Proof.
    induction l as [|s r IH]; intros cs bs; [reflexivity|]. cbn [tc_ss].
    destruct (tc_s av cs bs s) as [[cs' bs']|]; [apply IH|reflexivity].
  Qed.

  Lemma tc_s_If : forall cs bs c a b,
    tc_s av cs bs (If c a b) =
    if tc_e cs bs c then
      match tc_ss av cs bs a, tc_ss av cs bs b with Some _, Some _ => Some (cs, bs) | _, _ => None end
    else None.
  Proof. intros. cbn [tc_s]. rewrite !tc_go. reflexivity. Qed.

  Lemma tc_s_For : forall cs bs i lo hi body par,
    tc_s av cs bs (For i lo hi body par) =
    if tc_e cs bs lo && tc_e cs bs hi && fresh_b av cs bs i then
      match tc_ss av (i :: cs) bs body with Some _ => Some (cs, bs) | None => None end
    else None.
  Proof. intros. cbn [tc_s]. rewrite tc_go. reflexivity. Qed.

  Lemma Rel_mem : forall cs bs stc sti, Rel cs bs stc sti -> same_mem stc sti.
  Proof. intros cs bs stc sti H. apply H. Qed.

  (** leaving a scope: the environments of before, the memory of after *)
  Lemma Rel_restore : forall cs bs stc sti stc' sti',
    Rel cs bs stc sti -> same_mem stc' sti' ->
    Rel cs bs (with_env (s_env stc) stc') (with_env (s_env sti) sti').
  Proof.
    intros cs bs stc sti stc' sti' (Hm & loc & Hc & Hi & Hloc & Hsc) Hm'.
    split; [apply same_mem_with_env, Hm'|]. exists loc. cbn [with_env s_env]. auto.
  Qed.

  Lemma Rel_heap : forall cs bs stc sti h, Rel cs bs stc sti -> Rel cs bs (with_heap h stc) (with_heap h sti).
  Proof.
    intros cs bs stc sti h ((H1 & H2 & H3) & loc & Hc & Hi & Hloc & Hsc).
    split; [repeat split; assumption|]. exists loc. cbn [with_heap s_env]. auto.
  Qed.

  Lemma fresh_b_spec : forall cs bs x, fresh_b av cs bs x = true -> ~ In x av /\ mem x cs = false /\ mem x bs = false.
  Proof.
    unfold fresh_b. intros cs bs x H. apply andb_true_iff in H as [H H3]. apply andb_true_iff in H as [H1 H2].
    split; [apply negb_mem_notin, H1|]. split; apply negb_true_iff; assumption.
  Qed.

  (** entering a binder on both sides *)
  Lemma Rel_bind_val : forall cs bs stc sti x v, Rel cs bs stc sti -> fresh_b av cs bs x = true ->
    Rel (x :: cs) bs (bind_var x (BVal v) stc) (bind_var x (BVal v) sti).
  Proof.
    intros cs bs stc sti x v (Hm & loc & Hc & Hi & Hloc & Hcs & Hbs) Hf.
    apply fresh_b_spec in Hf as (Hav & Hxc & Hxb).
    split; [exact Hm|]. exists ((x, BVal v) :: loc). cbn [bind_var s_env]. rewrite Hc, Hi.
    split; [reflexivity|]. split; [reflexivity|]. split.
    - intros y [<-|Hy]; [exact Hav|apply Hloc, Hy].
    - split; intros y Hy; cbn [mem] in *; cbn [lookup].
      + destruct (Pos.eqb y x) eqn:E; [eauto|]. cbn [orb] in Hy. rewrite <- Hc. apply Hcs, Hy.
      + destruct (Pos.eqb y x) eqn:E; [apply Pos.eqb_eq in E; subst; congruence|]. rewrite <- Hc. apply Hbs, Hy.
  Qed.

  Lemma Rel_bind_view : forall cs bs stc sti x w, Rel cs bs stc sti -> fresh_b av cs bs x = true ->
    Rel cs (x :: bs) (bind_var x (BView w) stc) (bind_var x (BView w) sti).
  Proof.
    intros cs bs stc sti x w (Hm & loc & Hc & Hi & Hloc & Hcs & Hbs) Hf.
    apply fresh_b_spec in Hf as (Hav & Hxc & Hxb).
    split; [exact Hm|]. exists ((x, BView w) :: loc). cbn [bind_var s_env]. rewrite Hc, Hi.
    split; [reflexivity|]. split; [reflexivity|]. split.
    - intros y [<-|Hy]; [exact Hav|apply Hloc, Hy].
    - split; intros y Hy; cbn [mem] in *; cbn [lookup].
      + destruct (Pos.eqb y x) eqn:E; [apply Pos.eqb_eq in E; subst; congruence|]. rewrite <- Hc. apply Hcs, Hy.
      + destruct (Pos.eqb y x) eqn:E; [eauto|]. cbn [orb] in Hy. rewrite <- Hc. apply Hbs, Hy.
  Qed.

  Definition ssim (s : stmt) : Prop :=
    forall cs bs cs' bs' stc sti, tc_s av cs bs s = Some (cs', bs') -> Rel cs bs stc sti ->
    rsim (Rel cs' bs') (exec s stc) (exec (subst_s sg s) sti).

  Lemma exec_list_sim : forall l, Forall ssim l ->
    forall cs bs cs' bs' stc sti, tc_ss av cs bs l = Some (cs', bs') -> Rel cs bs stc sti ->
    rsim (Rel cs' bs') (exec_list l stc) (exec_list (map (subst_s sg) l) sti).
  Proof.
    intros l H. induction H as [|s r Hs Hr IH]; intros cs bs cs' bs' stc sti Ht HR.
    - cbn in Ht. inversion Ht; subst. cbn. exact HR.
    - cbn [tc_ss] in Ht. destruct (tc_s av cs bs s) as [[cs1 bs1]|] eqn:E1; [|discriminate].
      cbn [map exec_list]. eapply rsim_bind; [eapply Hs; eauto|]. intros st1 st2 HR1. eapply IH; eauto.
  Qed.

  Lemma scoped_sim : forall l cs bs cs' bs' stc sti, Forall ssim l ->
    tc_ss av cs bs l = Some (cs', bs') -> Rel cs bs stc sti ->
    rsim (Rel cs bs) (scoped l stc) (scoped (map (subst_s sg) l) sti).
  Proof.
    intros l cs bs cs' bs' stc sti Hl Ht HR. unfold scoped.
    eapply rsim_bind; [eapply exec_list_sim; eauto|]. intros st1 st2 HR1. cbn. eapply Rel_restore; [eauto|apply (Rel_mem _ _ _ _ HR1)].
  Qed.

  Lemma iter_loop_sim : forall cs bs f g,
    (forall k stc sti, Rel cs bs stc sti -> rsim (Rel cs bs) (f k stc) (g k sti)) ->
    forall n k stc sti, Rel cs bs stc sti -> rsim (Rel cs bs) (iter_loop n k f stc) (iter_loop n k g sti).
  Proof.
    intros cs bs f g H. induction n as [|n IH]; intros k stc sti HR; cbn [iter_loop]; [exact HR|].
    eapply rsim_bind; [apply H, HR|]. intros st1 st2 HR1. apply IH, HR1.
  Qed.

  Lemma eval_actuals_sim : forall cs bs stc sti, Rel cs bs stc sti ->
    forall formals args, forallb (tc_e cs bs) args = true ->
    rsim eq (eval_actuals stc formals args) (eval_actuals sti formals (map (subst_e sg) args)).
  Proof.
    intros cs bs stc sti HR. induction formals as [|[y k] fr IH]; intros args Ht; destruct args as [|e er];
      cbn [map eval_actuals]; try exact I; [reflexivity|].
    cbn [forallb] in Ht. apply andb_true_iff in Ht as [H1 H2].
    assert (Ha : rsim eq (eval_actual stc k e) (eval_actual sti k (subst_e sg e))).
    { destruct k; cbn [eval_actual];
        try (eapply rsim_eq_bind; [apply (eval_sim cs bs); assumption|]; intro v; apply rsim_refl);
        (eapply rsim_eq_bind; [apply (eval_view_sim cs bs); assumption|]; intro w; apply rsim_refl). }
    eapply rsim_eq_bind; [exact Ha|]. intro b.
    eapply rsim_eq_bind; [apply IH, H2|]. intro bs0. apply rsim_refl.
  Qed.

  Theorem exec_sim : forall s, ssim s.
  Proof.
    induction s using stmt_ind2; unfold ssim; intros cs bs cs' bs' stc sti Ht HR.
    - (* Assign *) cbn [tc_s] in Ht. destruct (mem x bs && forallb (tc_e cs bs) idx && tc_e cs bs rhs) eqn:E; [|discriminate].
      inversion Ht; subst cs' bs'. apply andb_true_iff in E as [E E3]. apply andb_true_iff in E as [E1 E2].
      cbn [subst_s exec].
      eapply rsim_eq_bind; [eapply get_view_sim; eauto|]. intro w.
      eapply rsim_eq_bind; [apply (eval_ints_sim' cs bs); assumption|]. intro is.
      eapply rsim_eq_bind; [apply (eval_sim cs bs); assumption|]. intro v.
      destruct (as_data v); cbn [bind]; [|exact I].
      pose proof (Rel_mem _ _ _ _ HR) as (Hh & _). rewrite Hh.
      destruct (cell_write _ _ _ _); cbn [bind]; [|exact I]. apply Rel_heap, HR.
    - (* Reduce *) cbn [tc_s] in Ht. destruct (mem x bs && forallb (tc_e cs bs) idx && tc_e cs bs rhs) eqn:E; [|discriminate].
      inversion Ht; subst cs' bs'. apply andb_true_iff in E as [E E3]. apply andb_true_iff in E as [E1 E2].
      cbn [subst_s exec].
      eapply rsim_eq_bind; [eapply get_view_sim; eauto|]. intro w.
      eapply rsim_eq_bind; [apply (eval_ints_sim' cs bs); assumption|]. intro is.
      eapply rsim_eq_bind; [apply (eval_sim cs bs); assumption|]. intro v.
      destruct (as_data v); cbn [bind]; [|exact I].
      pose proof (Rel_mem _ _ _ _ HR) as (Hh & _). rewrite Hh.
      destruct (cell_read _ _ _); cbn [bind]; [|exact I].
      destruct (cell_write _ _ _ _); cbn [bind]; [|exact I]. apply Rel_heap, HR.
    - (* WriteCfg *) cbn [tc_s] in Ht. destruct (tc_e cs bs rhs) eqn:E; [|discriminate]. inversion Ht; subst cs' bs'.
      cbn [subst_s exec].
      eapply rsim_eq_bind; [apply (eval_sim cs bs); assumption|]. intro v. cbn.
      destruct HR as ((H1 & H2 & H3) & loc & Hc & Hi & Hloc & Hsc).
      split; [repeat split; cbn; congruence|]. exists loc. cbn. auto.
    - (* Pass *) cbn in Ht. inversion Ht; subst. cbn. exact HR.
    - (* If *) rewrite tc_s_If in Ht. destruct (tc_e cs bs c) eqn:Ec; [|discriminate].
      destruct (tc_ss av cs bs a) as [[csa bsa]|] eqn:Ea; [|discriminate].
      destruct (tc_ss av cs bs b) as [[csb bsb]|] eqn:Eb; [|discriminate]. inversion Ht; subst cs' bs'.
      cbn [subst_s]. rewrite !exec_If.
      eapply rsim_eq_bind; [apply (eval_sim cs bs); assumption|]. intro v.
      destruct (as_bool v) as [[]|]; cbn [bind]; [| |exact I]; eapply scoped_sim; eauto.
    - (* For *) rewrite tc_s_For in Ht.
      destruct (tc_e cs bs lo && tc_e cs bs hi && fresh_b av cs bs i) eqn:E; [|discriminate].
      destruct (tc_ss av (i :: cs) bs a) as [[csa bsa]|] eqn:Ea; [|discriminate]. inversion Ht; subst cs' bs'.
      apply andb_true_iff in E as [E Ef]. apply andb_true_iff in E as [El Eh].
      cbn [subst_s]. rewrite !exec_For.
      eapply rsim_eq_bind; [apply (eval_sim cs bs); assumption|]. intro vl. destruct (as_int vl) as [l|]; cbn [bind]; [|exact I].
      eapply rsim_eq_bind; [apply (eval_sim cs bs); assumption|]. intro vh. destruct (as_int vh) as [h|]; cbn [bind]; [|exact I].
      destruct (h <? l); [exact I|].
      apply iter_loop_sim; [|exact HR]. intros k st0 st0' HR0. unfold loop_body.
      eapply rsim_bind; [eapply exec_list_sim; [exact H|exact Ea|apply Rel_bind_val; assumption]|].
      intros st1 st2 HR1. cbn. eapply Rel_restore; [eauto|apply (Rel_mem _ _ _ _ HR1)].
    - (* Alloc *) cbn [tc_s] in Ht. destruct (forallb (tc_e cs bs) shape && fresh_b av cs bs x) eqn:E; [|discriminate].
      inversion Ht; subst cs' bs'. apply andb_true_iff in E as [E1 E2]. cbn [subst_s exec].
      eapply rsim_eq_bind; [apply (eval_ints_sim' cs bs); assumption|]. intro sh.
      destruct (all_pos sh); [|exact I]. unfold alloc_block.
      pose proof (Rel_mem _ _ _ _ HR) as (Hh & Hn & Hcf). rewrite Hh, Hn, Hcf. cbn [rsim].
      match goal with |- Rel _ _ (bind_var _ ?b ?s1) (bind_var _ _ ?s2) =>
        assert (HR' : Rel cs bs s1 s2) end.
      { destruct HR as (_ & loc & Hc & Hi & Hloc & Hsc). split; [repeat split|]. exists loc. cbn. auto. }
      apply Rel_bind_view; assumption.
    - (* Call *) destruct f as [formals preds body]. cbn [tc_s] in Ht.
      destruct (forallb (tc_e cs bs) args) eqn:E; [|discriminate]. inversion Ht; subst cs' bs'.
      cbn [subst_s]. rewrite !exec_Call.
      eapply rsim_eq_bind; [eapply eval_actuals_sim; eauto|]. intro acts.
      replace (with_env [] sti) with (with_env [] stc).
      2:{ apply same_mem_eq_env; [apply same_mem_with_env, (Rel_mem _ _ _ _ HR)|reflexivity]. }
      destruct (bind_args formals acts (with_env [] stc)) as [callee|]; cbn [bind]; [|exact I].
      destruct (check_preds callee preds); cbn [bind]; [|exact I].
      destruct (exec_list body callee) as [st'|]; cbn [bind]; [|exact I].
      cbn. eapply Rel_restore; [exact HR|apply same_mem_refl].
    - (* WindowS *) cbn [tc_s] in Ht. destruct (tc_e cs bs rhs && fresh_b av cs bs x) eqn:E; [|discriminate].
      inversion Ht; subst cs' bs'. apply andb_true_iff in E as [E1 E2]. cbn [subst_s exec].
      eapply rsim_eq_bind; [apply (eval_view_sim cs bs); assumption|]. intro w. cbn.
      apply Rel_bind_view; assumption.
  Qed.

  Theorem body_sim : forall body cs bs cs' bs' stc sti,
    tc_ss av cs bs body = Some (cs', bs') -> Rel cs bs stc sti ->
    rsim (Rel cs' bs') (exec_list body stc) (exec_list (map (subst_s sg) body) sti).
  Proof.
    intros. eapply exec_list_sim; eauto. apply Forall_forall. intros s _. apply exec_sim.
  Qed.
End Body.
