#!/bin/bash
# Build the extracted OCaml driver of the C05 models into coq/Unify/_build/c05_driver.
set -e
here="$(cd "$(dirname "$0")" && pwd)"
cd "$here"
mkdir -p "$here/_build"
cd "$here/_build"
fresh=1
for f in Inline.v Alpha.v Elim.v Validate.v Extract.v driver.ml extract.sh; do
  if [ -f "$here/$f" ]; then
    if [ ! -x c05_driver ] || [ "$here/$f" -nt c05_driver ]; then fresh=0; fi
  fi
done
if [ $fresh = 1 ]; then echo "up to date $(pwd)/c05_driver"; exit 0; fi
for f in Inline Alpha Elim Validate; do
  if [ -f "$here/$f.v" ]; then
    if [ ! -f "$here/$f.vo" ] || [ "$here/$f.v" -nt "$here/$f.vo" ]; then
      (cd "$here" && timeout 600 coqc -Q . Unify -Q ../Core Core $f.v)
    fi
  fi
done
timeout 600 coqc -Q "$here" Unify -Q "$here/../Core" Core "$here/Extract.v" > extract.log 2>&1 || { cat extract.log; exit 1; }
rm -f "$here/Extract.vo" "$here/Extract.vok" "$here/Extract.vos" "$here/Extract.glob" "$here/.Extract.aux"
cp "$here/driver.ml" driver.ml
timeout 600 ocamlfind ocamlopt -package str -w -a -O2 unify_model.mli unify_model.ml driver.ml -o c05_driver 2>/dev/null \
 || timeout 600 ocamlfind ocamlopt -package str -w -a unify_model.mli unify_model.ml driver.ml -o c05_driver
echo "built $(pwd)/c05_driver"
