(** Small facts shared by the C05 proofs: the error monad, association lists, [mem]. *)
From Coq Require Import ZArith List Bool Lia.
From Core Require Import Syntax Sem Equiv Wf PartialEvalSound.
Import ListNotations.
Local Open Scope Z_scope.

Lemma bind_ok : forall A B (r : result A) (f : A -> result B) b,
  bind r f = Ok b -> exists a, r = Ok a /\ f a = Ok b.
Proof. intros A B [a|e] f b H; cbn in H; [eauto|discriminate]. Qed.

(** destruct a hypothesis [bind r f = Ok b] *)
Ltac bind_inv H :=
  let a := fresh "a" in let Ha := fresh "E" in
  apply bind_ok in H; destruct H as [a [Ha H]].

Lemma mem_In : forall x l, mem x l = true <-> In x l.
Proof.
  induction l as [|y r IH]; cbn [mem In]; [split; [discriminate|contradiction]|].
  rewrite orb_true_iff, IH, Pos.eqb_eq. split; intros [H|H]; auto.
Qed.

Lemma mem_false_notin : forall x l, mem x l = false -> ~ In x l.
Proof. intros x l H HI. apply mem_In in HI. congruence. Qed.

Lemma negb_mem_notin : forall x l, negb (mem x l) = true -> ~ In x l.
Proof. intros x l H. apply mem_false_notin, negb_true_iff, H. Qed.

Definition dom {A} (e : list (positive * A)) : list positive := map fst e.

Lemma lookup_app : forall A (y : positive) (a b : list (positive * A)),
  lookup y (a ++ b) = match lookup y a with Some v => Some v | None => lookup y b end.
Proof.
  induction a as [|[k v] r IH]; intro b; cbn [app lookup]; [reflexivity|].
  destruct (Pos.eqb y k); [reflexivity|apply IH].
Qed.

Lemma lookup_some_dom : forall A (y : positive) (a : list (positive * A)) v, lookup y a = Some v -> In y (dom a).
Proof.
  induction a as [|[k v'] r IH]; intros v H; cbn [lookup] in H; [discriminate|]. cbn [dom map fst In].
  destruct (Pos.eqb y k) eqn:E; [left; symmetry; apply Pos.eqb_eq, E | right; eapply IH; eauto].
Qed.

Lemma lookup_notin : forall A (y : positive) (a : list (positive * A)), ~ In y (dom a) -> lookup y a = None.
Proof.
  intros A y a H. destruct (lookup y a) eqn:E; [|reflexivity]. exfalso. eapply H, lookup_some_dom, E.
Qed.

Lemma lookup_some_in : forall A (y : positive) (a : list (positive * A)) v, lookup y a = Some v -> In (y, v) a.
Proof.
  induction a as [|[k v'] r IH]; intros v H; cbn [lookup] in H; [discriminate|].
  destruct (Pos.eqb y k) eqn:E.
  - apply Pos.eqb_eq in E. subst. inversion H; subst. left; reflexivity.
  - right. apply IH, H.
Qed.

Lemma lookup_in_nodup : forall A (a : list (positive * A)) y v,
  NoDup (dom a) -> In (y, v) a -> lookup y a = Some v.
Proof.
  induction a as [|[k v'] r IH]; intros y v Hn Hi; [destruct Hi|]. cbn [dom map fst] in Hn. inversion Hn; subst.
  cbn [lookup]. destruct Hi as [Hi|Hi].
  - inversion Hi; subst. rewrite Pos.eqb_refl. reflexivity.
  - destruct (Pos.eqb y k) eqn:E.
    + apply Pos.eqb_eq in E. subst. exfalso. apply H1. change (In k (dom r)).
      apply in_map_iff. exists (k, v). split; [reflexivity|exact Hi].
    + apply IH; assumption.
Qed.

Fixpoint nodupb (l : list positive) : bool :=
  match l with [] => true | x :: r => negb (mem x r) && nodupb r end.

Lemma nodupb_NoDup : forall l, nodupb l = true -> NoDup l.
Proof.
  induction l as [|x r IH]; intro H; [constructor|]. cbn [nodupb] in H. apply andb_true_iff in H as [H1 H2].
  constructor; [apply negb_mem_notin, H1|apply IH, H2].
Qed.

Definition same_mem (a b : state) : Prop :=
  s_heap a = s_heap b /\ s_next a = s_next b /\ s_cfg a = s_cfg b.

Lemma same_mem_refl : forall a, same_mem a a.
Proof. intro a. repeat split. Qed.

Lemma same_mem_with_env : forall a b e1 e2, same_mem a b -> same_mem (with_env e1 a) (with_env e2 b).
Proof. intros a b e1 e2 (H1 & H2 & H3). repeat split; assumption. Qed.

Lemma same_mem_eq_env : forall a b, same_mem a b -> s_env a = s_env b -> a = b.
Proof. intros [e h n c] [e' h' n' c'] (H1 & H2 & H3) H4. cbn in *. subst. reflexivity. Qed.

Lemma forallb_Forall_impl : forall A (P : A -> Prop) (f : A -> bool) l,
  Forall (fun a => f a = true -> P a) l -> forallb f l = true -> Forall P l.
Proof.
  intros A P f l H. induction H as [|a r Ha Hr IH]; intro Hf; [constructor|].
  cbn [forallb] in Hf. apply andb_true_iff in Hf as [H1 H2]. constructor; auto.
Qed.
