(** Property C05 — theorems only.  [exec]/[exec_list]/[run] are the reference semantics (Core.Sem);
    [inline_call] is the model of DoInline (Unify.Inline, tied to /repo by harness/props/C05.py),
    [validate] the per-instance validator run by the harness on every replace the implementation accepts. *)
From Coq Require Import ZArith List Bool.
From Core Require Import Syntax Sem Equiv PartialEvalSound.
From Unify Require Import Inline Alpha Elim Validate ProofsBase ProofsCall ProofsValidate.
Import ListNotations.

(** inlining a call whose obligations hold (actuals evaluate, sizes positive, shapes match, callee
    assertions true) behaves exactly like the call: both fail, or both finish in the same heap,
    allocation counter and configuration, the environment after the inlined code being the caller's
    environment extended by the bindings (windows, allocations) the spliced code introduces.
    Covers size/index/bool/stride arguments, whole tensors, windows and by-reference scalars. *)
Theorem C05_inline : forall f args st,
  inline_ok f args = true -> call_ok st f args ->
  rsim ext_rel (exec_list (inline_call f args) st) (exec (Call f args) st).
Proof. exact inline_correct. Qed.
Print Assumptions C05_inline.

(** without any assumption on the state: every completed run of the call is a run of the inlined code *)
Theorem C05_inline_of_call : forall f args st st2,
  inline_ok f args = true -> exec (Call f args) st = Ok st2 ->
  exists st1, exec_list (inline_call f args) st = Ok st1 /\ ext_rel st1 st2.
Proof. exact call_to_inline. Qed.
Print Assumptions C05_inline_of_call.

(** the validator (inline + window elimination + alpha-equality up to integer sums): whenever the new
    call runs to completion, the replaced block run from the same state completes in the same memory *)
Theorem C05_validator_sound : forall block f args st st2,
  validate block (Call f args) = true -> exec (Call f args) st = Ok st2 ->
  exists st1, exec_list block st = Ok st1 /\ same_mem st1 st2 /\ exists extra, s_env st1 = extra ++ s_env st2.
Proof. exact validate_sound. Qed.
Print Assumptions C05_validator_sound.

(** ... literally the same final state when the block leaves no binding behind, hence in any program
    context, up to whole-procedure runs *)
Theorem C05_validator_refines : forall block f args,
  validate block (Call f args) = true -> binds_nothing block = true -> refines [Call f args] block.
Proof. exact validate_refines. Qed.
Print Assumptions C05_validator_refines.

Theorem C05_validator_preserves : forall formals preds c block f args inp bufs cfg,
  validate block (Call f args) = true -> binds_nothing block = true ->
  run (Proc formals preds (plug c [Call f args])) inp = Done bufs cfg ->
  run (Proc formals preds (plug c block)) inp = Done bufs cfg.
Proof. exact validate_preserves. Qed.
Print Assumptions C05_validator_preserves.

(** a replace instance whose block IS the inlined call up to alpha: both directions; the direction from
    the block to the call needs the call-site obligations (which [replace] does not establish) *)
Theorem C05_replace_via_inline : forall block f args st st2,
  validate_strict block (Call f args) = true -> exec (Call f args) st = Ok st2 ->
  exists st1, exec_list block st = Ok st1 /\ same_mem st1 st2 /\ exists extra, s_env st1 = extra ++ s_env st2.
Proof. exact strict_call_to_block. Qed.
Print Assumptions C05_replace_via_inline.

Theorem C05_replace_via_inline_conv : forall block f args st st1,
  validate_strict block (Call f args) = true -> call_ok st f args -> exec_list block st = Ok st1 ->
  exists st2, exec (Call f args) st = Ok st2 /\ same_mem st1 st2 /\ exists extra, s_env st1 = extra ++ s_env st2.
Proof. exact strict_block_to_call. Qed.
Print Assumptions C05_replace_via_inline_conv.
