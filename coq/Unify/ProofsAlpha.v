(** * Soundness of the alpha/sum comparison: if the left list runs to completion, the matching right list
    runs to completion with the same memory (environments related by the binder map). *)
From Coq Require Import ZArith List Bool Lia.
From Core Require Import Syntax Sem Equiv Induction Wf PartialEvalSound.
From Unify Require Import Inline Alpha Elim Validate ProofsBase.
Import ListNotations.
Local Open Scope Z_scope.

Definition env_rel (m : bmap) (e1 e2 : env) : Prop :=
  forall y y', vmatch m y y' = true -> lookup y e1 = lookup y' e2.

Definition srel (m : bmap) (st1 st2 : state) : Prop :=
  same_mem st1 st2 /\ env_rel m (s_env st1) (s_env st2).

Lemma env_rel_pair : forall m e1 e2 x x' b, env_rel m e1 e2 -> env_rel ((x, Some x') :: m) ((x, b) :: e1) ((x', b) :: e2).
Proof.
  intros m e1 e2 x x' b H y y' Hv. cbn [vmatch] in Hv. cbn [lookup].
  destruct (Pos.eqb y x); [rewrite Hv; reflexivity|]. destruct (Pos.eqb y' x'); [discriminate|]. apply H, Hv.
Qed.

Lemma env_rel_skip : forall m e1 e2 w b, env_rel m e1 e2 -> env_rel ((w, None) :: m) ((w, b) :: e1) e2.
Proof.
  intros m e1 e2 w b H y y' Hv. cbn [vmatch] in Hv. cbn [lookup].
  destruct (Pos.eqb y w); [discriminate|]. apply H, Hv.
Qed.

Lemma env_rel_nil : forall e, env_rel [] e e.
Proof. intros e y y' H. cbn in H. apply Pos.eqb_eq in H. subst. reflexivity. Qed.

Section Expr.
  Variable m : bmap.
  Variables st1 st2 : state.
  Hypothesis HR : srel m st1 st2.

  (** [f] transports successful evaluation from left to right *)
  Definition tr (f : expr -> expr -> bool) (e : expr) : Prop :=
    forall e' v, f e e' = true -> eval st1 e = Ok v -> eval st2 e' = Ok v.

  Lemma get_view_tr : forall y y' w, vmatch m y y' = true -> get_view st1 y = Ok w -> get_view st2 y' = Ok w.
  Proof. intros y y' w Hv H. unfold get_view in *. destruct HR as [_ He]. rewrite <- (He y y' Hv). exact H. Qed.

  Lemma ints_tr : forall f l, Forall (tr f) l -> forall l' zs, all2 f l l' = true ->
    eval_ints st1 l = Ok zs -> eval_ints st2 l' = Ok zs.
  Proof.
    intros f l H. induction H as [|a r Ha Hr IH]; intros [|a' r'] zs Hf He; cbn [all2] in Hf; try discriminate; [exact He|].
    apply andb_true_iff in Hf as [H1 H2]. cbn [eval_ints] in *.
    bind_inv He. bind_inv He. bind_inv He. rewrite (Ha _ _ H1 E). cbn [bind]. rewrite E0. cbn [bind].
    rewrite (IH _ _ H2 E1). cbn [bind]. exact He.
  Qed.

  Lemma vals_tr : forall f l, Forall (tr f) l -> forall l' vs, all2 f l l' = true ->
    eval_vals st1 l = Ok vs -> eval_vals st2 l' = Ok vs.
  Proof.
    intros f l H. induction H as [|a r Ha Hr IH]; intros [|a' r'] vs Hf He; cbn [all2] in Hf; try discriminate; [exact He|].
    apply andb_true_iff in Hf as [H1 H2]. cbn [eval_vals] in *.
    bind_inv He. bind_inv He. rewrite (Ha _ _ H1 E). cbn [bind]. rewrite (IH _ _ H2 E0). cbn [bind]. exact He.
  Qed.

  Definition wmatch (f : expr -> expr -> bool) (w w' : wacc) : bool :=
    match w, w' with
    | Point a, Point a' => f a a'
    | Interval a b, Interval a' b' => f a a' && f b b'
    | _, _ => false
    end.

  (** transport of integer-valued evaluation (what index positions need) *)
  Definition tri (f : expr -> expr -> bool) (e : expr) : Prop :=
    forall e' z, f e e' = true -> eval st1 e = Ok (VInt z) -> eval st2 e' = Ok (VInt z).

  Lemma tr_tri : forall f e, tr f e -> tri f e.
  Proof. intros f e H e' z Hf He. eapply H; eauto. Qed.

  Lemma ints_tri : forall f l, Forall (tri f) l -> forall l' zs, all2 f l l' = true ->
    eval_ints st1 l = Ok zs -> eval_ints st2 l' = Ok zs.
  Proof.
    intros f l H. induction H as [|a r Ha Hr IH]; intros [|a' r'] zs Hf He; cbn [all2] in Hf; try discriminate; [exact He|].
    apply andb_true_iff in Hf as [H1 H2]. cbn [eval_ints] in *.
    bind_inv He. bind_inv He. bind_inv He. destruct a0; try discriminate E0. cbn in E0. inversion E0; subst.
    rewrite (Ha _ _ H1 E). cbn [bind as_int]. rewrite (IH _ _ H2 E1). cbn [bind]. exact He.
  Qed.

  Lemma waccs_tri : forall f l, Forall (PW (tri f)) l -> forall l' rs, all2 (wmatch f) l l' = true ->
    eval_waccs st1 l = Ok rs -> eval_waccs st2 l' = Ok rs.
  Proof.
    intros f l H. induction H as [|w r Hw Hr IH]; intros [|w' r'] rs Hf He; cbn [all2] in Hf; try discriminate; [exact He|].
    apply andb_true_iff in Hf as [H1 H2]. destruct w as [a|a b], w' as [a'|a' b']; cbn [wmatch] in H1; try discriminate;
      cbn [eval_waccs PW] in *.
    - bind_inv He. bind_inv He. bind_inv He. destruct a0; try discriminate E0. cbn in E0. inversion E0; subst.
      rewrite (Hw _ _ H1 E). cbn [bind as_int]. rewrite (IH _ _ H2 E1). cbn [bind]. exact He.
    - apply andb_true_iff in H1 as [H1a H1b]. destruct Hw as [Ha Hb].
      bind_inv He. bind_inv He. bind_inv He. bind_inv He. bind_inv He.
      destruct a0; try discriminate E0. cbn in E0. inversion E0; subst.
      destruct a2; try discriminate E2. cbn in E2. inversion E2; subst.
      rewrite (Ha _ _ H1a E). cbn [bind as_int]. rewrite (Hb _ _ H1b E1). cbn [bind as_int].
      rewrite (IH _ _ H2 E3). cbn [bind]. exact He.
  Qed.

  Lemma binop_eqb_eq : forall a b, binop_eqb a b = true -> a = b.
  Proof. intros [] []; cbn; intro H; try discriminate; reflexivity. Qed.
  Lemma extfn_eqb_eq : forall a b, extfn_eqb a b = true -> a = b.
  Proof. intros [] []; cbn; intro H; try discriminate; reflexivity. Qed.
  Lemma qc_eqb_eq : forall a b, qc_eqb a b = true -> a = b.
  Proof. intros a b H. unfold qc_eqb in H. destruct (Qcanon.Qc_eq_dec a b); [assumption|discriminate]. Qed.

  Lemma wmatch_map : forall f acc acc',
    all2 (fun w w' => match w, w' with
                      | Point a, Point a' => f a a'
                      | Interval a b, Interval a' b' => f a a' && f b b'
                      | _, _ => false
                      end) acc acc' = all2 (wmatch f) acc acc'.
  Proof. reflexivity. Qed.

  Theorem aeq_e_tr : forall e, tr (aeq_e m) e.
  Proof.
    induction e using expr_ind2; intros e' v Hf He; destruct e'; cbn [aeq_e] in Hf; try discriminate.
    - cbn [eval] in *. destruct HR as [_ Hr]. rewrite <- (Hr _ _ Hf). exact He.
    - apply Z.eqb_eq in Hf. subst. exact He.
    - apply Bool.eqb_prop in Hf. subst. exact He.
    - apply qc_eqb_eq in Hf. subst. exact He.
    - apply andb_true_iff in Hf as [Hv Hi]. rewrite eval_Read in *.
      bind_inv He. bind_inv He. bind_inv He. rewrite (get_view_tr _ _ _ Hv E). cbn [bind].
      rewrite (ints_tr _ _ H _ _ Hi E0). cbn [bind]. destruct HR as [(Hh & _) _]. rewrite <- Hh, E1. cbn [bind]. exact He.
    - cbn [eval] in *. bind_inv He. rewrite (IHe _ _ Hf E). cbn [bind]. exact He.
    - apply andb_true_iff in Hf as [Hf H2]. apply andb_true_iff in Hf as [Ho H1]. apply binop_eqb_eq in Ho. subst.
      cbn [eval] in *. bind_inv He. bind_inv He. rewrite (IHe1 _ _ H1 E), (IHe2 _ _ H2 E0). cbn [bind]. exact He.
    - apply andb_true_iff in Hf as [Ho Ha]. apply extfn_eqb_eq in Ho. subst. rewrite eval_Extern in *.
      bind_inv He. rewrite (vals_tr _ _ H _ _ Ha E). cbn [bind]. exact He.
    - apply andb_true_iff in Hf as [Hv Hd]. apply Nat.eqb_eq in Hd. subst. cbn [eval] in *.
      bind_inv He. rewrite (get_view_tr _ _ _ Hv E). cbn [bind]. exact He.
    - apply Pos.eqb_eq in Hf. subst. cbn [eval] in *. destruct HR as [(_ & _ & Hc) _]. rewrite <- Hc. exact He.
  Qed.

  (** ** sums *)
  Fixpoint aeval (st : state) (la : atoms) : option Z :=
    match la with
    | [] => Some 0
    | (c, a) :: r =>
        match eval st a, aeval st r with
        | Ok (VInt z), Some s => Some (c * z + s)
        | _, _ => None
        end
    end.

  Lemma aeval_app : forall st la lb,
    aeval st (la ++ lb) = match aeval st la, aeval st lb with Some a, Some b => Some (a + b) | _, _ => None end.
  Proof.
    induction la as [|[c a] r IH]; intro lb; cbn [app aeval].
    - destruct (aeval st lb); reflexivity.
    - rewrite IH. destruct (eval st a) as [[z| |]|]; try reflexivity.
      destruct (aeval st r); [|reflexivity]. destruct (aeval st lb); [|reflexivity]. f_equal. lia.
  Qed.

  Lemma lit_some : forall e z, lit e = Some z -> e = Int z.
  Proof. intros e z H. destruct e; cbn in H; try discriminate. inversion H. reflexivity. Qed.

  Lemma atom_l : forall st c e z, eval st e = Ok (VInt z) -> exists s, aeval st [(c, e)] = Some s /\ c * z = s + 0.
  Proof. intros st c e z H. cbn [aeval]. rewrite H. eexists. split; [reflexivity|lia]. Qed.

  Lemma flat_l : forall st e co zv la k, eval st e = Ok (VInt zv) -> flat co e = (la, k) ->
    exists s, aeval st la = Some s /\ co * zv = s + k.
  Proof.
    intros st e. induction e; intros co zv la k He Hf; cbn [flat] in Hf;
      try (inversion Hf; subst; apply atom_l; exact He).
    - (* Int *) inversion Hf; subst. cbn [eval] in He. inversion He; subst. exists 0. split; [reflexivity|lia].
    - (* USub *) cbn [eval] in He. bind_inv He. destruct a; try discriminate He. inversion He; subst.
      destruct (IHe (- co) _ la k E Hf) as (s & Hs & Hq). exists s. split; [exact Hs|lia].
    - (* BinOp *) cbn [eval] in He. bind_inv He. bind_inv He.
      destruct op; try (inversion Hf; subst; apply atom_l; cbn [eval]; rewrite E, E0; exact He).
      + destruct a, a0; try discriminate He. cbn in He. inversion He; subst.
        destruct (flat co e1) as [la1 k1] eqn:F1. destruct (flat co e2) as [la2 k2] eqn:F2. inversion Hf; subst.
        destruct (IHe1 _ _ _ _ E F1) as (s1 & Hs1 & Hq1). destruct (IHe2 _ _ _ _ E0 F2) as (s2 & Hs2 & Hq2).
        exists (s1 + s2). rewrite aeval_app, Hs1, Hs2. split; [reflexivity|lia].
      + destruct a, a0; try discriminate He. cbn in He. inversion He; subst.
        destruct (flat co e1) as [la1 k1] eqn:F1. destruct (flat (- co) e2) as [la2 k2] eqn:F2. inversion Hf; subst.
        destruct (IHe1 _ _ _ _ E F1) as (s1 & Hs1 & Hq1). destruct (IHe2 _ _ _ _ E0 F2) as (s2 & Hs2 & Hq2).
        exists (s1 + s2). rewrite aeval_app, Hs1, Hs2. split; [reflexivity|lia].
      + destruct a, a0; try discriminate He. cbn in He. inversion He; subst.
        destruct (lit e1) as [z1|] eqn:L1.
        * apply lit_some in L1. subst. cbn [eval] in E. inversion E; subst.
          destruct (IHe2 _ _ _ _ E0 Hf) as (s & Hs & Hq). exists s. split; [exact Hs|lia].
        * destruct (lit e2) as [z2|] eqn:L2.
          -- apply lit_some in L2. subst. cbn [eval] in E0. inversion E0; subst.
             destruct (IHe1 _ _ _ _ E Hf) as (s & Hs & Hq). exists s. split; [exact Hs|lia].
          -- inversion Hf; subst. apply atom_l. cbn [eval]. rewrite E, E0. reflexivity.
  Qed.

  Lemma atom_r : forall st c e s, aeval st [(c, e)] = Some s -> exists z, eval st e = Ok (VInt z) /\ c * z = s + 0.
  Proof.
    intros st c e s H. cbn [aeval] in H. destruct (eval st e) as [[z| |]|]; try discriminate. inversion H; subst.
    exists z. split; [reflexivity|lia].
  Qed.

  Lemma flat_r : forall st e co la k s, flat co e = (la, k) -> aeval st la = Some s ->
    exists zv, eval st e = Ok (VInt zv) /\ co * zv = s + k.
  Proof.
    intros st e. induction e; intros co la k s Hf Ha; cbn [flat] in Hf;
      try (inversion Hf; subst; apply atom_r; exact Ha).
    - inversion Hf; subst. cbn in Ha. inversion Ha; subst. exists z. split; [reflexivity|lia].
    - destruct (IHe _ _ _ _ Hf Ha) as (zv & Hz & Hq). exists (- zv). cbn [eval]. rewrite Hz. cbn [bind]. split; [reflexivity|lia].
    - destruct op; try (inversion Hf; subst; apply atom_r; exact Ha).
      + destruct (flat co e1) as [la1 k1] eqn:F1. destruct (flat co e2) as [la2 k2] eqn:F2. inversion Hf; subst.
        rewrite aeval_app in Ha. destruct (aeval st la1) as [s1|] eqn:A1; [|discriminate].
        destruct (aeval st la2) as [s2|] eqn:A2; [|discriminate]. inversion Ha; subst.
        destruct (IHe1 _ _ _ _ F1 A1) as (z1 & Hz1 & Hq1). destruct (IHe2 _ _ _ _ F2 A2) as (z2 & Hz2 & Hq2).
        exists (z1 + z2). cbn [eval]. rewrite Hz1, Hz2. cbn. split; [reflexivity|lia].
      + destruct (flat co e1) as [la1 k1] eqn:F1. destruct (flat (- co) e2) as [la2 k2] eqn:F2. inversion Hf; subst.
        rewrite aeval_app in Ha. destruct (aeval st la1) as [s1|] eqn:A1; [|discriminate].
        destruct (aeval st la2) as [s2|] eqn:A2; [|discriminate]. inversion Ha; subst.
        destruct (IHe1 _ _ _ _ F1 A1) as (z1 & Hz1 & Hq1). destruct (IHe2 _ _ _ _ F2 A2) as (z2 & Hz2 & Hq2).
        exists (z1 - z2). cbn [eval]. rewrite Hz1, Hz2. cbn. split; [reflexivity|lia].
      + destruct (lit e1) as [z1|] eqn:L1.
        * apply lit_some in L1. subst. destruct (IHe2 _ _ _ _ Hf Ha) as (z2 & Hz2 & Hq2).
          exists (z1 * z2). cbn [eval]. rewrite Hz2. cbn. split; [reflexivity|lia].
        * destruct (lit e2) as [z2|] eqn:L2.
          -- apply lit_some in L2. subst. destruct (IHe1 _ _ _ _ Hf Ha) as (z1 & Hz1 & Hq1).
             exists (z1 * z2). cbn [eval]. rewrite Hz1. cbn. split; [reflexivity|lia].
          -- inversion Hf; subst. apply atom_r. exact Ha.
  Qed.

  Lemma take_match_sound : forall f c e z lb lb', tri f e ->
    eval st1 e = Ok (VInt z) -> take_match f c e lb = Some lb' ->
    forall s2, aeval st2 lb' = Some s2 -> aeval st2 lb = Some (c * z + s2).
  Proof.
    intros f c e z lb lb' Hf He. revert lb'. induction lb as [|[c' e'] r IH]; intros lb' Ht s2 Hs; cbn [take_match] in Ht; [discriminate|].
    destruct (Z.eqb c c' && f e e') eqn:Em.
    - inversion Ht; subst. apply andb_true_iff in Em as [Ec Ef]. apply Z.eqb_eq in Ec. subst.
      cbn [aeval]. rewrite (Hf e' _ Ef He), Hs. reflexivity.
    - destruct (take_match f c e r) as [r'|] eqn:Er; [|discriminate]. inversion Ht; subst.
      cbn [aeval] in *. destruct (eval st2 e') as [[z'| |]|]; try discriminate.
      destruct (aeval st2 r') as [s'|] eqn:Ar; [|discriminate]. inversion Hs; subst.
      rewrite (IH _ eq_refl _ Ar). f_equal. lia.
  Qed.

  Lemma match_atoms_sound : forall f la lb s, (forall e, tri f e) -> match_atoms f la lb = true ->
    aeval st1 la = Some s -> aeval st2 lb = Some s.
  Proof.
    intros f la. induction la as [|[c e] r IH]; intros lb s Hf Hm Ha; cbn [match_atoms] in Hm.
    - destruct lb; [|discriminate]. exact Ha.
    - destruct (take_match f c e lb) as [lb'|] eqn:Et; [|discriminate].
      cbn [aeval] in Ha. destruct (eval st1 e) as [[z| |]|] eqn:Ee; try discriminate.
      destruct (aeval st1 r) as [sr|] eqn:Ar; [|discriminate]. inversion Ha; subst.
      eapply take_match_sound; eauto.
  Qed.

  Variable strict : bool.

  Theorem aeq_i_tri : forall e, tri (aeq_i strict m) e.
  Proof.
    intros e e' z Hf He. unfold aeq_i in Hf. apply orb_true_iff in Hf as [Hf|Hf]; [eapply aeq_e_tr; eauto|].
    apply andb_true_iff in Hf as [_ Hf].
    destruct (flat 1 e) as [la ka] eqn:F1. destruct (flat 1 e') as [lb kb] eqn:F2.
    apply andb_true_iff in Hf as [Hk Hm]. apply Z.eqb_eq in Hk. subst.
    destruct (flat_l _ _ _ _ _ _ He F1) as (s & Hs & Hq).
    pose proof (match_atoms_sound _ _ _ _ (fun e0 => tr_tri _ _ (aeq_e_tr e0)) Hm Hs) as Hs2.
    destruct (flat_r _ _ _ _ _ _ F2 Hs2) as (z' & Hz' & Hq'). rewrite Hz'. repeat f_equal. lia.
  Qed.

  Lemma int_operands_int : forall op x y v, int_operands op = true -> eval_binop op x y = Ok v ->
    exists a b, x = VInt a /\ y = VInt b.
  Proof. intros op x y v Ho H. destruct op; try discriminate Ho; destruct x, y; try discriminate H; eauto. Qed.

  Theorem aeq_x_tr : forall e, tr (aeq_x strict m) e.
  Proof.
    induction e using expr_ind2; intros e' v Hf He;
      try (cbn [aeq_x] in Hf; eapply aeq_e_tr; eauto; fail).
    - (* Read *) destruct e'; cbn [aeq_x] in Hf; try discriminate.
      apply andb_true_iff in Hf as [Hv Hi]. rewrite eval_Read in *.
      bind_inv He. bind_inv He. bind_inv He. rewrite (get_view_tr _ _ _ Hv E). cbn [bind].
      rewrite (ints_tri (aeq_i strict m) idx (proj2 (Forall_forall _ _) (fun e0 _ => aeq_i_tri e0)) _ _ Hi E0). cbn [bind].
      destruct HR as [(Hh & _) _]. rewrite <- Hh, E1. cbn [bind]. exact He.
    - (* USub *) destruct e'; cbn [aeq_x] in Hf; try discriminate.
      cbn [eval] in *. bind_inv He. rewrite (IHe _ _ Hf E). cbn [bind]. exact He.
    - (* BinOp *) destruct e'; cbn [aeq_x] in Hf; try discriminate.
      apply andb_true_iff in Hf as [Ho Hf]. apply binop_eqb_eq in Ho. subst.
      cbn [eval] in *. bind_inv He. bind_inv He. destruct (int_operands op0) eqn:Eo.
      + apply andb_true_iff in Hf as [H1 H2]. destruct (int_operands_int _ _ _ _ Eo He) as (x & y & -> & ->).
        rewrite (aeq_i_tri _ _ _ H1 E), (aeq_i_tri _ _ _ H2 E0). cbn [bind]. exact He.
      + apply andb_true_iff in Hf as [H1 H2]. rewrite (IHe1 _ _ H1 E), (IHe2 _ _ H2 E0). cbn [bind]. exact He.
    - (* Extern *) destruct e'; cbn [aeq_x] in Hf; try discriminate.
      apply andb_true_iff in Hf as [Ho Ha]. apply extfn_eqb_eq in Ho. subst. rewrite eval_Extern in *.
      bind_inv He. rewrite (vals_tr _ _ H _ _ Ha E). cbn [bind]. exact He.
    - (* WindowE *) cbn [eval] in He. discriminate He.
  Qed.

  (** views (window statements' right-hand sides) *)
  Lemma aeq_x_view : forall e e' w, aeq_x strict m e e' = true -> eval_view st1 e = Ok w -> eval_view st2 e' = Ok w.
  Proof.
    intros e e' w Hf He. destruct e; try discriminate He.
    - (* Read *) destruct e'; cbn [aeq_x] in Hf; try discriminate. apply andb_true_iff in Hf as [Hv Hi].
      destruct idx as [|a r], idx0 as [|a' r']; cbn [all2] in Hi; try discriminate.
      + cbn [eval_view] in *. eapply get_view_tr; eauto.
      + cbn [eval_view] in *. bind_inv He. bind_inv He. bind_inv He. rewrite (get_view_tr _ _ _ Hv E). cbn [bind].
        rewrite (ints_tri (aeq_i strict m) (a :: r) (proj2 (Forall_forall _ _) (fun e0 _ => aeq_i_tri e0)) (a' :: r') _ Hi E0).
        cbn [bind]. rewrite E1. cbn [bind]. exact He.
    - (* WindowE *) destruct e'; cbn [aeq_x] in Hf; try discriminate. apply andb_true_iff in Hf as [Hv Hi].
      cbn [eval_view] in *. bind_inv He. bind_inv He. rewrite (get_view_tr _ _ _ Hv E). cbn [bind].
      rewrite (waccs_tri (aeq_i strict m) acc) with (rs := a0); [cbn [bind]; exact He| |exact Hi|exact E0].
      apply Forall_forall. intros wa _. destruct wa; cbn [PW]; [|split]; apply aeq_i_tri.
  Qed.
End Expr.

(** ** statements *)
Section Stmt.
  Variable strict : bool.

  Lemma aeq_go : forall l l' m,
    (fix go (m : bmap) (l l' : list stmt) {struct l} : option bmap :=
       match l with
       | [] => match l' with [] => Some m | _ => None end
       | s1 :: r =>
           match l' with
           | s1' :: r' =>
               match aeq_s strict m s1 s1' with
               | Some m1 => go m1 r r'
               | None => match s1 with WindowS w _ => if strict then None else go ((w, None) :: m) r l' | _ => None end
               end
           | [] => match s1 with WindowS w _ => if strict then None else go ((w, None) :: m) r l' | _ => None end
           end
       end) m l l' = aeq_ss strict m l l'.
  Proof.
    intros l l' m. reflexivity.
  Qed.

  Lemma aeq_s_If : forall m c a b c' a' b',
    aeq_s strict m (If c a b) (If c' a' b') =
    if aeq_x strict m c c' then
      match aeq_ss strict m a a', aeq_ss strict m b b' with Some _, Some _ => Some m | _, _ => None end
    else None.
  Proof. intros. cbn [aeq_s]. rewrite !aeq_go. reflexivity. Qed.

  Lemma aeq_s_For : forall m i lo hi body par i' lo' hi' body' par',
    aeq_s strict m (For i lo hi body par) (For i' lo' hi' body' par') =
    if aeq_i strict m lo lo' && aeq_i strict m hi hi' then
      match aeq_ss strict ((i, Some i') :: m) body body' with Some _ => Some m | None => None end
    else None.
  Proof. intros. cbn [aeq_s]. rewrite aeq_go. reflexivity. Qed.

  (** one step of the simulation *)
  Definition ssim (s : stmt) : Prop :=
    forall s' m m' st1 st2 st1', aeq_s strict m s s' = Some m' -> srel m st1 st2 -> exec s st1 = Ok st1' ->
    exists st2', exec s' st2 = Ok st2' /\ srel m' st1' st2'.

  Lemma srel_restore : forall m m' st1 st2 st1' st2', srel m st1 st2 -> srel m' st1' st2' ->
    srel m (with_env (s_env st1) st1') (with_env (s_env st2) st2').
  Proof. intros m m' st1 st2 st1' st2' [_ He] [Hm _]. split; [apply same_mem_with_env, Hm|exact He]. Qed.

  Lemma aeq_ss_sim : forall l, Forall ssim l ->
    forall l' m m' st1 st2 st1', aeq_ss strict m l l' = Some m' -> srel m st1 st2 -> exec_list l st1 = Ok st1' ->
    exists st2', exec_list l' st2 = Ok st2' /\ srel m' st1' st2'.
  Proof.
    intros l H. induction H as [|s r Hs Hr IH]; intros l' m m' st1 st2 st1' Ha HR He.
    - cbn in Ha. destruct l'; [|discriminate]. inversion Ha; subst. cbn in He. inversion He; subst.
      exists st2. split; [reflexivity|exact HR].
    - cbn [exec_list] in He. bind_inv He.
      assert (Hskip : forall w rhs, s = WindowS w rhs -> strict = false -> aeq_ss strict ((w, None) :: m) r l' = Some m' ->
                exists st2', exec_list l' st2 = Ok st2' /\ srel m' st1' st2').
      { intros w rhs -> _ Ha'. cbn [exec] in E. bind_inv E. inversion E; subst.
        eapply IH; [exact Ha'| |exact He]. destruct HR as [Hm Hr']. split; [exact Hm|].
        cbn [bind_var s_env]. apply env_rel_skip, Hr'. }
      cbn [aeq_ss] in Ha. destruct l' as [|s' r'].
      + destruct s; try discriminate Ha. destruct strict eqn:Es; [discriminate|]. eapply Hskip; eauto.
      + destruct (aeq_s strict m s s') as [m1|] eqn:E1.
        * destruct (Hs _ _ _ _ _ _ E1 HR E) as (st2a & Hx & HR1).
          destruct (IH _ _ _ _ _ _ Ha HR1 He) as (st2' & Hx' & HR'). exists st2'. cbn [exec_list]. rewrite Hx. cbn [bind]. auto.
        * destruct s; try discriminate Ha. destruct strict eqn:Es; [discriminate|]. eapply Hskip; eauto.
  Qed.

  Lemma iter_loop_sim : forall m f g,
    (forall k st1 st2 st1', srel m st1 st2 -> f k st1 = Ok st1' -> exists st2', g k st2 = Ok st2' /\ srel m st1' st2') ->
    forall n k st1 st2 st1', srel m st1 st2 -> iter_loop n k f st1 = Ok st1' ->
    exists st2', iter_loop n k g st2 = Ok st2' /\ srel m st1' st2'.
  Proof.
    intros m f g H. induction n as [|n IH]; intros k st1 st2 st1' HR He; cbn [iter_loop] in *.
    - inversion He; subst. eauto.
    - bind_inv He. destruct (H _ _ _ _ HR E) as (st2a & Hx & HR1). rewrite Hx. cbn [bind]. eapply IH; eauto.
  Qed.

  Lemma srel_heap : forall m st1 st2 h, srel m st1 st2 -> srel m (with_heap h st1) (with_heap h st2).
  Proof. intros m st1 st2 h [(H1 & H2 & H3) He]. split; [repeat split; assumption|exact He]. Qed.

  Theorem aeq_s_sim : forall s, ssim s.
  Proof.
    induction s using stmt_ind2; unfold ssim; intros s' m m' st1 st2 st1' Ha HR He.
    - (* Assign *) destruct s'; cbn [aeq_s] in Ha; try discriminate.
      destruct (vmatch m x x0 && all2 (aeq_i strict m) idx idx0 && aeq_x strict m rhs rhs0) eqn:E; [|discriminate].
      inversion Ha; subst m'. apply andb_true_iff in E as [E Hrhs]. apply andb_true_iff in E as [Hname Hidx].
      cbn [exec] in *. bind_inv He. bind_inv He. bind_inv He. bind_inv He. bind_inv He. inversion He; subst.
      rewrite (get_view_tr m st1 st2 HR _ _ _ Hname E). cbn [bind].
      rewrite (ints_tri st1 st2 (aeq_i strict m) idx (proj2 (Forall_forall _ _) (fun e0 _ => aeq_i_tri m st1 st2 HR strict e0)) _ _ Hidx E0).
      cbn [bind]. rewrite (aeq_x_tr m st1 st2 HR strict _ _ _ Hrhs E1). cbn [bind]. rewrite E2. cbn [bind].
      pose proof HR as [(Hh & _) _]. rewrite <- Hh, E3. cbn [bind]. eexists. split; [reflexivity|apply srel_heap, HR].
    - (* Reduce *) destruct s'; cbn [aeq_s] in Ha; try discriminate.
      destruct (vmatch m x x0 && all2 (aeq_i strict m) idx idx0 && aeq_x strict m rhs rhs0) eqn:E; [|discriminate].
      inversion Ha; subst m'. apply andb_true_iff in E as [E Hrhs]. apply andb_true_iff in E as [Hname Hidx].
      cbn [exec] in *. bind_inv He. bind_inv He. bind_inv He. bind_inv He. bind_inv He. bind_inv He. inversion He; subst.
      rewrite (get_view_tr m st1 st2 HR _ _ _ Hname E). cbn [bind].
      rewrite (ints_tri st1 st2 (aeq_i strict m) idx (proj2 (Forall_forall _ _) (fun e0 _ => aeq_i_tri m st1 st2 HR strict e0)) _ _ Hidx E0).
      cbn [bind]. rewrite (aeq_x_tr m st1 st2 HR strict _ _ _ Hrhs E1). cbn [bind]. rewrite E2. cbn [bind].
      pose proof HR as [(Hh & _) _]. rewrite <- Hh, E3. cbn [bind]. rewrite E4. cbn [bind].
      eexists. split; [reflexivity|apply srel_heap, HR].
    - (* WriteCfg *) destruct s'; cbn [aeq_s] in Ha; try discriminate.
      destruct (Pos.eqb c c0 && aeq_x strict m rhs rhs0) eqn:E; [|discriminate]. inversion Ha; subst m'.
      apply andb_true_iff in E as [Hc Hrhs]. apply Pos.eqb_eq in Hc. subst.
      cbn [exec] in *. bind_inv He. inversion He; subst. rewrite (aeq_x_tr m st1 st2 HR strict _ _ _ Hrhs E). cbn [bind].
      eexists. split; [reflexivity|]. destruct HR as [(H1 & H2 & H3) Hr]. split; [repeat split; cbn; congruence|exact Hr].
    - (* Pass *) destruct s'; cbn [aeq_s] in Ha; try discriminate. inversion Ha; subst. cbn in *. inversion He; subst. eauto.
    - (* If *) destruct s'; try (cbn [aeq_s] in Ha; discriminate). rewrite aeq_s_If in Ha.
      destruct (aeq_x strict m c c0) eqn:Ec; [|discriminate].
      destruct (aeq_ss strict m a body) as [ma|] eqn:Ea; [|discriminate].
      destruct (aeq_ss strict m b orelse) as [mb|] eqn:Eb; [|discriminate]. inversion Ha; subst m'.
      rewrite exec_If in *. bind_inv He. bind_inv He. rewrite (aeq_x_tr m st1 st2 HR strict _ _ _ Ec E). cbn [bind].
      rewrite E0. cbn [bind]. unfold scoped in *. bind_inv He. inversion He; subst. destruct a1.
      + destruct (aeq_ss_sim _ H _ _ _ _ _ _ Ea HR E1) as (st2' & Hx & HR'). rewrite Hx. cbn [bind].
        eexists. split; [reflexivity|eapply srel_restore; eauto].
      + destruct (aeq_ss_sim _ H0 _ _ _ _ _ _ Eb HR E1) as (st2' & Hx & HR'). rewrite Hx. cbn [bind].
        eexists. split; [reflexivity|eapply srel_restore; eauto].
    - (* For *) destruct s'; try (cbn [aeq_s] in Ha; discriminate). rewrite aeq_s_For in Ha.
      destruct (aeq_i strict m lo lo0 && aeq_i strict m hi hi0) eqn:Eb; [|discriminate].
      destruct (aeq_ss strict ((i, Some i0) :: m) a body) as [mb|] eqn:Ebody; [|discriminate]. inversion Ha; subst m'.
      apply andb_true_iff in Eb as [El Eh]. rewrite exec_For in *.
      bind_inv He. bind_inv He. bind_inv He. bind_inv He.
      destruct a0; try discriminate E0. cbn in E0. inversion E0; subst.
      destruct a2; try discriminate E2. cbn in E2. inversion E2; subst.
      rewrite (aeq_i_tri m st1 st2 HR strict _ _ _ El E), (aeq_i_tri m st1 st2 HR strict _ _ _ Eh E1). cbn [bind as_int].
      destruct (a3 <? a1); [discriminate|].
      eapply iter_loop_sim; [|exact HR|exact He].
      intros k s1 s2 s1' HR0 Hb. unfold loop_body in *. bind_inv Hb. inversion Hb; subst.
      assert (HRb : srel ((i, Some i0) :: m) (bind_var i (BVal (VInt k)) s1) (bind_var i0 (BVal (VInt k)) s2)).
      { destruct HR0 as [Hm Hr]. split; [exact Hm|]. cbn [bind_var s_env]. apply env_rel_pair, Hr. }
      destruct (aeq_ss_sim _ H _ _ _ _ _ _ Ebody HRb E3) as (st2' & Hx & HR'). rewrite Hx. cbn [bind].
      eexists. split; [reflexivity|eapply srel_restore; eauto].
    - (* Alloc *) destruct s'; cbn [aeq_s] in Ha; try discriminate.
      destruct (all2 (aeq_i strict m) shape shape0) eqn:E; [|discriminate]. inversion Ha; subst m'.
      cbn [exec] in *. bind_inv He.
      rewrite (ints_tri st1 st2 (aeq_i strict m) shape (proj2 (Forall_forall _ _) (fun e0 _ => aeq_i_tri m st1 st2 HR strict e0)) _ _ E E0).
      cbn [bind]. destruct (all_pos a); [|discriminate]. unfold alloc_block in *. inversion He; subst.
      destruct HR as [(H1 & H2 & H3) Hr]. rewrite <- H1, <- H2, <- H3.
      eexists. split; [reflexivity|]. split; [repeat split|]. cbn [bind_var s_env]. apply env_rel_pair, Hr.
    - (* Call *) destruct s'; cbn [aeq_s] in Ha; discriminate.
    - (* WindowS *) destruct s'; cbn [aeq_s] in Ha; try discriminate.
      destruct (aeq_x strict m rhs rhs0) eqn:E; [|discriminate]. inversion Ha; subst m'.
      cbn [exec] in *. bind_inv He. inversion He; subst. rewrite (aeq_x_view m st1 st2 HR strict _ _ _ E E0). cbn [bind].
      eexists. split; [reflexivity|]. destruct HR as [Hm Hr]. split; [exact Hm|]. cbn [bind_var s_env]. apply env_rel_pair, Hr.
  Qed.

  Theorem aeq_ss_sound : forall l l' m m' st1 st2 st1',
    aeq_ss strict m l l' = Some m' -> srel m st1 st2 -> exec_list l st1 = Ok st1' ->
    exists st2', exec_list l' st2 = Ok st2' /\ srel m' st1' st2'.
  Proof. intros l. apply aeq_ss_sim. apply Forall_forall. intros s _. apply aeq_s_sim. Qed.
End Stmt.
