(** * [inline_call] is correct at every call site whose obligations hold. *)
From Coq Require Import ZArith List Bool Lia QArith Qcanon.
From Core Require Import Syntax Sem Equiv Induction Wf PartialEvalSound.
From Unify Require Import Inline Alpha Elim Validate ProofsBase ProofsBind ProofsInline.
Import ListNotations.
Local Open Scope Z_scope.

(** the call reaches the callee's body: actuals evaluate, sizes are positive, shapes match, assertions hold *)
Definition call_ok (st : state) (f : proc) (args : list expr) : Prop :=
  match f with
  | Proc formals preds body =>
      exists acts c0, eval_actuals st formals args = Ok acts /\
                      bind_args formals acts (with_env [] st) = Ok c0 /\ check_preds c0 preds = Ok tt
  end.

(** final states: the same memory, and the left environment extends the right one *)
Definition ext_rel (sti stc : state) : Prop :=
  same_mem sti stc /\ exists extra, s_env sti = extra ++ s_env stc.

Lemma nodup_NoDup : forall l, nodup l = true -> NoDup l.
Proof.
  induction l as [|x r IH]; intro H; [constructor|]. cbn [nodup] in H. apply andb_true_iff in H as [H1 H2].
  constructor; [apply negb_mem_notin, H1|apply IH, H2].
Qed.

Lemma lookup_rev_nodup : forall A (l : list (positive * A)) y, NoDup (dom l) -> lookup y (rev l) = lookup y l.
Proof.
  intros A l y Hn. destruct (lookup y l) eqn:E.
  - apply lookup_in_nodup; [unfold dom; rewrite map_rev; apply NoDup_rev, Hn|].
    rewrite <- in_rev. apply lookup_some_in, E.
  - apply lookup_notin. intro Hy. unfold dom in Hy. rewrite map_rev, <- in_rev in Hy.
    destruct (lookup y l) eqn:E'; [discriminate|].
    clear -Hy E'. induction l as [|[k v] r IH]; [destruct Hy|]. cbn [lookup] in E'. cbn [map fst In] in Hy.
    destruct (Pos.eqb y k) eqn:Ek; [discriminate|]. destruct Hy as [->|Hy]; [rewrite Pos.eqb_refl in Ek; discriminate|auto].
Qed.

Lemma args_ok_zip : forall fs args acts, args_ok fs args = true ->
  Forall (fun t => arg_ok (e_k t) (e_a t) = true) (zip3 fs args acts).
Proof.
  induction fs as [|[x k] fr IH]; intros [|a ar] [|b br] H; cbn [zip3]; try constructor.
  - cbn [args_ok] in H. apply andb_true_iff in H as [H1 H2]. exact H1.
  - cbn [args_ok] in H. apply andb_true_iff in H as [H1 H2]. apply IH, H2.
Qed.

Lemma zip3_arg_in : forall fs args acts t, In t (zip3 fs args acts) -> In (e_a t) args.
Proof.
  induction fs as [|[x k] fr IH]; intros [|a ar] [|b br] t H; cbn [zip3] in H; try destruct H.
  - subst. left. reflexivity.
  - right. eapply IH, H.
Qed.

Lemma zip3_formal_in : forall fs args acts y k, length args = length fs -> length acts = length fs ->
  In (y, k) fs -> exists t, In t (zip3 fs args acts) /\ e_x t = y /\ e_k t = k.
Proof.
  induction fs as [|[x k0] fr IH]; intros [|a ar] [|b br] y k H1 H2 Hi; try discriminate; [destruct Hi|].
  cbn [length] in H1, H2. destruct Hi as [Hi|Hi].
  - inversion Hi; subst. exists (y, k, a, b). split; [left; reflexivity|split; reflexivity].
  - destruct (IH ar br y k) as (t & Ht & He); [lia|lia|exact Hi|]. exists t. split; [right; exact Ht|exact He].
Qed.

Lemma in_ctl_formals : forall fs y, In y (ctl_formals fs) -> exists k, In (y, k) fs /\ is_ctl k = true.
Proof.
  unfold ctl_formals. intros fs y H. apply in_map_iff in H as ([x k] & <- & H). apply filter_In in H as [H1 H2].
  exists k. split; assumption.
Qed.

Lemma in_buf_formals : forall fs y, In y (buf_formals fs) -> exists k, In (y, k) fs /\ is_ctl k = false.
Proof.
  unfold buf_formals. intros fs y H. apply in_map_iff in H as ([x k] & <- & H). apply filter_In in H as [H1 H2].
  exists k. split; [assumption|]. apply negb_true_iff, H2.
Qed.

Section Call.
  Variables (formals : list (sym * argkind)) (preds : list expr) (body : list stmt) (args : list expr).
  Variable st : state.
  Variables (acts : list binding) (c0 : state).
  Hypothesis Hok : inline_ok (Proc formals preds body) args = true.
  Hypothesis Hev : eval_actuals st formals args = Ok acts.
  Hypothesis Hbd : bind_args formals acts (with_env [] st) = Ok c0.

  Let T := zip3 formals args acts.
  Let xs := map fst formals.
  Let fva := flat_map fv_e args.
  Let av := xs ++ fva.
  Let sg := flat_map h_sg T.
  Let ws := flat_map h_ws T.

  (** the bindings the window statements create *)
  Definition h_wb (t : entry) : list (sym * binding) :=
    match e_a t with WindowE _ _ => [(e_x t, e_b t)] | _ => [] end.

  Let envc0 := rev (map (fun t => (e_x t, e_b t)) T).
  Let envi0 := rev (flat_map h_wb T) ++ s_env st.

  Lemma ok_parts : NoDup xs /\ args_ok formals args = true /\ (forall y, In y fva -> ~ In y xs) /\
    exists sc, tc_ss av (ctl_formals formals) (buf_formals formals) body = Some sc.
  Proof.
    unfold inline_ok in Hok. fold xs fva in Hok. apply andb_true_iff in Hok as [H H4].
    apply andb_true_iff in H as [H H3]. apply andb_true_iff in H as [H1 H2].
    split; [apply nodup_NoDup, H1|]. split; [exact H2|]. split.
    - intros y Hy. rewrite forallb_forall in H3. apply negb_mem_notin, H3, Hy.
    - fold av in H4. destruct (tc_ss av _ _ body) as [sc|]; [eauto|discriminate].
  Qed.

  Lemma lens : length args = length formals /\ length acts = length formals.
  Proof. destruct (eval_actuals_zip _ _ _ _ Hev) as (H1 & H2 & _). auto. Qed.

  Lemma T_keys : map e_x T = xs.
  Proof. destruct lens. apply zip3_keys; assumption. Qed.

  Lemma T_nodup : NoDup (map e_x T).
  Proof. rewrite T_keys. apply ok_parts. Qed.

  Lemma T_eval : forall t, In t T -> eval_actual st (e_k t) (e_a t) = Ok (e_b t).
  Proof. destruct (eval_actuals_zip _ _ _ _ Hev) as (_ & _ & H). rewrite Forall_forall in H. exact H. Qed.

  Lemma T_argok : forall t, In t T -> arg_ok (e_k t) (e_a t) = true.
  Proof.
    destruct ok_parts as (_ & H & _). pose proof (args_ok_zip _ _ acts H) as HF. rewrite Forall_forall in HF. exact HF.
  Qed.

  Lemma c0_spec : s_env c0 = envc0 /\ same_mem st c0 /\ forall t, In t T -> compat (e_k t) (e_b t).
  Proof.
    destruct lens as [L1 L2]. destruct (bind_args_zip _ args _ _ _ Hbd L1) as (He & Hm & Hf).
    cbn [with_env s_env] in He. rewrite app_nil_r in He. split; [exact He|]. split.
    - destruct Hm as (H1 & H2 & H3). repeat split; assumption.
    - rewrite Forall_forall in Hf. exact Hf.
  Qed.

  Lemma T_fv : forall t y, In t T -> In y (fv_e (e_a t)) -> In y fva.
  Proof. intros t y Ht Hy. apply in_flat_map. exists (e_a t). split; [eapply zip3_arg_in, Ht|exact Hy]. Qed.

  Lemma T_x : forall t, In t T -> In (e_x t) xs.
  Proof. intros t Ht. rewrite <- T_keys. apply in_map, Ht. Qed.

  Lemma h_sg_key : forall t, h_sg t = [] \/ exists v, h_sg t = [(e_x t, v)].
  Proof. intro t. unfold h_sg. destruct (e_a t); eauto. destruct idx; eauto. Qed.

  Lemma h_wb_key : forall t, h_wb t = [] \/ exists v, h_wb t = [(e_x t, v)].
  Proof. intro t. unfold h_wb. destruct (e_a t); eauto. Qed.

  Lemma dom_wb_xs : forall y, In y (dom (rev (flat_map h_wb T))) -> In y xs.
  Proof.
    intros y Hy. unfold dom in Hy. rewrite map_rev, <- in_rev in Hy.
    destruct (dom_flat_sub T _ h_wb h_wb_key y Hy) as (t & Ht & <- & _). apply T_x, Ht.
  Qed.

  (** a caller variable mentioned by an actual is not touched by the window bindings / local binders *)
  Lemma lookup_envi0_fva : forall loc y, (forall z, In z (dom loc) -> ~ In z av) -> In y fva ->
    lookup y (loc ++ envi0) = lookup y (s_env st).
  Proof.
    intros loc y Hloc Hy. destruct ok_parts as (_ & _ & Hd & _). unfold envi0. rewrite !lookup_app.
    rewrite (lookup_notin _ y loc).
    2:{ intro H. apply (Hloc _ H). apply in_or_app. right. exact Hy. }
    rewrite (lookup_notin _ y (rev (flat_map h_wb T))); [reflexivity|].
    intro H. exact (Hd y Hy (dom_wb_xs y H)).
  Qed.

  (** ** executing the window statements *)
  Lemma exec_ws : forall T' acc stk, (forall t, In t T' -> In t T) ->
    s_env stk = acc ++ s_env st -> same_mem st stk -> (forall y, In y (dom acc) -> In y xs) ->
    exists stk', exec_list (flat_map h_ws T') stk = Ok stk' /\ same_mem st stk' /\
                 s_env stk' = rev (flat_map h_wb T') ++ acc ++ s_env st.
  Proof.
    destruct ok_parts as (_ & _ & Hd & _).
    induction T' as [|t r IH]; intros acc stk Hsub He Hm Hacc.
    - exists stk. cbn. auto.
    - assert (Ht : In t T) by (apply Hsub; left; reflexivity).
      assert (Hsub' : forall t', In t' r -> In t' T) by (intros; apply Hsub; right; assumption).
      cbn [flat_map]. unfold h_ws at 1, h_wb at 1. destruct (e_a t) eqn:Ea;
        try (cbn [app]; apply IH; assumption).
      (* a window argument *)
      cbn [app exec_list exec]. pose proof (T_eval t Ht) as Hev1. pose proof (T_argok t Ht) as Hao.
      unfold arg_ok in Hao. rewrite Ea in Hev1, Hao.
      destruct (is_ctl (e_k t)) eqn:Ek; [cbn in Hao; discriminate|].
      assert (Hv : exists w, eval_view st (WindowE x acc0) = Ok w /\ e_b t = BView w).
      { destruct (e_k t); try discriminate Ek; cbn [eval_actual] in Hev1; bind_inv Hev1; inversion Hev1; eauto. }
      destruct Hv as (w & Hw & Hb).
      assert (Hag : eval_view stk (WindowE x acc0) = eval_view st (WindowE x acc0)).
      { destruct Hm as (H1 & H2 & H3). apply eval_view_agree; [congruence|congruence|].
        intros y Hy. rewrite He, lookup_app, lookup_notin; [reflexivity|].
        intro Hin. apply (Hd y); [eapply T_fv; [exact Ht|rewrite Ea; exact Hy]|apply Hacc, Hin]. }
      rewrite Hag, Hw. cbn [bind].
      destruct (IH ((e_x t, BView w) :: acc) (bind_var (e_x t) (BView w) stk) Hsub') as (stk' & Hx & Hm' & He').
      + cbn [bind_var s_env]. rewrite He. reflexivity.
      + destruct Hm as (H1 & H2 & H3). repeat split; assumption.
      + intros y [<-|Hy]; [apply T_x, Ht|apply Hacc, Hy].
      + exists stk'. split; [exact Hx|]. split; [exact Hm'|]. rewrite He', Hb. cbn [rev]. rewrite <- app_assoc. reflexivity.
  Qed.

  (** ** the hypotheses of the body simulation *)
  Lemma H_dom : forall x, lookup x sg <> None -> In x av.
  Proof.
    intros x H. destruct (lookup x sg) eqn:E; [|congruence]. apply lookup_some_dom in E.
    destruct (dom_flat_sub T _ h_sg h_sg_key x E) as (t & Ht & <- & _). apply in_or_app. left. apply T_x, Ht.
  Qed.

  Lemma sg_entry : forall x s, lookup x sg = Some s -> exists t, In t T /\ e_x t = x /\ h_sg t = [(x, s)].
  Proof.
    intros x s H. apply lookup_some_in, in_flat_map in H as (t & Ht & Hi).
    destruct (h_sg_key t) as [E|[v E]]; rewrite E in Hi; [destruct Hi|]. destruct Hi as [Hi|[]]. inversion Hi; subst.
    exists t. auto.
  Qed.

  Lemma H_sexpr : forall x a, lookup x sg = Some (SExpr a) -> ctrl a = true.
  Proof.
    intros x a H. destruct (sg_entry _ _ H) as (t & Ht & Hx & Hs). pose proof (T_argok t Ht) as Hao.
    unfold h_sg in Hs. unfold arg_ok in Hao. destruct (is_ctl (e_k t)).
    - destruct (e_a t); try (inversion Hs; subst; exact Hao); try discriminate Hs.
      destruct idx; inversion Hs; subst. exact Hao.
    - destruct (e_a t); try discriminate Hao; [|discriminate Hs]. destruct idx; [inversion Hs|discriminate Hao].
  Qed.

  Lemma H_ctl : forall x v, lookup x envc0 = Some (BVal v) ->
    exists a, lookup x sg = Some (SExpr a) /\ stable av envi0 a v.
  Proof.
    intros x v H. destruct (lookup_env_table_inv T x _ H) as (t & Ht & Hx & Hb).
    destruct c0_spec as (_ & _ & Hcp). pose proof (Hcp t Ht) as Hc. rewrite Hb in Hc. cbn [compat] in Hc.
    pose proof (T_argok t Ht) as Hao. unfold arg_ok in Hao. rewrite Hc in Hao.
    pose proof (T_eval t Ht) as He. rewrite Hb in He.
    assert (Hv : eval st (e_a t) = Ok v).
    { destruct (e_k t); try discriminate Hc; cbn [eval_actual] in He; bind_inv He; inversion He; subst; exact E. }
    exists (e_a t). split.
    - rewrite <- Hx. apply (lookup_flat_some T T_nodup _ h_sg h_sg_key); [exact Ht|].
      unfold h_sg. destruct (e_a t); try reflexivity; discriminate Hao.
    - intros st' loc Henv Hloc. rewrite <- Hv. apply ctrl_agree; [exact Hao|].
      intros y Hy. rewrite Henv. apply lookup_envi0_fva; [exact Hloc|]. eapply T_fv; eauto.
  Qed.

  Lemma H_buf : forall x w, lookup x envc0 = Some (BView w) ->
    lookup (ren sg x) envi0 = Some (BView w) /\ In (ren sg x) av.
  Proof.
    intros x w H. destruct (lookup_env_table_inv T x _ H) as (t & Ht & Hx & Hb).
    destruct c0_spec as (_ & _ & Hcp). pose proof (Hcp t Ht) as Hc. rewrite Hb in Hc. cbn [compat] in Hc.
    pose proof (T_argok t Ht) as Hao. unfold arg_ok in Hao. rewrite Hc in Hao.
    pose proof (T_eval t Ht) as He. rewrite Hb in He.
    assert (Hv : eval_view st (e_a t) = Ok w).
    { destruct (e_k t); try discriminate Hc; cbn [eval_actual] in He; bind_inv He; inversion He; subst; exact E. }
    destruct (e_a t) eqn:Ea; try discriminate Hao.
    - (* whole buffer / scalar *) destruct idx; [|discriminate Hao].
      assert (Hs : lookup x sg = Some (SName x0)).
      { rewrite <- Hx. apply (lookup_flat_some T T_nodup _ h_sg h_sg_key); [exact Ht|]. unfold h_sg. rewrite Ea. reflexivity. }
      unfold ren. rewrite Hs.
      assert (Hf : In x0 fva) by (eapply T_fv; [exact Ht|rewrite Ea; left; reflexivity]).
      split; [|apply in_or_app; right; exact Hf].
      assert (Hl : lookup x0 ([] ++ envi0) = lookup x0 (s_env st)) by (apply lookup_envi0_fva; [intros z []|exact Hf]).
      cbn [app] in Hl. rewrite Hl.
      cbn [eval_view] in Hv. unfold get_view in Hv. destruct (lookup x0 (s_env st)) as [[v|w']|]; try discriminate.
      inversion Hv; subst. reflexivity.
    - (* window *)
      assert (Hs : lookup x sg = None).
      { rewrite <- Hx. apply (lookup_flat_none T T_nodup _ h_sg h_sg_key); [exact Ht|]. unfold h_sg. rewrite Ea. reflexivity. }
      unfold ren. rewrite Hs. split; [|apply in_or_app; left; rewrite <- Hx; apply T_x, Ht].
      unfold envi0. rewrite lookup_app, lookup_rev_nodup by (apply (nodup_flat T T_nodup _ h_wb h_wb_key)).
      rewrite <- Hx, (lookup_flat_some T T_nodup _ h_wb h_wb_key t (e_b t) Ht).
      + rewrite Hb. reflexivity.
      + unfold h_wb. rewrite Ea. reflexivity.
  Qed.

  Lemma Sc_init : Sc (ctl_formals formals) (buf_formals formals) envc0.
  Proof.
    destruct lens as [L1 L2]. destruct c0_spec as (_ & _ & Hcp). split; intros y Hy; apply mem_In in Hy.
    - apply in_ctl_formals in Hy as (k & Hi & Hk).
      destruct (zip3_formal_in formals args acts y k L1 L2 Hi) as (t & Ht & Hx & Hkk).
      pose proof (Hcp t Ht) as Hc. rewrite Hkk in Hc. destruct (e_b t) as [v|w] eqn:Eb; cbn [compat] in Hc; [|congruence].
      exists v. rewrite <- Hx, <- Eb. apply (lookup_env_table T T_nodup), Ht.
    - apply in_buf_formals in Hy as (k & Hi & Hk).
      destruct (zip3_formal_in formals args acts y k L1 L2 Hi) as (t & Ht & Hx & Hkk).
      pose proof (Hcp t Ht) as Hc. rewrite Hkk in Hc. destruct (e_b t) as [v|w] eqn:Eb; cbn [compat] in Hc; [congruence|].
      exists w. rewrite <- Hx, <- Eb. apply (lookup_env_table T T_nodup), Ht.
  Qed.

  (** ** the call and its inlining *)
  Theorem inline_sim_body :
    exists sti0, exec_list ws st = Ok sti0 /\
      rsim ext_rel (exec_list (map (subst_s sg) body) sti0)
                   (do st' <- exec_list body c0; Ok (with_env (s_env st) st')).
  Proof.
    destruct (exec_ws T [] st) as (sti0 & Hx & Hm & He).
    { auto. } { reflexivity. } { apply same_mem_refl. } { intros y []. }
    cbn [app] in He. fold envi0 in He. exists sti0. split; [exact Hx|].
    destruct ok_parts as (_ & _ & _ & [cs' bs'] & Htc). destruct c0_spec as (Hc0 & Hmc & _).
    assert (HR : Rel av envc0 envi0 (ctl_formals formals) (buf_formals formals) c0 sti0).
    { split.
      - destruct Hm as (H1 & H2 & H3), Hmc as (H4 & H5 & H6). repeat split; congruence.
      - exists []. cbn [app dom map]. rewrite Hc0. split; [reflexivity|]. split; [exact He|].
        split; [intros y []|apply Sc_init]. }
    pose proof (body_sim sg av envc0 envi0 H_ctl H_buf H_dom H_sexpr body _ _ _ _ c0 sti0 Htc HR) as Hs.
    destruct (exec_list body c0) as [stc'|]; destruct (exec_list (map (subst_s sg) body) sti0) as [sti'|];
      cbn [rsim bind] in *; try contradiction; try exact I.
    destruct Hs as (Hm' & loc & Hc' & Hi' & _). split.
    - destruct Hm' as (H1 & H2 & H3). repeat split; cbn; congruence.
    - cbn [with_env s_env]. rewrite Hi'. unfold envi0. exists (loc ++ rev (flat_map h_wb T)). rewrite <- app_assoc. reflexivity.
  Qed.
End Call.

Theorem inline_correct : forall f args st,
  inline_ok f args = true -> call_ok st f args ->
  rsim ext_rel (exec_list (inline_call f args) st) (exec (Call f args) st).
Proof.
  intros [formals preds body] args st Hok (acts & c0 & Hev & Hbd & Hpr).
  rewrite exec_Call, Hev. cbn [bind]. rewrite Hbd. cbn [bind]. rewrite Hpr. cbn [bind].
  destruct (eval_actuals_zip _ _ _ _ Hev) as (L1 & L2 & _).
  unfold inline_call. rewrite (mk_binding_zip formals args acts L1 L2). rewrite exec_list_app.
  destruct (inline_sim_body formals preds body args st acts c0 Hok Hev Hbd) as (sti0 & Hx & Hs).
  rewrite Hx. cbn [bind]. exact Hs.
Qed.

Lemma exec_Call_ok : forall f args st st', exec (Call f args) st = Ok st' -> call_ok st f args.
Proof.
  intros [formals preds body] args st st' H. rewrite exec_Call in H.
  bind_inv H. bind_inv H. bind_inv H. destruct a1. cbn. eauto.
Qed.

Corollary call_to_inline : forall f args st st2,
  inline_ok f args = true -> exec (Call f args) st = Ok st2 ->
  exists st1, exec_list (inline_call f args) st = Ok st1 /\ ext_rel st1 st2.
Proof.
  intros f args st st2 Hok H. pose proof (inline_correct f args st Hok (exec_Call_ok _ _ _ _ H)) as Hs.
  rewrite H in Hs. destruct (exec_list (inline_call f args) st) as [st1|]; cbn in Hs; [eauto|contradiction].
Qed.

Corollary inline_to_call : forall f args st st1,
  inline_ok f args = true -> call_ok st f args -> exec_list (inline_call f args) st = Ok st1 ->
  exists st2, exec (Call f args) st = Ok st2 /\ ext_rel st1 st2.
Proof.
  intros f args st st1 Hok Hc H. pose proof (inline_correct f args st Hok Hc) as Hs.
  rewrite H in Hs. destruct (exec (Call f args) st) as [st2|]; cbn in Hs; [eauto|contradiction].
Qed.

(** non-vacuity: a callee with a size, a window and a whole-buffer argument; the side conditions hold,
    the call obligations hold in a concrete state, and both sides compute the same memory *)
Example inline_example :
  let n := 1%positive in let dst := 2%positive in let src := 3%positive in let i := 4%positive in
  let x := 5%positive in let y := 6%positive in
  let f := Proc [(n, KSize); (dst, KTensor [Var n] true); (src, KTensor [Var n] false)] [BinOp OGe (Var n) (Int 1)]
                [For i (Int 0) (Var n) [Assign dst [Var i] (BinOp OAdd (Read src [Var i]) (Real (Q2Qc 1)))] false] in
  let args := [Int 2; WindowE x [Interval (Int 1) (Int 3)]; Read y []] in
  let st := mkState [(x, BView (mkView 1 0 [(4, 1)])); (y, BView (mkView 2 0 [(2, 1)]))]
                    [(1%positive, [None; None; None; None]); (2%positive, [Some (Q2Qc 5); Some (Q2Qc 7)])] 3%positive [] in
  inline_ok f args = true /\
  (exists st', exec (Call f args) st = Ok st') /\
  match exec_list (inline_call f args) st, exec (Call f args) st with
  | Ok a, Ok b => s_heap a = s_heap b
  | _, _ => False
  end.
Proof. cbv zeta. split; [vm_compute; reflexivity|]. split; [eexists; vm_compute; reflexivity|vm_compute; reflexivity]. Qed.
