(** Extraction of the C05 models (inline, window elimination, validator).  Directives: ExtrOcamlBasic only. *)
From Coq Require Import ZArith List QArith Qcanon.
From Core Require Import Syntax Sem.
From Unify Require Import Inline Alpha Elim Validate.
Require Extraction.
Require Import ExtrOcamlBasic.
Extraction Language OCaml.

Definition mk_qc (n : Z) (d : positive) : Qc := Q2Qc (Qmake n d).
Definition qc_num (q : Qc) : Z := Qnum (this q).
Definition qc_den (q : Qc) : positive := Qden (this q).
Extraction "unify_model.ml" do_inline inline_call elim_ws validate validate_strict inline_ok binds_nothing mk_qc qc_num qc_den.
