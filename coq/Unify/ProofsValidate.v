(** * Soundness of the replace validator. *)
From Coq Require Import ZArith List Bool Lia QArith Qcanon.
From Core Require Import Syntax Sem Equiv Induction Wf PartialEvalSound.
From Unify Require Import Inline Alpha Elim Validate ProofsBase ProofsBind ProofsInline ProofsCall ProofsAlpha ProofsElim ProofsSym.
Import ListNotations.
Local Open Scope Z_scope.

(** ** what a statement list leaves in the environment *)
Lemma exec_env : forall s st st', exec s st = Ok st' ->
  exists extra, s_env st' = extra ++ s_env st /\
                (match s with Alloc _ _ | WindowS _ _ => False | _ => True end -> extra = []).
Proof.
  intros s st st' He. destruct s.
  - cbn [exec] in He. repeat bind_inv He. inversion He; subst. exists []. auto.
  - cbn [exec] in He. repeat bind_inv He. inversion He; subst. exists []. auto.
  - cbn [exec] in He. repeat bind_inv He. inversion He; subst. exists []. auto.
  - cbn in He. inversion He; subst. exists []. auto.
  - rewrite exec_If in He. bind_inv He. bind_inv He. unfold scoped in He. bind_inv He. inversion He; subst. exists []. auto.
  - rewrite exec_For in He. bind_inv He. bind_inv He. bind_inv He. bind_inv He. destruct (a2 <? a0); [discriminate|].
    apply iter_loop_env in He. exists []. auto.
  - cbn [exec] in He. bind_inv He. destruct (all_pos a); [|discriminate]. unfold alloc_block in He. inversion He; subst.
    eexists [_]. split; [reflexivity|intros []].
  - destruct f as [formals preds body]. rewrite exec_Call in He. bind_inv He. bind_inv He. bind_inv He. bind_inv He.
    inversion He; subst. exists []. auto.
  - cbn [exec] in He. bind_inv He. inversion He; subst. eexists [_]. split; [reflexivity|intros []].
Qed.

Lemma exec_list_env : forall l st st', exec_list l st = Ok st' ->
  exists extra, s_env st' = extra ++ s_env st /\ (binds_nothing l = true -> extra = []).
Proof.
  induction l as [|s r IH]; intros st st' He.
  - cbn in He. inversion He; subst. exists []. auto.
  - cbn [exec_list] in He. bind_inv He. destruct (exec_env _ _ _ E) as (e1 & H1 & Hn1).
    destruct (IH _ _ He) as (e2 & H2 & Hn2). exists (e2 ++ e1). rewrite H2, H1, app_assoc. split; [reflexivity|].
    intro Hb. unfold binds_nothing in Hb. cbn [forallb] in Hb. apply andb_true_iff in Hb as [Hs Hr].
    rewrite (Hn2 Hr). rewrite Hn1; [reflexivity|]. destruct s; try exact I; discriminate Hs.
Qed.

Lemma exec_Call_env : forall f args st st', exec (Call f args) st = Ok st' -> s_env st' = s_env st.
Proof.
  intros f args st st' H. destruct (exec_env _ _ _ H) as (extra & He & Hn). rewrite He, (Hn I). reflexivity.
Qed.

Lemma same_mem_sym : forall a b, same_mem a b -> same_mem b a.
Proof. intros a b (H1 & H2 & H3). repeat split; congruence. Qed.
Lemma same_mem_trans : forall a b c, same_mem a b -> same_mem b c -> same_mem a c.
Proof. intros a b c (H1 & H2 & H3) (H4 & H5 & H6). repeat split; congruence. Qed.

(** ** the validator: whenever the new call runs to completion, the replaced block runs to completion
    from the same state, in the same memory; its environment extends the one after the call *)
Theorem validate_sound : forall block f args st st2,
  validate block (Call f args) = true -> exec (Call f args) st = Ok st2 ->
  exists st1, exec_list block st = Ok st1 /\ same_mem st1 st2 /\ exists extra, s_env st1 = extra ++ s_env st2.
Proof.
  intros block f args st st2 Hv Hc. cbn [validate] in Hv. apply andb_true_iff in Hv as [Hok Ha].
  unfold aeq_ok in Ha. destruct (aeq_ss false [] (elim_ws (inline_call f args)) block) as [m'|] eqn:Eq; [|discriminate].
  destruct (call_to_inline f args st st2 Hok Hc) as (sti & Hi & (Hm & _)).
  pose proof (elim_ws_sound _ _ _ Hi) as He.
  destruct (aeq_ss_sound false _ _ _ _ st st sti Eq (conj (same_mem_refl st) (env_rel_nil _)) He) as (st1 & Hb & (Hm1 & _)).
  exists st1. split; [exact Hb|]. split; [eapply same_mem_trans; [apply same_mem_sym, Hm1|exact Hm]|].
  destruct (exec_list_env _ _ _ Hb) as (extra & Hx & _). exists extra. rewrite Hx, (exec_Call_env _ _ _ _ Hc). reflexivity.
Qed.

(** a block that leaves no binding behind: literal refinement, hence preserved by every program context *)
Theorem validate_refines : forall block f args,
  validate block (Call f args) = true -> binds_nothing block = true -> refines [Call f args] block.
Proof.
  intros block f args Hv Hn st st2 H. rewrite single in H.
  destruct (validate_sound block f args st st2 Hv H) as (st1 & Hb & Hm & _).
  destruct (exec_list_env _ _ _ Hb) as (extra & Hx & Hn'). rewrite (Hn' Hn) in Hx. cbn [app] in Hx.
  rewrite Hb. f_equal. apply same_mem_eq_env; [exact Hm|]. rewrite Hx, (exec_Call_env _ _ _ _ H). reflexivity.
Qed.

Theorem validate_preserves : forall formals preds c block f args inp bufs cfg,
  validate block (Call f args) = true -> binds_nothing block = true ->
  run (Proc formals preds (plug c [Call f args])) inp = Done bufs cfg ->
  run (Proc formals preds (plug c block)) inp = Done bufs cfg.
Proof.
  intros formals preds c block f args inp bufs cfg Hv Hn. apply run_refines, refines_plug, validate_refines; assumption.
Qed.

(** ** plain alpha-equality with the inlined call: both directions *)
Theorem strict_call_to_block : forall block f args st st2,
  validate_strict block (Call f args) = true -> exec (Call f args) st = Ok st2 ->
  exists st1, exec_list block st = Ok st1 /\ same_mem st1 st2 /\ exists extra, s_env st1 = extra ++ s_env st2.
Proof.
  intros block f args st st2 Hv Hc. cbn [validate_strict] in Hv. apply andb_true_iff in Hv as [Hok Ha].
  unfold aeq_ok in Ha. destruct (aeq_ss true [] (inline_call f args) block) as [m'|] eqn:Eq; [|discriminate].
  destruct (call_to_inline f args st st2 Hok Hc) as (sti & Hi & (Hm & _)).
  destruct (aeq_ss_sound true _ _ _ _ st st sti Eq (conj (same_mem_refl st) (env_rel_nil _)) Hi) as (st1 & Hb & (Hm1 & _)).
  exists st1. split; [exact Hb|]. split; [eapply same_mem_trans; [apply same_mem_sym, Hm1|exact Hm]|].
  destruct (exec_list_env _ _ _ Hb) as (extra & Hx & _). exists extra. rewrite Hx, (exec_Call_env _ _ _ _ Hc). reflexivity.
Qed.

Theorem strict_block_to_call : forall block f args st st1,
  validate_strict block (Call f args) = true -> call_ok st f args -> exec_list block st = Ok st1 ->
  exists st2, exec (Call f args) st = Ok st2 /\ same_mem st1 st2 /\ exists extra, s_env st1 = extra ++ s_env st2.
Proof.
  intros block f args st st1 Hv Hco Hb. cbn [validate_strict] in Hv. apply andb_true_iff in Hv as [Hok Ha].
  unfold aeq_ok in Ha. destruct (aeq_ss true [] (inline_call f args) block) as [m'|] eqn:Eq; [|discriminate].
  pose proof (aeq_ss_sym _ _ [] m' eq_refl Eq) as Eq'. cbn [flipm map] in Eq'.
  destruct (aeq_ss_sound true _ _ _ _ st st st1 Eq' (conj (same_mem_refl st) (env_rel_nil _)) Hb) as (sti & Hi & (Hm1 & _)).
  destruct (inline_to_call f args st sti Hok Hco Hi) as (st2 & Hc & (Hm & _)).
  exists st2. split; [exact Hc|]. split; [eapply same_mem_trans; eauto|].
  destruct (exec_list_env _ _ _ Hb) as (extra & Hx & _). exists extra. rewrite Hx, (exec_Call_env _ _ _ _ Hc). reflexivity.
Qed.

(** non-vacuity: the block [for i: x[i+1] = y[i] + 1] and the call [f(2, x[1:3], y)] of the example of
    ProofsCall: the validator accepts, the call runs, the block leaves no binding *)
Example validate_example :
  let n := 1%positive in let dst := 2%positive in let src := 3%positive in let i := 4%positive in
  let x := 5%positive in let y := 6%positive in let j := 7%positive in
  let f := Proc [(n, KSize); (dst, KTensor [Var n] true); (src, KTensor [Var n] false)] [BinOp OGe (Var n) (Int 1)]
                [For i (Int 0) (Var n) [Assign dst [Var i] (BinOp OAdd (Read src [Var i]) (Real (Q2Qc 1)))] false] in
  let args := [Int 2; WindowE x [Interval (Int 1) (Int 3)]; Read y []] in
  let block := [For j (Int 0) (Int 2) [Assign x [BinOp OAdd (Var j) (Int 1)] (BinOp OAdd (Read y [Var j]) (Real (Q2Qc 1)))] false] in
  let st := mkState [(x, BView (mkView 1 0 [(4, 1)])); (y, BView (mkView 2 0 [(2, 1)]))]
                    [(1%positive, [None; None; None; None]); (2%positive, [Some (Q2Qc 5); Some (Q2Qc 7)])] 3%positive [] in
  validate block (Call f args) = true /\ binds_nothing block = true /\
  (exists st', exec (Call f args) st = Ok st') /\ exec_list block st = exec (Call f args) st.
Proof.
  cbv zeta. split; [vm_compute; reflexivity|]. split; [reflexivity|]. split; [eexists; vm_compute; reflexivity|vm_compute; reflexivity].
Qed.

(** non-vacuity of the strict theorems: whole-buffer arguments, block = inlined call up to the loop variable *)
Example strict_example :
  let n := 1%positive in let dst := 2%positive in let src := 3%positive in let i := 4%positive in
  let x := 5%positive in let y := 6%positive in let j := 7%positive in
  let f := Proc [(n, KSize); (dst, KTensor [Var n] false); (src, KTensor [Var n] false)] [BinOp OGe (Var n) (Int 1)]
                [For i (Int 0) (Var n) [Assign dst [Var i] (BinOp OAdd (Read src [Var i]) (Real (Q2Qc 1)))] false] in
  let args := [Int 2; Read x []; Read y []] in
  let block := [For j (Int 0) (Int 2) [Assign x [Var j] (BinOp OAdd (Read y [Var j]) (Real (Q2Qc 1)))] false] in
  let st := mkState [(x, BView (mkView 1 0 [(2, 1)])); (y, BView (mkView 2 0 [(2, 1)]))]
                    [(1%positive, [None; None]); (2%positive, [Some (Q2Qc 5); Some (Q2Qc 7)])] 3%positive [] in
  validate_strict block (Call f args) = true /\
  (exists acts c0, eval_actuals st (proc_args f) args = Ok acts /\ bind_args (proc_args f) acts (with_env [] st) = Ok c0 /\
                   check_preds c0 (proc_preds f) = Ok tt) /\
  exec_list block st = exec (Call f args) st.
Proof.
  cbv zeta. split; [vm_compute; reflexivity|]. split; [|vm_compute; reflexivity].
  eexists. eexists. split; [vm_compute; reflexivity|]. split; vm_compute; reflexivity.
Qed.

(** the comparison never identifies different comparison operators (nor [and] with [or]): the callee
    guard [i == k] against the block guard [i < m], whatever the operands *)
Example cmp_ops_distinguished : forall strict m a b a' b',
  aeq_x strict m (BinOp OEq a b) (BinOp OLt a' b') = false /\
  aeq_x strict m (BinOp OLt a b) (BinOp OEq a' b') = false /\
  aeq_x strict m (BinOp OLe a b) (BinOp OLt a' b') = false /\
  aeq_x strict m (BinOp OGt a b) (BinOp OGe a' b') = false /\
  aeq_x strict m (BinOp OAnd a b) (BinOp OOr a' b') = false.
Proof. intros. cbn [aeq_x binop_eqb andb]. auto 10. Qed.

Example validate_rejects_changed_guard :
  let n := 1%positive in let dst := 2%positive in let src := 3%positive in let k := 4%positive in let i := 5%positive in
  let x := 6%positive in let y := 7%positive in let mm := 8%positive in let j := 9%positive in
  let f := Proc [(n, KSize); (dst, KTensor [Var n] true); (src, KTensor [Var n] true); (k, KIndex)] []
                [For i (Int 0) (Var n) [If (BinOp OEq (Var i) (Var k)) [Assign dst [Var i] (Read src [Var i])] []] false] in
  let args := [Int 8; WindowE y [Interval (Int 0) (Int 8)]; WindowE x [Interval (Int 0) (Int 8)]; Var mm] in
  let blk op := [For j (Int 0) (Int 8) [If (BinOp op (Var j) (Var mm)) [Assign y [Var j] (Read x [Var j])] []] false] in
  validate (blk OEq) (Call f args) = true /\ validate (blk OLt) (Call f args) = false.
Proof. cbv zeta. split; vm_compute; reflexivity. Qed.
