(* C15 — the hand-written model applies exactly the decision rules translated from the current source
   (Gen_Rules.v, regenerated on every run by translator/py2coq_prec.py). *)
From Coq Require Import List Bool Arith PeanoNat.
From Annot Require Import Model ModelSpec ProofsBase Gen_Rules.
Import ListNotations.

(* R1: PrecisionAnalysis.map_e, BinOp.  T.err only arises together with a recorded error; the model stops at the first. *)
Definition apply_binres (r : binres) (a b : expr prec) : res (expr prec) :=
  if b_err r then Err EPrec else
  match b_typ r with
  | TP t => Ok (EBin t (if b_cl r then coerce t a else a) (if b_cr r then coerce t b else b))
  | TErr => Err EPrec
  end.

Lemma gen_binop_model : forall G l r a b, pexpr G l = Ok a -> pexpr G r = Ok b ->
  pexpr G (EBin tt l r) = apply_binres (gen_binop (TP (ty a)) (TP (ty b))) a b.
Proof.
  intros G l r a b Ha Hb. simpl. rewrite Ha, Hb. simpl.
  unfold apply_binres, gen_binop. destruct (ty a), (ty b); reflexivity.
Qed.

(* R2: the call-site check *)
Lemma gen_callcheck_prec : forall d p q, d <> PR -> gen_callcheck d (BP p) (BP q) = negb (prec_eqb (resolve d p) q).
Proof. intros d p q Hd. destruct d; try (exfalso; apply Hd; reflexivity); destruct p, q; reflexivity. Qed.

Lemma gen_callcheck_ctrl_formal : forall d ct, gen_callcheck d BCtrl ct = false.
Proof. intros d ct. destruct d; reflexivity. Qed.

Lemma gen_callcheck_ctrl_actual : forall d p, d <> PR -> gen_callcheck d (BP p) BCtrl = true.
Proof. intros d p Hd. destruct d; try (exfalso; apply Hd; reflexivity); destruct p; reflexivity. Qed.

Lemma gen_callcheck_model : forall d G a args x p m sh fs y b, d <> PR ->
  arg_name a = Some y -> lookup y G = Some b ->
  pcall d G (a :: args) (FNum x p m sh :: fs) =
  if gen_callcheck d (BP p) (BP (b_prec b)) then Err EPrec else pcall d G args fs.
Proof.
  intros d G a args x p m sh fs y b Hd Hn Hl. simpl. rewrite Hn, Hl, (gen_callcheck_prec d p (b_prec b) Hd).
  destruct (prec_eqb (resolve d p) (b_prec b)); reflexivity.
Qed.

(* R3: WindowAnalysis.promote_arg *)
Definition formal_flags (f : farg) : bool * bool :=     (* (sa.type.is_win(), isinstance(sa.type, T.Tensor)) *)
  match f with
  | FNum _ _ _ (ShWin _) => (true, true)
  | FNum _ _ _ (ShDense _) => (false, true)
  | _ => (false, false)
  end.

Lemma gen_promote_model : forall a f,
  wpromote a f =
  match gen_promote (fst (formal_flags f)) (snd (formal_flags f)) (arg_is_win a) with
  | WPromote => match a with ARd x _ (S n) => Ok (AWn x (S n)) | _ => Err ECrash end
  | WReject => Err EWin
  | WKeep => Ok a
  end.
Proof.
  intros a f. destruct f as [x|x p m [|n|n]]; simpl; try reflexivity; destruct (arg_is_win a); reflexivity.
Qed.

(* R4: MemoryAnalysis, call boundary *)
Lemma gen_memcheck_model : forall M G a args x p m sh fs y b,
  arg_name a = Some y -> lookup y G = Some b ->
  mcall M G (a :: args) (FNum x p m sh :: fs) =
  if gen_memcheck (m_sub M) (b_mem b) m then Err EMem else mcall M G args fs.
Proof.
  intros M G a args x p m sh fs y b Hn Hl. simpl. rewrite Hn, Hl. unfold gen_memcheck.
  destruct (m_sub M (b_mem b) m); reflexivity.
Qed.

Lemma model_applies_translated_rules :
  (forall G l r a b, pexpr G l = Ok a -> pexpr G r = Ok b ->
     pexpr G (EBin tt l r) = apply_binres (gen_binop (TP (ty a)) (TP (ty b))) a b) /\
  (forall d G a args x p m sh fs y b, d <> PR -> arg_name a = Some y -> lookup y G = Some b ->
     pcall d G (a :: args) (FNum x p m sh :: fs) =
     if gen_callcheck d (BP p) (BP (b_prec b)) then Err EPrec else pcall d G args fs) /\
  (forall a f, wpromote a f =
     match gen_promote (fst (formal_flags f)) (snd (formal_flags f)) (arg_is_win a) with
     | WPromote => match a with ARd x _ (S n) => Ok (AWn x (S n)) | _ => Err ECrash end
     | WReject => Err EWin
     | WKeep => Ok a
     end) /\
  (forall M G a args x p m sh fs y b, arg_name a = Some y -> lookup y G = Some b ->
     mcall M G (a :: args) (FNum x p m sh :: fs) =
     if gen_memcheck (m_sub M) (b_mem b) m then Err EMem else mcall M G args fs).
Proof.
  split; [exact gen_binop_model|]. split; [exact gen_callcheck_model|]. split; [exact gen_promote_model | exact gen_memcheck_model].
Qed.
