(* C15 — the const-ness / pointer-vs-window part of the C typing judgment.
   Under hyp_proc (front-end invariants at call sites, windows passed as window expressions only, every window
   statement records a name of its source's alias chain as src_buf) the emitted types agree; without it they need
   not (see Props). *)
From Coq Require Import List Bool Arith PeanoNat Lia.
From Annot Require Import Model ModelSpec ProofsBase ProofsPrec ProofsChecks ProofsAccept.
Import ListNotations.

(* ------------------------------------------------------------------ every used name is bound *)
Lemma wargs_ok_at_r2 : forall args fs r, wargs args fs = Ok r ->
  forall k a', nth_error r k = Some a' ->
  exists a f, nth_error args k = Some a /\ nth_error fs k = Some f /\ wpromote a f = Ok a'.
Proof.
  induction args as [|a0 args IH]; intros fs r H k a' Ha.
  - simpl in H. inversion H; subst. destruct k; discriminate.
  - destruct fs as [|f0 fs]; [simpl in H; inversion H; subst; destruct k; discriminate|]. simpl in H.
    destruct (wpromote a0 f0) as [a0'|] eqn:E0; simpl in H; [|discriminate].
    destruct (wargs args fs) as [r'|] eqn:Er; simpl in H; [|discriminate]. inversion H; subst.
    destruct k; simpl in Ha.
    + inversion Ha; subst. exists a0, f0. auto.
    + simpl. eapply IH; eauto.
Qed.

Lemma bound_stmt : forall d sigs G s s1 s2, pstmt d sigs G s = Ok s1 -> wstmt sigs s1 = Ok s2 -> bound_s G s2 = true.
Proof.
  intros d sigs G s. induction s using stmt_ind'; intros s1 s2 P1 P2; simpl in P1.
  - inversion P1; subst. simpl in P2. inversion P2; reflexivity.
  - unfold passign in P1. destruct (pexpr G e); simpl in P1; [|discriminate].
    destruct (lookup x G) eqn:L; simpl in P1; [|discriminate]. inversion P1; subst. simpl in P2. inversion P2; subst.
    simpl. rewrite L. reflexivity.
  - unfold passign in P1. destruct (pexpr G e); simpl in P1; [|discriminate].
    destruct (lookup x G) eqn:L; simpl in P1; [|discriminate]. inversion P1; subst. simpl in P2. inversion P2; subst.
    simpl. rewrite L. reflexivity.
  - destruct (map_res (pstmt d sigs G) b1) as [c1|] eqn:E1; simpl in P1; [|discriminate].
    destruct (map_res (pstmt d sigs G) b2) as [c2|] eqn:E2; simpl in P1; [|discriminate].
    inversion P1; subst. simpl in P2.
    destruct (map_res (wstmt sigs) c1) as [d1|] eqn:F1; simpl in P2; [|discriminate].
    destruct (map_res (wstmt sigs) c2) as [d2|] eqn:F2; simpl in P2; [|discriminate].
    inversion P2; subst. simpl. apply map_res_ok in E1, E2, F1, F2.
    assert (K : forall b c dd, Forall (fun s => forall s1 s2, pstmt d sigs G s = Ok s1 -> wstmt sigs s1 = Ok s2 -> bound_s G s2 = true) b ->
                Forall2 (fun a b => pstmt d sigs G a = Ok b) b c -> Forall2 (fun a b => wstmt sigs a = Ok b) c dd ->
                forallb (bound_s G) dd = true).
    { intros b c dd Hb Hc. revert dd. induction Hc; intros dd Hd; inversion Hd; subst; [reflexivity|].
      inversion Hb; subst. simpl. rewrite (H5 _ _ H1 H4). simpl. apply IHHc; assumption. }
    rewrite (K _ _ _ H E1 F1), (K _ _ _ H0 E2 F2). reflexivity.
  - destruct (map_res (pstmt d sigs G) b) as [c1|] eqn:E1; simpl in P1; [|discriminate].
    inversion P1; subst. simpl in P2.
    destruct (map_res (wstmt sigs) c1) as [d1|] eqn:F1; simpl in P2; [|discriminate].
    inversion P2; subst. simpl. apply map_res_ok in E1, F1.
    assert (K : forall b c dd, Forall (fun s => forall s1 s2, pstmt d sigs G s = Ok s1 -> wstmt sigs s1 = Ok s2 -> bound_s G s2 = true) b ->
                Forall2 (fun a b => pstmt d sigs G a = Ok b) b c -> Forall2 (fun a b => wstmt sigs a = Ok b) c dd ->
                forallb (bound_s G) dd = true).
    { intros b0 c dd Hb Hc. revert dd. induction Hc; intros dd Hd; inversion Hd; subst; [reflexivity|].
      inversion Hb; subst. simpl. rewrite (H4 _ _ H0 H3). simpl. apply IHHc; assumption. }
    apply (K _ _ _ H E1 F1).
  - inversion P1; subst. simpl in P2. inversion P2; reflexivity.
  - destruct (lookup src G) eqn:L; [|discriminate]. inversion P1; subst. simpl in P2. inversion P2; subst. simpl.
    rewrite L. reflexivity.
  - destruct (nth_error sigs f) as [fs|] eqn:Ef; [|discriminate].
    destruct (pcall d G args fs) as [[]|] eqn:Ep; simpl in P1; [|discriminate]. inversion P1; subst.
    simpl in P2. rewrite Ef in P2. destruct (wargs args fs) as [r|] eqn:Ew; simpl in P2; [|discriminate].
    inversion P2; subst. simpl. apply forallb_forall. intros a' Ha'.
    destruct (In_nth_error _ _ Ha') as [k Hk].
    destruct (wargs_ok_at_r2 _ _ _ Ew _ _ Hk) as [a [f0 [Ha [Hf Hpr]]]].
    destruct (arg_name a') as [y|] eqn:Hn; [|reflexivity].
    rewrite (wpromote_name _ _ _ Hpr) in Hn.
    destruct (pcall_ok_bound _ _ _ _ Ep _ _ _ _ Ha Hf Hn) as [b Hb]. rewrite Hb. reflexivity.
Qed.

Lemma accept_bound : forall c prog order aps i q,
  backend_checks c prog order = Ok aps -> In (i, q) aps ->
  forallb (bound_s (env_of (c_dflt c) q)) (p_body q) = true.
Proof.
  intros c prog order aps i q H Hq.
  destruct (backend_ok_proc_r _ _ _ _ _ _ H Hq) as [p [Hi [Hp Hc]]].
  rewrite (check_proc_env _ _ _ _ Hc). set (G := env_of (c_dflt c) p). apply forallb_forall. intros s2 Hs2.
  unfold check_proc in Hc. fold G in Hc.
  destruct (map_res (pstmt (c_dflt c) (sigs_of prog) G) (p_body p)) as [b1|] eqn:E1; simpl in Hc; [|discriminate].
  destruct (map_res (wstmt (sigs_of prog)) b1) as [b2|] eqn:E2; simpl in Hc; [|discriminate].
  destruct (all_res (mstmt (c_mem c) (sigs_of prog) G) b2) as [[]|]; simpl in Hc; [|discriminate].
  destruct (all_res (gstmt (c_mem c) G) b2) as [[]|]; simpl in Hc; [|discriminate].
  inversion Hc; subst. simpl in *. apply map_res_ok in E1, E2.
  destruct (Forall2_in_r _ _ _ _ E2 Hs2) as [s1 [Hs1 P2]].
  destruct (Forall2_in_r _ _ _ _ E1 Hs1) as [s [Hs P1]].
  eapply bound_stmt; eauto.
Qed.

(* ------------------------------------------------------------------ what hyp_s = true gives *)
Section Hyp.
  Variables (A : Type) (sigs : list (list farg)) (G : env) (W : list (list bool)).

  Lemma wr_args_agree : forall D args flags, names_agree G D args = true ->
    wr_args D args flags = map (rootG G) (wn_args args flags).
  Proof.
    intros D args. induction args as [|a args IH]; intros flags H; [reflexivity|].
    destruct flags as [|w flags]; [reflexivity|]. simpl in H. apply andb_true_iff in H. destruct H as [H1 H2].
    simpl. rewrite map_app, (IH _ H2). f_equal.
    destruct (arg_name a) as [x|]; [|reflexivity]. destruct w; [|reflexivity]. simpl.
    apply andb_true_iff in H1. destruct H1 as [H1 _]. apply Nat.eqb_eq in H1. rewrite H1. reflexivity.
  Qed.

  Lemma names_agree_wc : forall D args, names_agree G D args = true ->
    forallb (fun a => match arg_name a with Some x => wc G x | None => true end) args = true.
  Proof.
    intros D args H. unfold names_agree in H. rewrite forallb_forall in *. intros a Ha. specialize (H a Ha).
    destruct (arg_name a); [|reflexivity]. apply andb_true_iff in H. apply H.
  Qed.

  Definition hyp_stmt_spec (s : stmt A) : Prop :=
    forall ok D acc, fst (hyp_s sigs G (ok, D) s) = true ->
      ok = true /\ local_hyp_s sigs G s = true /\
      wr_s W (acc, D) s = (acc ++ map (rootG G) (wn_s W s), snd (hyp_s sigs G (ok, D) s)).

  Lemma hyp_list : forall l, Forall hyp_stmt_spec l ->
    forall ok D acc, fst (fold_left (hyp_s sigs G) l (ok, D)) = true ->
      ok = true /\ forallb (local_hyp_s sigs G) l = true /\
      fold_left (wr_s W) l (acc, D) = (acc ++ map (rootG G) (flat_map (wn_s W) l), snd (fold_left (hyp_s sigs G) l (ok, D))).
  Proof.
    intros l Hl. induction Hl as [|s l Hs Hl IH]; intros ok D acc H; simpl in *.
    - rewrite app_nil_r. auto.
    - destruct (hyp_s sigs G (ok, D) s) as [ok1 D1] eqn:E1.
      destruct (IH ok1 D1 (acc ++ map (rootG G) (wn_s W s)) H) as [Hok1 [Hloc Hwr]].
      assert (F : fst (hyp_s sigs G (ok, D) s) = true) by (rewrite E1; assumption).
      destruct (Hs ok D acc F) as [Hok [Hl1 Hw1]]. rewrite E1 in Hw1. simpl in Hw1.
      split; [assumption|]. split; [rewrite Hl1, Hloc; reflexivity|].
      rewrite Hw1, Hwr, map_app, app_assoc. reflexivity.
  Qed.

  Lemma hyp_stmt : forall s, hyp_stmt_spec s.
  Proof.
    intros s. induction s using stmt_ind'; unfold hyp_stmt_spec; intros ok D acc Hh; simpl in *.
    - rewrite app_nil_r. auto.
    - apply andb_true_iff in Hh. destruct Hh as [Hh H3]. apply andb_true_iff in Hh. destruct Hh as [H1 H2].
      apply Nat.eqb_eq in H2. rewrite H2. auto.
    - apply andb_true_iff in Hh. destruct Hh as [Hh H3]. apply andb_true_iff in Hh. destruct Hh as [H1 H2].
      apply Nat.eqb_eq in H2. rewrite H2. auto.
    - destruct (fold_left (hyp_s sigs G) b1 (ok, D)) as [ok1 D1] eqn:E1.
      destruct (hyp_list b2 H0 ok1 D1 (acc ++ map (rootG G) (flat_map (wn_s W) b1)) Hh) as [Hok1 [Hl2 Hw2]].
      assert (F : fst (fold_left (hyp_s sigs G) b1 (ok, D)) = true) by (rewrite E1; assumption).
      destruct (hyp_list b1 H ok D acc F) as [Hok [Hl1 Hw1]]. rewrite E1 in Hw1. simpl in Hw1.
      split; [assumption|]. split; [rewrite Hl1, Hl2; reflexivity|].
      rewrite Hw1, Hw2, map_app, app_assoc. reflexivity.
    - destruct (hyp_list b H ok D acc Hh) as [Hok [Hl1 Hw1]]. auto.
    - rewrite app_nil_r. auto.
    - rewrite app_nil_r.
      apply andb_true_iff in Hh. destruct Hh as [Hh H5]. apply andb_true_iff in Hh. destruct Hh as [Hh H4].
      apply andb_true_iff in Hh. destruct Hh as [Hh H3]. apply andb_true_iff in Hh. destruct Hh as [H1 H2].
      apply Nat.eqb_eq in H2, H3. split; [assumption|]. split; [|reflexivity].
      rewrite H4, andb_true_r.
      assert (E : Nat.eqb (rootG G sb) (rootG G src) = true) by (apply Nat.eqb_eq; congruence).
      rewrite E. simpl.
      destruct (lookup x G) as [b|]; [|discriminate].
      apply andb_true_iff in H5. destruct H5 as [H5 H6]. rewrite H5. simpl. apply Nat.eqb_eq in H6. apply Nat.eqb_eq. congruence.
    - apply andb_true_iff in Hh. destruct Hh as [H1 H2]. split; [assumption|].
      destruct (nth_error sigs f) as [fs|]; [|discriminate]. apply andb_true_iff in H2. destruct H2 as [H2 H3].
      split; [rewrite H2, (names_agree_wc _ _ H3); reflexivity|]. rewrite (wr_args_agree _ _ _ H3). reflexivity.
  Qed.
End Hyp.

Lemma hyp_proc_facts : forall {A} d sigs W (q : proc A), hyp_proc d sigs q = true ->
  forallb (local_hyp_s sigs (env_of d q)) (p_body q) = true /\
  writes W (p_body q) = map (rootG (env_of d q)) (flat_map (wn_s W) (p_body q)).
Proof.
  intros A d sigs W q H. unfold hyp_proc in H.
  assert (F : Forall (hyp_stmt_spec A sigs (env_of d q) W) (p_body q)) by (apply Forall_forall; intros; apply hyp_stmt).
  destruct (hyp_list A sigs (env_of d q) W (p_body q) F true [] [] H) as [_ [Hl Hw]].
  split; [assumption|]. unfold writes. rewrite Hw. reflexivity.
Qed.

(* ------------------------------------------------------------------ kind: pointer vs window struct, arity, bound names *)
Lemma sites_ok_length : forall G args fs, sites_ok G args fs = true -> length args = length fs.
Proof.
  intros G args. induction args as [|a args IH]; intros fs H; destruct fs as [|f fs]; simpl in H; try discriminate; [reflexivity|].
  apply andb_true_iff in H. destruct H as [_ H]. simpl. f_equal. auto.
Qed.

Section Kind.
  Variables (d : prec) (W : list (list bool)) (sigs : list (list farg)) (NC : list ident) (G : env).

  Lemma carg_obl_kind : forall a w f, site_ok G a f = true -> wsite_ok a f = true ->
    forallb ok_kind (carg_obl d NC G a w f) = true.
  Proof.
    intros a w f S V. destruct f as [fx|fx fp fm fsh]; destruct a as [x rw n|x n|]; simpl in S; try discriminate.
    - reflexivity.
    - (* bare name *)
      simpl. destruct (lookup x G) as [b|] eqn:L; [|destruct fsh; discriminate]. simpl. rewrite andb_true_r.
      unfold name_cty. destruct fsh as [|k|k]; simpl in *.
      + destruct (b_shape b); try (rewrite andb_false_r in S; discriminate). reflexivity.
      + apply negb_true_iff in V. subst rw.
        destruct (b_shape b); simpl in *; try reflexivity. discriminate.
      + subst rw. destruct (b_shape b); simpl in *; try discriminate. rewrite andb_false_r in S. discriminate.
    - (* window expression *)
      destruct fsh as [|k|k]; try discriminate; simpl in V; try discriminate.
      simpl. destruct (lookup x G) as [b|]; [|discriminate]. simpl. rewrite S. reflexivity.
    - destruct fsh; discriminate.
  Qed.

  Lemma call_obl_kind : forall args flags fs, sites_ok G args fs = true -> wsites_ok args fs = true ->
    forallb ok_kind (call_obl d NC G args flags fs) = true.
  Proof.
    induction args as [|a args IH]; intros flags fs H1 H2; [reflexivity|].
    destruct flags as [|w flags]; [reflexivity|]. destruct fs as [|f fs]; [reflexivity|].
    simpl in H1, H2. apply andb_true_iff in H1, H2. destruct H1 as [S1 S2]. destruct H2 as [V1 V2].
    simpl. rewrite forallb_app, (IH _ _ S2 V2), andb_true_r. apply carg_obl_kind; assumption.
  Qed.

  Lemma obl_kind_stmt : forall (s : stmt prec),
    bound_s G s = true -> win_ok_s sigs s = true -> local_hyp_s sigs G s = true ->
    forallb ok_kind (obl_s d W sigs NC G s) = true.
  Proof.
    intros s. induction s using stmt_ind'; intros Hb Hw Hl; simpl in *; try reflexivity.
    - destruct (lookup x G); [reflexivity | discriminate].
    - destruct (lookup x G); [reflexivity | discriminate].
    - apply andb_true_iff in Hb, Hw, Hl. destruct Hb as [B1 B2]. destruct Hw as [W1 W2]. destruct Hl as [L1 L2].
      rewrite forallb_app, !forallb_flat_map.
      assert (K : forall b, Forall (fun s => bound_s G s = true -> win_ok_s sigs s = true -> local_hyp_s sigs G s = true ->
                                            forallb ok_kind (obl_s d W sigs NC G s) = true) b ->
                  forallb (bound_s G) b = true -> forallb (win_ok_s sigs) b = true -> forallb (local_hyp_s sigs G) b = true ->
                  forallb (fun x => forallb ok_kind (obl_s d W sigs NC G x)) b = true).
      { intros b Hf X1 X2 X3. rewrite forallb_forall in *. rewrite Forall_forall in Hf. intros x Hx. auto. }
      rewrite (K _ H B1 W1 L1), (K _ H0 B2 W2 L2). reflexivity.
    - rewrite forallb_flat_map. rewrite forallb_forall in *. rewrite Forall_forall in H. intros x Hx. auto.
    - destruct (lookup src G); [|discriminate]. apply andb_true_iff in Hl. destruct Hl as [_ Hl].
      destruct (lookup x G); [reflexivity | discriminate].
    - destruct (nth_error sigs f) as [fs|]; [|discriminate].
      apply andb_true_iff in Hl. destruct Hl as [Hl _].
      rewrite forallb_app. rewrite (sites_ok_length _ _ _ Hl), Nat.eqb_refl. simpl.
      apply call_obl_kind; assumption.
  Qed.
End Kind.

Theorem accept_kind_partial : forall c prog order aps i q W,
  backend_checks c prog order = Ok aps -> In (i, q) aps ->
  hyp_proc (c_dflt c) (sigs_of prog) q = true ->
  cwt_kind (ctypes (c_dflt c) W (sigs_of prog) q) = true.
Proof.
  intros c prog order aps i q W H Hq Hh.
  destruct (hyp_proc_facts _ _ W _ Hh) as [Hl _].
  assert (Hb := accept_bound _ _ _ _ _ _ H Hq). assert (Hw := accept_win _ _ _ _ _ _ H Hq).
  unfold cwt_kind, ctypes. rewrite forallb_flat_map. unfold win_consistent in Hw.
  rewrite forallb_forall in *. intros s Hs. apply obl_kind_stmt; auto.
Qed.

(* ------------------------------------------------------------------ const-ness *)
Lemma mem_id_In : forall x l, mem_id x l = true <-> In x l.
Proof.
  intros x l. unfold mem_id. rewrite existsb_exists. split.
  - intros [y [Hy He]]. apply Nat.eqb_eq in He. subst. assumption.
  - intros H. exists x. split; [assumption | apply Nat.eqb_refl].
Qed.

Lemma name_const_written : forall G NC x b, lookup x G = Some b -> wc G x = true -> In (rootG G x) NC ->
  name_const G NC x b = false.
Proof.
  intros G NC x b L Hc H. unfold rootG in H at 1. unfold wc in Hc. rewrite L in H, Hc. unfold name_const.
  destruct (b_org b); [|reflexivity|]; apply negb_false_iff; apply mem_id_In; [assumption|].
  apply Nat.eqb_eq in Hc. rewrite Hc. assumption.
Qed.

Section Const.
  Variables (d : prec) (W : list (list bool)) (sigs : list (list farg)) (NC : list ident) (G : env).

  Lemma call_obl_const : forall args flags fs, sites_ok G args fs = true ->
    forallb (fun a => match arg_name a with Some x => wc G x | None => true end) args = true ->
    (forall x, In x (wn_args args flags) -> In (rootG G x) NC) ->
    forallb ok_const (call_obl d NC G args flags fs) = true.
  Proof.
    induction args as [|a args IH]; intros flags fs H1 Hc H2; [reflexivity|].
    destruct flags as [|w flags]; [reflexivity|]. destruct fs as [|f fs]; [reflexivity|].
    simpl in H1. apply andb_true_iff in H1. destruct H1 as [S1 S2].
    simpl in Hc. apply andb_true_iff in Hc. destruct Hc as [C1 C2].
    simpl. rewrite forallb_app. apply andb_true_iff. split.
    2:{ apply IH; [assumption|assumption|]. intros x Hx. apply H2. simpl. apply in_or_app. right. assumption. }
    assert (Hwr : forall x, arg_name a = Some x -> w = true -> In (rootG G x) NC).
    { intros x Hn Hw. apply H2. simpl. rewrite Hn, Hw. left. reflexivity. }
    destruct a as [x rw n|x n|]; simpl in C1; simpl.
    - destruct (lookup x G) as [b|] eqn:L; [|reflexivity]. simpl. rewrite andb_true_r.
      destruct f as [fx|fx fp fm fsh]; simpl in *; [destruct (name_cty G NC x b); reflexivity|].
      rewrite L in S1.
      unfold name_cty. destruct fsh as [|k|k]; simpl.
      + destruct (b_shape b); simpl; try reflexivity;
          (destruct w; simpl; [rewrite (name_const_written G NC x b L C1 (Hwr x eq_refl eq_refl)); reflexivity | apply implb_true_r]).
      + destruct (b_shape b); simpl; try reflexivity;
          (destruct w; simpl; [rewrite (name_const_written G NC x b L C1 (Hwr x eq_refl eq_refl)); reflexivity | apply implb_true_r]).
      + destruct (b_shape b); simpl in *; try reflexivity. rewrite !andb_false_r in S1. discriminate.
    - destruct (lookup x G) as [b|] eqn:L; [|reflexivity]. simpl. rewrite andb_true_r.
      apply andb_true_iff. split.
      + destruct f as [fx|fx fp fm fsh]; simpl; [reflexivity|]. destruct fsh; simpl; try reflexivity. apply eqb_reflx.
      + destruct w; simpl; [rewrite (name_const_written G NC x b L C1 (Hwr x eq_refl eq_refl)); reflexivity | apply implb_true_r].
    - destruct f; reflexivity.
  Qed.

  Lemma obl_const_stmt : forall (s : stmt prec),
    local_hyp_s sigs G s = true -> (forall x, In x (wn_s W s) -> In (rootG G x) NC) ->
    forallb ok_const (obl_s d W sigs NC G s) = true.
  Proof.
    intros s. induction s using stmt_ind'; intros Hl Hwn; simpl in *; try reflexivity.
    - destruct (lookup x G) as [b|] eqn:L; [|reflexivity]. simpl.
      rewrite (name_const_written G NC x b L Hl (Hwn x (or_introl eq_refl))). reflexivity.
    - destruct (lookup x G) as [b|] eqn:L; [|reflexivity]. simpl.
      rewrite (name_const_written G NC x b L Hl (Hwn x (or_introl eq_refl))). reflexivity.
    - apply andb_true_iff in Hl. destruct Hl as [L1 L2]. rewrite forallb_app, !forallb_flat_map.
      assert (K : forall b, Forall (fun s => local_hyp_s sigs G s = true -> (forall x, In x (wn_s W s) -> In (rootG G x) NC) ->
                                            forallb ok_const (obl_s d W sigs NC G s) = true) b ->
                  forallb (local_hyp_s sigs G) b = true -> (forall x, In x (flat_map (wn_s W) b) -> In (rootG G x) NC) ->
                  forallb (fun x => forallb ok_const (obl_s d W sigs NC G x)) b = true).
      { intros b Hf X1 X2. rewrite forallb_forall in *. rewrite Forall_forall in Hf. intros y Hy.
        apply Hf; auto. intros x Hx. apply X2. apply in_flat_map. exists y. auto. }
      rewrite (K _ H L1), (K _ H0 L2); [reflexivity | |]; intros x Hx; apply Hwn; apply in_or_app; auto.
    - rewrite forallb_flat_map. rewrite forallb_forall in *. rewrite Forall_forall in H. intros y Hy.
      apply H; auto. intros x Hx. apply Hwn. apply in_flat_map. exists y. auto.
    - apply andb_true_iff in Hl. destruct Hl as [Hl L3]. apply andb_true_iff in Hl. destruct Hl as [L1 L2].
      destruct (lookup src G) as [bs|] eqn:Ls; [|reflexivity].
      destruct (lookup x G) as [bx|] eqn:Lx; [|discriminate]. simpl. rewrite andb_true_r.
      apply andb_true_iff in L3. destruct L3 as [L3 L5]. apply andb_true_iff in L3. destruct L3 as [L3 L4].
      apply Nat.eqb_eq in L1, L4.
      assert (Ex : name_const G NC x bx = negb (mem_id (rootG G src) NC)).
      { unfold name_const. destruct (b_org bx); try discriminate. rewrite L4, L1. reflexivity. }
      rewrite Ex. unfold wc in L2. rewrite Ls in L2. unfold rootG at 1. rewrite Ls. unfold name_const. clear Ex.
      destruct (b_org bs); simpl; try reflexivity.
      + destruct (mem_id src NC); reflexivity.
      + apply Nat.eqb_eq in L2. rewrite L2. destruct (mem_id (b_root bs) NC); reflexivity.
    - destruct (nth_error sigs f) as [fs|]; [|reflexivity].
      apply andb_true_iff in Hl. destruct Hl as [Hl1 Hl2].
      rewrite forallb_app. apply andb_true_iff. split; [destruct (Nat.eqb _ _); reflexivity|].
      apply call_obl_const; assumption.
  Qed.
End Const.

Theorem accept_const_partial : forall c prog order aps i q W,
  backend_checks c prog order = Ok aps -> In (i, q) aps ->
  hyp_proc (c_dflt c) (sigs_of prog) q = true ->
  cwt_const (ctypes (c_dflt c) W (sigs_of prog) q) = true.
Proof.
  intros c prog order aps i q W H Hq Hh.
  destruct (hyp_proc_facts _ _ W _ Hh) as [Hl Hw].
  unfold cwt_const, ctypes. rewrite forallb_flat_map. rewrite Hw.
  rewrite forallb_forall in *. intros s Hs. apply obl_const_stmt; auto.
  intros x Hx. apply in_map. apply in_flat_map. exists s. auto.
Qed.

Lemma accept_welltyped_partial :
  forall c prog order aps i q,
    c_dflt c <> PR ->
    backend_checks c prog order = Ok aps -> In (i, q) aps ->
    hyp_proc (c_dflt c) (sigs_of prog) q = true ->
    cwt (ctypes (c_dflt c) (build_W prog) (sigs_of prog) q) = true.
Proof.
  intros c prog order aps i q Hd H Hq Hh. unfold cwt.
  rewrite (accept_prec _ _ _ _ _ _ _ Hd H Hq), (accept_kind_partial _ _ _ _ _ _ _ H Hq Hh),
          (accept_const_partial _ _ _ _ _ _ _ H Hq Hh). reflexivity.
Qed.
