(* C15 — Compile output is valid C; inconsistent annotations are rejected.
   Property theorems only.  All statements are about the modelled decision procedures of exo's backend
   (Model.v: PrecisionAnalysis, WindowAnalysis, MemoryAnalysis call rule, can_read/write/reduce gating, const-ness
   of buffers and window structs) and about cwt, our typing judgment for the emitted C at the level of
   pointer / window-struct / const / precision types.  Nothing here is about gcc. *)
From Coq Require Import List Bool Arith PeanoNat.
From Annot Require Import Model ModelSpec ProofsBase ProofsPrec ProofsChecks ProofsAccept ProofsConst ProofsExamples.
Import ListNotations.

(* ------------------------------------------------------------------ rejection: one theorem per clause.
   Common setting: procedure number i of the program is analysed (In i order), s occurs (at any nesting depth)
   in its body, G is the procedure's environment (declared precision / memory / shape of every name). *)

(* an expression of an assignment or reduction mixes two different resolved precisions (typed literals, reads) *)
Theorem C15_reject_mixed_expr :
  forall c prog order i p,
    In i order -> nth_error prog i = Some p ->
    forall s e q1 q2,
    occurs s (p_body p) -> rhs_of s = Some e ->
    In q1 (leafs (env_of (c_dflt c) p) e) -> In q2 (leafs (env_of (c_dflt c) p) e) -> q1 <> q2 ->
    exists er, backend_checks c prog order = Err er.
Proof. exact reject_mixed_expr. Qed.
Print Assumptions C15_reject_mixed_expr.

(* a call passes a buffer of precision p to a numeric formal whose (default-resolved) precision differs *)
Theorem C15_reject_call_prec :
  forall c prog order i p,
    In i order -> nth_error prog i = Some p ->
    forall f args fs k a x fx fp fm fsh b,
    occurs (SCall f args) (p_body p) -> nth_error (sigs_of prog) f = Some fs ->
    nth_error args k = Some a -> nth_error fs k = Some (FNum fx fp fm fsh) ->
    arg_name a = Some x -> lookup x (env_of (c_dflt c) p) = Some b -> b_prec b <> resolve (c_dflt c) fp ->
    exists er, backend_checks c prog order = Err er.
Proof. exact reject_call_prec. Qed.
Print Assumptions C15_reject_call_prec.

(* a call passes a buffer whose memory is not a subclass of the formal's memory *)
Theorem C15_reject_call_mem :
  forall c prog order i p,
    In i order -> nth_error prog i = Some p ->
    forall f args fs k a x fx fp fm fsh b,
    occurs (SCall f args) (p_body p) -> nth_error (sigs_of prog) f = Some fs ->
    nth_error args k = Some a -> nth_error fs k = Some (FNum fx fp fm fsh) ->
    arg_name a = Some x -> lookup x (env_of (c_dflt c) p) = Some b -> m_sub (c_mem c) (b_mem b) fm = false ->
    exists er, backend_checks c prog order = Err er.
Proof. exact reject_call_mem. Qed.
Print Assumptions C15_reject_call_mem.

(* a window (window expression, or a name whose read is typed as a window) is passed where a dense tensor is required *)
Theorem C15_reject_window_for_dense :
  forall c prog order i p,
    In i order -> nth_error prog i = Some p ->
    forall f args fs k a fx fp fm n,
    occurs (SCall f args) (p_body p) -> nth_error (sigs_of prog) f = Some fs ->
    nth_error args k = Some a -> nth_error fs k = Some (FNum fx fp fm (ShDense n)) ->
    arg_is_win a = true ->
    exists er, backend_checks c prog order = Err er.
Proof. exact reject_window_for_dense. Qed.
Print Assumptions C15_reject_window_for_dense.

(* direct access to a memory that cannot be read / written / reduced to *)
Theorem C15_reject_unreadable :
  forall c prog order i p,
    In i order -> nth_error prog i = Some p ->
    forall s e y b,
    occurs s (p_body p) -> rhs_of s = Some e -> In y (reads e) ->
    lookup y (env_of (c_dflt c) p) = Some b -> m_read (c_mem c) (b_mem b) = false ->
    exists er, backend_checks c prog order = Err er.
Proof. exact reject_gate_read. Qed.
Print Assumptions C15_reject_unreadable.

Theorem C15_reject_unwritable :
  forall c prog order i p,
    In i order -> nth_error prog i = Some p ->
    forall x t e b,
    occurs (SAssign x t e) (p_body p) ->
    lookup x (env_of (c_dflt c) p) = Some b -> m_write (c_mem c) (b_mem b) = false ->
    exists er, backend_checks c prog order = Err er.
Proof. exact reject_gate_write. Qed.
Print Assumptions C15_reject_unwritable.

Theorem C15_reject_unreducible :
  forall c prog order i p,
    In i order -> nth_error prog i = Some p ->
    forall x t e b,
    occurs (SReduce x t e) (p_body p) ->
    lookup x (env_of (c_dflt c) p) = Some b -> m_reduce (c_mem c) (b_mem b) = false ->
    exists er, backend_checks c prog order = Err er.
Proof. exact reject_gate_reduce. Qed.
Print Assumptions C15_reject_unreducible.

(* ------------------------------------------------------------------ acceptance *)

(* PRECISION part of cwt: in every analysed procedure every emitted arithmetic expression is uniformly typed with a
   resolved precision, every assignment's type annotation (which drives the inserted cast) is the target's declared
   precision, and every call argument has the element type of its parameter.  (W: any written-table.) *)
Theorem C15_accept_welltyped_prec :
  forall c prog order aps i q W,
    c_dflt c <> PR ->
    backend_checks c prog order = Ok aps -> In (i, q) aps ->
    cwt_prec (ctypes (c_dflt c) W (sigs_of prog) q) = true.
Proof. exact accept_prec. Qed.
Print Assumptions C15_accept_welltyped_prec.

(* MEMORY part: every buffer passed at a call lives in a subclass of the formal's memory; every direct read,
   write and reduction is allowed by the buffer's memory *)
Theorem C15_accept_mem_consistent :
  forall c prog order aps i q,
    backend_checks c prog order = Ok aps -> In (i, q) aps -> mem_consistent c (sigs_of prog) q = true.
Proof. exact accept_mem. Qed.
Print Assumptions C15_accept_mem_consistent.

(* WINDOW part, as far as WindowAnalysis sees it: after the analysis a window formal receives an argument typed as a
   window and a dense formal one that is not *)
Theorem C15_accept_win_consistent :
  forall c prog order aps i q,
    backend_checks c prog order = Ok aps -> In (i, q) aps -> win_consistent (sigs_of prog) q = true.
Proof. exact accept_win. Qed.
Print Assumptions C15_accept_win_consistent.

(* POINTER-vs-WINDOW-STRUCT part of cwt: false of the faithful model in general ... *)
Theorem C15_accept_welltyped_kind_refuted :
  exists c prog order aps i q,
    c_dflt c <> PR /\ backend_checks c prog order = Ok aps /\ In (i, q) aps /\
    cwt_kind (ctypes (c_dflt c) (build_W prog) (sigs_of prog) q) = false /\
    (* the witness: `struct exo_win_1f32` passed for `float *` (set_window leaves the reads of the argument typed as
       a dense tensor, so WindowAnalysis neither rejects nor promotes) *)
    In (OArg (CWin 1 F32 false) (CPtr F32 false)) (ctypes (c_dflt c) (build_W prog) (sigs_of prog) q).
Proof. exact kind_refuted. Qed.
Print Assumptions C15_accept_welltyped_kind_refuted.

(* ... and true when the recorded window flags are the declared ones and the front-end invariants hold (hyp_proc) *)
Theorem C15_accept_welltyped_kind_partial :
  forall c prog order aps i q W,
    backend_checks c prog order = Ok aps -> In (i, q) aps ->
    hyp_proc (c_dflt c) (sigs_of prog) q = true ->
    cwt_kind (ctypes (c_dflt c) W (sigs_of prog) q) = true.
Proof. exact accept_kind_partial. Qed.
Print Assumptions C15_accept_welltyped_kind_partial.

(* CONST part of cwt: refuted (a window passed by name) ... *)
Theorem C15_accept_welltyped_const_refuted_window_by_name :
  exists c prog order aps i q,
    c_dflt c <> PR /\ backend_checks c prog order = Ok aps /\ In (i, q) aps /\
    cwt_const (ctypes (c_dflt c) (build_W prog) (sigs_of prog) q) = false /\
    (* `struct exo_win_1f32` (window written by the caller) passed by name for `struct exo_win_1f32c` *)
    In (OArg (CWin 1 F32 false) (CWin 1 F32 true)) (ctypes (c_dflt c) (build_W prog) (sigs_of prog) q).
Proof. exact const_refuted_window_by_name. Qed.
Print Assumptions C15_accept_welltyped_const_refuted_window_by_name.

(* (the second refutation, a window of a window variable after inline, is gone: since the fix "a window of a window
   variable must take its const-ness from the root buffer" the former witness is well-typed and within hyp_proc) *)
Theorem C15_accept_welltyped_window_of_window :
  exists aps q,
    backend_checks (cfg M_dram) d4_prog d4_order = Ok aps /\ In (0, q) aps /\
    hyp_proc F32 (sigs_of d4_prog) q = true /\
    cwt (ctypes F32 (build_W d4_prog) (sigs_of d4_prog) q) = true /\
    In (OLval false) (ctypes F32 (build_W d4_prog) (sigs_of d4_prog) q).
Proof. exact window_of_window_welltyped. Qed.
Print Assumptions C15_accept_welltyped_window_of_window.

(* ... and true for procedures that pass windows only as window expressions and whose window statements record a
   name of the source's alias chain as src_buf (hyp_proc; windows of windows included): every assignment target is non-const, every argument has exactly the
   parameter's const-ness (struct) or a compatible one (pointer), every window struct literal is initialised from a
   pointer it may hold *)
Theorem C15_accept_welltyped_const_partial :
  forall c prog order aps i q W,
    backend_checks c prog order = Ok aps -> In (i, q) aps ->
    hyp_proc (c_dflt c) (sigs_of prog) q = true ->
    cwt_const (ctypes (c_dflt c) W (sigs_of prog) q) = true.
Proof. exact accept_const_partial. Qed.
Print Assumptions C15_accept_welltyped_const_partial.

(* the three parts together *)
Theorem C15_accept_welltyped_partial :
  forall c prog order aps i q,
    c_dflt c <> PR ->
    backend_checks c prog order = Ok aps -> In (i, q) aps ->
    hyp_proc (c_dflt c) (sigs_of prog) q = true ->
    cwt (ctypes (c_dflt c) (build_W prog) (sigs_of prog) q) = true.
Proof. exact accept_welltyped_partial. Qed.
Print Assumptions C15_accept_welltyped_partial.
