(* Driver for the extracted C15 model (coq/Annot): one s-expression case per input line, one answer line per case.
   Hand-written glue (trusted): s-expression reader, conversion to the extracted datatypes, printing.  Every verdict
   printed is computed by the extracted functions backend_checks / ctypes / cwt_* / mem_consistent / hyp_proc.

   input : (case ID (mems ((0|1 ...) ...) ((r w red) ...)) (order (i ...)) (procs (PROC ...)))
   output: ID ok  cwtp=b cwtk=b cwtc=b mem=b hyp=b declwin=b tags=t1,t2,...
           ID err CLASS POS          (POS = position in `order` of the procedure whose analysis failed)
           ID bad MESSAGE            (input not understood)                                                   *)
open Annot_model

type sx = A of string | L of sx list

let parse (s : string) : sx =
  let n = String.length s in
  let pos = ref 0 in
  let rec skip () = if !pos < n && (s.[!pos] = ' ' || s.[!pos] = '\t' || s.[!pos] = '\n' || s.[!pos] = '\r') then (incr pos; skip ()) in
  let rec rd () =
    skip ();
    if !pos >= n then failwith "eof"
    else if s.[!pos] = '(' then begin
      incr pos;
      let items = ref [] in
      let rec loop () =
        skip ();
        if !pos >= n then failwith "unclosed"
        else if s.[!pos] = ')' then incr pos
        else (items := rd () :: !items; loop ()) in
      loop ();
      L (List.rev !items)
    end else begin
      let st = !pos in
      while !pos < n && not (List.mem s.[!pos] [' '; '\t'; '\n'; '\r'; '('; ')']) do incr pos done;
      A (String.sub s st (!pos - st))
    end in
  rd ()

let rec nat_of_int (i : int) : nat = if i <= 0 then O else S (nat_of_int (i - 1))
let rec int_of_nat (n : nat) : int = match n with O -> 0 | S m -> 1 + int_of_nat m
let atom = function A s -> s | _ -> failwith "atom expected"
let lst = function L l -> l | _ -> failwith "list expected"
let nat_of x = nat_of_int (int_of_string (atom x))

let prec_of = function
  | A "R" -> PR | A "f16" -> F16 | A "f32" -> F32 | A "f64" -> F64 | A "i8" -> I8 | A "ui8" -> UI8
  | A "ui16" -> UI16 | A "i32" -> I32 | _ -> failwith "prec"

let rec expr_of = function
  | L [A "const"; t] -> EConst (prec_of t)
  | L [A "read"; x] -> ERead ((), nat_of x)
  | L [A "usub"; e] -> EUSub ((), expr_of e)
  | L [A "bin"; l; r] -> EBin ((), expr_of l, expr_of r)
  | L (A "ext" :: args) -> EExt ((), List.map expr_of args)
  | _ -> failwith "expr"

let carg_of = function
  | L [A "rd"; x; w; n] -> ARd (nat_of x, (atom w = "1"), nat_of n)
  | L [A "wn"; x; n] -> AWn (nat_of x, nat_of n)
  | L [A "ctl"] -> ACtl
  | _ -> failwith "carg"

let rec stmt_of = function
  | L [A "pass"] -> SPass
  | L [A "assign"; x; e] -> SAssign (nat_of x, (), expr_of e)
  | L [A "reduce"; x; e] -> SReduce (nat_of x, (), expr_of e)
  | L [A "if"; b1; b2] -> SIf (List.map stmt_of (lst b1), List.map stmt_of (lst b2))
  | L [A "for"; b] -> SFor (List.map stmt_of (lst b))
  | L [A "alloc"; x; p; m; n] -> SAlloc (nat_of x, prec_of p, nat_of m, nat_of n)
  | L [A "win"; x; src; n; sb] -> SWin (nat_of x, nat_of src, nat_of n, nat_of sb)
  | L [A "call"; f; args] -> SCall (nat_of f, List.map carg_of (lst args))
  | _ -> failwith "stmt"

let shape_of = function
  | A "s" -> ShScalar
  | L [A "d"; n] -> ShDense (nat_of n)
  | L [A "w"; n] -> ShWin (nat_of n)
  | _ -> failwith "shape"

let farg_of = function
  | L [A "ctrl"; x] -> FCtrl (nat_of x)
  | L [A "num"; x; p; m; sh] -> FNum (nat_of x, prec_of p, nat_of m, shape_of sh)
  | _ -> failwith "farg"

let proc_of = function
  | L [A "proc"; args; body] -> { p_args = List.map farg_of (lst args); p_body = List.map stmt_of (lst body) }
  | _ -> failwith "proc"

let err_name = function
  | EPrec -> "prec" | EWin -> "win" | EMem -> "mem" | ERd -> "read" | EWr -> "write" | ERed -> "reduce" | ECrash -> "crash"

let b2s b = if b then "1" else "0"

let tag_of (o : oblig) : string option =
  if ok_prec o && ok_kind o && ok_const o then None else
  match o with
  | OArg (CWin (_, _, false), CWin (_, _, true)) when ok_kind o && ok_prec o -> Some "win-by-name-nonconst"
  | OArg (CWin (_, _, true), CWin (_, _, false)) when ok_kind o && ok_prec o -> Some "win-by-name-const"
  | OArg (CWin (_, _, _), CPtr (_, _)) -> Some "window-for-pointer"
  | OArg (CPtr (_, _), CWin (_, _, _)) -> Some "pointer-for-window"
  | OArg (CPtr (_, true), CPtr (_, false)) when ok_prec o -> Some "const-pointer-arg"
  | OArg (_, _) when not (ok_prec o) -> Some "arg-precision"
  | OArg (_, _) -> Some "arg-kind"
  | OLval _ -> Some "const-lvalue"
  | OInit (_, _) -> Some "const-init"
  | OExpr _ -> Some "expr-precision"
  | OAsg (_, _) -> Some "assign-annotation"
  | OCrash -> Some "crash"

let run_case (line : string) : string =
  match parse line with
  | L [A "case"; A id; L [A "mems"; sub; caps]; L [A "order"; order]; L [A "procs"; procs]] ->
    (try
      let subm = Array.of_list (List.map (fun r -> Array.of_list (List.map (fun x -> atom x = "1") (lst r))) (lst sub)) in
      let capm = Array.of_list (List.map (fun r -> Array.of_list (List.map (fun x -> atom x = "1") (lst r))) (lst caps)) in
      let nm = Array.length subm in
      let geti n = int_of_nat n in
      let md = {
        m_sub = (fun a b -> let a = geti a and b = geti b in a < nm && b < nm && subm.(a).(b));
        m_read = (fun a -> let a = geti a in a < nm && capm.(a).(0));
        m_write = (fun a -> let a = geti a in a < nm && capm.(a).(1));
        m_reduce = (fun a -> let a = geti a in a < nm && capm.(a).(2)) } in
      let cfg = { c_dflt = F32; c_mem = md } in
      let prog = List.map proc_of (lst procs) in
      let order = List.map nat_of (lst order) in
      let sigs = sigs_of prog in
      let w = build_W prog in
      (* position of the failing procedure: analyse one by one *)
      let rec first_err pos = function
        | [] -> None
        | i :: rest ->
          (match backend_checks cfg prog [i] with
           | Err e -> Some (pos, e)
           | Ok _ -> first_err (pos + 1) rest) in
      (match backend_checks cfg prog order with
       | Err e ->
         let pos = (match first_err 0 order with Some (p, _) -> p | None -> -1) in
         Printf.sprintf "%s err %s %d" id (err_name e) pos
       | Ok aps ->
         let obl = List.concat_map (fun (_, ap) -> ctypes F32 w sigs ap) aps in
         let memok = List.for_all (fun (_, ap) -> mem_consistent cfg sigs ap) aps in
         let hyp = List.for_all (fun (i, _) -> hyp_proc F32 sigs (List.nth prog (int_of_nat i))) aps in
         let tags = List.sort_uniq compare (List.filter_map tag_of obl) in
         let declwin = List.exists (fun (i, _) -> decl_window_for_dense F32 sigs (List.nth prog (int_of_nat i))) aps in
         Printf.sprintf "%s ok cwtp=%s cwtk=%s cwtc=%s mem=%s hyp=%s declwin=%s tags=%s" id
           (b2s (cwt_prec obl)) (b2s (cwt_kind obl)) (b2s (cwt_const obl)) (b2s memok) (b2s hyp) (b2s declwin)
           (String.concat "," tags))
    with Failure m -> Printf.sprintf "%s bad %s" id m
       | Not_found -> Printf.sprintf "%s bad not_found" id
       | Invalid_argument m -> Printf.sprintf "%s bad %s" id m)
  | _ -> "? bad case-syntax"

let () =
  (try
    while true do
      let line = input_line stdin in
      if String.trim line <> "" then begin
        let out = (try run_case line with Failure m -> "? bad " ^ m) in
        print_string out; print_newline ()
      end
    done
  with End_of_file -> ())
