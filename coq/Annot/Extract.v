(* Extraction of the executable C15 model to OCaml (ExtrOcamlBasic only), for the correspondence harness. *)
Require Extraction.
Require Import ExtrOcamlBasic.
From Annot Require Import Model.
Extraction Language OCaml.
Extraction "annot_model.ml"
  backend_checks build_W sigs_of ctypes cwt_prec cwt_kind cwt_const ok_prec ok_kind ok_const mem_consistent hyp_proc
  check_proc env_of writes decl_window_for_dense.
