(* C15 — concrete procedures (exported from the real front end by harness/c15_export.py from harness/c15_corpus.py):
   witnesses for the _refuted theorems and satisfiability examples for the hypotheses of every implication. *)
From Coq Require Import List Bool Arith PeanoNat.
From Annot Require Import Model ModelSpec ProofsBase ProofsPrec ProofsChecks ProofsAccept ProofsConst.
Import ListNotations.

Definition mem_table (sub : list (list bool)) (caps : list (bool * bool * bool)) : memdata :=
  {| m_sub := fun a b => nth b (nth a sub []) false;
     m_read := fun a => fst (fst (nth a caps (false, false, false)));
     m_write := fun a => snd (fst (nth a caps (false, false, false)));
     m_reduce := fun a => snd (nth a caps (false, false, false)) |}.

Definition M_dram : memdata := mem_table [[true]] [(true, true, true)].
Definition cfg (M : memdata) : config := {| c_dflt := F32; c_mem := M |}.

(* ---------------- D2: a written window passed by name to a callee that only reads its window formal -------- *)
Definition d2_prog : program :=
  [ {| p_args := [FNum 0 PR 0 ShScalar; FNum 1 PR 0 (ShWin 1)];
       p_body := [SAssign 0 tt (ERead tt 1)] |};                                  (* rd(s, src): s = src[0] *)
    {| p_args := [FNum 2 PR 0 (ShWin 1); FNum 3 PR 0 ShScalar];
       p_body := [SAssign 2 tt (EConst PR); SCall 0 [ARd 3 false 0; ARd 2 true 1]] |} ].   (* foo: y[0] = 1.0; rd(s, y) *)
Definition d2_order : list nat := [1; 0].

Lemma d2_witness : exists aps q,
  backend_checks (cfg M_dram) d2_prog d2_order = Ok aps /\ In (1, q) aps /\
  cwt_const (ctypes F32 (build_W d2_prog) (sigs_of d2_prog) q) = false /\
  cwt_prec (ctypes F32 (build_W d2_prog) (sigs_of d2_prog) q) = true /\
  cwt_kind (ctypes F32 (build_W d2_prog) (sigs_of d2_prog) q) = true.
Proof. eexists. eexists. split; [vm_compute; reflexivity|]. split; [left; reflexivity|]. vm_compute. auto. Qed.

(* the offending obligation: struct exo_win_1f32 passed for struct exo_win_1f32c *)
Example d2_obligation : exists aps q, backend_checks (cfg M_dram) d2_prog d2_order = Ok aps /\ In (1, q) aps /\
  In (OArg (CWin 1 F32 false) (CWin 1 F32 true)) (ctypes F32 (build_W d2_prog) (sigs_of d2_prog) q).
Proof. eexists. eexists. split; [vm_compute; reflexivity|]. split; [left; reflexivity|]. vm_compute. auto 10. Qed.

(* ---------------- former D4 (repaired): window of a window variable whose recorded src_buf is the intermediate
   window.  The struct's const-ness now comes from the root buffer (_win_root), so the procedure is well-typed and
   satisfies hyp_proc: the partial theorem covers it. *)
Definition d4_prog : program :=
  [ {| p_args := [FNum 0 PR 0 (ShDense 2)];
       p_body := [SWin 1 0 2 0; SWin 2 1 1 1; SAssign 2 tt (EConst PR)] |} ].  (* dst = y[..]; w = dst[..] (src_buf dst); w[2] = 5.0 *)
Definition d4_order : list nat := [0].

Lemma window_of_window_welltyped : exists aps q,
  backend_checks (cfg M_dram) d4_prog d4_order = Ok aps /\ In (0, q) aps /\
  hyp_proc F32 (sigs_of d4_prog) q = true /\
  cwt (ctypes F32 (build_W d4_prog) (sigs_of d4_prog) q) = true /\
  In (OLval false) (ctypes F32 (build_W d4_prog) (sigs_of d4_prog) q).
Proof. eexists. eexists. split; [vm_compute; reflexivity|]. split; [left; reflexivity|]. vm_compute. auto 10. Qed.

(* ---------------- D5: stale window flag on a call argument after set_window -------------------------------- *)
Definition d5_prog : program :=
  [ {| p_args := [FNum 0 PR 0 (ShDense 1)]; p_body := [SAssign 0 tt (EConst PR)] |};          (* dn(a: R[4]) *)
    {| p_args := [FNum 1 PR 0 (ShWin 1)]; p_body := [SCall 0 [ARd 1 false 1]] |} ].           (* foo(x: [R][4]): dn(x), read typed dense *)
Definition d5_order : list nat := [0; 1].

Lemma d5_witness : exists aps q,
  backend_checks (cfg M_dram) d5_prog d5_order = Ok aps /\ In (1, q) aps /\
  cwt_kind (ctypes F32 (build_W d5_prog) (sigs_of d5_prog) q) = false /\
  In (OArg (CWin 1 F32 false) (CPtr F32 false)) (ctypes F32 (build_W d5_prog) (sigs_of d5_prog) q).
Proof. eexists. eexists. split; [vm_compute; reflexivity|]. split; [right; left; reflexivity|]. vm_compute. auto 10. Qed.

(* a window (as declared) reaches a dense formal although the analyses accept: the faithful model shows it *)
Example d5_window_reaches_dense_formal :
  exists b, lookup 1 (env_of F32 (nth 1 d5_prog {| p_args := []; p_body := [] |})) = Some b /\ b_shape b = ShWin 1.
Proof. eexists. split; vm_compute; reflexivity. Qed.

(* ---------------- an accepted three-level chain: hypotheses of the acceptance theorems are satisfiable -------- *)
Definition M_dram_stack : memdata := mem_table [[true; false]; [true; true]] [(true, true, true); (true, true, true)].
Definition ok_prog : program :=
  [ {| p_args := [FNum 0 F64 0 ShScalar; FNum 1 F64 0 (ShWin 1); FNum 2 F64 0 (ShWin 1)];
       p_body := [SAssign 2 tt (EBin tt (EBin tt (ERead tt 1) (EConst PR)) (ERead tt 0))] |};
    {| p_args := [FNum 3 F64 0 (ShDense 2); FNum 4 F64 0 ShScalar];
       p_body := [SAlloc 5 F64 1 1;
                  SAssign 5 tt (EConst PR);
                  SCall 0 [ARd 4 false 0; AWn 3 1; ARd 5 false 1];
                  SCall 0 [ARd 4 false 0; ARd 5 false 1; AWn 3 1]] |};
    {| p_args := [FNum 6 F64 0 (ShDense 2)];
       p_body := [SAlloc 7 F64 0 0;
                  SAssign 7 tt (EConst PR);
                  SCall 1 [ARd 6 false 2; ARd 7 false 0]] |} ].
Definition ok_order : list nat := [2; 0; 1].

Example accept_hyps_satisfiable : exists aps,
  backend_checks (cfg M_dram_stack) ok_prog ok_order = Ok aps /\ c_dflt (cfg M_dram_stack) <> PR /\
  (forall i q, In (i, q) aps -> hyp_proc F32 (sigs_of ok_prog) q = true) /\
  (forall i q, In (i, q) aps -> cwt (ctypes F32 (build_W ok_prog) (sigs_of ok_prog) q) = true).
Proof.
  eexists. split; [vm_compute; reflexivity|]. split; [discriminate|].
  split; intros i q [H|[H|[H|[]]]]; inversion H; subst; vm_compute; reflexivity.
Qed.

(* ---------------- the rejection clauses: hypotheses satisfiable, conclusion observed ------------------------- *)
Definition rej_mixed_prog : program :=
  [ {| p_args := [FNum 0 F32 0 (ShDense 1); FNum 1 F64 0 (ShDense 1)];
       p_body := [SAssign 0 tt (EBin tt (ERead tt 0) (ERead tt 1))] |} ].            (* x[0] = x[1] + y[1], x: f32, y: f64 *)

Example reject_mixed_satisfiable :
  let p := nth 0 rej_mixed_prog {| p_args := []; p_body := [] |} in
  let e := EBin tt (ERead tt 0) (ERead tt 1) in
  In 0 [0] /\ nth_error rej_mixed_prog 0 = Some p /\ occurs (SAssign 0 tt e) (p_body p) /\
  rhs_of (SAssign 0 tt e) = Some e /\ In F32 (leafs (env_of F32 p) e) /\ In F64 (leafs (env_of F32 p) e) /\ F32 <> F64 /\
  backend_checks (cfg M_dram) rej_mixed_prog [0] = Err EPrec.
Proof.
  cbv zeta. repeat split; try (vm_compute; auto; fail); try discriminate.
  constructor. left. reflexivity.
Qed.

Definition rej_call_prec_prog : program :=
  [ {| p_args := [FNum 0 F32 0 (ShDense 1)]; p_body := [SAssign 0 tt (EConst PR)] |};
    {| p_args := [FNum 1 F64 0 (ShDense 1)]; p_body := [SCall 0 [ARd 1 false 1]] |} ].

Example reject_call_prec_satisfiable :
  let p := nth 1 rej_call_prec_prog {| p_args := []; p_body := [] |} in
  exists b, nth_error rej_call_prec_prog 1 = Some p /\ occurs (SCall 0 [ARd 1 false 1]) (p_body p) /\
  nth_error (sigs_of rej_call_prec_prog) 0 = Some [FNum 0 F32 0 (ShDense 1)] /\
  lookup 1 (env_of F32 p) = Some b /\ b_prec b <> resolve F32 F32 /\
  backend_checks (cfg M_dram) rej_call_prec_prog [1; 0] = Err EPrec.
Proof.
  cbv zeta. eexists. split; [reflexivity|]. split; [constructor; left; reflexivity|]. split; [reflexivity|].
  split; [vm_compute; reflexivity|]. split; [simpl; discriminate | vm_compute; reflexivity].
Qed.

Definition M_stack_first : memdata := mem_table [[true; true]; [false; true]] [(true, true, true); (true, true, true)].
Definition rej_call_mem_prog : program :=
  [ {| p_args := [FNum 0 F32 0 (ShDense 1)]; p_body := [SAssign 0 tt (EConst PR)] |};       (* formal @ DRAM_STACK (mem 0) *)
    {| p_args := [FNum 1 F32 1 (ShDense 1)]; p_body := [SCall 0 [ARd 1 false 1]] |} ].     (* actual @ DRAM (mem 1) *)

Example reject_call_mem_satisfiable :
  let p := nth 1 rej_call_mem_prog {| p_args := []; p_body := [] |} in
  exists b, occurs (SCall 0 [ARd 1 false 1]) (p_body p) /\ lookup 1 (env_of F32 p) = Some b /\
  m_sub M_stack_first (b_mem b) 0 = false /\
  backend_checks (cfg M_stack_first) rej_call_mem_prog [1; 0] = Err EMem.
Proof.
  cbv zeta. eexists. split; [constructor; left; reflexivity|]. split; [vm_compute; reflexivity|].
  split; vm_compute; reflexivity.
Qed.

Definition rej_window_prog : program :=
  [ {| p_args := [FNum 0 F32 0 (ShDense 1)]; p_body := [SAssign 0 tt (EConst PR)] |};
    {| p_args := [FNum 1 F32 0 (ShDense 1)]; p_body := [SCall 0 [AWn 1 1]] |} ].

Example reject_window_satisfiable :
  let p := nth 1 rej_window_prog {| p_args := []; p_body := [] |} in
  occurs (SCall 0 [AWn 1 1]) (p_body p) /\ arg_is_win (AWn 1 1) = true /\
  backend_checks (cfg M_dram) rej_window_prog [1; 0] = Err EWin.
Proof. cbv zeta. split; [constructor; left; reflexivity|]. split; vm_compute; reflexivity. Qed.

Definition M_avx2_first : memdata := mem_table [[true; false]; [false; true]] [(false, false, false); (true, true, true)].
Definition rej_read_prog : program :=
  [ {| p_args := [FNum 0 F32 0 (ShDense 1); FNum 1 F32 1 (ShDense 1)]; p_body := [SAssign 1 tt (ERead tt 0)] |} ].

Example reject_gate_read_satisfiable :
  let p := nth 0 rej_read_prog {| p_args := []; p_body := [] |} in
  exists b, occurs (SAssign 1 tt (ERead tt 0)) (p_body p) /\ In 0 (reads (ERead tt 0 : expr unit)) /\
  lookup 0 (env_of F32 p) = Some b /\ m_read M_avx2_first (b_mem b) = false /\
  backend_checks (cfg M_avx2_first) rej_read_prog [0] = Err ERd.
Proof.
  cbv zeta. eexists. split; [constructor; left; reflexivity|]. split; [left; reflexivity|].
  split; [vm_compute; reflexivity|]. split; vm_compute; reflexivity.
Qed.

Definition M_ro_first : memdata := mem_table [[true; true]; [false; true]] [(true, false, false); (true, true, true)].
Example reject_gate_write_satisfiable :
  backend_checks (cfg M_ro_first)
    [ {| p_args := [FNum 0 F32 0 (ShDense 1); FNum 1 F32 1 (ShDense 1)]; p_body := [SAssign 0 tt (ERead tt 1)] |} ] [0] = Err EWr.
Proof. vm_compute. reflexivity. Qed.

Definition M_acc_first : memdata := mem_table [[true; false]; [false; true]] [(true, true, false); (true, true, true)].
Example reject_gate_reduce_satisfiable :
  backend_checks (cfg M_acc_first)
    [ {| p_args := [FNum 0 F32 0 (ShDense 1); FNum 1 F32 1 (ShDense 1)]; p_body := [SReduce 0 tt (ERead tt 1)] |} ] [0] = Err ERed.
Proof. vm_compute. reflexivity. Qed.

Lemma kind_refuted :
  exists c prog order aps i q,
    c_dflt c <> PR /\ backend_checks c prog order = Ok aps /\ In (i, q) aps /\
    cwt_kind (ctypes (c_dflt c) (build_W prog) (sigs_of prog) q) = false /\
    
    In (OArg (CWin 1 F32 false) (CPtr F32 false)) (ctypes (c_dflt c) (build_W prog) (sigs_of prog) q).
Proof.
  destruct d5_witness as [aps [q [H1 [H2 [H3 H4]]]]].
  exists (cfg M_dram), d5_prog, d5_order, aps, 1, q. repeat split; try assumption. discriminate.
Qed.

Lemma const_refuted_window_by_name :
  exists c prog order aps i q,
    c_dflt c <> PR /\ backend_checks c prog order = Ok aps /\ In (i, q) aps /\
    cwt_const (ctypes (c_dflt c) (build_W prog) (sigs_of prog) q) = false /\
    
    In (OArg (CWin 1 F32 false) (CWin 1 F32 true)) (ctypes (c_dflt c) (build_W prog) (sigs_of prog) q).
Proof.
  destruct d2_obligation as [aps [q [H1 [H2 H3]]]]. destruct d2_witness as [aps' [q' [H1' [H2' [H3' _]]]]].
  rewrite H1 in H1'. inversion H1'; subst aps'.
  exists (cfg M_dram), d2_prog, d2_order, aps, 1, q. repeat split; try assumption; try discriminate.
  assert (q = q') as ->; [|assumption].
  vm_compute in H1. inversion H1; subst aps. clear H1 H1'.
  destruct H2 as [H2|[H2|[]]]; inversion H2; subst. destruct H2' as [H2'|[H2'|[]]]; inversion H2'; subst. reflexivity.
Qed.
