#!/bin/bash
# Build the extracted OCaml driver of the C15 model into coq/Annot/_build/c15_driver.
set -e
here="$(cd "$(dirname "$0")" && pwd)"
cd "$here"
if [ ! -f Model.vo ] || [ Model.v -nt Model.vo ]; then
  timeout 600 coqc -Q . Annot Model.v
fi
mkdir -p "$here/_build"
cd "$here/_build"
fresh=1
for f in Model.v Extract.v driver.ml extract.sh; do
  if [ ! -x c15_driver ] || [ "$here/$f" -nt c15_driver ]; then fresh=0; fi
done
if [ $fresh = 1 ]; then echo "up to date $(pwd)/c15_driver"; exit 0; fi
timeout 600 coqc -Q "$here" Annot "$here/Extract.v" > extract.log 2>&1 || { cat extract.log; exit 1; }
rm -f "$here/Extract.vo" "$here/Extract.vok" "$here/Extract.vos" "$here/Extract.glob" "$here/.Extract.aux"
cp "$here/driver.ml" driver.ml
timeout 600 ocamlfind ocamlopt -package str -w -a -O2 annot_model.mli annot_model.ml driver.ml -o c15_driver 2>/dev/null \
 || timeout 600 ocamlfind ocamlopt -package str -w -a annot_model.mli annot_model.ml driver.ml -o c15_driver
echo "built $(pwd)/c15_driver"
