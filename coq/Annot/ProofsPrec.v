(* C15 — PrecisionAnalysis model: the inferred type of a tree is the type of all its resolved leaves; the output is
   uniformly typed; mixing two resolved precisions is an error; the call-site check. *)
From Coq Require Import List Bool Arith PeanoNat Lia.
From Annot Require Import Model ModelSpec ProofsBase.
Import ListNotations.

Lemma leafs_nonR : forall {A} G (e : expr A) p, In p (leafs G e) -> p <> PR.
Proof.
  intros A G e. induction e using expr_ind'; intros p Hin; simpl in Hin.
  - destruct (is_R t) eqn:E; [destruct Hin|]. destruct Hin as [<-|[]]. apply is_R_false; assumption.
  - destruct (lookup x G) as [b|]; [|destruct Hin]. destruct (is_R (b_prec b)) eqn:E; [destruct Hin|].
    destruct Hin as [<-|[]]. apply is_R_false; assumption.
  - auto.
  - apply in_app_or in Hin. destruct Hin; auto.
  - apply in_flat_map in Hin. destruct Hin as [x [Hx Hp]]. rewrite Forall_forall in H. eauto.
Qed.

Lemma ext_type_spec : forall l t0,
  fold_left (fun t a => if is_R (ty a) then t else ty a) l t0 = t0 \/
  exists a, In a l /\ is_R (ty a) = false /\ fold_left (fun t a => if is_R (ty a) then t else ty a) l t0 = ty a.
Proof.
  induction l as [|a l IH]; intros t0; simpl; [left; reflexivity|].
  destruct (is_R (ty a)) eqn:E.
  - destruct (IH t0) as [H|[b [Hb [Hr He]]]]; [left; assumption | right; exists b; auto].
  - destruct (IH (ty a)) as [H|[b [Hb [Hr He]]]]; [right; exists a; auto | right; exists b; auto].
Qed.

(* ---- the type of the annotated tree is the type of every resolved leaf ---- *)
Lemma pexpr_leafs : forall G e a, pexpr G e = Ok a -> forall p, In p (leafs G e) -> ty a = p.
Proof.
  intros G e. induction e using expr_ind'; intros r Hr p Hin; simpl in Hr, Hin.
  - inversion Hr; subst. simpl. destruct (is_R t) eqn:E; [destruct Hin|]. destruct Hin as [<-|[]]. reflexivity.
  - destruct (lookup x G) as [b|]; [|discriminate]. inversion Hr; subst. simpl.
    destruct (is_R (b_prec b)); [destruct Hin|]. destruct Hin as [<-|[]]. reflexivity.
  - destruct (pexpr G e) as [a1|] eqn:E1; simpl in Hr; [|discriminate]. inversion Hr; subst. simpl. eauto.
  - destruct (pexpr G e1) as [a1|] eqn:E1; simpl in Hr; [|discriminate].
    destruct (pexpr G e2) as [a2|] eqn:E2; simpl in Hr; [|discriminate].
    apply in_app_or in Hin.
    destruct (is_R (ty a1)) eqn:R1.
    + destruct (is_R (ty a2)) eqn:R2; inversion Hr; subst; simpl.
      * destruct Hin as [Hin|Hin].
        -- rewrite (IHe1 _ eq_refl _ Hin) in R1. apply is_R_true in R1. exfalso. apply (leafs_nonR G e1 p Hin). assumption.
        -- rewrite (IHe2 _ eq_refl _ Hin) in R2. apply is_R_true in R2. exfalso. apply (leafs_nonR G e2 p Hin). assumption.
      * destruct Hin as [Hin|Hin].
        -- rewrite (IHe1 _ eq_refl _ Hin) in R1. apply is_R_true in R1. exfalso. apply (leafs_nonR G e1 p Hin). assumption.
        -- eauto.
    + destruct (is_R (ty a2)) eqn:R2.
      * inversion Hr; subst; simpl. destruct Hin as [Hin|Hin]; [eauto|].
        rewrite (IHe2 _ eq_refl _ Hin) in R2. apply is_R_true in R2. exfalso. apply (leafs_nonR G e2 p Hin). assumption.
      * destruct (prec_eqb (ty a1) (ty a2)) eqn:Eq; [|discriminate]. inversion Hr; subst; simpl.
        apply prec_eqb_eq in Eq. destruct Hin as [Hin|Hin]; [eauto | rewrite Eq; eauto].
  - destruct (map_res (pexpr G) args) as [l|] eqn:El; simpl in Hr; [|discriminate].
    destruct (forallb (fun a0 => is_R (ty a0) || prec_eqb (ty a0) (ext_type l)) l) eqn:Ef; [|discriminate].
    inversion Hr; subst. simpl.
    apply in_flat_map in Hin. destruct Hin as [x [Hx Hp]].
    apply map_res_ok in El.
    destruct (Forall2_in_l _ _ _ _ El Hx) as [b [Hb Hxb]].
    rewrite Forall_forall in H. specialize (H x Hx b Hxb p Hp).
    rewrite forallb_forall in Ef. specialize (Ef b Hb).
    apply orb_true_iff in Ef. destruct Ef as [Ef|Ef].
    + rewrite H in Ef. apply is_R_true in Ef. exfalso. apply (leafs_nonR G x p Hp). assumption.
    + apply prec_eqb_eq in Ef. congruence.
Qed.

(* ---- clause 1: an expression mixing two resolved precisions is rejected ---- *)
Lemma pexpr_mixed_err : forall G (e : expr unit) p q,
  In p (leafs G e) -> In q (leafs G e) -> p <> q -> exists er, pexpr G e = Err er.
Proof.
  intros G e p q Hp Hq Hne. destruct (pexpr G e) as [a|er] eqn:E; [|eauto].
  exfalso. apply Hne. rewrite <- (pexpr_leafs _ _ _ E _ Hp). apply (pexpr_leafs _ _ _ E _ Hq).
Qed.

(* ---- uniformity of the output ---- *)
Lemma coerce_unif : forall t e, unif e = true -> ty e = PR -> unif (coerce t e) = true /\ ty (coerce t e) = t.
Proof.
  intros t e. induction e using expr_ind'; intros Hu Ht; simpl in *.
  - auto.
  - subst. discriminate.
  - subst. apply andb_true_iff in Hu. destruct Hu as [He Hu]. apply prec_eqb_eq in He. rewrite He. simpl.
    destruct (IHe Hu He) as [H1 H2]. rewrite H1, H2, prec_eqb_refl. auto.
  - subst. apply andb_true_iff in Hu. destruct Hu as [Hu U2]. apply andb_true_iff in Hu. destruct Hu as [Hu U1].
    apply andb_true_iff in Hu. destruct Hu as [T1 T2].
    apply prec_eqb_eq in T1. apply prec_eqb_eq in T2. rewrite T1, T2. simpl.
    destruct (IHe1 U1 T1) as [A1 A2]. destruct (IHe2 U2 T2) as [B1 B2].
    rewrite A1, A2, B1, B2, prec_eqb_refl. auto.
  - subst. split; [|reflexivity]. rewrite forallb_forall in *. intros y Hy.
    apply in_map_iff in Hy. destruct Hy as [x [<- Hx]]. specialize (Hu x Hx).
    apply andb_true_iff in Hu. destruct Hu as [He Hu]. apply prec_eqb_eq in He. rewrite He. simpl.
    rewrite Forall_forall in H. destruct (H x Hx Hu He) as [A1 A2]. rewrite A1, A2, prec_eqb_refl. reflexivity.
Qed.

Lemma pexpr_unif : forall G, env_res G -> forall e a, pexpr G e = Ok a -> unif a = true.
Proof.
  intros G HG e. induction e using expr_ind'; intros r Hr; simpl in Hr.
  - inversion Hr; reflexivity.
  - destruct (lookup x G) as [b|] eqn:L; [|discriminate]. inversion Hr; subst. simpl.
    apply negb_true_iff. apply is_R_false. eapply HG; eauto.
  - destruct (pexpr G e) as [a1|] eqn:E1; simpl in Hr; [|discriminate]. inversion Hr; subst. simpl.
    rewrite prec_eqb_refl. simpl. eauto.
  - destruct (pexpr G e1) as [a1|] eqn:E1; simpl in Hr; [|discriminate].
    destruct (pexpr G e2) as [a2|] eqn:E2; simpl in Hr; [|discriminate].
    specialize (IHe1 _ eq_refl). specialize (IHe2 _ eq_refl).
    destruct (is_R (ty a1)) eqn:R1.
    + apply is_R_true in R1. destruct (is_R (ty a2)) eqn:R2; inversion Hr; subst; simpl.
      * apply is_R_true in R2. rewrite R1, R2, IHe1, IHe2. reflexivity.
      * destruct (coerce_unif (ty a2) a1 IHe1 R1) as [A1 A2]. rewrite A1, A2, IHe2, prec_eqb_refl. reflexivity.
    + destruct (is_R (ty a2)) eqn:R2.
      * apply is_R_true in R2. inversion Hr; subst; simpl.
        destruct (coerce_unif (ty a1) a2 IHe2 R2) as [A1 A2]. rewrite A1, A2, IHe1, prec_eqb_refl. reflexivity.
      * destruct (prec_eqb (ty a1) (ty a2)) eqn:Eq; [|discriminate]. inversion Hr; subst; simpl.
        rewrite prec_eqb_refl, IHe1, IHe2. rewrite prec_eqb_eq in Eq. rewrite <- Eq, prec_eqb_refl. reflexivity.
  - destruct (map_res (pexpr G) args) as [l|] eqn:El; simpl in Hr; [|discriminate].
    destruct (forallb (fun a0 => is_R (ty a0) || prec_eqb (ty a0) (ext_type l)) l) eqn:Ef; [|discriminate].
    inversion Hr; subst. simpl. apply map_res_ok in El.
    rewrite forallb_forall in *. intros y Hy. apply in_map_iff in Hy. destruct Hy as [b [<- Hb]].
    destruct (Forall2_in_r _ _ _ _ El Hb) as [x [Hx Hxb]].
    rewrite Forall_forall in H. specialize (H x Hx b Hxb). specialize (Ef b Hb).
    destruct (prec_eqb (ty b) (ext_type l)) eqn:Eq.
    + rewrite Eq, H. reflexivity.
    + rewrite orb_false_r in Ef. apply is_R_true in Ef.
      destruct (coerce_unif (ext_type l) b H Ef) as [A1 A2]. rewrite A1, A2, prec_eqb_refl. reflexivity.
Qed.

Lemma unif_wt : forall e, unif e = true -> ty e <> PR -> wt_e e = true.
Proof.
  intros e. induction e using expr_ind'; intros Hu Ht; simpl in *.
  - apply negb_true_iff. apply is_R_false. assumption.
  - assumption.
  - apply andb_true_iff in Hu. destruct Hu as [He Hu]. rewrite He. simpl.
    assert (is_R a = false) as -> by (apply is_R_false; assumption). simpl.
    apply IHe; [assumption|]. apply prec_eqb_eq in He. congruence.
  - apply andb_true_iff in Hu. destruct Hu as [Hu U2]. apply andb_true_iff in Hu. destruct Hu as [Hu U1].
    apply andb_true_iff in Hu. destruct Hu as [T1 T2]. rewrite T1, T2. simpl.
    assert (is_R a = false) as -> by (apply is_R_false; assumption). simpl.
    apply prec_eqb_eq in T1. apply prec_eqb_eq in T2.
    rewrite IHe1, IHe2; try assumption; try congruence. reflexivity.
  - assert (is_R a = false) as -> by (apply is_R_false; assumption). simpl.
    rewrite forallb_forall in *. intros x Hx. specialize (Hu x Hx).
    apply andb_true_iff in Hu. destruct Hu as [He Hu]. rewrite He. simpl.
    rewrite Forall_forall in H. apply H; [assumption | assumption |]. apply prec_eqb_eq in He. congruence.
Qed.

Lemma passign_wt : forall G x e t a, env_res G -> passign G x e = Ok (t, a) ->
  wt_e a = true /\ t <> PR /\ exists b, lookup x G = Some b /\ b_prec b = t.
Proof.
  intros G x e t a HG H. unfold passign in H.
  destruct (pexpr G e) as [a0|] eqn:E; simpl in H; [|discriminate].
  destruct (lookup x G) as [b|] eqn:L; [|discriminate]. inversion H; subst.
  assert (Hb : b_prec b <> PR) by (eapply HG; eauto).
  assert (Hu := pexpr_unif G HG _ _ E).
  split; [|split; [assumption | exists b; auto]].
  unfold coerce_if_R. destruct (is_R (ty a0)) eqn:R.
  - apply is_R_true in R. destruct (coerce_unif (b_prec b) a0 Hu R) as [A1 A2]. apply unif_wt; [assumption | congruence].
  - apply unif_wt; [assumption | apply is_R_false; assumption].
Qed.

(* ---- reads are preserved by annotation (needed by the gating clause) ---- *)
Lemma coerce_reads : forall t e, reads (coerce t e) = reads e.
Proof.
  intros t e. induction e using expr_ind'; simpl; try reflexivity.
  - destruct (is_R (ty e)); [assumption | reflexivity].
  - destruct (is_R (ty e1)), (is_R (ty e2)); congruence.
  - induction args as [|x args IH]; simpl; [reflexivity|]. inversion H; subst.
    rewrite IH by assumption. destruct (is_R (ty x)); congruence.
Qed.

Lemma pexpr_reads : forall G e a, pexpr G e = Ok a -> reads a = reads e.
Proof.
  intros G e. induction e using expr_ind'; intros r Hr; simpl in Hr.
  - inversion Hr; reflexivity.
  - destruct (lookup x G); [|discriminate]. inversion Hr; reflexivity.
  - destruct (pexpr G e) as [a1|] eqn:E1; simpl in Hr; [|discriminate]. inversion Hr; subst. simpl. eauto.
  - destruct (pexpr G e1) as [a1|] eqn:E1; simpl in Hr; [|discriminate].
    destruct (pexpr G e2) as [a2|] eqn:E2; simpl in Hr; [|discriminate].
    specialize (IHe1 _ eq_refl). specialize (IHe2 _ eq_refl).
    destruct (is_R (ty a1)); [destruct (is_R (ty a2))|destruct (is_R (ty a2)); [|destruct (prec_eqb (ty a1) (ty a2)); [|discriminate]]];
      inversion Hr; subst; simpl; rewrite ?coerce_reads; congruence.
  - destruct (map_res (pexpr G) args) as [l|] eqn:El; simpl in Hr; [|discriminate].
    destruct (forallb _ l); [|discriminate]. inversion Hr; subst. simpl. apply map_res_ok in El.
    clear Hr. generalize (ext_type l). intro t. induction El; simpl; [reflexivity|]. inversion H; subst.
    rewrite IHEl by assumption. f_equal. destruct (prec_eqb (ty y) t); rewrite ?coerce_reads; eauto.
Qed.

(* ---- call-site check ---- *)
Lemma pcall_err_at : forall d G args fs k a x p m sh b,
  nth_error args k = Some a -> nth_error fs k = Some (FNum x p m sh) ->
  (arg_name a = None \/ exists y, arg_name a = Some y /\ lookup y G = Some b /\ resolve d p <> b_prec b) ->
  exists er, pcall d G args fs = Err er.
Proof.
  intros d G args. induction args as [|a0 args IH]; intros fs k a x p m sh b Ha Hf Hbad.
  - destruct k; discriminate.
  - destruct fs as [|f0 fs]; [destruct k; discriminate|].
    destruct k; simpl in Ha, Hf.
    + inversion Ha; inversion Hf; subst. simpl.
      destruct Hbad as [Hn|[y [Hn [Hl Hne]]]]; rewrite Hn; simpl; [eauto|].
      rewrite Hl. apply prec_eqb_neq in Hne. rewrite Hne. simpl. eauto.
    + simpl. match goal with |- exists er, bind ?r _ = _ => destruct r as [[]|] end; simpl; [|eauto].
      eapply IH; eauto.
Qed.

Lemma pcall_ok_at : forall d G args fs, pcall d G args fs = Ok tt ->
  forall k a x p m sh, nth_error args k = Some a -> nth_error fs k = Some (FNum x p m sh) ->
  exists y b, arg_name a = Some y /\ lookup y G = Some b /\ resolve d p = b_prec b.
Proof.
  intros d G args. induction args as [|a0 args IH]; intros fs H k a x p m sh Ha Hf.
  - destruct k; discriminate.
  - destruct fs as [|f0 fs]; [destruct k; discriminate|].
    simpl in H. destruct k; simpl in Ha, Hf.
    + inversion Ha; inversion Hf; subst.
      destruct (arg_name a) as [y|]; simpl in H; [|discriminate].
      destruct (lookup y G) as [b|] eqn:L; simpl in H; [|discriminate].
      destruct (prec_eqb (resolve d p) (b_prec b)) eqn:E; simpl in H; [|discriminate].
      apply prec_eqb_eq in E. eauto.
    + match type of H with bind ?r _ = _ => destruct r as [[]|] end; simpl in H; [|discriminate]. eauto.
Qed.

Lemma pcall_ok_bound : forall d G args fs, pcall d G args fs = Ok tt ->
  forall k a f y, nth_error args k = Some a -> nth_error fs k = Some f -> arg_name a = Some y ->
  exists b, lookup y G = Some b.
Proof.
  intros d G args. induction args as [|a0 args IH]; intros fs H k a f y Ha Hf Hn.
  - destruct k; discriminate.
  - destruct fs as [|f0 fs]; [destruct k; discriminate|].
    simpl in H. destruct k; simpl in Ha, Hf.
    + inversion Ha; inversion Hf; subst. rewrite Hn in H.
      destruct f; destruct (lookup y G) as [b|] eqn:L; simpl in H; try discriminate; eauto.
    + match type of H with bind ?r _ = _ => destruct r as [[]|] end; simpl in H; [|discriminate]. eauto.
Qed.
