(* C15 — executable model of exo's backend annotation analyses (Gallina only, no proofs).

   Modelled source (all under src/exo):
     backend/prec_analysis.py   PrecisionAnalysis      -> pexpr / pstmt / pcall
     backend/win_analysis.py    WindowAnalysis         -> wargs / wstmt
     backend/mem_analysis.py    MemoryAnalysis (call-boundary rule)  -> mcall / mstmt
     backend/LoopIR_compiler.py Compiler: can_read / write / reduce gating of direct accesses (gstmt),
                                non_const = get_writes_of_stmts (core/LoopIR.py GetWrites) -> writes,
                                get_window_type / comp_fnarg / argument declarations -> ctypes
     compile_to_strings: per procedure, in the order given, Precision -> Window -> Memory -> Compiler.

   Names are exo Syms (unique per binder), represented by numbers.  Because every binder is unique, the per-pass
   dictionaries (_types, mem_env, envtyp/mems) are modelled by ONE environment collected once per procedure
   (arguments, then every Alloc / WindowStmt in traversal order); it differs from the code only on IR that uses a
   name before its definition, which the front end never produces (the code raises KeyError there).
   Control expressions (index/size/bool/stride) are irrelevant to every rule below and are not represented. *)
From Coq Require Import List Bool Arith PeanoNat.
Import ListNotations.

(* ------------------------------------------------------------------ precisions *)
Inductive prec := PR | F16 | F32 | F64 | I8 | UI8 | UI16 | I32.

Definition prec_eqb (a b : prec) : bool :=
  match a, b with
  | PR, PR | F16, F16 | F32, F32 | F64, F64 | I8, I8 | UI8, UI8 | UI16, UI16 | I32, I32 => true
  | _, _ => false
  end.

Definition is_R (a : prec) : bool := match a with PR => true | _ => false end.

(* splice of the default precision: T.R is replaced by the default, anything else is kept *)
Definition resolve (d p : prec) : prec := if is_R p then d else p.

Definition ident := nat.
Definition memid := nat.

(* the memory classes in play, given as data: subclass relation and the three capabilities *)
Record memdata := {
  m_sub : memid -> memid -> bool;       (* issubclass(a, b) *)
  m_read : memid -> bool;               (* can_read() *)
  m_write : memid -> bool;              (* write() does not raise MemGenError *)
  m_reduce : memid -> bool              (* reduce() does not raise MemGenError *)
}.

Inductive shape := ShScalar | ShDense (n : nat) | ShWin (n : nat).

(* ------------------------------------------------------------------ syntax (A = annotation on numeric nodes) *)
Inductive expr (A : Type) :=
| EConst (t : prec)                       (* literal with its recorded type (R from the front end) *)
| ERead (a : A) (x : ident)               (* x, x[i..] *)
| EUSub (a : A) (e : expr A)
| EBin (a : A) (l r : expr A)
| EExt (a : A) (args : list (expr A)).
Arguments EConst {A}. Arguments ERead {A}. Arguments EUSub {A}. Arguments EBin {A}. Arguments EExt {A}.

(* actual argument of a call: a bare name (LoopIR.Read without indices; recwin/nrec are is_win() and the number of
   dimensions of the type RECORDED on the read), a window expression, or a control value *)
Inductive carg :=
| ARd (x : ident) (recwin : bool) (nrec : nat)
| AWn (x : ident) (nout : nat)
| ACtl.

Inductive stmt (A : Type) :=
| SPass
| SAssign (x : ident) (t : A) (e : expr A)    (* t: the statement's type annotation (Assign.type) *)
| SReduce (x : ident) (t : A) (e : expr A)
| SIf (b1 b2 : list (stmt A))
| SFor (b : list (stmt A))
| SAlloc (x : ident) (p : prec) (m : memid) (n : nat)      (* n = 0: scalar *)
| SWin (x src : ident) (nout : nat) (srcbuf : ident)       (* x = src[...]; srcbuf = T.Window.src_buf as recorded *)
| SCall (f : nat) (args : list carg).
Arguments SPass {A}. Arguments SAssign {A}. Arguments SReduce {A}. Arguments SIf {A}. Arguments SFor {A}.
Arguments SAlloc {A}. Arguments SWin {A}. Arguments SCall {A}.

Inductive farg := FCtrl (x : ident) | FNum (x : ident) (p : prec) (m : memid) (sh : shape).
Definition farg_name (a : farg) : ident := match a with FCtrl x => x | FNum x _ _ _ => x end.

Record proc (A : Type) := { p_args : list farg; p_body : list (stmt A) }.
Arguments p_args {A}. Arguments p_body {A}.

(* procedures are listed callees first (a call refers to an index in this list) *)
Definition program := list (proc unit).

(* ------------------------------------------------------------------ results *)
Inductive err := EPrec | EWin | EMem | ERd | EWr | ERed | ECrash.
Inductive res (T : Type) := Ok (v : T) | Err (e : err).
Arguments Ok {T}. Arguments Err {T}.

Definition bind {T U} (r : res T) (k : T -> res U) : res U := match r with Ok v => k v | Err e => Err e end.
Notation "x <- r ;; k" := (bind r (fun x => k)) (at level 61, r at next level, right associativity).

Definition map_res {T U} (f : T -> res U) : list T -> res (list U) :=
  fix go (l : list T) : res (list U) :=
    match l with
    | [] => Ok []
    | a :: l' => b <- f a ;; bs <- go l' ;; Ok (b :: bs)
    end.

Definition all_res {T} (f : T -> res unit) : list T -> res unit :=
  fix go (l : list T) : res unit :=
    match l with
    | [] => Ok tt
    | a :: l' => _ <- f a ;; go l'
    end.

(* ------------------------------------------------------------------ environment *)
Inductive origin := FromArg | FromAlloc | FromWin.
(* b_src: the src_buf RECORDED on a window's type; b_root: the buffer a window aliases, following the source names of
   the window statements (GetWrites.window_dict / Compiler._win_root); both are the name itself for non-windows *)
Record binding := { b_prec : prec; b_mem : memid; b_shape : shape; b_org : origin; b_src : ident; b_root : ident }.
Definition env := list (ident * binding).

Fixpoint lookup {T} (x : ident) (G : list (ident * T)) : option T :=
  match G with
  | [] => None
  | (y, v) :: G' => if Nat.eqb x y then Some v else lookup x G'
  end.

Definition arg_binds (d : prec) (G : env) (a : farg) : env :=
  match a with
  | FCtrl _ => G
  | FNum x p m sh => (x, {| b_prec := resolve d p; b_mem := m; b_shape := sh; b_org := FromArg; b_src := x; b_root := x |}) :: G
  end.

Fixpoint binds_s {A} (d : prec) (G : env) (s : stmt A) : env :=
  match s with
  | SAlloc x p m n =>
      (x, {| b_prec := resolve d p; b_mem := m; b_shape := (if Nat.eqb n 0 then ShScalar else ShDense n);
             b_org := FromAlloc; b_src := x; b_root := x |}) :: G
  | SWin x src nout sb =>
      match lookup src G with
      | Some b => (x, {| b_prec := b_prec b; b_mem := b_mem b; b_shape := ShWin nout; b_org := FromWin; b_src := sb;
                         b_root := match b_org b with FromWin => b_root b | _ => src end |}) :: G
      | None => G
      end
  | SIf b1 b2 => fold_left (binds_s d) b2 (fold_left (binds_s d) b1 G)
  | SFor b => fold_left (binds_s d) b G
  | _ => G
  end.

Definition env_of {A} (d : prec) (p : proc A) : env :=
  fold_left (binds_s d) (p_body p) (fold_left (arg_binds d) (p_args p) []).

(* ------------------------------------------------------------------ (a) PrecisionAnalysis *)
Definition ty (e : expr prec) : prec :=
  match e with
  | EConst t => t
  | ERead a _ | EUSub a _ | EBin a _ _ | EExt a _ => a
  end.

(* coerce_e: push a concrete precision into the R-typed part of a tree (stops at non-R children) *)
Fixpoint coerce (t : prec) (e : expr prec) : expr prec :=
  match e with
  | EConst _ => EConst t
  | ERead a x => ERead a x      (* unreachable: a read never has type R (assert False in the code) *)
  | EUSub _ e1 => EUSub t (if is_R (ty e1) then coerce t e1 else e1)
  | EBin _ l r => EBin t (if is_R (ty l) then coerce t l else l) (if is_R (ty r) then coerce t r else r)
  | EExt _ args => EExt t (map (fun a => if is_R (ty a) then coerce t a else a) args)
  end.

Definition coerce_if_R (t : prec) (e : expr prec) : expr prec := if is_R (ty e) then coerce t e else e.

(* Extern: typ = the type of the LAST argument whose type is not R (R if there is none) *)
Definition ext_type (args : list (expr prec)) : prec :=
  fold_left (fun t a => if is_R (ty a) then t else ty a) args PR.

Fixpoint pexpr (G : env) (e : expr unit) : res (expr prec) :=
  match e with
  | EConst t => Ok (EConst t)
  | ERead _ x => match lookup x G with Some b => Ok (ERead (b_prec b) x) | None => Err ECrash end
  | EUSub _ e1 => a <- pexpr G e1 ;; Ok (EUSub (ty a) a)
  | EBin _ l r =>
      a <- pexpr G l ;; b <- pexpr G r ;;
      if is_R (ty a) then
        (if is_R (ty b) then Ok (EBin PR a b) else Ok (EBin (ty b) (coerce (ty b) a) b))
      else if is_R (ty b) then Ok (EBin (ty a) a (coerce (ty a) b))
      else if prec_eqb (ty a) (ty b) then Ok (EBin (ty a) a b)
      else Err EPrec
  | EExt _ args =>
      l <- map_res (pexpr G) args ;;
      let t := ext_type l in
      if forallb (fun a => is_R (ty a) || prec_eqb (ty a) t) l
      then Ok (EExt t (map (fun a => if prec_eqb (ty a) t then a else coerce t a) l))
      else Err EPrec
  end.

(* basetype of an actual argument as seen by the call-site check; None: control value *)
Definition arg_name (a : carg) : option ident :=
  match a with ARd x _ _ => Some x | AWn x _ => Some x | ACtl => None end.

Fixpoint pcall (d : prec) (G : env) (args : list carg) (fs : list farg) : res unit :=
  match args, fs with
  | a :: args', f :: fs' =>
      _ <- match f with
           | FCtrl _ => match arg_name a with
                        | Some x => match lookup x G with Some _ => Ok tt | None => Err ECrash end
                        | None => Ok tt
                        end
           | FNum _ p _ _ =>
               match arg_name a with
               | Some x => match lookup x G with
                           | Some b => if prec_eqb (resolve d p) (b_prec b) then Ok tt else Err EPrec
                           | None => Err ECrash
                           end
               | None => Err EPrec      (* a control value where a numeric formal stands: st != ct *)
               end
           end ;;
      pcall d G args' fs'
  | _, _ => Ok tt       (* zip stops at the shorter list *)
  end.

Definition passign (G : env) (x : ident) (e : expr unit) : res (prec * expr prec) :=
  a <- pexpr G e ;;
  match lookup x G with
  | Some b => Ok (b_prec b, coerce_if_R (b_prec b) a)
  | None => Err ECrash
  end.

Fixpoint pstmt (d : prec) (sigs : list (list farg)) (G : env) (s : stmt unit) : res (stmt prec) :=
  match s with
  | SPass => Ok SPass
  | SAssign x _ e => r <- passign G x e ;; Ok (SAssign x (fst r) (snd r))
  | SReduce x _ e => r <- passign G x e ;; Ok (SReduce x (fst r) (snd r))
  | SIf b1 b2 => c1 <- map_res (pstmt d sigs G) b1 ;; c2 <- map_res (pstmt d sigs G) b2 ;; Ok (SIf c1 c2)
  | SFor b => c <- map_res (pstmt d sigs G) b ;; Ok (SFor c)
  | SAlloc x p m n => Ok (SAlloc x (resolve d p) m n)
  | SWin x src nout sb => match lookup src G with Some _ => Ok (SWin x src nout sb) | None => Err ECrash end
  | SCall f args =>
      match nth_error sigs f with
      | Some fs => _ <- pcall d G args fs ;; Ok (SCall f args)
      | None => Err ECrash
      end
  end.

(* ------------------------------------------------------------------ (c) WindowAnalysis *)
Definition arg_is_win (a : carg) : bool :=
  match a with ARd _ w _ => w | AWn _ _ => true | ACtl => false end.

Definition wpromote (a : carg) (f : farg) : res carg :=
  match f with
  | FNum _ _ _ (ShWin _) =>
      if arg_is_win a then Ok a
      else match a with
           | ARd x _ (S n) => Ok (AWn x (S n))       (* promote_tensor: full window x[0:N0, ...] *)
           | _ => Err ECrash                          (* its assertions *)
           end
  | FNum _ _ _ (ShDense _) => if arg_is_win a then Err EWin else Ok a
  | _ => Ok a
  end.

Fixpoint wargs (args : list carg) (fs : list farg) : res (list carg) :=
  match args, fs with
  | a :: args', f :: fs' => a' <- wpromote a f ;; r <- wargs args' fs' ;; Ok (a' :: r)
  | _, _ => Ok []
  end.

Fixpoint wstmt {A} (sigs : list (list farg)) (s : stmt A) : res (stmt A) :=
  match s with
  | SIf b1 b2 => c1 <- map_res (wstmt sigs) b1 ;; c2 <- map_res (wstmt sigs) b2 ;; Ok (SIf c1 c2)
  | SFor b => c <- map_res (wstmt sigs) b ;; Ok (SFor c)
  | SCall f args =>
      match nth_error sigs f with
      | Some fs => r <- wargs args fs ;; Ok (SCall f r)
      | None => Err ECrash
      end
  | _ => Ok s
  end.

(* ------------------------------------------------------------------ (b) MemoryAnalysis: call-boundary rule *)
Fixpoint mcall (M : memdata) (G : env) (args : list carg) (fs : list farg) : res unit :=
  match args, fs with
  | a :: args', f :: fs' =>
      _ <- match f with
           | FCtrl _ => Ok tt
           | FNum _ _ sm _ =>
               match arg_name a with
               | Some x => match lookup x G with
                           | Some b => if m_sub M (b_mem b) sm then Ok tt else Err EMem
                           | None => Err ECrash
                           end
               | None => Err ECrash       (* get_e_mem: assert False *)
               end
           end ;;
      mcall M G args' fs'
  | _, _ => Ok tt
  end.

Fixpoint mstmt {A} (M : memdata) (sigs : list (list farg)) (G : env) (s : stmt A) : res unit :=
  match s with
  | SIf b1 b2 => _ <- all_res (mstmt M sigs G) b1 ;; all_res (mstmt M sigs G) b2
  | SFor b => all_res (mstmt M sigs G) b
  | SWin _ src _ _ => match lookup src G with Some _ => Ok tt | None => Err ECrash end
  | SCall f args =>
      match nth_error sigs f with
      | Some fs => mcall M G args fs
      | None => Err ECrash
      end
  | _ => Ok tt
  end.

(* ------------------------------------------------------------------ Compiler: gating of direct accesses *)
Fixpoint reads {A} (e : expr A) : list ident :=
  match e with
  | EConst _ => []
  | ERead _ x => [x]
  | EUSub _ e1 => reads e1
  | EBin _ l r => reads l ++ reads r
  | EExt _ args => flat_map reads args
  end.

Definition gread (M : memdata) (G : env) (x : ident) : res unit :=
  match lookup x G with
  | Some b => if m_read M (b_mem b) then Ok tt else Err ERd
  | None => Err ECrash
  end.

Definition gwrite (M : memdata) (G : env) (red : bool) (x : ident) : res unit :=
  match lookup x G with
  | Some b => if (if red then m_reduce M (b_mem b) else m_write M (b_mem b)) then Ok tt
              else Err (if red then ERed else EWr)
  | None => Err ECrash
  end.

Fixpoint gstmt {A} (M : memdata) (G : env) (s : stmt A) : res unit :=
  match s with
  | SAssign x _ e => _ <- all_res (gread M G) (reads e) ;; gwrite M G false x
  | SReduce x _ e => _ <- all_res (gread M G) (reads e) ;; gwrite M G true x
  | SIf b1 b2 => _ <- all_res (gstmt M G) b1 ;; all_res (gstmt M G) b2
  | SFor b => all_res (gstmt M G) b
  | _ => Ok tt
  end.

(* ------------------------------------------------------------------ one procedure, whole program *)
Record config := { c_dflt : prec; c_mem : memdata }.

Definition check_proc (c : config) (sigs : list (list farg)) (p : proc unit) : res (proc prec) :=
  let G := env_of (c_dflt c) p in
  b1 <- map_res (pstmt (c_dflt c) sigs G) (p_body p) ;;
  b2 <- map_res (wstmt sigs) b1 ;;
  _ <- all_res (mstmt (c_mem c) sigs G) b2 ;;
  _ <- all_res (gstmt (c_mem c) G) b2 ;;
  Ok {| p_args := map (fun a => match a with FNum x p m sh => FNum x (resolve (c_dflt c) p) m sh | _ => a end) (p_args p);
        p_body := b2 |}.

Definition sigs_of (prog : program) : list (list farg) := map p_args prog.

(* compile_to_strings: the procedures are analysed one after the other in `order` (sorted by name); the first
   exception ends the compilation *)
Definition backend_checks (c : config) (prog : program) (order : list nat) : res (list (nat * proc prec)) :=
  map_res (fun i => match nth_error prog i with
                    | Some p => q <- check_proc c (sigs_of prog) p ;; Ok (i, q)
                    | None => Err ECrash
                    end) order.

(* ------------------------------------------------------------------ (d) const-ness: GetWrites / non_const *)
Definition root (D : list (ident * ident)) (x : ident) : ident :=
  match lookup x D with Some r => r | None => x end.

Fixpoint wr_args (D : list (ident * ident)) (args : list carg) (flags : list bool) : list ident :=
  match args, flags with
  | a :: args', w :: flags' =>
      (match arg_name a with Some x => if w then [root D x] else [] | None => [] end) ++ wr_args D args' flags'
  | _, _ => []
  end.

(* state: (writes so far, window_dict) *)
Fixpoint wr_s {A} (W : list (list bool)) (st : list ident * list (ident * ident)) (s : stmt A)
  : list ident * list (ident * ident) :=
  let '(acc, D) := st in
  match s with
  | SAssign x _ _ | SReduce x _ _ => (acc ++ [root D x], D)
  | SCall f args => (acc ++ wr_args D args (nth f W []), D)
  | SWin w src _ _ => (acc, (w, root D src) :: D)
  | SIf b1 b2 => fold_left (wr_s W) b2 (fold_left (wr_s W) b1 st)
  | SFor b => fold_left (wr_s W) b st
  | _ => st
  end.

Definition writes {A} (W : list (list bool)) (body : list (stmt A)) : list ident :=
  fst (fold_left (wr_s W) body ([], [])).

Definition mem_id (x : ident) (l : list ident) : bool := existsb (Nat.eqb x) l.

Definition written_flags {A} (W : list (list bool)) (p : proc A) : list bool :=
  let ws := writes W (p_body p) in map (fun a => mem_id (farg_name a) ws) (p_args p).

(* table of "formal i of procedure f is written by f (directly or through its callees)" *)
Definition build_W (prog : program) : list (list bool) :=
  fold_left (fun W p => W ++ [written_flags W p]) prog [].

(* ------------------------------------------------------------------ C-level types of what is emitted *)
Inductive cty :=
| CCtl                                  (* int_fast32_t / bool value *)
| CPtr (p : prec) (c : bool)            (* [const] T *            (dense tensor, scalar by pointer) *)
| CWin (n : nat) (p : prec) (c : bool). (* struct exo_win_<n><p>[c] *)

(* parameter type in the callee's own declaration *)
Definition formal_cty (d : prec) (written : bool) (f : farg) : cty :=
  match f with
  | FCtrl _ => CCtl
  | FNum _ p _ (ShWin n) => CWin n (resolve d p) (negb written)
  | FNum _ p _ _ => CPtr (resolve d p) (negb written)
  end.

(* the root buffer of a name according to the environment (= _win_root.get(x, x) / window_dict.get(x, x)) *)
Definition rootG (G : env) (x : ident) : ident :=
  match lookup x G with
  | Some b => match b_org b with FromWin => b_root b | _ => x end
  | None => x
  end.

(* is the data pointer reachable through name x const-qualified?  (NC = non_const of the procedure) *)
Definition name_const (G : env) (NC : list ident) (x : ident) (b : binding) : bool :=
  match b_org b with
  | FromArg => negb (mem_id x NC)
  | FromAlloc => false
  | FromWin => negb (mem_id (rootG G (b_src b)) NC)   (* get_window_type: _win_root.get(src_buf, src_buf) not in non_const *)
  end.

(* C type of the expression comp_fnarg emits for a bare name *)
Definition name_cty (G : env) (NC : list ident) (x : ident) (b : binding) : cty :=
  match b_shape b with
  | ShWin n => CWin n (b_prec b) (name_const G NC x b)
  | _ => CPtr (b_prec b) (name_const G NC x b)     (* pointer argument, malloc'd / array buffer, &scalar *)
  end.

Inductive oblig :=
| OExpr (e : expr prec)            (* an emitted arithmetic expression *)
| OAsg (lt : prec) (decl : prec)   (* the statement's type annotation drives the cast: it must be the target's type *)
| OArg (a f : cty)                 (* actual vs parameter type *)
| OLval (c : bool)                 (* an assignment / reduction target reached through a (non-)const pointer *)
| OInit (cb ct : bool)             (* window struct literal: data pointer of const-ness cb stored into a field of const-ness ct *)
| OCrash.                          (* unbound name / arity mismatch: the compiler would raise here (a kind failure) *)

Definition carg_obl (d : prec) (NC : list ident) (G : env) (a : carg) (written : bool) (f : farg) : list oblig :=
  match a with
  | ACtl => [OArg CCtl (formal_cty d written f)]
  | ARd x _ _ =>
      match lookup x G with
      | Some b => [OArg (name_cty G NC x b) (formal_cty d written f)]
      | None => [OCrash]
      end
  | AWn x nout =>
      match lookup x G with
      | Some b =>
          (* comp_fnarg: struct of the CALLEE's const-ness, built from x's data pointer *)
          [OArg (CWin nout (b_prec b) (negb written)) (formal_cty d written f);
           OInit (name_const G NC x b) (negb written)]
      | None => [OCrash]
      end
  end.

Fixpoint call_obl (d : prec) (NC : list ident) (G : env) (args : list carg) (flags : list bool) (fs : list farg)
  : list oblig :=
  match args, flags, fs with
  | a :: args', w :: flags', f :: fs' => carg_obl d NC G a w f ++ call_obl d NC G args' flags' fs'
  | _, _, _ => []
  end.

Fixpoint obl_s (d : prec) (W : list (list bool)) (sigs : list (list farg)) (NC : list ident) (G : env)
  (s : stmt prec) : list oblig :=
  match s with
  | SAssign x t e | SReduce x t e =>
      match lookup x G with
      | Some b => [OExpr e; OAsg t (b_prec b); OLval (name_const G NC x b)]
      | None => [OCrash]
      end
  | SIf b1 b2 => flat_map (obl_s d W sigs NC G) b1 ++ flat_map (obl_s d W sigs NC G) b2
  | SFor b => flat_map (obl_s d W sigs NC G) b
  | SWin x src nout sb =>
      match lookup src G, lookup x G with
      | Some bs, Some bx => [OInit (name_const G NC src bs) (name_const G NC x bx)]
      | _, _ => [OCrash]
      end
  | SCall f args =>
      match nth_error sigs f with
      | Some fs => (if Nat.eqb (length args) (length fs) then [] else [OCrash]) ++ call_obl d NC G args (nth f W []) fs
      | None => [OCrash]
      end
  | _ => []
  end.

(* all typing obligations of the C text of one analysed procedure *)
Definition ctypes (d : prec) (W : list (list bool)) (sigs : list (list farg)) (p : proc prec) : list oblig :=
  let G := env_of d p in
  let NC := writes W (p_body p) in
  flat_map (obl_s d W sigs NC G) (p_body p).

(* ------------------------------------------------------------------ the typing judgment *)
Fixpoint wt_e (e : expr prec) : bool :=
  match e with
  | EConst t => negb (is_R t)
  | ERead a _ => negb (is_R a)
  | EUSub a e1 => negb (is_R a) && prec_eqb (ty e1) a && wt_e e1
  | EBin a l r => negb (is_R a) && prec_eqb (ty l) a && prec_eqb (ty r) a && wt_e l && wt_e r
  | EExt a args => negb (is_R a) && forallb (fun x => prec_eqb (ty x) a && wt_e x) args
  end.

Definition prec_of_cty (t : cty) : option prec :=
  match t with CCtl => None | CPtr p _ => Some p | CWin _ p _ => Some p end.

(* the three components of "argument type = parameter type" *)
Definition compat_prec (a f : cty) : bool :=
  match prec_of_cty a, prec_of_cty f with
  | Some p, Some q => prec_eqb p q
  | _, _ => true            (* a control value on either side: a kind question, see compat_kind *)
  end.
Definition compat_kind (a f : cty) : bool :=
  match a, f with
  | CCtl, CCtl => true
  | CPtr _ _, CPtr _ _ => true
  | CWin n _ _, CWin m _ _ => Nat.eqb n m
  | _, _ => false
  end.
Definition compat_const (a f : cty) : bool :=
  match a, f with
  | CPtr _ c, CPtr _ c' => implb c c'        (* adding const to the pointee is fine, dropping it is not *)
  | CWin _ _ c, CWin _ _ c' => Bool.eqb c c' (* distinct struct types *)
  | _, _ => true
  end.

Definition ok_prec (o : oblig) : bool :=
  match o with
  | OExpr e => wt_e e
  | OAsg lt decl => prec_eqb lt decl && negb (is_R lt)
  | OArg a f => compat_prec a f
  | _ => true
  end.
Definition ok_kind (o : oblig) : bool :=
  match o with OArg a f => compat_kind a f | OCrash => false | _ => true end.
Definition ok_const (o : oblig) : bool :=
  match o with
  | OArg a f => compat_const a f
  | OLval c => negb c
  | OInit cb ct => implb cb ct
  | _ => true
  end.

Definition cwt_prec (l : list oblig) : bool := forallb ok_prec l.
Definition cwt_kind (l : list oblig) : bool := forallb ok_kind l.
Definition cwt_const (l : list oblig) : bool := forallb ok_const l.
Definition cwt (l : list oblig) : bool := cwt_prec l && cwt_kind l && cwt_const l.

(* ------------------------------------------------------------------ memory consistency of an analysed procedure *)
Inductive maccess := MRead (x : ident) | MWrite (x : ident) | MReduce (x : ident) | MPass (x : ident) (formal_mem : memid).

Fixpoint macc_args (args : list carg) (fs : list farg) : list maccess :=
  match args, fs with
  | a :: args', f :: fs' =>
      (match f, arg_name a with FNum _ _ sm _, Some x => [MPass x sm] | _, _ => [] end) ++ macc_args args' fs'
  | _, _ => []
  end.

Fixpoint macc_s {A} (sigs : list (list farg)) (s : stmt A) : list maccess :=
  match s with
  | SAssign x _ e => map MRead (reads e) ++ [MWrite x]
  | SReduce x _ e => map MRead (reads e) ++ [MReduce x]
  | SIf b1 b2 => flat_map (macc_s sigs) b1 ++ flat_map (macc_s sigs) b2
  | SFor b => flat_map (macc_s sigs) b
  | SCall f args => match nth_error sigs f with Some fs => macc_args args fs | None => [] end
  | _ => []
  end.

Definition macc_ok (M : memdata) (G : env) (a : maccess) : bool :=
  match a with
  | MRead x => match lookup x G with Some b => m_read M (b_mem b) | None => false end
  | MWrite x => match lookup x G with Some b => m_write M (b_mem b) | None => false end
  | MReduce x => match lookup x G with Some b => m_reduce M (b_mem b) | None => false end
  | MPass x sm => match lookup x G with Some b => m_sub M (b_mem b) sm | None => false end
  end.

Definition mem_consistent (c : config) (sigs : list (list farg)) (p : proc prec) : bool :=
  forallb (macc_ok (c_mem c) (env_of (c_dflt c) p)) (flat_map (macc_s sigs) (p_body p)).

(* ------------------------------------------------------------------ hypotheses of the partial theorems (decidable) *)
(* front-end invariants at one call site + the two restrictions that exclude the const-ness defects:
   coherent: the window flag / rank recorded on a bare-name actual is the declared one;
   no window passed BY NAME to a window formal (windows are passed as window expressions) *)
Definition shape_rank (s : shape) : nat := match s with ShScalar => 0 | ShDense n => n | ShWin n => n end.
Definition shape_is_win (s : shape) : bool := match s with ShWin _ => true | _ => false end.

Definition site_ok (G : env) (a : carg) (f : farg) : bool :=
  match f, a with
  | FCtrl _, ACtl => true
  | FNum _ _ _ ShScalar, ARd x w n =>
      match lookup x G with Some b => negb w && Nat.eqb n 0 && (match b_shape b with ShScalar => true | _ => false end) | None => false end
  | FNum _ _ _ (ShDense k), ARd x w n =>
      match lookup x G with
      | Some b => Bool.eqb w (shape_is_win (b_shape b)) && Nat.eqb n (shape_rank (b_shape b)) && Nat.eqb n k && negb (Nat.eqb k 0)
      | None => false
      end
  | FNum _ _ _ (ShDense k), AWn x n => match lookup x G with Some _ => Nat.eqb n k | None => false end
  | FNum _ _ _ (ShWin k), ARd x w n =>
      match lookup x G with
      | Some b => Bool.eqb w (shape_is_win (b_shape b)) && Nat.eqb n (shape_rank (b_shape b)) && Nat.eqb n k && negb (Nat.eqb k 0)
                  && negb (shape_is_win (b_shape b))         (* windows only as window expressions *)
      | None => false
      end
  | FNum _ _ _ (ShWin k), AWn x n => match lookup x G with Some _ => Nat.eqb n k | None => false end
  | _, _ => false
  end.

Fixpoint sites_ok (G : env) (args : list carg) (fs : list farg) : bool :=
  match args, fs with
  | a :: args', f :: fs' => site_ok G a f && sites_ok G args' fs'
  | [], [] => true
  | _, _ => false
  end.

(* the src_buf recorded on a window variable lies in its alias chain: it resolves to the variable's root *)
Definition wc (G : env) (x : ident) : bool :=
  match lookup x G with
  | Some b => match b_org b with FromWin => Nat.eqb (rootG G (b_src b)) (b_root b) | _ => true end
  | None => true
  end.

Definition names_agree (G : env) (D : list (ident * ident)) (args : list carg) : bool :=
  forallb (fun a => match arg_name a with Some x => Nat.eqb (root D x) (rootG G x) && wc G x | None => true end) args.

(* state: window_dict exactly as threaded by wr_s.  Checked on the way:
   - every window statement records as src_buf a name of its source's alias chain (the root, or after inline an
     intermediate window), and the environment's entry for the new name is this very statement's (unique binders);
   - at every write and at every call argument the window_dict resolves the name as the environment does
     (names are used after their definition);
   - every call site satisfies site_ok. *)
Fixpoint hyp_s {A} (sigs : list (list farg)) (G : env) (st : bool * list (ident * ident)) (s : stmt A)
  : bool * list (ident * ident) :=
  let '(ok, D) := st in
  match s with
  | SAssign x _ _ | SReduce x _ _ => (ok && Nat.eqb (root D x) (rootG G x) && wc G x, D)
  | SWin w src _ sb =>
      (ok && Nat.eqb (rootG G sb) (root D src) && Nat.eqb (root D src) (rootG G src) && wc G src
          && match lookup w G with
             | Some b => (match b_org b with FromWin => true | _ => false end) && Nat.eqb (b_src b) sb
                         && Nat.eqb (b_root b) (root D src)
             | None => false
             end,
       (w, root D src) :: D)
  | SCall f args =>
      (ok && match nth_error sigs f with Some fs => sites_ok G args fs && names_agree G D args | None => false end, D)
  | SIf b1 b2 => fold_left (hyp_s sigs G) b2 (fold_left (hyp_s sigs G) b1 st)
  | SFor b => fold_left (hyp_s sigs G) b st
  | _ => st
  end.

Definition hyp_proc {A} (d : prec) (sigs : list (list farg)) (p : proc A) : bool :=
  fst (fold_left (hyp_s sigs (env_of d p)) (p_body p) (true, [])).

(* ------------------------------------------------------------------ the property's own reading of one clause *)
(* "a window passed where a dense tensor is required", judged by the DECLARED shape of the actual (the analyses
   judge by the type recorded on the read, which set_window leaves stale) *)
Definition decl_win_site (G : env) (a : carg) (f : farg) : bool :=
  match f, a with
  | FNum _ _ _ (ShDense _), ARd x _ _ => match lookup x G with Some b => shape_is_win (b_shape b) | None => false end
  | FNum _ _ _ (ShDense _), AWn _ _ => true
  | _, _ => false
  end.

Fixpoint decl_win_sites (G : env) (args : list carg) (fs : list farg) : bool :=
  match args, fs with
  | a :: args', f :: fs' => decl_win_site G a f || decl_win_sites G args' fs'
  | _, _ => false
  end.

Fixpoint decl_win_s {A} (sigs : list (list farg)) (G : env) (s : stmt A) : bool :=
  match s with
  | SIf b1 b2 => existsb (decl_win_s sigs G) b1 || existsb (decl_win_s sigs G) b2
  | SFor b => existsb (decl_win_s sigs G) b
  | SCall f args => match nth_error sigs f with Some fs => decl_win_sites G args fs | None => false end
  | _ => false
  end.

Definition decl_window_for_dense {A} (d : prec) (sigs : list (list farg)) (p : proc A) : bool :=
  existsb (decl_win_s sigs (env_of d p)) (p_body p).
