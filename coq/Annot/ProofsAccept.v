(* C15 — acceptance: what backend_checks = Ok guarantees about the analysed procedures:
   precision part of the C typing judgment, memory consistency, window consistency. *)
From Coq Require Import List Bool Arith PeanoNat Lia.
From Annot Require Import Model ModelSpec ProofsBase ProofsPrec ProofsChecks.
Import ListNotations.

(* ------------------------------------------------------------------ the environment of the output is the input's *)
Lemma Forall_Forall2_combine : forall {T U} (P : T -> Prop) (R Q : T -> U -> Prop) l l',
  Forall P l -> Forall2 R l l' -> (forall a b, P a -> R a b -> Q a b) -> Forall2 Q l l'.
Proof.
  intros T U P R Q l l' HP HR HQ. induction HR; [constructor|].
  inversion HP; subst. constructor; auto.
Qed.

Lemma Forall2_impl' : forall {T U} (R Q : T -> U -> Prop) l l',
  (forall a b, R a b -> Q a b) -> Forall2 R l l' -> Forall2 Q l l'.
Proof. intros T U R Q l l' H HR. induction HR; constructor; auto. Qed.

Lemma binds_fold_ext : forall {A B} d (l : list (stmt A)) (l' : list (stmt B)),
  Forall2 (fun a b => forall G0, binds_s d G0 b = binds_s d G0 a) l l' ->
  forall G0, fold_left (binds_s d) l' G0 = fold_left (binds_s d) l G0.
Proof.
  intros A B d l l' H. induction H; intros G0; simpl; [reflexivity|]. rewrite H. apply IHForall2.
Qed.

Lemma pstmt_binds : forall d sigs G s s', pstmt d sigs G s = Ok s' -> forall G0, binds_s d G0 s' = binds_s d G0 s.
Proof.
  intros d sigs G s. induction s using stmt_ind'; intros s' Hs G0; simpl in Hs.
  - inversion Hs; reflexivity.
  - destruct (passign G x e) as [[? ?]|]; simpl in Hs; [|discriminate]. inversion Hs; reflexivity.
  - destruct (passign G x e) as [[? ?]|]; simpl in Hs; [|discriminate]. inversion Hs; reflexivity.
  - destruct (map_res (pstmt d sigs G) b1) as [c1|] eqn:E1; simpl in Hs; [|discriminate].
    destruct (map_res (pstmt d sigs G) b2) as [c2|] eqn:E2; simpl in Hs; [|discriminate].
    inversion Hs; subst. simpl. apply map_res_ok in E1. apply map_res_ok in E2.
    rewrite (binds_fold_ext d b1 c1); [apply (binds_fold_ext d b2 c2)|].
    + eapply Forall_Forall2_combine; [exact H0 | exact E2 | intros a b Pa Rab; exact (Pa b Rab)].
    + eapply Forall_Forall2_combine; [exact H | exact E1 | intros a b Pa Rab; exact (Pa b Rab)].
  - destruct (map_res (pstmt d sigs G) b) as [c1|] eqn:E1; simpl in Hs; [|discriminate].
    inversion Hs; subst. simpl. apply map_res_ok in E1. apply (binds_fold_ext d b c1).
    eapply Forall_Forall2_combine; [exact H | exact E1 | intros a b0 Pa Rab; exact (Pa b0 Rab)].
  - inversion Hs; subst. simpl. rewrite resolve_idem. reflexivity.
  - destruct (lookup src G); [|discriminate]. inversion Hs; reflexivity.
  - destruct (nth_error sigs f); [|discriminate]. destruct (pcall d G args l) as [[]|]; simpl in Hs; [|discriminate].
    inversion Hs; reflexivity.
Qed.

Lemma wstmt_binds : forall {A} d sigs (s s' : stmt A), wstmt sigs s = Ok s' -> forall G0, binds_s d G0 s' = binds_s d G0 s.
Proof.
  intros A d sigs s. induction s using stmt_ind'; intros s' Hs G0; simpl in Hs; try (inversion Hs; reflexivity).
  - destruct (map_res (wstmt sigs) b1) as [c1|] eqn:E1; simpl in Hs; [|discriminate].
    destruct (map_res (wstmt sigs) b2) as [c2|] eqn:E2; simpl in Hs; [|discriminate].
    inversion Hs; subst. simpl. apply map_res_ok in E1. apply map_res_ok in E2.
    rewrite (binds_fold_ext d b1 c1); [apply (binds_fold_ext d b2 c2)|].
    + eapply Forall_Forall2_combine; [exact H0 | exact E2 | intros a b Pa Rab; exact (Pa b Rab)].
    + eapply Forall_Forall2_combine; [exact H | exact E1 | intros a b Pa Rab; exact (Pa b Rab)].
  - destruct (map_res (wstmt sigs) b) as [c1|] eqn:E1; simpl in Hs; [|discriminate].
    inversion Hs; subst. simpl. apply map_res_ok in E1. apply (binds_fold_ext d b c1).
    eapply Forall_Forall2_combine; [exact H | exact E1 | intros a b0 Pa Rab; exact (Pa b0 Rab)].
  - destruct (nth_error sigs f); [|discriminate]. destruct (wargs args l); simpl in Hs; [|discriminate].
    inversion Hs; reflexivity.
Qed.

Lemma arg_binds_resolved : forall d args G0,
  fold_left (arg_binds d) (map (fun a => match a with FNum x p m sh => FNum x (resolve d p) m sh | _ => a end) args) G0
  = fold_left (arg_binds d) args G0.
Proof.
  intros d args. induction args as [|a args IH]; intros G0; simpl; [reflexivity|].
  destruct a; simpl; [apply IH|]. rewrite resolve_idem. apply IH.
Qed.

Lemma check_proc_env : forall c sigs p q, check_proc c sigs p = Ok q -> env_of (c_dflt c) q = env_of (c_dflt c) p.
Proof.
  intros c sigs p q H. unfold check_proc in H.
  destruct (map_res (pstmt (c_dflt c) sigs (env_of (c_dflt c) p)) (p_body p)) as [b1|] eqn:E1; simpl in H; [|discriminate].
  destruct (map_res (wstmt sigs) b1) as [b2|] eqn:E2; simpl in H; [|discriminate].
  destruct (all_res (mstmt (c_mem c) sigs (env_of (c_dflt c) p)) b2) as [[]|]; simpl in H; [|discriminate].
  destruct (all_res (gstmt (c_mem c) (env_of (c_dflt c) p)) b2) as [[]|]; simpl in H; [|discriminate].
  inversion H; subst. unfold env_of at 1. simpl. rewrite arg_binds_resolved.
  apply map_res_ok in E1. apply map_res_ok in E2.
  rewrite (binds_fold_ext (c_dflt c) b1 b2).
  - rewrite (binds_fold_ext (c_dflt c) (p_body p) b1); [reflexivity|].
    eapply Forall2_impl'; [|exact E1]. intros a b Hab G0. eapply pstmt_binds. exact Hab.
  - eapply Forall2_impl'; [|exact E2]. intros a b Hab G0. eapply wstmt_binds. exact Hab.
Qed.

(* the environment of a procedure carries resolved precisions only *)
Lemma binds_s_res : forall {A} d, d <> PR -> forall (s : stmt A) G, env_res G -> env_res (binds_s d G s).
Proof.
  intros A d Hd s. induction s using stmt_ind'; intros G HG; simpl; try assumption.
  - assert (K : forall (l : list (stmt A)), Forall (fun s => forall G, env_res G -> env_res (binds_s d G s)) l ->
                forall G, env_res G -> env_res (fold_left (binds_s d) l G)).
    { intros l Hl. induction Hl; intros G0 HG0; simpl; [assumption|]. apply IHHl. apply H1. assumption. }
    apply K; [assumption|]. apply K; assumption.
  - assert (K : forall (l : list (stmt A)), Forall (fun s => forall G, env_res G -> env_res (binds_s d G s)) l ->
                forall G, env_res G -> env_res (fold_left (binds_s d) l G)).
    { intros l Hl. induction Hl; intros G0 HG0; simpl; [assumption|]. apply IHHl. apply H0. assumption. }
    apply K; assumption.
  - intros y b Hy. simpl in Hy. destruct (Nat.eqb y x); [inversion Hy; subst; simpl; apply resolve_nonR; assumption | eapply HG; eauto].
  - destruct (lookup src G) as [bs|] eqn:L; [|assumption].
    intros y b Hy. simpl in Hy. destruct (Nat.eqb y x); [inversion Hy; subst; simpl; eapply HG; eauto | eapply HG; eauto].
Qed.

Lemma env_of_res : forall {A} d (p : proc A), d <> PR -> env_res (env_of d p).
Proof.
  intros A d p Hd. unfold env_of.
  assert (K : forall (l : list (stmt A)) G, env_res G -> env_res (fold_left (binds_s d) l G)).
  { induction l as [|s l IH]; intros G HG; simpl; [assumption|]. apply IH. apply binds_s_res; assumption. }
  apply K.
  assert (K2 : forall l G, env_res G -> env_res (fold_left (arg_binds d) l G)).
  { induction l as [|a l IH]; intros G HG; simpl; [assumption|]. apply IH. destruct a; simpl; [assumption|].
    intros y b Hy. simpl in Hy. destruct (Nat.eqb y x); [inversion Hy; subst; simpl; apply resolve_nonR; assumption | eapply HG; eauto]. }
  apply K2. intros y b Hy. discriminate.
Qed.

(* ------------------------------------------------------------------ precision part of cwt *)
Lemma forallb_flat_map : forall {T U} (f : T -> list U) (g : U -> bool) l,
  forallb g (flat_map f l) = forallb (fun x => forallb g (f x)) l.
Proof. intros T U f g l. induction l as [|a l IH]; simpl; [reflexivity|]. rewrite forallb_app, IH. reflexivity. Qed.

Section PrecAccept.
  Variables (d : prec) (W : list (list bool)) (sigs : list (list farg)) (NC : list ident) (G : env).
  Hypothesis HG : env_res G.

  Lemma call_obl_prec : forall args flags fs,
    (forall k a fx fp fm fsh y b, nth_error args k = Some a -> nth_error fs k = Some (FNum fx fp fm fsh) ->
        arg_name a = Some y -> lookup y G = Some b -> resolve d fp = b_prec b) ->
    forallb ok_prec (call_obl d NC G args flags fs) = true.
  Proof.
    induction args as [|a args IH]; intros flags fs H; [reflexivity|].
    destruct flags as [|w flags]; [reflexivity|]. destruct fs as [|f fs]; [reflexivity|].
    simpl. rewrite forallb_app. apply andb_true_iff. split.
    - destruct a as [x rw n|x n|]; simpl.
      + destruct (lookup x G) as [b|] eqn:L; [|reflexivity]. simpl. rewrite andb_true_r.
        destruct f as [|fx fp fm fsh]; simpl.
        * unfold compat_prec. destruct (name_cty G NC x b); reflexivity.
        * specialize (H 0 (ARd x rw n) fx fp fm fsh x b eq_refl eq_refl eq_refl L).
          unfold compat_prec, name_cty. destruct (b_shape b), fsh; simpl; rewrite H; apply prec_eqb_refl.
      + destruct (lookup x G) as [b|] eqn:L; [|reflexivity]. simpl. rewrite andb_true_r.
        destruct f as [|fx fp fm fsh]; simpl; [reflexivity|].
        specialize (H 0 (AWn x n) fx fp fm fsh x b eq_refl eq_refl eq_refl L).
        unfold compat_prec. destruct fsh; simpl; rewrite H; apply prec_eqb_refl.
      + reflexivity.
    - apply IH. intros k a' fx fp fm fsh y b Ha Hf. apply (H (S k) a' fx fp fm fsh y b); assumption.
  Qed.

  Lemma obl_prec_stmt : forall s s1 s2, pstmt d sigs G s = Ok s1 -> wstmt sigs s1 = Ok s2 ->
    forallb ok_prec (obl_s d W sigs NC G s2) = true.
  Proof.
    intros s. induction s using stmt_ind'; intros s1 s2 P1 P2; simpl in P1.
    - inversion P1; subst. simpl in P2. inversion P2; reflexivity.
    - destruct (passign G x e) as [[t' e']|] eqn:Ea; simpl in P1; [|discriminate]. inversion P1; subst.
      simpl in P2. inversion P2; subst. simpl.
      destruct (passign_wt _ _ _ _ _ HG Ea) as [Hw [Ht [b [Hl Hb]]]]. rewrite Hl. simpl.
      rewrite Hw, Hb, prec_eqb_refl. simpl. apply is_R_false in Ht. rewrite Ht. reflexivity.
    - destruct (passign G x e) as [[t' e']|] eqn:Ea; simpl in P1; [|discriminate]. inversion P1; subst.
      simpl in P2. inversion P2; subst. simpl.
      destruct (passign_wt _ _ _ _ _ HG Ea) as [Hw [Ht [b [Hl Hb]]]]. rewrite Hl. simpl.
      rewrite Hw, Hb, prec_eqb_refl. simpl. apply is_R_false in Ht. rewrite Ht. reflexivity.
    - destruct (map_res (pstmt d sigs G) b1) as [c1|] eqn:E1; simpl in P1; [|discriminate].
      destruct (map_res (pstmt d sigs G) b2) as [c2|] eqn:E2; simpl in P1; [|discriminate].
      inversion P1; subst. simpl in P2.
      destruct (map_res (wstmt sigs) c1) as [d1|] eqn:F1; simpl in P2; [|discriminate].
      destruct (map_res (wstmt sigs) c2) as [d2|] eqn:F2; simpl in P2; [|discriminate].
      inversion P2; subst. simpl. rewrite forallb_app, !forallb_flat_map.
      apply map_res_ok in E1, E2, F1, F2.
      assert (K : forall b c dd, Forall (fun s => forall s1 s2, pstmt d sigs G s = Ok s1 -> wstmt sigs s1 = Ok s2 ->
                                    forallb ok_prec (obl_s d W sigs NC G s2) = true) b ->
                  Forall2 (fun a b => pstmt d sigs G a = Ok b) b c -> Forall2 (fun a b => wstmt sigs a = Ok b) c dd ->
                  forallb (fun x => forallb ok_prec (obl_s d W sigs NC G x)) dd = true).
      { intros b c dd Hb Hc. revert dd. induction Hc; intros dd Hd; inversion Hd; subst; [reflexivity|].
        inversion Hb; subst. simpl. rewrite (H5 _ _ H1 H4). simpl. apply IHHc; assumption. }
      rewrite (K _ _ _ H E1 F1), (K _ _ _ H0 E2 F2). reflexivity.
    - destruct (map_res (pstmt d sigs G) b) as [c1|] eqn:E1; simpl in P1; [|discriminate].
      inversion P1; subst. simpl in P2.
      destruct (map_res (wstmt sigs) c1) as [d1|] eqn:F1; simpl in P2; [|discriminate].
      inversion P2; subst. simpl. rewrite forallb_flat_map.
      apply map_res_ok in E1, F1.
      assert (K : forall b c dd, Forall (fun s => forall s1 s2, pstmt d sigs G s = Ok s1 -> wstmt sigs s1 = Ok s2 ->
                                    forallb ok_prec (obl_s d W sigs NC G s2) = true) b ->
                  Forall2 (fun a b => pstmt d sigs G a = Ok b) b c -> Forall2 (fun a b => wstmt sigs a = Ok b) c dd ->
                  forallb (fun x => forallb ok_prec (obl_s d W sigs NC G x)) dd = true).
      { intros b0 c dd Hb Hc. revert dd. induction Hc; intros dd Hd; inversion Hd; subst; [reflexivity|].
        inversion Hb; subst. simpl. rewrite (H4 _ _ H0 H3). simpl. apply IHHc; assumption. }
      apply (K _ _ _ H E1 F1).
    - inversion P1; subst. simpl in P2. inversion P2; reflexivity.
    - destruct (lookup src G); [|discriminate]. inversion P1; subst. simpl in P2. inversion P2; subst. simpl.
      destruct (lookup src G), (lookup x G); reflexivity.
    - destruct (nth_error sigs f) as [fs|] eqn:Ef; [|discriminate].
      destruct (pcall d G args fs) as [[]|] eqn:Ep; simpl in P1; [|discriminate]. inversion P1; subst.
      simpl in P2. rewrite Ef in P2. destruct (wargs args fs) as [r|] eqn:Ew; simpl in P2; [|discriminate].
      inversion P2; subst. simpl. rewrite Ef. rewrite forallb_app. apply andb_true_iff. split.
      + destruct (Nat.eqb (length r) (length fs)); reflexivity.
      + apply call_obl_prec. intros k a' fx fp fm fsh y b Ha Hf Hn Hl.
        destruct (wargs_ok_at_r _ _ _ Ew _ _ _ Ha Hf) as [a [Hpr Ha0]].
        destruct (pcall_ok_at _ _ _ _ Ep _ _ _ _ _ _ Ha0 Hf) as [y' [b' [Hn' [Hl' He]]]].
        rewrite (wpromote_name _ _ _ Hpr) in Hn. rewrite Hn in Hn'. inversion Hn'; subst.
        rewrite Hl in Hl'. inversion Hl'; subst. assumption.
  Qed.
End PrecAccept.

Theorem accept_prec : forall c prog order aps i q W,
  c_dflt c <> PR ->
  backend_checks c prog order = Ok aps -> In (i, q) aps ->
  cwt_prec (ctypes (c_dflt c) W (sigs_of prog) q) = true.
Proof.
  intros c prog order aps i q W Hd H Hq.
  destruct (backend_ok_proc_r _ _ _ _ _ _ H Hq) as [p [Hi [Hp Hc]]].
  unfold cwt_prec, ctypes. rewrite (check_proc_env _ _ _ _ Hc).
  set (G := env_of (c_dflt c) p). rewrite forallb_flat_map. apply forallb_forall. intros s2 Hs2.
  unfold check_proc in Hc. fold G in Hc.
  destruct (map_res (pstmt (c_dflt c) (sigs_of prog) G) (p_body p)) as [b1|] eqn:E1; simpl in Hc; [|discriminate].
  destruct (map_res (wstmt (sigs_of prog)) b1) as [b2|] eqn:E2; simpl in Hc; [|discriminate].
  destruct (all_res (mstmt (c_mem c) (sigs_of prog) G) b2) as [[]|]; simpl in Hc; [|discriminate].
  destruct (all_res (gstmt (c_mem c) G) b2) as [[]|]; simpl in Hc; [|discriminate].
  inversion Hc; subst. simpl in *. apply map_res_ok in E1, E2.
  destruct (Forall2_in_r _ _ _ _ E2 Hs2) as [s1 [Hs1 P2]].
  destruct (Forall2_in_r _ _ _ _ E1 Hs1) as [s [Hs P1]].
  eapply obl_prec_stmt; eauto. apply env_of_res. assumption.
Qed.

(* ------------------------------------------------------------------ memory consistency *)
Section MemAccept.
  Variables (A : Type) (M : memdata) (sigs : list (list farg)) (G : env).

  Lemma macc_args_ok : forall args fs, mcall M G args fs = Ok tt -> forallb (macc_ok M G) (macc_args args fs) = true.
  Proof.
    induction args as [|a args IH]; intros fs H; [reflexivity|]. destruct fs as [|f fs]; [reflexivity|].
    simpl in H. simpl. rewrite forallb_app. apply andb_true_iff. split.
    - destruct f as [|fx fp fm fsh]; [reflexivity|]. destruct (arg_name a) as [y|]; [|reflexivity].
      simpl. destruct (lookup y G) as [b|]; simpl in H; [|discriminate].
      destruct (m_sub M (b_mem b) fm); [reflexivity | discriminate].
    - apply IH. match type of H with bind ?r _ = _ => destruct r as [[]|] end; simpl in H; [assumption | discriminate].
  Qed.

  Lemma greads_ok : forall l, all_res (gread M G) l = Ok tt -> forallb (macc_ok M G) (map MRead l) = true.
  Proof.
    induction l as [|y l IH]; intros H; [reflexivity|]. simpl in H. simpl.
    destruct (gread M G y) as [[]|] eqn:E; simpl in H; [|discriminate]. rewrite (IH H), andb_true_r.
    unfold gread in E. destruct (lookup y G) as [b|]; [|discriminate]. destruct (m_read M (b_mem b)); [reflexivity|discriminate].
  Qed.

  Lemma macc_stmt : forall (s : stmt A), mstmt M sigs G s = Ok tt -> gstmt M G s = Ok tt ->
    forallb (macc_ok M G) (macc_s sigs s) = true.
  Proof.
    intros s. induction s using stmt_ind'; intros Hm Hg; simpl in *; try reflexivity.
    - destruct (all_res (gread M G) (reads e)) as [[]|] eqn:E; simpl in Hg; [|discriminate].
      rewrite forallb_app, (greads_ok _ E). simpl. unfold gwrite in Hg.
      destruct (lookup x G) as [b|]; [|discriminate]. destruct (m_write M (b_mem b)); [reflexivity|discriminate].
    - destruct (all_res (gread M G) (reads e)) as [[]|] eqn:E; simpl in Hg; [|discriminate].
      rewrite forallb_app, (greads_ok _ E). simpl. unfold gwrite in Hg.
      destruct (lookup x G) as [b|]; [|discriminate]. destruct (m_reduce M (b_mem b)); [reflexivity|discriminate].
    - destruct (all_res (mstmt M sigs G) b1) as [[]|] eqn:M1; simpl in Hm; [|discriminate].
      destruct (all_res (gstmt M G) b1) as [[]|] eqn:G1; simpl in Hg; [|discriminate].
      rewrite forallb_app, !forallb_flat_map.
      assert (K : forall (b : list (stmt A)), Forall (fun s => mstmt M sigs G s = Ok tt -> gstmt M G s = Ok tt ->
                                              forallb (macc_ok M G) (macc_s sigs s) = true) b ->
                  all_res (mstmt M sigs G) b = Ok tt -> all_res (gstmt M G) b = Ok tt ->
                  forallb (fun x => forallb (macc_ok M G) (macc_s sigs x)) b = true).
      { intros b Hb Hmb Hgb. apply all_res_ok in Hmb, Hgb. rewrite Forall_forall in *. apply forallb_forall. intros x Hx. auto. }
      rewrite (K _ H M1 G1), (K _ H0 Hm Hg). reflexivity.
    - rewrite forallb_flat_map. apply all_res_ok in Hm, Hg. rewrite Forall_forall in *. apply forallb_forall. intros x Hx. auto.
    - destruct (nth_error sigs f) as [fs|]; [|reflexivity]. apply macc_args_ok. assumption.
  Qed.
End MemAccept.

Theorem accept_mem : forall c prog order aps i q,
  backend_checks c prog order = Ok aps -> In (i, q) aps -> mem_consistent c (sigs_of prog) q = true.
Proof.
  intros c prog order aps i q H Hq.
  destruct (backend_ok_proc_r _ _ _ _ _ _ H Hq) as [p [Hi [Hp Hc]]].
  unfold mem_consistent. rewrite (check_proc_env _ _ _ _ Hc).
  set (G := env_of (c_dflt c) p). rewrite forallb_flat_map. apply forallb_forall. intros s2 Hs2.
  unfold check_proc in Hc. fold G in Hc.
  destruct (map_res (pstmt (c_dflt c) (sigs_of prog) G) (p_body p)) as [b1|] eqn:E1; simpl in Hc; [|discriminate].
  destruct (map_res (wstmt (sigs_of prog)) b1) as [b2|] eqn:E2; simpl in Hc; [|discriminate].
  destruct (all_res (mstmt (c_mem c) (sigs_of prog) G) b2) as [[]|] eqn:E3; simpl in Hc; [|discriminate].
  destruct (all_res (gstmt (c_mem c) G) b2) as [[]|] eqn:E4; simpl in Hc; [|discriminate].
  inversion Hc; subst. simpl in *. apply all_res_ok in E3, E4. rewrite Forall_forall in E3, E4.
  apply macc_stmt; auto.
Qed.

(* ------------------------------------------------------------------ window consistency *)
Lemma wargs_sites : forall args fs r, wargs args fs = Ok r -> wsites_ok r fs = true.
Proof.
  induction args as [|a args IH]; intros fs r H; simpl in H.
  - inversion H; reflexivity.
  - destruct fs as [|f fs]; [inversion H; reflexivity|].
    destruct (wpromote a f) as [a'|] eqn:E; simpl in H; [|discriminate].
    destruct (wargs args fs) as [r'|] eqn:Er; simpl in H; [|discriminate]. inversion H; subst. simpl.
    rewrite (IH _ _ Er), andb_true_r.
    destruct f as [|x p m sh]; [reflexivity|]. simpl in E. destruct sh; simpl; [reflexivity| |].
    + destruct (arg_is_win a) eqn:Ew; [discriminate|]. inversion E; subst. rewrite Ew. reflexivity.
    + destruct (arg_is_win a) eqn:Ew; [inversion E; subst; assumption|].
      destruct a as [y w [|k]| |]; try discriminate. inversion E; reflexivity.
Qed.

Lemma wstmt_win_ok : forall {A} sigs (s s' : stmt A), wstmt sigs s = Ok s' -> win_ok_s sigs s' = true.
Proof.
  intros A sigs s. induction s using stmt_ind'; intros s' H'; simpl in H'; try (inversion H'; reflexivity).
  - destruct (map_res (wstmt sigs) b1) as [c1|] eqn:E1; simpl in H'; [|discriminate].
    destruct (map_res (wstmt sigs) b2) as [c2|] eqn:E2; simpl in H'; [|discriminate].
    inversion H'; subst. simpl. apply map_res_ok in E1, E2.
    assert (K : forall (b c : list (stmt A)), Forall (fun s => forall s', wstmt sigs s = Ok s' -> win_ok_s sigs s' = true) b ->
                Forall2 (fun a b => wstmt sigs a = Ok b) b c -> forallb (win_ok_s sigs) c = true).
    { intros b c Hb Hc. induction Hc; [reflexivity|]. inversion Hb; subst. simpl. rewrite (H4 _ H1). simpl. auto. }
    rewrite (K _ _ H E1), (K _ _ H0 E2). reflexivity.
  - destruct (map_res (wstmt sigs) b) as [c1|] eqn:E1; simpl in H'; [|discriminate].
    inversion H'; subst. simpl. apply map_res_ok in E1.
    assert (K : forall (b c : list (stmt A)), Forall (fun s => forall s', wstmt sigs s = Ok s' -> win_ok_s sigs s' = true) b ->
                Forall2 (fun a b => wstmt sigs a = Ok b) b c -> forallb (win_ok_s sigs) c = true).
    { intros b0 c Hb Hc. induction Hc; [reflexivity|]. inversion Hb; subst. simpl. rewrite (H3 _ H0). simpl. auto. }
    apply (K _ _ H E1).
  - destruct (nth_error sigs f) as [fs|] eqn:Ef; [|discriminate].
    destruct (wargs args fs) as [r|] eqn:Ew; simpl in H'; [|discriminate]. inversion H'; subst. simpl. rewrite Ef.
    eapply wargs_sites; eauto.
Qed.

Theorem accept_win : forall c prog order aps i q,
  backend_checks c prog order = Ok aps -> In (i, q) aps -> win_consistent (sigs_of prog) q = true.
Proof.
  intros c prog order aps i q H Hq.
  destruct (backend_ok_proc_r _ _ _ _ _ _ H Hq) as [p [Hi [Hp Hc]]].
  unfold win_consistent. apply forallb_forall. intros s2 Hs2.
  unfold check_proc in Hc.
  destruct (map_res (pstmt (c_dflt c) (sigs_of prog) (env_of (c_dflt c) p)) (p_body p)) as [b1|] eqn:E1; simpl in Hc; [|discriminate].
  destruct (map_res (wstmt (sigs_of prog)) b1) as [b2|] eqn:E2; simpl in Hc; [|discriminate].
  destruct (all_res (mstmt (c_mem c) (sigs_of prog) (env_of (c_dflt c) p)) b2) as [[]|]; simpl in Hc; [|discriminate].
  destruct (all_res (gstmt (c_mem c) (env_of (c_dflt c) p)) b2) as [[]|]; simpl in Hc; [|discriminate].
  inversion Hc; subst. simpl in *. apply map_res_ok in E2.
  destruct (Forall2_in_r _ _ _ _ E2 Hs2) as [s1 [Hs1 P2]]. eapply wstmt_win_ok; eauto.
Qed.
