(* C15 — induction principles for the nested syntax, lemmas on map_res / all_res, nested occurrence of statements. *)
From Coq Require Import List Bool Arith PeanoNat Lia.
From Annot Require Import Model ModelSpec.
Import ListNotations.

(* ------------------------------------------------------------------ Prop-valued notions of the theorem statements *)
(* nested occurrence of a statement in a block *)
Inductive occurs {A} : stmt A -> list (stmt A) -> Prop :=
| occ_here : forall s l, In s l -> occurs s l
| occ_if1 : forall s b1 b2 l, In (SIf b1 b2) l -> occurs s b1 -> occurs s l
| occ_if2 : forall s b1 b2 l, In (SIf b1 b2) l -> occurs s b2 -> occurs s l
| occ_for : forall s b l, In (SFor b) l -> occurs s b -> occurs s l.

(* every binding of the environment carries a resolved precision *)
Definition env_res (G : env) : Prop := forall x b, lookup x G = Some b -> b_prec b <> PR.


(* ------------------------------------------------------------------ induction principles *)
Section ExprInd.
  Variable A : Type.
  Variable P : expr A -> Prop.
  Hypothesis HConst : forall t, P (EConst t).
  Hypothesis HRead : forall a x, P (ERead a x).
  Hypothesis HUSub : forall a e, P e -> P (EUSub a e).
  Hypothesis HBin : forall a l r, P l -> P r -> P (EBin a l r).
  Hypothesis HExt : forall a args, Forall P args -> P (EExt a args).

  Fixpoint expr_ind' (e : expr A) : P e :=
    match e with
    | EConst t => HConst t
    | ERead a x => HRead a x
    | EUSub a e1 => HUSub a e1 (expr_ind' e1)
    | EBin a l r => HBin a l r (expr_ind' l) (expr_ind' r)
    | EExt a args =>
        HExt a args ((fix go (l : list (expr A)) : Forall P l :=
                        match l with
                        | [] => Forall_nil P
                        | x :: l' => Forall_cons x (expr_ind' x) (go l')
                        end) args)
    end.
End ExprInd.

Section StmtInd.
  Variable A : Type.
  Variable P : stmt A -> Prop.
  Hypothesis HPass : P SPass.
  Hypothesis HAssign : forall x t e, P (SAssign x t e).
  Hypothesis HReduce : forall x t e, P (SReduce x t e).
  Hypothesis HIf : forall b1 b2, Forall P b1 -> Forall P b2 -> P (SIf b1 b2).
  Hypothesis HFor : forall b, Forall P b -> P (SFor b).
  Hypothesis HAlloc : forall x p m n, P (SAlloc x p m n).
  Hypothesis HWin : forall x src n sb, P (SWin x src n sb).
  Hypothesis HCall : forall f args, P (SCall f args).

  Fixpoint stmt_ind' (s : stmt A) : P s :=
    let go := fix go (l : list (stmt A)) : Forall P l :=
                match l with
                | [] => Forall_nil P
                | x :: l' => Forall_cons x (stmt_ind' x) (go l')
                end in
    match s with
    | SPass => HPass
    | SAssign x t e => HAssign x t e
    | SReduce x t e => HReduce x t e
    | SIf b1 b2 => HIf b1 b2 (go b1) (go b2)
    | SFor b => HFor b (go b)
    | SAlloc x p m n => HAlloc x p m n
    | SWin x src n sb => HWin x src n sb
    | SCall f args => HCall f args
    end.
End StmtInd.

(* ------------------------------------------------------------------ prec *)
Lemma prec_eqb_eq : forall a b, prec_eqb a b = true <-> a = b.
Proof. destruct a, b; simpl; split; intro H; try reflexivity; try discriminate. Qed.

Lemma prec_eqb_refl : forall a, prec_eqb a a = true.
Proof. destruct a; reflexivity. Qed.

Lemma prec_eqb_neq : forall a b, prec_eqb a b = false <-> a <> b.
Proof.
  intros a b. split.
  - intros H E. subst. rewrite prec_eqb_refl in H. discriminate.
  - intro H. destruct (prec_eqb a b) eqn:E; [apply prec_eqb_eq in E; contradiction | reflexivity].
Qed.

Lemma is_R_true : forall a, is_R a = true <-> a = PR.
Proof. destruct a; simpl; split; intro H; try reflexivity; discriminate. Qed.

Lemma is_R_false : forall a, is_R a = false <-> a <> PR.
Proof. destruct a; simpl; split; intro H; try reflexivity; try discriminate; try (exfalso; apply H; reflexivity). Qed.

Lemma resolve_idem : forall d p, resolve d (resolve d p) = resolve d p.
Proof. intros d p. unfold resolve. destruct (is_R p) eqn:E; [destruct (is_R d) eqn:E2; [apply is_R_true in E2; subst; reflexivity | reflexivity] | rewrite E; reflexivity]. Qed.

Lemma resolve_nonR : forall d p, d <> PR -> resolve d p <> PR.
Proof. intros d p H. unfold resolve. destruct (is_R p) eqn:E; [assumption | apply is_R_false; assumption]. Qed.

(* ------------------------------------------------------------------ map_res / all_res *)
Lemma map_res_ok : forall {T U} (f : T -> res U) l l',
  map_res f l = Ok l' <-> Forall2 (fun a b => f a = Ok b) l l'.
Proof.
  intros T U f l. induction l as [|a l IH]; intros l'; simpl.
  - split; intro H; [inversion H; constructor | inversion H; reflexivity].
  - split; intro H.
    + destruct (f a) eqn:Ea; simpl in H; [|discriminate].
      destruct (map_res f l) eqn:El; simpl in H; [|discriminate].
      inversion H; subst. constructor; [assumption | apply IH; reflexivity].
    + inversion H as [|a' b l1 l2 Hab Hl]; subst. rewrite Hab. simpl.
      apply IH in Hl. rewrite Hl. reflexivity.
Qed.

Lemma map_res_err_in : forall {T U} (f : T -> res U) l a e,
  In a l -> f a = Err e -> exists e', map_res f l = Err e'.
Proof.
  intros T U f l. induction l as [|b l IH]; intros a e Hin Hf; [destruct Hin|].
  simpl. destruct Hin as [->|Hin].
  - rewrite Hf. simpl. eauto.
  - destruct (f b); simpl; [|eauto].
    destruct (IH _ _ Hin Hf) as [e' He']. rewrite He'. simpl. eauto.
Qed.

Lemma all_res_ok : forall {T} (f : T -> res unit) l,
  all_res f l = Ok tt <-> Forall (fun a => f a = Ok tt) l.
Proof.
  intros T f l. induction l as [|a l IH]; simpl.
  - split; intro; [constructor | reflexivity].
  - split; intro H.
    + destruct (f a) as [[]|] eqn:Ea; simpl in H; [|discriminate]. constructor; [assumption | apply IH; assumption].
    + inversion H; subst. rewrite H2. simpl. apply IH. assumption.
Qed.

Lemma all_res_err_in : forall {T} (f : T -> res unit) l a e,
  In a l -> f a = Err e -> exists e', all_res f l = Err e'.
Proof.
  intros T f l. induction l as [|b l IH]; intros a e Hin Hf; [destruct Hin|].
  simpl. destruct Hin as [->|Hin].
  - rewrite Hf. simpl. eauto.
  - destruct (f b) as [[]|]; simpl; [|eauto]. eapply IH; eauto.
Qed.

Lemma res_unit_cases : forall (r : res unit), r = Ok tt \/ exists e, r = Err e.
Proof. intros [[]|e]; [left; reflexivity | right; eauto]. Qed.

Lemma Forall2_in_l : forall {T U} (R : T -> U -> Prop) l l' a,
  Forall2 R l l' -> In a l -> exists b, In b l' /\ R a b.
Proof.
  intros T U R l l' a H. induction H; intros Hin; [destruct Hin|].
  destruct Hin as [->|Hin]; [exists y; split; [left; reflexivity | assumption]|].
  destruct (IHForall2 Hin) as [b [Hb HR]]. exists b. split; [right; assumption | assumption].
Qed.

Lemma Forall2_in_r : forall {T U} (R : T -> U -> Prop) l l' b,
  Forall2 R l l' -> In b l' -> exists a, In a l /\ R a b.
Proof.
  intros T U R l l' b H. induction H; intros Hin; [destruct Hin|].
  destruct Hin as [->|Hin]; [exists x; split; [left; reflexivity | assumption]|].
  destruct (IHForall2 Hin) as [a [Ha HR]]. exists a. split; [right; assumption | assumption].
Qed.

(* generic lifting: a checker that fails on a statement fails on every block in which the statement occurs,
   provided it fails on an If / For whenever it fails on one of their blocks *)
Section Lift.
  Variables (A U : Type) (f : stmt A -> res U).
  Variable blockf : list (stmt A) -> Prop.        (* "the block is rejected" *)
  Hypothesis blockf_in : forall l s e, In s l -> f s = Err e -> blockf l.
  Hypothesis f_if1 : forall b1 b2, blockf b1 -> exists e, f (SIf b1 b2) = Err e.
  Hypothesis f_if2 : forall b1 b2, blockf b2 -> exists e, f (SIf b1 b2) = Err e.
  Hypothesis f_for : forall b, blockf b -> exists e, f (SFor b) = Err e.

  Lemma occurs_err : forall s l e, occurs s l -> f s = Err e -> blockf l.
  Proof.
    intros s l e H. revert e. induction H; intros e Hf.
    - eapply blockf_in; eauto.
    - destruct (f_if1 b1 b2 (IHoccurs _ Hf)) as [e' He']. eapply blockf_in; eauto.
    - destruct (f_if2 b1 b2 (IHoccurs _ Hf)) as [e' He']. eapply blockf_in; eauto.
    - destruct (f_for b (IHoccurs _ Hf)) as [e' He']. eapply blockf_in; eauto.
  Qed.
End Lift.
