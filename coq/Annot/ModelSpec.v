(* C15 — specification-level notions used in the statements of the property theorems (definitions only). *)
From Coq Require Import List Bool Arith PeanoNat.
From Annot Require Import Model.
Import ListNotations.

(* nested occurrence of a statement in a block *)
Inductive occurs {A} : stmt A -> list (stmt A) -> Prop :=
| occ_here : forall s l, In s l -> occurs s l
| occ_if1 : forall s b1 b2 l, In (SIf b1 b2) l -> occurs s b1 -> occurs s l
| occ_if2 : forall s b1 b2 l, In (SIf b1 b2) l -> occurs s b2 -> occurs s l
| occ_for : forall s b l, In (SFor b) l -> occurs s b -> occurs s l.

(* the resolved (non-R) precisions at the leaves of a numeric expression: typed literals and buffer reads *)
Fixpoint leafs {A} (G : env) (e : expr A) : list prec :=
  match e with
  | EConst t => if is_R t then [] else [t]
  | ERead _ x => match lookup x G with
                 | Some b => if is_R (b_prec b) then [] else [b_prec b]
                 | None => []
                 end
  | EUSub _ e1 => leafs G e1
  | EBin _ l r => leafs G l ++ leafs G r
  | EExt _ args => flat_map (leafs G) args
  end.

(* right-hand side of an assignment or reduction *)
Definition rhs_of {A} (s : stmt A) : option (expr A) :=
  match s with SAssign _ _ e | SReduce _ _ e => Some e | _ => None end.

(* "every node of the tree has the type of its root, reads are resolved" *)
Fixpoint unif (e : expr prec) : bool :=
  match e with
  | EConst _ => true
  | ERead a _ => negb (is_R a)
  | EUSub a e1 => prec_eqb (ty e1) a && unif e1
  | EBin a l r => prec_eqb (ty l) a && prec_eqb (ty r) a && unif l && unif r
  | EExt a args => forallb (fun x => prec_eqb (ty x) a && unif x) args
  end.

(* every binding of the environment carries a resolved precision *)
Definition env_res (G : env) : Prop := forall x b, lookup x G = Some b -> b_prec b <> PR.

(* window consistency of the call sites of an analysed procedure: a window formal receives a window,
   a dense formal does not *)
Definition wsite_ok (a : carg) (f : farg) : bool :=
  match f with
  | FNum _ _ _ (ShWin _) => arg_is_win a
  | FNum _ _ _ (ShDense _) => negb (arg_is_win a)
  | _ => true
  end.

Fixpoint wsites_ok (args : list carg) (fs : list farg) : bool :=
  match args, fs with
  | a :: args', f :: fs' => wsite_ok a f && wsites_ok args' fs'
  | _, _ => true
  end.

Fixpoint win_ok_s {A} (sigs : list (list farg)) (s : stmt A) : bool :=
  match s with
  | SIf b1 b2 => forallb (win_ok_s sigs) b1 && forallb (win_ok_s sigs) b2
  | SFor b => forallb (win_ok_s sigs) b
  | SCall f args => match nth_error sigs f with Some fs => wsites_ok args fs | None => false end
  | _ => true
  end.

Definition win_consistent {A} (sigs : list (list farg)) (p : proc A) : bool := forallb (win_ok_s sigs) (p_body p).
