(* C15 — executable specification-level notions used in the statements of the property theorems
   (Gallina functions only; the two Prop-valued notions `occurs` and `env_res` are in ProofsBase.v). *)
From Coq Require Import List Bool Arith PeanoNat.
From Annot Require Import Model.
Import ListNotations.

(* the resolved (non-R) precisions at the leaves of a numeric expression: typed literals and buffer reads *)
Fixpoint leafs {A} (G : env) (e : expr A) : list prec :=
  match e with
  | EConst t => if is_R t then [] else [t]
  | ERead _ x => match lookup x G with
                 | Some b => if is_R (b_prec b) then [] else [b_prec b]
                 | None => []
                 end
  | EUSub _ e1 => leafs G e1
  | EBin _ l r => leafs G l ++ leafs G r
  | EExt _ args => flat_map (leafs G) args
  end.

(* right-hand side of an assignment or reduction *)
Definition rhs_of {A} (s : stmt A) : option (expr A) :=
  match s with SAssign _ _ e | SReduce _ _ e => Some e | _ => None end.

(* "every node of the tree has the type of its root, reads are resolved" *)
Fixpoint unif (e : expr prec) : bool :=
  match e with
  | EConst _ => true
  | ERead a _ => negb (is_R a)
  | EUSub a e1 => prec_eqb (ty e1) a && unif e1
  | EBin a l r => prec_eqb (ty l) a && prec_eqb (ty r) a && unif l && unif r
  | EExt a args => forallb (fun x => prec_eqb (ty x) a && unif x) args
  end.

(* window consistency of the call sites of an analysed procedure: a window formal receives a window,
   a dense formal does not *)
Definition wsite_ok (a : carg) (f : farg) : bool :=
  match f with
  | FNum _ _ _ (ShWin _) => arg_is_win a
  | FNum _ _ _ (ShDense _) => negb (arg_is_win a)
  | _ => true
  end.

Fixpoint wsites_ok (args : list carg) (fs : list farg) : bool :=
  match args, fs with
  | a :: args', f :: fs' => wsite_ok a f && wsites_ok args' fs'
  | _, _ => true
  end.

Fixpoint win_ok_s {A} (sigs : list (list farg)) (s : stmt A) : bool :=
  match s with
  | SIf b1 b2 => forallb (win_ok_s sigs) b1 && forallb (win_ok_s sigs) b2
  | SFor b => forallb (win_ok_s sigs) b
  | SCall f args => match nth_error sigs f with Some fs => wsites_ok args fs | None => false end
  | _ => true
  end.

Definition win_consistent {A} (sigs : list (list farg)) (p : proc A) : bool := forallb (win_ok_s sigs) (p_body p).

(* every name a statement uses is bound in the environment (the compiler would raise KeyError otherwise) *)
Fixpoint bound_s {A} (G : env) (s : stmt A) : bool :=
  match s with
  | SAssign x _ _ | SReduce x _ _ => match lookup x G with Some _ => true | None => false end
  | SWin _ src _ _ => match lookup src G with Some _ => true | None => false end
  | SCall _ args => forallb (fun a => match arg_name a with
                                      | Some x => match lookup x G with Some _ => true | None => false end
                                      | None => true
                                      end) args
  | SIf b1 b2 => forallb (bound_s G) b1 && forallb (bound_s G) b2
  | SFor b => forallb (bound_s G) b
  | _ => true
  end.

(* stateless consequences of hyp_s at every (nested) statement *)
Fixpoint local_hyp_s {A} (sigs : list (list farg)) (G : env) (s : stmt A) : bool :=
  match s with
  | SAssign x _ _ | SReduce x _ _ => wc G x
  | SWin w src _ sb =>
      Nat.eqb (rootG G sb) (rootG G src) && wc G src
      && match lookup w G with
         | Some b => (match b_org b with FromWin => true | _ => false end) && Nat.eqb (b_src b) sb
                     && Nat.eqb (b_root b) (rootG G src)
         | None => false
         end
  | SCall f args =>
      match nth_error sigs f with
      | Some fs => sites_ok G args fs
                   && forallb (fun a => match arg_name a with Some x => wc G x | None => true end) args
      | None => false
      end
  | SIf b1 b2 => forallb (local_hyp_s sigs G) b1 && forallb (local_hyp_s sigs G) b2
  | SFor b => forallb (local_hyp_s sigs G) b
  | _ => true
  end.

(* names written by a statement, before resolution to root buffers *)
Fixpoint wn_args (args : list carg) (flags : list bool) : list ident :=
  match args, flags with
  | a :: args', w :: flags' => (match arg_name a with Some x => if w then [x] else [] | None => [] end) ++ wn_args args' flags'
  | _, _ => []
  end.

Fixpoint wn_s {A} (W : list (list bool)) (s : stmt A) : list ident :=
  match s with
  | SAssign x _ _ | SReduce x _ _ => [x]
  | SCall f args => wn_args args (nth f W [])
  | SIf b1 b2 => flat_map (wn_s W) b1 ++ flat_map (wn_s W) b2
  | SFor b => flat_map (wn_s W) b
  | _ => []
  end.
