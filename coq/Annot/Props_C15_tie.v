(* C15 — tie of the hand-written model to the source: property theorem only (see Props_C15.v for the others).
   Kept in its own file so that a change of the translated rules breaks exactly this obligation. *)
From Coq Require Import List Bool Arith PeanoNat.
From Annot Require Import Model ModelSpec ProofsBase Gen_Rules ProofsGen.
Import ListNotations.

(* ------------------------------------------------------------------ tie to the source (translator) *)
(* the model's BinOp rule, call-site precision check, window promotion / rejection and memory call rule are the
   rules translated from the CURRENT prec_analysis.py / win_analysis.py / mem_analysis.py (Gen_Rules.v) *)
Theorem C15_model_applies_translated_rules :
  (forall G l r a b, pexpr G l = Ok a -> pexpr G r = Ok b ->
     pexpr G (EBin tt l r) = apply_binres (gen_binop (TP (ty a)) (TP (ty b))) a b) /\
  (forall d G a args x p m sh fs y b, d <> PR -> arg_name a = Some y -> lookup y G = Some b ->
     pcall d G (a :: args) (FNum x p m sh :: fs) =
     if gen_callcheck d (BP p) (BP (b_prec b)) then Err EPrec else pcall d G args fs) /\
  (forall a f, wpromote a f =
     match gen_promote (fst (formal_flags f)) (snd (formal_flags f)) (arg_is_win a) with
     | WPromote => match a with ARd x _ (S n) => Ok (AWn x (S n)) | _ => Err ECrash end
     | WReject => Err EWin
     | WKeep => Ok a
     end) /\
  (forall M G a args x p m sh fs y b, arg_name a = Some y -> lookup y G = Some b ->
     mcall M G (a :: args) (FNum x p m sh :: fs) =
     if gen_memcheck (m_sub M) (b_mem b) m then Err EMem else mcall M G args fs).
Proof. exact model_applies_translated_rules. Qed.
Print Assumptions C15_model_applies_translated_rules.
