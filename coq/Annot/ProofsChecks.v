(* C15 — statement / procedure / program level: what a successful backend_checks implies for every (nested)
   statement, the five rejection clauses, and the acceptance theorems for precision, memory and window consistency. *)
From Coq Require Import List Bool Arith PeanoNat Lia.
From Annot Require Import Model ModelSpec ProofsBase ProofsPrec.
Import ListNotations.

(* ------------------------------------------------------------------ nested statements through the passes *)
Lemma map_res_occurs_pstmt : forall d sigs G s l, occurs s l ->
  forall l', map_res (pstmt d sigs G) l = Ok l' -> exists s', pstmt d sigs G s = Ok s' /\ occurs s' l'.
Proof.
  intros d sigs G s l H. induction H; intros l' Hl; apply map_res_ok in Hl.
  - destruct (Forall2_in_l _ _ _ _ Hl H) as [s' [Hs' Hf]]. exists s'. split; [assumption | constructor; assumption].
  - destruct (Forall2_in_l _ _ _ _ Hl H) as [t [Ht Hf]]. simpl in Hf.
    destruct (map_res (pstmt d sigs G) b1) as [c1|] eqn:E1; simpl in Hf; [|discriminate].
    destruct (map_res (pstmt d sigs G) b2) as [c2|] eqn:E2; simpl in Hf; [|discriminate].
    inversion Hf; subst. destruct (IHoccurs _ eq_refl) as [s' [Hs' Ho]]. exists s'. split; [assumption|].
    eapply occ_if1; eauto.
  - destruct (Forall2_in_l _ _ _ _ Hl H) as [t [Ht Hf]]. simpl in Hf.
    destruct (map_res (pstmt d sigs G) b1) as [c1|] eqn:E1; simpl in Hf; [|discriminate].
    destruct (map_res (pstmt d sigs G) b2) as [c2|] eqn:E2; simpl in Hf; [|discriminate].
    inversion Hf; subst. destruct (IHoccurs _ eq_refl) as [s' [Hs' Ho]]. exists s'. split; [assumption|].
    eapply occ_if2; eauto.
  - destruct (Forall2_in_l _ _ _ _ Hl H) as [t [Ht Hf]]. simpl in Hf.
    destruct (map_res (pstmt d sigs G) b) as [c1|] eqn:E1; simpl in Hf; [|discriminate].
    inversion Hf; subst. destruct (IHoccurs _ eq_refl) as [s' [Hs' Ho]]. exists s'. split; [assumption|].
    eapply occ_for; eauto.
Qed.

Lemma map_res_occurs_wstmt : forall {A} sigs (s : stmt A) l, occurs s l ->
  forall l', map_res (wstmt sigs) l = Ok l' -> exists s', wstmt sigs s = Ok s' /\ occurs s' l'.
Proof.
  intros A sigs s l H. induction H; intros l' Hl; apply map_res_ok in Hl.
  - destruct (Forall2_in_l _ _ _ _ Hl H) as [s' [Hs' Hf]]. exists s'. split; [assumption | constructor; assumption].
  - destruct (Forall2_in_l _ _ _ _ Hl H) as [t [Ht Hf]]. simpl in Hf.
    destruct (map_res (wstmt sigs) b1) as [c1|] eqn:E1; simpl in Hf; [|discriminate].
    destruct (map_res (wstmt sigs) b2) as [c2|] eqn:E2; simpl in Hf; [|discriminate].
    inversion Hf; subst. destruct (IHoccurs _ eq_refl) as [s' [Hs' Ho]]. exists s'. split; [assumption|].
    eapply occ_if1; eauto.
  - destruct (Forall2_in_l _ _ _ _ Hl H) as [t [Ht Hf]]. simpl in Hf.
    destruct (map_res (wstmt sigs) b1) as [c1|] eqn:E1; simpl in Hf; [|discriminate].
    destruct (map_res (wstmt sigs) b2) as [c2|] eqn:E2; simpl in Hf; [|discriminate].
    inversion Hf; subst. destruct (IHoccurs _ eq_refl) as [s' [Hs' Ho]]. exists s'. split; [assumption|].
    eapply occ_if2; eauto.
  - destruct (Forall2_in_l _ _ _ _ Hl H) as [t [Ht Hf]]. simpl in Hf.
    destruct (map_res (wstmt sigs) b) as [c1|] eqn:E1; simpl in Hf; [|discriminate].
    inversion Hf; subst. destruct (IHoccurs _ eq_refl) as [s' [Hs' Ho]]. exists s'. split; [assumption|].
    eapply occ_for; eauto.
Qed.

Lemma all_res_occurs_mstmt : forall {A} M sigs G (s : stmt A) l, occurs s l ->
  all_res (mstmt M sigs G) l = Ok tt -> mstmt M sigs G s = Ok tt.
Proof.
  intros A M sigs G s l H. induction H; intros Hl; apply all_res_ok in Hl; rewrite Forall_forall in Hl.
  - auto.
  - specialize (Hl _ H). simpl in Hl. destruct (all_res (mstmt M sigs G) b1) as [[]|] eqn:E1; simpl in Hl; [auto|discriminate].
  - specialize (Hl _ H). simpl in Hl. destruct (all_res (mstmt M sigs G) b1) as [[]|] eqn:E1; simpl in Hl; [auto|discriminate].
  - specialize (Hl _ H). simpl in Hl. auto.
Qed.

Lemma all_res_occurs_gstmt : forall {A} M G (s : stmt A) l, occurs s l ->
  all_res (gstmt M G) l = Ok tt -> gstmt M G s = Ok tt.
Proof.
  intros A M G s l H. induction H; intros Hl; apply all_res_ok in Hl; rewrite Forall_forall in Hl.
  - auto.
  - specialize (Hl _ H). simpl in Hl. destruct (all_res (gstmt M G) b1) as [[]|] eqn:E1; simpl in Hl; [auto|discriminate].
  - specialize (Hl _ H). simpl in Hl. destruct (all_res (gstmt M G) b1) as [[]|] eqn:E1; simpl in Hl; [auto|discriminate].
  - specialize (Hl _ H). simpl in Hl. auto.
Qed.

(* what an accepted procedure guarantees for each of its statements *)
Lemma check_proc_stmt : forall c sigs p q s, check_proc c sigs p = Ok q -> occurs s (p_body p) ->
  let G := env_of (c_dflt c) p in
  exists s1 s2, pstmt (c_dflt c) sigs G s = Ok s1 /\ wstmt sigs s1 = Ok s2 /\
                mstmt (c_mem c) sigs G s2 = Ok tt /\ gstmt (c_mem c) G s2 = Ok tt /\ occurs s2 (p_body q).
Proof.
  intros c sigs p q s H Hs G. unfold check_proc in H. fold G in H.
  destruct (map_res (pstmt (c_dflt c) sigs G) (p_body p)) as [b1|] eqn:E1; simpl in H; [|discriminate].
  destruct (map_res (wstmt sigs) b1) as [b2|] eqn:E2; simpl in H; [|discriminate].
  destruct (all_res (mstmt (c_mem c) sigs G) b2) as [[]|] eqn:E3; simpl in H; [|discriminate].
  destruct (all_res (gstmt (c_mem c) G) b2) as [[]|] eqn:E4; simpl in H; [|discriminate].
  inversion H; subst; simpl.
  destruct (map_res_occurs_pstmt _ _ _ _ _ Hs _ E1) as [s1 [P1 O1]].
  destruct (map_res_occurs_wstmt _ _ _ O1 _ E2) as [s2 [P2 O2]].
  exists s1, s2. repeat split; try assumption.
  - eapply all_res_occurs_mstmt; eauto.
  - eapply all_res_occurs_gstmt; eauto.
Qed.

Lemma backend_ok_proc : forall c prog order aps i p,
  backend_checks c prog order = Ok aps -> In i order -> nth_error prog i = Some p ->
  exists q, check_proc c (sigs_of prog) p = Ok q /\ In (i, q) aps.
Proof.
  intros c prog order aps i p H Hi Hp. unfold backend_checks in H. apply map_res_ok in H.
  destruct (Forall2_in_l _ _ _ _ H Hi) as [[j q] [Hin Hf]]. rewrite Hp in Hf.
  destruct (check_proc c (sigs_of prog) p) as [q'|] eqn:E; simpl in Hf; [|discriminate].
  inversion Hf; subst. eauto.
Qed.

Lemma backend_ok_proc_r : forall c prog order aps i q,
  backend_checks c prog order = Ok aps -> In (i, q) aps ->
  exists p, In i order /\ nth_error prog i = Some p /\ check_proc c (sigs_of prog) p = Ok q.
Proof.
  intros c prog order aps i q H Hq. unfold backend_checks in H. apply map_res_ok in H.
  destruct (Forall2_in_r _ _ _ _ H Hq) as [j [Hj Hf]].
  destruct (nth_error prog j) as [p|] eqn:Ep; [|discriminate].
  destruct (check_proc c (sigs_of prog) p) as [q'|] eqn:E; simpl in Hf; [|discriminate].
  inversion Hf; subst. eauto.
Qed.

(* ------------------------------------------------------------------ call-argument lemmas *)
Lemma wpromote_name : forall a f a', wpromote a f = Ok a' -> arg_name a' = arg_name a.
Proof.
  intros a f a' H. destruct f as [|x p m sh]; simpl in H; [inversion H; reflexivity|].
  destruct sh; simpl in H.
  - inversion H; reflexivity.
  - destruct (arg_is_win a); [discriminate | inversion H; reflexivity].
  - destruct (arg_is_win a); [inversion H; reflexivity|].
    destruct a as [y w [|k]| |]; try discriminate. inversion H; reflexivity.
Qed.

Lemma wargs_ok_at : forall args fs r, wargs args fs = Ok r ->
  forall k a f, nth_error args k = Some a -> nth_error fs k = Some f ->
  exists a', wpromote a f = Ok a' /\ nth_error r k = Some a'.
Proof.
  induction args as [|a0 args IH]; intros fs r H k a f Ha Hf; [destruct k; discriminate|].
  destruct fs as [|f0 fs]; [destruct k; discriminate|]. simpl in H.
  destruct (wpromote a0 f0) as [a0'|] eqn:E0; simpl in H; [|discriminate].
  destruct (wargs args fs) as [r'|] eqn:Er; simpl in H; [|discriminate]. inversion H; subst.
  destruct k; simpl in Ha, Hf.
  - inversion Ha; inversion Hf; subst. exists a0'. split; [assumption | reflexivity].
  - simpl. eapply IH; eauto.
Qed.

Lemma wargs_ok_at_r : forall args fs r, wargs args fs = Ok r ->
  forall k a' f, nth_error r k = Some a' -> nth_error fs k = Some f ->
  exists a, wpromote a f = Ok a' /\ nth_error args k = Some a.
Proof.
  induction args as [|a0 args IH]; intros fs r H k a' f Ha Hf.
  - simpl in H. inversion H; subst. destruct k; discriminate.
  - destruct fs as [|f0 fs]; [destruct k; discriminate|]. simpl in H.
    destruct (wpromote a0 f0) as [a0'|] eqn:E0; simpl in H; [|discriminate].
    destruct (wargs args fs) as [r'|] eqn:Er; simpl in H; [|discriminate]. inversion H; subst.
    destruct k; simpl in Ha, Hf.
    + inversion Ha; inversion Hf; subst. exists a0. split; [assumption | reflexivity].
    + simpl. eapply IH; eauto.
Qed.

Lemma mcall_ok_at : forall M G args fs, mcall M G args fs = Ok tt ->
  forall k a x p m sh, nth_error args k = Some a -> nth_error fs k = Some (FNum x p m sh) ->
  exists y b, arg_name a = Some y /\ lookup y G = Some b /\ m_sub M (b_mem b) m = true.
Proof.
  intros M G args. induction args as [|a0 args IH]; intros fs H k a x p m sh Ha Hf.
  - destruct k; discriminate.
  - destruct fs as [|f0 fs]; [destruct k; discriminate|].
    simpl in H. destruct k; simpl in Ha, Hf.
    + inversion Ha; inversion Hf; subst.
      destruct (arg_name a) as [y|]; simpl in H; [|discriminate].
      destruct (lookup y G) as [b|] eqn:L; simpl in H; [|discriminate].
      destruct (m_sub M (b_mem b) m) eqn:E; simpl in H; [|discriminate]. eauto.
    + match type of H with bind ?r _ = _ => destruct r as [[]|] end; simpl in H; [|discriminate]. eauto.
Qed.

(* ------------------------------------------------------------------ the five rejection clauses *)
Section Reject.
  Variables (c : config) (prog : program) (order : list nat) (i : nat) (p : proc unit).
  Hypothesis Hi : In i order.
  Hypothesis Hp : nth_error prog i = Some p.
  Let G := env_of (c_dflt c) p.
  Let sigs := sigs_of prog.

  Lemma reject_by_contra : (forall aps q, backend_checks c prog order = Ok aps -> check_proc c sigs p = Ok q -> False) ->
    exists er, backend_checks c prog order = Err er.
  Proof.
    intros K. destruct (backend_checks c prog order) as [aps|er] eqn:E; [|eauto].
    exfalso. destruct (backend_ok_proc _ _ _ _ _ _ E Hi Hp) as [q [Hq _]]. eapply K; eauto.
  Qed.

  (* 1. one expression mixes two resolved precisions *)
  Lemma reject_mixed_expr : forall s e q1 q2,
    occurs s (p_body p) -> rhs_of s = Some e ->
    In q1 (leafs G e) -> In q2 (leafs G e) -> q1 <> q2 ->
    exists er, backend_checks c prog order = Err er.
  Proof.
    intros s e q1 q2 Hs Hr H1 H2 Hne. apply reject_by_contra. intros aps q _ Hq.
    destruct (check_proc_stmt _ _ _ _ _ Hq Hs) as [s1 [s2 [P1 _]]]. fold G in P1.
    destruct (pexpr_mixed_err G e q1 q2 H1 H2 Hne) as [er Her].
    destruct s; simpl in Hr; try discriminate; inversion Hr; subst; simpl in P1; unfold passign in P1;
      rewrite Her in P1; simpl in P1; discriminate.
  Qed.

  (* 2. a call passes precision p to a formal of precision q <> p *)
  Lemma reject_call_prec : forall f args fs k a x fx fp fm fsh b,
    occurs (SCall f args) (p_body p) -> nth_error sigs f = Some fs ->
    nth_error args k = Some a -> nth_error fs k = Some (FNum fx fp fm fsh) ->
    arg_name a = Some x -> lookup x G = Some b -> b_prec b <> resolve (c_dflt c) fp ->
    exists er, backend_checks c prog order = Err er.
  Proof.
    intros f args fs k a x fx fp fm fsh b Hs Hf Ha Hfk Hn Hl Hne. apply reject_by_contra. intros aps q _ Hq.
    destruct (check_proc_stmt _ _ _ _ _ Hq Hs) as [s1 [s2 [P1 _]]]. fold G in P1. fold sigs in P1.
    simpl in P1. rewrite Hf in P1.
    destruct (pcall_err_at (c_dflt c) G args fs k a fx fp fm fsh b Ha Hfk) as [er Her].
    - right. exists x. repeat split; auto.
    - rewrite Her in P1. simpl in P1. discriminate.
  Qed.

  (* 4. a window is passed where a dense tensor is required *)
  Lemma reject_window_for_dense : forall f args fs k a fx fp fm n,
    occurs (SCall f args) (p_body p) -> nth_error sigs f = Some fs ->
    nth_error args k = Some a -> nth_error fs k = Some (FNum fx fp fm (ShDense n)) ->
    arg_is_win a = true ->
    exists er, backend_checks c prog order = Err er.
  Proof.
    intros f args fs k a fx fp fm n Hs Hf Ha Hfk Hw. apply reject_by_contra. intros aps q _ Hq.
    destruct (check_proc_stmt _ _ _ _ _ Hq Hs) as [s1 [s2 [P1 [P2 _]]]]. fold G in P1. fold sigs in P1, P2.
    simpl in P1. rewrite Hf in P1. destruct (pcall (c_dflt c) G args fs) as [[]|]; simpl in P1; [|discriminate].
    inversion P1; subst. simpl in P2. rewrite Hf in P2.
    destruct (wargs args fs) as [r|] eqn:Ew; simpl in P2; [|discriminate].
    destruct (wargs_ok_at _ _ _ Ew _ _ _ Ha Hfk) as [a' [Hpr _]].
    simpl in Hpr. rewrite Hw in Hpr. discriminate.
  Qed.

  (* 3. a buffer is passed to a callee expecting a memory its own memory is not a subclass of *)
  Lemma reject_call_mem : forall f args fs k a x fx fp fm fsh b,
    occurs (SCall f args) (p_body p) -> nth_error sigs f = Some fs ->
    nth_error args k = Some a -> nth_error fs k = Some (FNum fx fp fm fsh) ->
    arg_name a = Some x -> lookup x G = Some b -> m_sub (c_mem c) (b_mem b) fm = false ->
    exists er, backend_checks c prog order = Err er.
  Proof.
    intros f args fs k a x fx fp fm fsh b Hs Hf Ha Hfk Hn Hl Hsub. apply reject_by_contra. intros aps q _ Hq.
    destruct (check_proc_stmt _ _ _ _ _ Hq Hs) as [s1 [s2 [P1 [P2 [P3 _]]]]]. fold G in P1, P3. fold sigs in P1, P2, P3.
    simpl in P1. rewrite Hf in P1. destruct (pcall (c_dflt c) G args fs) as [[]|]; simpl in P1; [|discriminate].
    inversion P1; subst. simpl in P2. rewrite Hf in P2.
    destruct (wargs args fs) as [r|] eqn:Ew; simpl in P2; [|discriminate]. inversion P2; subst.
    simpl in P3. rewrite Hf in P3.
    destruct (wargs_ok_at _ _ _ Ew _ _ _ Ha Hfk) as [a' [Hpr Hn']].
    destruct (mcall_ok_at _ _ _ _ P3 _ _ _ _ _ _ Hn' Hfk) as [y [b' [Hy [Hl' Hs']]]].
    rewrite (wpromote_name _ _ _ Hpr) in Hy. rewrite Hn in Hy. inversion Hy; subst.
    rewrite Hl in Hl'. inversion Hl'; subst. congruence.
  Qed.

  (* 5. direct access to a memory that cannot be read / written / reduced to *)
  Lemma reject_gate_read : forall s e y b,
    occurs s (p_body p) -> rhs_of s = Some e -> In y (reads e) ->
    lookup y G = Some b -> m_read (c_mem c) (b_mem b) = false ->
    exists er, backend_checks c prog order = Err er.
  Proof.
    intros s e y b Hs Hr Hy Hl Hrd. apply reject_by_contra. intros aps q _ Hq.
    destruct (check_proc_stmt _ _ _ _ _ Hq Hs) as [s1 [s2 [P1 [P2 [_ [P4 _]]]]]]. fold G in P1, P4.
    assert (Hbad : gread (c_mem c) G y = Err ERd) by (unfold gread; rewrite Hl, Hrd; reflexivity).
    destruct s; simpl in Hr; try discriminate; inversion Hr; subst; simpl in P1;
      (destruct (passign G x e) as [[t' e']|] eqn:Ea; simpl in P1; [|discriminate]); inversion P1; subst;
      simpl in P2; inversion P2; subst; simpl in P4;
      unfold passign in Ea; (destruct (pexpr G e) as [a0|] eqn:Ee; simpl in Ea; [|discriminate]);
      (destruct (lookup x G); [|discriminate]); inversion Ea; subst;
      (assert (Hreads : reads (coerce_if_R (b_prec b0) a0) = reads e)
         by (unfold coerce_if_R; destruct (is_R (ty a0)); rewrite ?coerce_reads; eapply pexpr_reads; eauto));
      simpl in P4; rewrite Hreads in P4;
      (destruct (all_res_err_in (gread (c_mem c) G) (reads e) y ERd Hy Hbad) as [e'' He'']); rewrite He'' in P4; simpl in P4; discriminate.
  Qed.

  Lemma reject_gate_write : forall x t e b,
    occurs (SAssign x t e) (p_body p) ->
    lookup x G = Some b -> m_write (c_mem c) (b_mem b) = false ->
    exists er, backend_checks c prog order = Err er.
  Proof.
    intros x t e b Hs Hl Hw. apply reject_by_contra. intros aps q _ Hq.
    destruct (check_proc_stmt _ _ _ _ _ Hq Hs) as [s1 [s2 [P1 [P2 [_ [P4 _]]]]]]. fold G in P1, P4.
    simpl in P1. destruct (passign G x e) as [[t' e']|]; simpl in P1; [|discriminate]. inversion P1; subst.
    simpl in P2. inversion P2; subst. simpl in P4.
    destruct (all_res (gread (c_mem c) G) (reads e')) as [[]|]; simpl in P4; [|discriminate].
    unfold gwrite in P4. rewrite Hl, Hw in P4. discriminate.
  Qed.

  Lemma reject_gate_reduce : forall x t e b,
    occurs (SReduce x t e) (p_body p) ->
    lookup x G = Some b -> m_reduce (c_mem c) (b_mem b) = false ->
    exists er, backend_checks c prog order = Err er.
  Proof.
    intros x t e b Hs Hl Hw. apply reject_by_contra. intros aps q _ Hq.
    destruct (check_proc_stmt _ _ _ _ _ Hq Hs) as [s1 [s2 [P1 [P2 [_ [P4 _]]]]]]. fold G in P1, P4.
    simpl in P1. destruct (passign G x e) as [[t' e']|]; simpl in P1; [|discriminate]. inversion P1; subst.
    simpl in P2. inversion P2; subst. simpl in P4.
    destruct (all_res (gread (c_mem c) G) (reads e')) as [[]|]; simpl in P4; [|discriminate].
    unfold gwrite in P4. rewrite Hl, Hw in P4. discriminate.
  Qed.
End Reject.
