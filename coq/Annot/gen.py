#!/venv/bin/python
"""Regenerate Gen_Rules.v (coq/Annot) from /repo's CURRENT prec_analysis.py / win_analysis.py / mem_analysis.py.
Run as: cd coq/Annot && PYTHONPATH=$EXO_REPO/src /venv/bin/python gen.py   (exit != 0 names the offending construct)"""
import os
import subprocess
import sys
from pathlib import Path

here = Path(__file__).resolve().parent
tr = here.parent.parent / "translator" / "py2coq_prec.py"
rc = subprocess.call([sys.executable, str(tr), str(here / "Gen_Rules.v")], env=dict(os.environ))
sys.exit(rc)
