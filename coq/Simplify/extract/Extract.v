(* Extraction of the executable C12 model for the correspondence driver.  ExtrOcamlBasic only:
   Z / positive / nat / string stay the extracted inductive datatypes. *)
Require Extraction.
Require Import ExtrOcamlBasic.
From Simplify Require Import Model.
Extraction "simplify_model.ml"
  eval simplify_proc normalize_proc index_start norm_e simp_e add_fact str_eqb fact_key_eqb
  constant_bound check_expr_bounds add_loop_iter init_env.
