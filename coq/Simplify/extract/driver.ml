(* C12 correspondence driver: one s-expression job per input line, one result line per job. *)
module M = Simplify_model

type sx = A of string | L of sx list

let parse (s : string) : sx =
  let n = String.length s in
  let pos = ref 0 in
  let rec skip () = if !pos < n && (s.[!pos] = ' ' || s.[!pos] = '\t') then (incr pos; skip ()) in
  let rec rd () =
    skip ();
    if !pos >= n then failwith "eof"
    else if s.[!pos] = '(' then begin
      incr pos;
      let items = ref [] in
      let rec loop () =
        skip ();
        if !pos >= n then failwith "unclosed"
        else if s.[!pos] = ')' then incr pos
        else (items := rd () :: !items; loop ()) in
      loop (); L (List.rev !items)
    end else begin
      let st = !pos in
      while !pos < n && s.[!pos] <> ' ' && s.[!pos] <> '(' && s.[!pos] <> ')' do incr pos done;
      A (String.sub s st (!pos - st))
    end in
  rd ()

(* ---- numbers *)
let rec pos_of_int (n : int) : M.positive =
  if n <= 1 then M.XH else if n land 1 = 0 then M.XO (pos_of_int (n lsr 1)) else M.XI (pos_of_int (n lsr 1))
let z_of_int (n : int) : M.z =
  if n = 0 then M.Z0 else if n > 0 then M.Zpos (pos_of_int n) else M.Zneg (pos_of_int (-n))
let rec int_of_pos = function M.XH -> 1 | M.XO p -> 2 * int_of_pos p | M.XI p -> 2 * int_of_pos p + 1
let int_of_z = function M.Z0 -> 0 | M.Zpos p -> int_of_pos p | M.Zneg p -> - (int_of_pos p)

(* ---- strings: Coq string = list of ascii = 8 booleans, least significant bit first *)
let ascii_of_char (c : char) : M.ascii =
  let n = Char.code c in
  let b i = (n lsr i) land 1 = 1 in
  M.Ascii (b 0, b 1, b 2, b 3, b 4, b 5, b 6, b 7)
let char_of_ascii (a : M.ascii) : char =
  match a with
  | M.Ascii (b0, b1, b2, b3, b4, b5, b6, b7) ->
      let v b i = if b then 1 lsl i else 0 in
      Char.chr (v b0 0 + v b1 1 + v b2 2 + v b3 3 + v b4 4 + v b5 5 + v b6 6 + v b7 7)
let cstr (s : string) : M.string =
  let r = ref M.EmptyString in
  for i = String.length s - 1 downto 0 do r := M.String (ascii_of_char s.[i], !r) done;
  !r
let rec ostr (s : M.string) : string =
  match s with
  | M.EmptyString -> ""
  | M.String (a, r) -> String.make 1 (char_of_ascii a) ^ ostr r

(* ---- readers *)
let atom = function A s -> s | _ -> failwith "atom expected"
let zs (a : sx) : M.z = z_of_int (int_of_string (atom a))
let ps (a : sx) : M.positive = pos_of_int (int_of_string (atom a))
let optz (a : sx) : M.z option = match a with A "N" -> None | _ -> Some (zs a)
let sym_of n i : M.sym = { M.sname = cstr (atom n); M.sid = ps i }

let ty_of = function
  | "int" -> M.TInt | "index" -> M.TIndex | "size" -> M.TSize | "bool" -> M.TBool | _ -> M.TOther
let ann_of t s : M.ann = { M.aty = ty_of (atom t); M.asrc = ps s }

let op_of = function
  | "add" -> M.OAdd | "sub" -> M.OSub | "mul" -> M.OMul | "div" -> M.ODiv | "mod" -> M.OMod
  | "and" -> M.OAnd | "or" -> M.OOr | "lt" -> M.OLt | "gt" -> M.OGt | "le" -> M.OLe | "ge" -> M.OGe
  | "eq" -> M.OEq | s -> failwith ("op " ^ s)

let rec expr (x : sx) : M.expr = match x with
  | L [A "v"; n; i; t; s] -> M.EVar (sym_of n i, ann_of t s)
  | L [A "c"; n; t; s] -> M.EConst (zs n, ann_of t s)
  | L [A "n"; e; t; s] -> M.ENeg (expr e, ann_of t s)
  | L [A "b"; A o; a; b; t; s] -> M.EBin (op_of o, expr a, expr b, ann_of t s)
  | L [A "g"; c; f; t; s] -> M.ECfg (cstr (atom c), cstr (atom f), ann_of t s)
  | _ -> failwith "expr"

let exprs = function L l -> List.map expr l | _ -> failwith "exprs"

let rec stmt (x : sx) : M.stmt = match x with
  | L [A "leaf"; k; s; es] -> M.SLeaf (zs k, ps s, exprs es)
  | L [A "if"; s; c; b1; b2] -> M.SIf (ps s, expr c, stmts b1, stmts b2)
  | L [A "for"; s; n; i; lo; hi; b] -> M.SFor (ps s, sym_of n i, expr lo, expr hi, stmts b)
  | _ -> failwith "stmt"
and stmts = function L l -> List.map stmt l | _ -> failwith "stmts"

let proc (x : sx) : M.proc = match x with
  | L [A "proc"; s; L sizes; preds; body] ->
      { M.p_src = ps s;
        M.p_sizes = List.map (function L [n; i] -> sym_of n i | _ -> failwith "size") sizes;
        M.p_preds = exprs preds;
        M.p_body = stmts body }
  | _ -> failwith "proc"

let env (x : sx) : M.renv = match x with
  | L items -> List.map (function L [n; i; l; h] -> (sym_of n i, (optz l, optz h)) | _ -> failwith "binding") items
  | _ -> failwith "env"

(* ---- printers *)
let pz z = string_of_int (int_of_z z)
let pp p = string_of_int (int_of_pos p)
let pty = function M.TInt -> "int" | M.TIndex -> "index" | M.TSize -> "size" | M.TBool -> "bool" | M.TOther -> "other"
let pann (a : M.ann) = pty a.M.aty ^ " " ^ pp a.M.asrc
let pop = function
  | M.OAdd -> "add" | M.OSub -> "sub" | M.OMul -> "mul" | M.ODiv -> "div" | M.OMod -> "mod"
  | M.OAnd -> "and" | M.OOr -> "or" | M.OLt -> "lt" | M.OGt -> "gt" | M.OLe -> "le" | M.OGe -> "ge" | M.OEq -> "eq"
let psym (s : M.sym) = ostr s.M.sname ^ " " ^ pp s.M.sid
let rec pexpr = function
  | M.EVar (x, a) -> "(v " ^ psym x ^ " " ^ pann a ^ ")"
  | M.EConst (c, a) -> "(c " ^ pz c ^ " " ^ pann a ^ ")"
  | M.ENeg (e, a) -> "(n " ^ pexpr e ^ " " ^ pann a ^ ")"
  | M.EBin (o, l, r, a) -> "(b " ^ pop o ^ " " ^ pexpr l ^ " " ^ pexpr r ^ " " ^ pann a ^ ")"
  | M.ECfg (c, f, a) -> "(g " ^ ostr c ^ " " ^ ostr f ^ " " ^ pann a ^ ")"
let plist f l = "(" ^ String.concat " " (List.map f l) ^ ")"
let rec pstmt = function
  | M.SLeaf (k, s, es) -> "(leaf " ^ pz k ^ " " ^ pp s ^ " " ^ plist pexpr es ^ ")"
  | M.SIf (s, c, b1, b2) -> "(if " ^ pp s ^ " " ^ pexpr c ^ " " ^ plist pstmt b1 ^ " " ^ plist pstmt b2 ^ ")"
  | M.SFor (s, i, lo, hi, b) ->
      "(for " ^ pp s ^ " " ^ psym i ^ " " ^ pexpr lo ^ " " ^ pexpr hi ^ " " ^ plist pstmt b ^ ")"
let pproc (p : M.proc) =
  "(proc " ^ pp p.M.p_src ^ " " ^ plist (fun s -> "(" ^ psym s ^ ")") p.M.p_sizes ^ " "
  ^ plist pexpr p.M.p_preds ^ " " ^ plist pstmt p.M.p_body ^ ")"
let popt f = function None -> "crash" | Some v -> f v
let pbool b = if b then "true" else "false"
let pob = function None -> "N" | Some z -> pz z

let cmp = function "lt" -> M.CLt | "leq" -> M.CLeq | "eq" -> M.CEq | s -> failwith ("cmp " ^ s)

let run (x : sx) : string = match x with
  | L [A "simplify"; p] -> popt pproc (M.simplify_proc (proc p))
  | L [A "normalize"; p] -> popt pproc (M.normalize_proc (proc p))
  | L [A "index_start"; e; x] -> popt pexpr (M.index_start (env e) (expr x))
  | L [A "norm_e"; e; x] -> popt pexpr (M.norm_e (env e) (expr x))
  | L [A "simp_e"; L conds; x] ->
      (* facts are built as the code does: add_fact of each enclosing (already simplified) condition, outermost first *)
      let fs = List.fold_left (fun fs c -> M.add_fact (expr c) fs) [] conds in
      popt pexpr (M.simp_e fs (expr x))
  | L [A "streq"; a; b] -> pbool (M.str_eqb (expr a) (expr b))
  | L [A "factkey"; a; b] -> pbool (M.fact_key_eqb (expr a) (expr b))
  | L [A "cbound"; e; x] -> popt (fun (l, h) -> "(" ^ pob l ^ " " ^ pob h ^ ")") (M.constant_bound (env e) (expr x))
  | L [A "loopiter"; e; n; i; lo; hi] ->
      (match M.add_loop_iter (env e) (sym_of n i) (expr lo) (expr hi) with
       | Some ((_, (l, h)) :: _) -> "(" ^ pob l ^ " " ^ pob h ^ ")"
       | _ -> "crash")
  | L [A "checks"; e; c0; A o0; x; A o1; c2] ->
      popt pbool (M.check_expr_bounds (env e) (zs c0) (cmp o0) (expr x) (cmp o1) (zs c2))
  | _ -> failwith "unknown job"

let () =
  try
    while true do
      let line = input_line stdin in
      if String.trim line <> "" then begin
        let out = try run (parse line) with Failure m -> "(driver-error " ^ m ^ ")" | Not_found -> "(driver-error nf)"
                                          | Stack_overflow -> "(driver-error stack)" in
        print_string out; print_newline ()
      end
    done
  with End_of_file -> ()
