(* C12 proofs, part 2: the constant-bound range analysis used to justify dropping / and % . *)
From Coq Require Import ZArith List Bool String Lia.
From Simplify Require Import Model ProofsLin.
Import ListNotations.
Open Scope Z_scope.

Definition in_bound (b : bound) (v : Z) : Prop :=
  match fst b with Some l => l <= v | None => True end /\
  match snd b with Some h => v <= h | None => True end.

(* the range environment describes the valuation *)
Definition env_sound (env : renv) (rho : sym -> Z) : Prop :=
  forall x b, env_get env x = Some b -> in_bound b (rho x).

Definition rng_sound (r : rng) (v : Z) : Prop :=
  match r with
  | RInt z => v = z
  | RRng true lo hi => in_bound (lo, hi) v
  | RRng false _ _ => True          (* base is a symbolic expression: constant_bound gives up *)
  end.

Ltac ob := unfold in_bound, omap, oadd in *; cbn [fst snd] in *.

Lemma r_neg_sound : forall a v, rng_sound a v -> rng_sound (r_neg a) (- v).
Proof.
  intros [z|[] lo hi] v H; cbn in *; auto; try lia.
  ob. destruct lo, hi; cbn; lia.
Qed.

Lemma r_add_sound : forall a b v w, rng_sound a v -> rng_sound b w -> rng_sound (r_add a b) (v + w).
Proof.
  intros [x|[] l1 h1] [y|[] l2 h2] v w Ha Hb; cbn in *; auto; try lia;
    ob; repeat match goal with o : option Z |- _ => destruct o end; cbn; lia.
Qed.

Lemma r_sub_sound : forall a b v w, rng_sound a v -> rng_sound b w -> rng_sound (r_sub a b) (v - w).
Proof.
  intros a b v w Ha Hb.
  replace (v - w) with (v + - w) by lia.
  destruct a as [x|ba l1 h1], b as [y|bb l2 h2]; unfold r_sub.
  - cbn in *; lia.
  - replace (v + - w) with (- w + v) by lia. apply r_add_sound; auto. apply r_neg_sound; auto.
  - apply r_add_sound; auto. apply (r_neg_sound (RInt y)); auto.
  - apply r_add_sound; auto. apply r_neg_sound; auto.
Qed.

Lemma r_scale_sound : forall a c v, rng_sound a v -> rng_sound (r_scale a c) (v * c).
Proof.
  intros [x|[] lo hi] c v H; cbn in *; try (subst; reflexivity).
  - destruct (c =? 0) eqn:E0; [cbn; lia|].
    destruct (0 <? c) eqn:Ep; cbn; ob; destruct lo, hi; cbn; try nia; auto.
  - destruct (c =? 0) eqn:E0; [cbn; lia|]. destruct (0 <? c); cbn; auto.
Qed.

Lemma r_mul_sound : forall a b r v w,
    r_mul a b = Some r -> rng_sound a v -> rng_sound b w -> rng_sound r (v * w).
Proof.
  intros [x|ba l1 h1] [y|bb l2 h2] r v w H Ha Hb; cbn [r_mul] in H; inversion H; subst.
  - cbn in *; subst; reflexivity.
  - cbn in Ha; subst. replace (x * w) with (w * x) by lia. apply (r_scale_sound (RRng bb l2 h2)); auto.
  - cbn in Hb; subst. apply (r_scale_sound (RRng ba l1 h1)); auto.
Qed.

Lemma r_div_sound : forall a b r v w,
    r_div a b = Some r -> rng_sound a v -> rng_sound b w -> rng_sound r (v / w).
Proof.
  intros a [c|? ? ?] r v w H Ha Hb; cbn in H; [|discriminate].
  destruct (0 <? c) eqn:Ec; [|discriminate]. apply Z.ltb_lt in Ec. cbn in Hb; subst w.
  destruct a as [x|[] lo hi].
  - inversion H; subst. cbn in *; subst; reflexivity.
  - inversion H; subst. cbn in *. ob. destruct lo, hi; cbn; split; auto; try (apply Z.div_le_mono; lia); tauto.
  - destruct lo, hi; inversion H; subst; cbn; auto.
Qed.

Lemma mod_same_quot : forall lo hi v c, 0 < c -> lo <= v <= hi -> lo / c = hi / c ->
                                        lo mod c <= v mod c <= hi mod c.
Proof.
  intros lo hi v c Hc Hv Hq.
  assert (lo / c <= v / c) by (apply Z.div_le_mono; lia).
  assert (v / c <= hi / c) by (apply Z.div_le_mono; lia).
  assert (v / c = lo / c) by lia.
  rewrite !Z.mod_eq by lia. rewrite H1, <- Hq. lia.
Qed.

Lemma r_mod_sound : forall a b r v w,
    r_mod a b = Some r -> rng_sound a v -> rng_sound b w -> rng_sound r (v mod w).
Proof.
  intros a [c|? ? ?] r v w H Ha Hb; cbn in H; [|discriminate].
  destruct (0 <? c) eqn:Ec; [|discriminate]. apply Z.ltb_lt in Ec. cbn in Hb; subst w.
  pose proof (Z.mod_pos_bound v c Ec) as Hm.
  assert (Hdef : rng_sound (RRng true (Some 0) (Some (c - 1))) (v mod c)) by (cbn; ob; lia).
  destruct a as [x|[] lo hi].
  - inversion H; subst. cbn in *; subst; reflexivity.
  - destruct lo as [lo|]; [destruct hi as [hi|]|]; try (inversion H; subst; exact Hdef).
    destruct (lo / c =? hi / c) eqn:Eq; inversion H; subst; [|exact Hdef].
    apply Z.eqb_eq in Eq. cbn in Ha. ob. cbn. ob. apply mod_same_quot; auto.
  - inversion H; subst; exact Hdef.
Qed.

Lemma analyze_sound : forall rho cv env e r,
    env_sound env rho -> analyze env e = Some r -> rng_sound r (eval rho cv e).
Proof.
  intros rho cv env e. induction e as [x a|c a|e IH a|op l IHl r0 IHr a|c f a]; intros r Henv H; cbn in H;
    unfold ety in H; cbn [ann_of] in H; destruct (indexable (aty a)); cbn [negb] in H; try discriminate.
  - destruct (env_get env x) as [[lo hi]|] eqn:E; inversion H; subst; cbn; auto.
  - inversion H; subst. reflexivity.
  - destruct (analyze env e) as [r'|]; [|discriminate]. cbn in H. inversion H; subst.
    cbn [eval]. apply r_neg_sound; auto.
  - destruct (analyze env l) as [ra|]; [|discriminate].
    destruct (analyze env r0) as [rb|]; [|discriminate].
    specialize (IHl ra Henv eq_refl). specialize (IHr rb Henv eq_refl). cbn [eval].
    destruct op; try discriminate; cbn [eval_op].
    + inversion H; subst. apply r_add_sound; auto.
    + inversion H; subst. apply r_sub_sound; auto.
    + eapply r_mul_sound; eauto.
    + eapply r_div_sound; eauto.
    + eapply r_mod_sound; eauto.
Qed.

Lemma constant_bound_sound : forall rho cv env e b,
    env_sound env rho -> constant_bound env e = Some b -> in_bound b (eval rho cv e).
Proof.
  intros rho cv env e b Henv H. unfold constant_bound in H.
  destruct (analyze env e) as [r|] eqn:E; [|discriminate].
  pose proof (analyze_sound rho cv env e r Henv E) as S.
  destruct r as [z|[] lo hi]; inversion H; subst; cbn in *; ob; try lia; auto.
Qed.

(* check_expr_bounds(0, <=, e, <, d) *)
Lemma check_expr_bounds_sound : forall rho cv env e d,
    env_sound env rho -> check_expr_bounds env 0 CLeq e CLt d = Some true ->
    0 <= eval rho cv e < d.
Proof.
  intros rho cv env e d Henv H. unfold check_expr_bounds in H.
  destruct (constant_bound env e) as [[lo hi]|] eqn:E; [|discriminate].
  pose proof (constant_bound_sound rho cv env e _ Henv E) as S. ob.
  inversion H as [H1]. apply andb_true_iff in H1. destruct H1 as [A B].
  unfold check_range in A, B; cbn [fst snd] in A, B.
  destruct lo as [lo|]; [|discriminate]. destruct hi as [hi|]; [|discriminate].
  apply Z.leb_le in A. apply Z.ltb_lt in B. lia.
Qed.

(* ------------------------------------------------------------------------------------------------ loops *)
Definition upd (rho : sym -> Z) (i : sym) (v : Z) : sym -> Z := fun y => if sym_eqb i y then v else rho y.

Lemma add_loop_iter_sound : forall rho cv env i lo hi env' v,
    env_sound env rho -> add_loop_iter env i lo hi = Some env' ->
    eval rho cv lo <= v < eval rho cv hi ->
    env_sound env' (upd rho i v).
Proof.
  intros rho cv env i lo hi env' v Henv H Hv. unfold add_loop_iter in H.
  destruct (constant_bound env lo) as [[l l2]|] eqn:El; [|discriminate].
  destruct (constant_bound env hi) as [[h1 h]|] eqn:Eh; [|discriminate].
  pose proof (constant_bound_sound rho cv env lo _ Henv El) as Sl.
  pose proof (constant_bound_sound rho cv env hi _ Henv Eh) as Sh.
  inversion H; subst. intros x b Hx. cbn in Hx. unfold upd.
  destruct (sym_eqb i x) eqn:E.
  - inversion Hx; subst. ob. destruct l as [lv|], h as [hv|]; cbn; try (destruct (hv - 1 <? lv)); cbn; lia.
  - apply Henv; auto.
Qed.

Lemma init_env_sound : forall sizes rho,
    (forall x, In x sizes -> 1 <= rho x) -> env_sound (init_env sizes) rho.
Proof.
  intros sizes rho H x b Hx. unfold init_env in Hx.
  induction sizes as [|s sizes IH]; cbn in Hx; [discriminate|].
  destruct (sym_eqb s x) eqn:E.
  - apply sym_eqb_eq in E; subst. inversion Hx; subst. ob. split; auto. apply H; cbn; auto.
  - apply IH; auto. intros y Hy; apply H; cbn; auto.
Qed.

(* the hypotheses are satisfiable *)
Example env_sound_example :
  env_sound [(mkSym "i" 1, (Some 0, Some 3))] (fun _ => 2).
Proof. intros x b H. cbn in H. destruct (sym_eqb _ x); inversion H; subst. ob. lia. Qed.
