(* C12 proofs, part 3: division / modulo simplification and index_start. *)
From Coq Require Import ZArith List Bool String Lia.
From Simplify Require Import Model ProofsLin ProofsRange.
Import ListNotations.
Open Scope Z_scope.

(* ------------------------------------------------------------------------------------------------ helpers *)
Lemma filter_nil_forall {A} : forall (p : A -> bool) l, filter p l = [] -> forall x, In x l -> p x = false.
Proof.
  induction l as [|y l IH]; cbn; intros H x Hx; [contradiction|].
  destruct (p y) eqn:E; [discriminate|]. destruct Hx as [<-|Hx]; auto.
Qed.

Lemma nonempty_false {A} : forall l : list A, nonempty l = false -> l = [].
Proof. intros [|]; cbn; congruence. Qed.

Lemma tsum_div_exact : forall rho d l,
    d <> 0 -> (forall t, In t l -> fst t mod d = 0) ->
    tsum rho l = tsum rho (map (fun t => (fst t / d, snd t)) l) * d.
Proof.
  induction l as [|t l IH]; intros Hd H; [reflexivity|].
  cbn [map tsum fst snd]. rewrite IH by (auto; intros; apply H; cbn; auto).
  assert (fst t = d * (fst t / d)) by (apply Z_div_exact_full_2; auto; apply H; cbn; auto).
  rewrite H0 at 1. lia.
Qed.

Lemma filter_mod_all : forall d (l : list (Z * sym)) t,
    In t (filter (fun t => fst t mod d =? 0) l) -> fst t mod d = 0.
Proof. intros d l t H. apply filter_In in H. destruct H as [_ H]. apply Z.eqb_eq; auto. Qed.

(* generate_loopIR contains no division *)
Lemma wf_gen_fold : forall ctx l acc, wf_div acc = true -> wf_div (fold_left (gen_step ctx) l acc) = true.
Proof.
  induction l as [|t l IH]; intros acc H; cbn [fold_left]; auto.
  apply IH. unfold gen_step, scale_read. destruct (0 <? fst t); cbn; rewrite H; reflexivity.
Qed.

Lemma wf_generate : forall ctx c a l, wf_div (generate_loopIR ctx (EConst c a) l) = true.
Proof. intros; unfold generate_loopIR; apply wf_gen_fold; reflexivity. Qed.

Lemma hdmc_gen_fold : forall ctx l acc,
    has_div_mod_config acc = false -> has_div_mod_config (fold_left (gen_step ctx) l acc) = false.
Proof.
  induction l as [|t l IH]; intros acc H; cbn [fold_left]; auto.
  apply IH. unfold gen_step, scale_read. destruct (0 <? fst t); cbn; rewrite H; reflexivity.
Qed.

(* ------------------------------------------------------------------------------------------------ division *)
Lemma division_simplification_sound : forall rho cv env lhs rhs d a e',
    env_sound env rho -> eval rho cv rhs = d ->
    division_simplification env lhs rhs d a = Some e' ->
    eval rho cv e' = eval rho cv lhs / d.
Proof.
  intros rho cv env lhs rhs d a e' Henv Hr H. unfold division_simplification in H.
  destruct (d <=? 0) eqn:Ed; [discriminate|]. apply Z.leb_gt in Ed.
  destruct (get_normalized_expr lhs) as [[[cval cann] nl]|] eqn:En; [|discriminate]. cbv zeta in H.
  pose proof (get_normalized_expr_sound rho cv lhs _ _ _ En) as Hl.
  pose proof (tsum_filter_split rho (fun t : Z * sym => fst t mod d =? 0) nl) as Hsplit. cbv beta in Hsplit.
  pose proof (tsum_div_exact rho d (filter (fun t : Z * sym => fst t mod d =? 0) nl) ltac:(lia) (filter_mod_all d nl)) as Hdv.
  set (DV := tsum rho (map (fun t => (fst t / d, snd t)) (filter (fun t : Z * sym => fst t mod d =? 0) nl))) in *.
  assert (Hfb : forall e'', Some (EBin ODiv (generate_loopIR (ann_of lhs) (EConst cval cann) nl) rhs a) = Some e'' ->
                            eval rho cv e'' = eval rho cv lhs / d).
  { intros e'' E; injection E as <-. cbn [eval eval_op]. rewrite generate_loopIR_sound. cbn [eval]. rewrite Hl, Hr. reflexivity. }
  destruct (nonempty (filter (fun t : Z * sym => negb (fst t mod d =? 0)) nl)) eqn:Ene; cbn [negb] in H.
  - destruct (cval mod d =? 0) eqn:Ec.
    + destruct (check_expr_bounds env 0 CLeq _ CLt d) as [[]|] eqn:Ech; [|apply Hfb; exact H|discriminate H].
      pose proof (check_expr_bounds_sound rho cv env _ d Henv Ech) as Hb.
      rewrite generate_loopIR_sound in Hb. cbn [eval] in Hb.
      injection H as <-. rewrite generate_loopIR_sound. cbn [eval]. fold DV.
      apply Z.eqb_eq in Ec. assert (cval = d * (cval / d)) by (apply Z_div_exact_full_2; auto; lia).
      rewrite Hl, Hsplit, Hdv.
      replace (cval + (DV * d + tsum rho (filter (fun t : Z * sym => negb (fst t mod d =? 0)) nl)))
        with ((cval / d + DV) * d + tsum rho (filter (fun t : Z * sym => negb (fst t mod d =? 0)) nl)) by lia.
      rewrite Z.div_add_l by lia. rewrite (Z.div_small (tsum rho (filter (fun t : Z * sym => negb (fst t mod d =? 0)) nl)) d) by lia. lia.
    + destruct (check_expr_bounds env 0 CLeq _ CLt d) as [[]|] eqn:Ech; [|apply Hfb; exact H|discriminate H].
      pose proof (check_expr_bounds_sound rho cv env _ d Henv Ech) as Hb.
      rewrite generate_loopIR_sound in Hb. cbn [eval] in Hb.
      injection H as <-. rewrite generate_loopIR_sound. cbn [eval]. fold DV.
      rewrite Hl, Hsplit, Hdv.
      replace (cval + (DV * d + tsum rho (filter (fun t : Z * sym => negb (fst t mod d =? 0)) nl)))
        with (DV * d + (cval + tsum rho (filter (fun t : Z * sym => negb (fst t mod d =? 0)) nl))) by lia.
      rewrite Z.div_add_l by lia. rewrite (Z.div_small (cval + tsum rho (filter (fun t : Z * sym => negb (fst t mod d =? 0)) nl)) d) by lia. lia.
  - apply nonempty_false in Ene. injection H as <-. rewrite generate_loopIR_sound. cbn [eval].
    assert (Hall : forall t, In t nl -> fst t mod d = 0).
    { intros t Ht. pose proof (filter_nil_forall _ _ Ene t Ht) as Hf. cbn in Hf.
      apply negb_false_iff in Hf. apply Z.eqb_eq; auto. }
    rewrite Hl, (tsum_div_exact rho d nl ltac:(lia) Hall). rewrite Z.div_add by lia. reflexivity.
Qed.

Lemma division_simplification_wf : forall env lhs rhs d a e',
    wf_div rhs = true -> (exists ar, rhs = EConst d ar) ->
    division_simplification env lhs rhs d a = Some e' -> wf_div e' = true.
Proof.
  intros env lhs rhs d a e' Hw [ar ->] H. unfold division_simplification in H.
  destruct (d <=? 0) eqn:Ed; [discriminate|]. apply Z.leb_gt in Ed.
  destruct (get_normalized_expr lhs) as [[[cval cann] nl]|]; [|discriminate]. cbv zeta in H.
  assert (Hfb : wf_div (EBin ODiv (generate_loopIR (ann_of lhs) (EConst cval cann) nl) (EConst d ar) a) = true).
  { cbn. rewrite wf_generate. cbn. apply Z.ltb_lt; auto. }
  destruct (negb (nonempty _)); [inversion H; apply wf_generate|].
  destruct (cval mod d =? 0);
    destruct (check_expr_bounds env 0 CLeq _ CLt d) as [[]|]; inversion H; subst; auto using wf_generate.
Qed.

(* a result that is still a division is the fallback: numerator without / % config *)
Lemma division_simplification_shape : forall env lhs rhs d a e',
    division_simplification env lhs rhs d a = Some e' ->
    still_division e' = true -> exists n, e' = EBin ODiv n rhs a /\ 0 < d.
Proof.
  intros env lhs rhs d a e' H Hs. unfold division_simplification in H.
  destruct (d <=? 0) eqn:Ed; [discriminate|]. apply Z.leb_gt in Ed.
  destruct (get_normalized_expr lhs) as [[[cval cann] nl]|]; [|discriminate]. cbv zeta in H.
  assert (Hg : forall c l, still_division (generate_loopIR (ann_of lhs) (EConst c cann) l) = false).
  { intros c l. unfold generate_loopIR. generalize (sort_terms l). intros l0.
    assert (G : forall l1 acc, still_division acc = false -> still_division (fold_left (gen_step (ann_of lhs)) l1 acc) = false).
    { induction l1; intros acc Ha; cbn; auto. apply IHl1. unfold gen_step. destruct (0 <? fst a0); reflexivity. }
    apply G; reflexivity. }
  destruct (negb (nonempty _)); [inversion H; subst; rewrite Hg in Hs; discriminate|].
  destruct (cval mod d =? 0);
    destruct (check_expr_bounds env 0 CLeq _ CLt d) as [[]|]; inversion H; subst;
      try (rewrite Hg in Hs; discriminate); eauto.
Qed.

Lemma div_div_exact : forall x d k, 0 < k -> 0 < d -> d mod k = 0 -> x / k / (d / k) = x / d.
Proof.
  intros x d k Hk Hd Hm.
  assert (d = k * (d / k)) by (apply Z_div_exact_full_2; auto; lia).
  assert (0 < d / k) by nia.
  rewrite Z.div_div by lia. rewrite <- H. reflexivity.
Qed.

Lemma div_div_exact' : forall x d k, 0 < k -> 0 < d -> d mod k = 0 -> x / (d / k) / k = x / d.
Proof.
  intros x d k Hk Hd Hm.
  assert (d = k * (d / k)) by (apply Z_div_exact_full_2; auto; lia).
  assert (0 < d / k) by nia.
  rewrite Z.div_div by lia. replace (d / k * k) with d by lia. reflexivity.
Qed.

Lemma split_loop_sound : forall rho cv env lhs d ar a e fuel divisor e',
    env_sound env rho -> 2 <= divisor ->
    eval rho cv e = eval rho cv lhs / d ->
    split_loop env fuel divisor lhs d ar a e = Some e' ->
    eval rho cv e' = eval rho cv lhs / d.
Proof.
  intros rho cv env lhs d ar a e fuel. induction fuel as [|f IH]; intros divisor e' Henv Hdiv He H; cbn in H.
  - inversion H; subst; auto.
  - destruct (divisor * divisor <=? d) eqn:Eg; [|inversion H; subst; auto]. apply Z.leb_le in Eg.
    assert (Hd : 0 < d) by nia.
    destruct (d mod divisor =? 0) eqn:Em; [|apply (IH (divisor + 1)); auto; lia].
    apply Z.eqb_eq in Em.
    destruct (division_simplification env lhs (EConst divisor ar) divisor a) as [ne1|] eqn:E1; [|discriminate].
    pose proof (division_simplification_sound rho cv env lhs (EConst divisor ar) divisor a ne1 Henv eq_refl E1) as S1.
    destruct (negb (still_division ne1)).
    { inversion H; subst. cbn [eval eval_op]. rewrite S1. apply div_div_exact; auto; lia. }
    destruct (division_simplification env lhs (EConst (d / divisor) ar) (d / divisor) a) as [ne2|] eqn:E2; [|discriminate].
    pose proof (division_simplification_sound rho cv env lhs (EConst (d / divisor) ar) (d / divisor) a ne2 Henv eq_refl E2) as S2.
    destruct (negb (still_division ne2)).
    { inversion H; subst. cbn [eval eval_op]. rewrite S2. apply div_div_exact'; auto; lia. }
    apply (IH (divisor + 1)); auto; lia.
Qed.

Lemma split_loop_wf : forall env lhs d ar a e fuel divisor e',
    2 <= divisor -> wf_div e = true ->
    split_loop env fuel divisor lhs d ar a e = Some e' -> wf_div e' = true.
Proof.
  intros env lhs d ar a e fuel. induction fuel as [|f IH]; intros divisor e' Hdiv He H; cbn in H.
  - inversion H; subst; auto.
  - destruct (divisor * divisor <=? d) eqn:Eg; [|inversion H; subst; auto]. apply Z.leb_le in Eg.
    assert (Hd : 0 < d) by nia.
    destruct (d mod divisor =? 0) eqn:Em; [|apply (IH (divisor + 1)); auto; lia].
    apply Z.eqb_eq in Em.
    assert (d = divisor * (d / divisor)) by (apply Z_div_exact_full_2; auto; lia).
    assert (0 < d / divisor) by nia.
    destruct (division_simplification env lhs (EConst divisor ar) divisor a) as [ne1|] eqn:E1; [|discriminate].
    assert (W1 : wf_div ne1 = true) by (apply (division_simplification_wf env lhs (EConst divisor ar) divisor a ne1 eq_refl (ex_intro _ ar eq_refl) E1)).
    destruct (negb (still_division ne1)).
    { inversion H; subst. cbn. rewrite W1. cbn. apply Z.ltb_lt; auto. }
    destruct (division_simplification env lhs (EConst (d / divisor) ar) (d / divisor) a) as [ne2|] eqn:E2; [|discriminate].
    assert (W2 : wf_div ne2 = true) by (apply (division_simplification_wf env lhs (EConst (d / divisor) ar) (d / divisor) a ne2 eq_refl (ex_intro _ ar eq_refl) E2)).
    destruct (negb (still_division ne2)).
    { inversion H; subst. cbn. rewrite W2. cbn. apply Z.ltb_lt; lia. }
    apply (IH (divisor + 1)); auto; lia.
Qed.

Lemma try_split_sound : forall rho cv env lhs rhs d a e',
    env_sound env rho -> eval rho cv rhs = d ->
    division_simplification_and_try_spliting_denominator env lhs rhs d a = Some e' ->
    eval rho cv e' = eval rho cv lhs / d.
Proof.
  intros rho cv env lhs rhs d a e' Henv Hr H.
  unfold division_simplification_and_try_spliting_denominator in H.
  destruct (division_simplification env lhs rhs d a) as [e|] eqn:E; [|discriminate].
  pose proof (division_simplification_sound rho cv env lhs rhs d a e Henv Hr E) as S.
  destruct e as [| | |op l r a'|]; try (inversion H; subst; exact S).
  destruct op; try (inversion H; subst; exact S).
  destruct r as [|d' ar| | |]; try (inversion H; subst; exact S).
  cbn [eval eval_op] in S.
  rewrite <- S. eapply split_loop_sound; eauto; [lia|reflexivity].
Qed.

Lemma try_split_wf : forall env lhs rhs d a e',
    wf_div rhs = true -> (exists ar, rhs = EConst d ar) ->
    division_simplification_and_try_spliting_denominator env lhs rhs d a = Some e' -> wf_div e' = true.
Proof.
  intros env lhs rhs d a e' Hw Hc H.
  unfold division_simplification_and_try_spliting_denominator in H.
  destruct (division_simplification env lhs rhs d a) as [e|] eqn:E; [|discriminate].
  pose proof (division_simplification_wf env lhs rhs d a e Hw Hc E) as W.
  destruct e as [| | |op l r a'|]; try (inversion H; subst; exact W).
  destruct op; try (inversion H; subst; exact W).
  destruct r as [|d' ar| | |]; try (inversion H; subst; exact W).
  eapply split_loop_wf; eauto. lia.
Qed.

(* ------------------------------------------------------------------------------------------------ denominators *)
Lemma denom_simp_sound : forall rho cv l c2 a2 n c ac,
    wf_div l = true -> 0 < c2 ->
    denom_simp l c2 a2 = (n, c, ac) ->
    eval rho cv n / c = eval rho cv l / c2 /\ 0 < c /\ wf_div n = true.
Proof.
  intros rho cv l. induction l as [x a|k a|e IH a|op l1 IH1 r IHr a|cf f a]; intros c2 a2 n c ac Hw Hc H;
    cbn in H; try (inversion H; subst; auto).
  clear H1. destruct op; try (inversion H; subst; auto).
  destruct r as [|c1 a1| | |]; try (inversion H; subst; auto).
  clear H1. cbn in Hw. apply andb_true_iff in Hw. destruct Hw as [Hw1 Hc1]. apply Z.ltb_lt in Hc1.
  destruct (IH1 (c1 * c2) a n c ac Hw1 ltac:(nia) H) as [S [P W]].
  split; [|split; auto]. rewrite S. cbn [eval eval_op]. rewrite Z.div_div by lia. reflexivity.
Qed.

(* ------------------------------------------------------------------------------------------------ modulo *)
Lemma modulo_simplification_sound : forall rho cv env lhs rhs m a e',
    env_sound env rho -> eval rho cv rhs = m ->
    modulo_simplification env lhs rhs m a = Some e' ->
    eval rho cv e' = eval rho cv lhs mod m.
Proof.
  intros rho cv env lhs rhs m a e' Henv Hr H. unfold modulo_simplification in H.
  destruct (m <=? 0) eqn:Em; [discriminate|]. apply Z.leb_gt in Em.
  destruct (get_normalized_expr lhs) as [[[cval cann] nl]|] eqn:En; [|discriminate]. cbv zeta in H.
  pose proof (get_normalized_expr_sound rho cv lhs _ _ _ En) as Hl.
  pose proof (tsum_filter_split rho (fun t : Z * sym => fst t mod m =? 0) nl) as Hsplit. cbv beta in Hsplit.
  pose proof (tsum_div_exact rho m (filter (fun t : Z * sym => fst t mod m =? 0) nl) ltac:(lia) (filter_mod_all m nl)) as Hdv.
  set (DV := tsum rho (map (fun t => (fst t / m, snd t)) (filter (fun t : Z * sym => fst t mod m =? 0) nl))) in *.
  set (N := tsum rho (filter (fun t : Z * sym => negb (fst t mod m =? 0)) nl)) in *.
  destruct (nonempty (filter (fun t : Z * sym => negb (fst t mod m =? 0)) nl)) eqn:Ene; cbn [negb] in H.
  - set (cval' := if cval mod m =? 0 then 0 else cval) in *.
    assert (Hc' : exists q, cval = cval' + q * m).
    { unfold cval'. destruct (cval mod m =? 0) eqn:Ec.
      - apply Z.eqb_eq in Ec. exists (cval / m). pose proof (Z_div_exact_full_2 cval m ltac:(lia) Ec). lia.
      - exists 0; lia. }
    destruct Hc' as [q Hq].
    assert (Heq : eval rho cv lhs mod m = (cval' + N) mod m).
    { rewrite Hl, Hsplit, Hdv. fold N. replace (cval + (DV * m + N)) with (cval' + N + (q + DV) * m) by lia.
      apply Z_mod_plus_full. }
    destruct (check_expr_bounds env 0 CLeq _ CLt m) as [[]|] eqn:Ech; [| |discriminate H].
    + pose proof (check_expr_bounds_sound rho cv env _ m Henv Ech) as Hb.
      rewrite generate_loopIR_sound in Hb. cbn [eval] in Hb. fold N in Hb.
      injection H as <-. rewrite generate_loopIR_sound. cbn [eval]. fold N.
      rewrite Heq. rewrite Z.mod_small; auto.
    + injection H as <-. cbn [eval eval_op]. rewrite generate_loopIR_sound. cbn [eval]. fold N.
      rewrite Heq, Hr. reflexivity.
  - apply nonempty_false in Ene. injection H as <-. cbn [eval].
    rewrite Hl, Hsplit, Hdv. unfold N. rewrite Ene. cbn [tsum].
    replace (cval + (DV * m + 0)) with (cval + DV * m) by lia.
    rewrite Z_mod_plus_full. reflexivity.
Qed.

Lemma modulo_simplification_wf : forall env lhs rhs m a e',
    (exists ar, rhs = EConst m ar) ->
    modulo_simplification env lhs rhs m a = Some e' -> wf_div e' = true.
Proof.
  intros env lhs rhs m a e' [ar ->] H. unfold modulo_simplification in H.
  destruct (m <=? 0) eqn:Em; [discriminate|]. apply Z.leb_gt in Em.
  destruct (get_normalized_expr lhs) as [[[cval cann] nl]|]; [|discriminate]. cbv zeta in H.
  destruct (negb (nonempty _)); [inversion H; reflexivity|].
  destruct (check_expr_bounds env 0 CLeq _ CLt m) as [[]|]; inversion H; subst.
  - apply wf_generate.
  - cbn. rewrite wf_generate. cbn. apply Z.ltb_lt; auto.
Qed.

(* ------------------------------------------------------------------------------------------------ index_start *)
Lemma normal_form_sound : forall rho cv e e',
    normal_form e = Some e' -> eval rho cv e' = eval rho cv e.
Proof.
  intros rho cv e e' H. unfold normal_form in H.
  destruct (has_div_mod_config e); [inversion H; subst; reflexivity|].
  destruct (get_normalized_expr e) as [[[cval cann] nl]|] eqn:En; [|discriminate].
  inversion H; subst. rewrite generate_loopIR_sound. cbn [eval].
  symmetry. eapply get_normalized_expr_sound; eauto.
Qed.

Lemma normal_form_wf : forall e e', wf_div e = true -> normal_form e = Some e' -> wf_div e' = true.
Proof.
  intros e e' W H. unfold normal_form in H.
  destruct (has_div_mod_config e); [inversion H; subst; auto|].
  destruct (get_normalized_expr e) as [[[cval cann] nl]|]; [|discriminate].
  inversion H; subst. apply wf_generate.
Qed.

Lemma wf_div_bin : forall op l r a, wf_div (EBin op l r a) = true -> wf_div l = true /\ wf_div r = true.
Proof.
  intros op l r a H. destruct op; cbn in H; apply andb_true_iff in H; destruct H as [H1 H2]; split; auto;
    destruct r; try discriminate; reflexivity.
Qed.

Lemma wf_div_bin_other : forall op l r a,
    op <> ODiv -> op <> OMod -> wf_div l = true -> wf_div r = true -> wf_div (EBin op l r a) = true.
Proof. intros op l r a H1 H2 Hl Hr. destruct op; try congruence; cbn; rewrite Hl, Hr; reflexivity. Qed.

Theorem index_start_sound : forall rho cv env e e',
    wf_div e = true -> env_sound env rho -> index_start env e = Some e' ->
    eval rho cv e' = eval rho cv e /\ wf_div e' = true.
Proof.
  intros rho cv env e. induction e as [x a|c a|e IH a|op l IHl r IHr a|cf f a]; intros e' W Henv H; cbn [index_start] in H;
    try (split; [eapply normal_form_sound | eapply normal_form_wf]; eauto; fail).
  destruct (wf_div_bin _ _ _ _ W) as [Wl Wr].
  destruct (index_start env l) as [l'|] eqn:El; [|discriminate].
  destruct (index_start env r) as [r'|] eqn:Er; [|discriminate].
  destruct (IHl l' Wl Henv eq_refl) as [Sl Wl']. destruct (IHr r' Wr Henv eq_refl) as [Sr Wr'].
  assert (Hother : op <> ODiv -> op <> OMod -> normal_form (EBin op l' r' a) = Some e' ->
                   eval rho cv e' = eval rho cv (EBin op l r a) /\ wf_div e' = true).
  { intros N1 N2 Hn. split.
    - rewrite (normal_form_sound rho cv _ _ Hn). cbn [eval]. rewrite Sl, Sr. reflexivity.
    - apply (normal_form_wf _ _ (wf_div_bin_other op l' r' a N1 N2 Wl' Wr') Hn). }
  destruct op; try (apply Hother; [discriminate|discriminate|exact H]).
  - (* / *)
    destruct r' as [|d ar| | |]; try discriminate.
    cbn [eval eval_op]. rewrite <- Sl, <- Sr. cbn [eval].
    destruct (has_div_mod_config l').
    + inversion H; subst. unfold division_denominator_simplification.
      destruct (denom_simp l' d ar) as [[n c] ac] eqn:Ed.
      assert (0 < d) by (cbn in W; apply andb_true_iff in W; destruct W as [_ W]; destruct r; try discriminate;
                         cbn in Sr; apply Z.ltb_lt in W; lia).
      destruct (denom_simp_sound rho cv l' d ar n c ac Wl' H0 Ed) as [S [P Wn]].
      split; [cbn [eval eval_op]; auto|]. cbn. rewrite Wn. cbn. apply Z.ltb_lt; auto.
    + split; [apply (try_split_sound rho cv env l' (EConst d ar) d a e' Henv eq_refl H) | apply (try_split_wf env l' (EConst d ar) d a e' eq_refl (ex_intro _ ar eq_refl) H)].
  - (* % *)
    destruct r' as [|m ar| | |]; try discriminate.
    cbn [eval eval_op]. rewrite <- Sl, <- Sr. cbn [eval].
    destruct (has_div_mod_config l').
    + inversion H; subst. split; [reflexivity|].
      cbn. rewrite Wl'. cbn. cbn in W. apply andb_true_iff in W. destruct W as [_ W].
      destruct r; try discriminate. cbn in Sr. subst. exact W.
    + split; [apply (modulo_simplification_sound rho cv env l' (EConst m ar) m a e' Henv eq_refl H) | apply (modulo_simplification_wf env l' (EConst m ar) m a e' (ex_intro _ ar eq_refl) H)].
Qed.

Lemma norm_e_const : forall env c a r', norm_e env (EConst c a) = Some r' -> exists a', r' = EConst c a'.
Proof.
  intros env c a r' H. cbn in H. unfold ety in H. cbn in H.
  destruct (indexable (aty a)) eqn:E.
  - unfold normal_form, get_normalized_expr in H. cbn in H. rewrite E in H. cbn in H. inversion H; eauto.
  - inversion H; eauto.
Qed.

(* _DoNormalize.map_e *)
Theorem norm_e_sound : forall rho cv env e e',
    wf_div e = true -> env_sound env rho -> norm_e env e = Some e' ->
    eval rho cv e' = eval rho cv e /\ wf_div e' = true.
Proof.
  intros rho cv env e. induction e as [x a|c a|e IH a|op l IHl r IHr a|cf f a]; intros e' W Henv H; cbn [norm_e] in H;
    (destruct (indexable (ety _)) eqn:Ei; [eapply index_start_sound; eauto|]);
    try (inversion H; subst; auto; fail).
  - destruct (norm_e env e) as [x'|] eqn:E; [|discriminate]. inversion H; subst.
    destruct (IH x' W Henv eq_refl) as [S W']. split; [cbn [eval]; rewrite S; reflexivity|exact W'].
  - destruct (wf_div_bin _ _ _ _ W) as [Wl Wr].
    destruct (norm_e env l) as [l'|] eqn:El; [|discriminate].
    destruct (norm_e env r) as [r'|] eqn:Er; [|discriminate]. inversion H; subst.
    destruct (IHl l' Wl Henv eq_refl) as [Sl Wl']. destruct (IHr r' Wr Henv eq_refl) as [Sr Wr'].
    split; [cbn [eval]; rewrite Sl, Sr; reflexivity|].
    (* (a non-indexable / or % does not occur in typed LoopIR index code; the divisor stays the same literal) *)
    destruct op; cbn in *; rewrite ?Wl', ?Wr'; auto.
    + apply andb_true_iff in W. destruct W as [_ W]. destruct r; try discriminate.
      destruct (norm_e_const env c a0 r' Er) as [a' ->]. exact W.
    + apply andb_true_iff in W. destruct W as [_ W]. destruct r; try discriminate.
      destruct (norm_e_const env c a0 r' Er) as [a' ->]. exact W.
Qed.

Example index_start_hyps_satisfiable :
  let i := mkSym "i" 1 in
  let e := EBin OMod (EBin OSub (EVar i (mkAnn TIndex 1)) (EConst 3 (mkAnn TInt 1)) (mkAnn TIndex 1))
                (EConst 4 (mkAnn TInt 1)) (mkAnn TIndex 1) in
  wf_div e = true /\ env_sound [(i, (Some 3, Some 6))] (fun _ => 4) /\
  exists e', index_start [(i, (Some 3, Some 6))] e = Some e' /\ is_const e' = false /\ still_division e' = false.
Proof.
  cbn. split; [reflexivity|]. split.
  - intros x b H. cbn in H. destruct (sym_eqb _ x); inversion H; subst. unfold in_bound; cbn; lia.
  - eexists. split; [vm_compute; reflexivity|]. split; reflexivity.
Qed.
