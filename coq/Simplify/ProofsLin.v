(* C12 proofs, part 1: the linear normal form (normalize_e / concat_map / get_normalized_expr / generate_loopIR). *)
From Coq Require Import ZArith List Bool String Lia Permutation.
From Simplify Require Import Model.
Import ListNotations.
Open Scope Z_scope.

(* ------------------------------------------------------------------------------------------------ decidable eqs *)
Lemma sym_eqb_eq : forall x y, sym_eqb x y = true <-> x = y.
Proof.
  intros [n1 i1] [n2 i2]; unfold sym_eqb; cbn [sname sid].
  rewrite andb_true_iff, String.eqb_eq, Pos.eqb_eq. split.
  - intros [-> ->]; reflexivity.
  - intros H; inversion H; auto.
Qed.

Lemma sym_eqb_refl : forall x, sym_eqb x x = true.
Proof. intros; apply sym_eqb_eq; reflexivity. Qed.

Lemma sym_eqb_neq : forall x y, sym_eqb x y = false <-> x <> y.
Proof.
  intros x y; split.
  - intros H E; apply sym_eqb_eq in E; congruence.
  - intros H; destruct (sym_eqb x y) eqn:E; auto. apply sym_eqb_eq in E; contradiction.
Qed.

Lemma key_eqb_eq : forall a b, key_eqb a b = true <-> a = b.
Proof.
  intros [x|] [y|]; cbn; try (split; congruence).
  rewrite sym_eqb_eq; split; congruence.
Qed.

Lemma key_eqb_refl : forall a, key_eqb a a = true.
Proof. intros; apply key_eqb_eq; reflexivity. Qed.

Lemma key_eqb_neq : forall a b, key_eqb a b = false <-> a <> b.
Proof.
  intros a b; split.
  - intros H E; apply key_eqb_eq in E; congruence.
  - intros H; destruct (key_eqb a b) eqn:E; auto. apply key_eqb_eq in E; contradiction.
Qed.

(* ------------------------------------------------------------------------------------------------ dictionaries *)
Definition keys (m : lmap) : list key := map fst m.
Definition kval (rho : sym -> Z) (k : key) : Z := match k with None => 1 | Some x => rho x end.
Fixpoint dsum (rho : sym -> Z) (m : lmap) : Z :=
  match m with [] => 0 | kv :: m' => snd kv * kval rho (fst kv) + dsum rho m' end.
Definition coef (m : lmap) (k : key) : Z := match lget m k with Some v => v | None => 0 end.

Lemma lget_none_iff : forall m k, lget m k = None <-> ~ In k (keys m).
Proof.
  induction m as [|[k' v] m IH]; intros k; cbn.
  - tauto.
  - destruct (key_eqb k' k) eqn:E.
    + apply key_eqb_eq in E; subst. split; [discriminate | intros H; exfalso; apply H; auto].
    + apply key_eqb_neq in E. rewrite IH. tauto.
Qed.

Lemma lget_some_in : forall m k v, lget m k = Some v -> In k (keys m).
Proof.
  intros m k v H. destruct (lget m k) eqn:E; [|discriminate].
  induction m as [|[k' v'] m IH]; cbn in *; [discriminate|].
  destruct (key_eqb k' k) eqn:Ek; [left; apply key_eqb_eq; auto | right; auto].
Qed.

Lemma in_keys_lget : forall m k, In k (keys m) -> exists v, lget m k = Some v.
Proof.
  intros m k H. destruct (lget m k) eqn:E; eauto. apply lget_none_iff in E; contradiction.
Qed.

Lemma lmem_iff : forall m k, lmem m k = true <-> In k (keys m).
Proof.
  intros; unfold lmem. destruct (lget m k) eqn:E.
  - split; auto. intros _; eapply lget_some_in; eauto.
  - split; [discriminate|]. intros H; apply lget_none_iff in E; contradiction.
Qed.

Fixpoint sumL (L : list key) (f : key -> Z) : Z :=
  match L with [] => 0 | k :: L' => f k + sumL L' f end.

Lemma sumL_app : forall L1 L2 f, sumL (L1 ++ L2) f = sumL L1 f + sumL L2 f.
Proof. induction L1; intros; cbn; [|rewrite IHL1]; lia. Qed.

Lemma sumL_ext_in : forall L f g, (forall k, In k L -> f k = g k) -> sumL L f = sumL L g.
Proof.
  induction L; intros f g H; cbn; auto. rewrite (H a), (IHL f g); auto with datatypes.
Qed.

Lemma sumL_lin : forall L f g s, sumL L (fun k => f k + s * g k) = sumL L f + s * sumL L g.
Proof. induction L; intros; cbn; [|rewrite IHL]; lia. Qed.

Lemma coef_cons_eq : forall k c m, coef ((k, c) :: m) k = c.
Proof. intros; unfold coef; cbn; rewrite key_eqb_refl; reflexivity. Qed.

Lemma coef_cons_neq : forall k c m k', k <> k' -> coef ((k, c) :: m) k' = coef m k'.
Proof. intros; unfold coef; cbn. apply key_eqb_neq in H; rewrite H; reflexivity. Qed.

Lemma dsum_sup : forall rho m L,
    NoDup (keys m) -> NoDup L -> incl (keys m) L ->
    dsum rho m = sumL L (fun k => coef m k * kval rho k).
Proof.
  induction m as [|[k c] m IH]; intros L Hm HL Hi.
  - cbn. clear. induction L; cbn; auto; unfold coef in *; cbn in *; lia.
  - cbn [dsum fst snd].
    cbn in Hm. inversion Hm as [|? ? Hk Hm']; subst.
    assert (Hin : In k L) by (apply Hi; cbn; auto).
    destruct (in_split _ _ Hin) as [L1 [L2 ->]].
    pose proof (NoDup_remove_1 _ _ _ HL) as HL'.
    pose proof (NoDup_remove_2 _ _ _ HL) as Hk'.
    rewrite sumL_app. cbn [sumL]. rewrite coef_cons_eq.
    rewrite (IH (L1 ++ L2) Hm' HL').
    + rewrite sumL_app.
      rewrite (sumL_ext_in L1 (fun k0 => coef ((k, c) :: m) k0 * kval rho k0) (fun k0 => coef m k0 * kval rho k0)).
      rewrite (sumL_ext_in L2 (fun k0 => coef ((k, c) :: m) k0 * kval rho k0) (fun k0 => coef m k0 * kval rho k0)).
      lia.
      * intros k0 H0. rewrite coef_cons_neq; auto. intros ->. apply Hk'. apply in_or_app; auto.
      * intros k0 H0. rewrite coef_cons_neq; auto. intros ->. apply Hk'. apply in_or_app; auto.
    + intros k0 H0. assert (In k0 (L1 ++ k :: L2)) by (apply Hi; cbn; auto).
      apply in_app_or in H. apply in_or_app. destruct H as [|[->|]]; auto. contradiction.
Qed.

Lemma dsum_lin3 : forall rho a b m s,
    NoDup (keys a) -> NoDup (keys b) -> NoDup (keys m) ->
    incl (keys a) (keys m) -> incl (keys b) (keys m) ->
    (forall k, coef m k = coef a k + s * coef b k) ->
    dsum rho m = dsum rho a + s * dsum rho b.
Proof.
  intros rho a b m s Ha Hb Hm Ia Ib Hc.
  rewrite (dsum_sup rho m (keys m)), (dsum_sup rho a (keys m)), (dsum_sup rho b (keys m)); auto using incl_refl.
  rewrite <- sumL_lin. apply sumL_ext_in. intros k _. rewrite Hc. lia.
Qed.

(* ---- dict_union / common / map_vals *)
Lemma lget_app : forall a b k, lget (a ++ b) k = match lget a k with Some v => Some v | None => lget b k end.
Proof.
  induction a as [|[k' v] a IH]; intros; cbn; auto. destruct (key_eqb k' k); auto.
Qed.

Lemma lget_map_snd : forall (f : key -> Z -> Z) m k,
    lget (map (fun kv => (fst kv, f (fst kv) (snd kv))) m) k = option_map (f k) (lget m k).
Proof.
  induction m as [|[k' v] m IH]; intros; cbn; auto.
  destruct (key_eqb k' k) eqn:E; auto. apply key_eqb_eq in E; subst; reflexivity.
Qed.

Lemma lget_filter_notin : forall a b k,
    lget a k = None -> lget (filter (fun kv => negb (lmem a (fst kv))) b) k = lget b k.
Proof.
  intros a b k Ha. induction b as [|[k' v] b IH]; cbn; auto.
  destruct (key_eqb k' k) eqn:E.
  - apply key_eqb_eq in E; subst. unfold lmem at 1. rewrite Ha. cbn. rewrite key_eqb_refl. reflexivity.
  - destruct (negb (lmem a k')); cbn; [rewrite E|]; auto.
Qed.

Lemma lget_dict_union : forall a b k,
    lget (dict_union a b) k =
    match lget a k with
    | Some v => Some (match lget b k with Some v' => v' | None => v end)
    | None => lget b k
    end.
Proof.
  intros. unfold dict_union. rewrite lget_app.
  rewrite (lget_map_snd (fun k v => match lget b k with Some v' => v' | None => v end)).
  destruct (lget a k) eqn:E; cbn; auto.
  apply lget_filter_notin; auto.
Qed.

Lemma keys_map_snd : forall (f : key * Z -> Z) m, keys (map (fun kv => (fst kv, f kv)) m) = keys m.
Proof. intros; unfold keys; rewrite map_map; cbn. reflexivity. Qed.

Lemma NoDup_keys_filter : forall (p : key * Z -> bool) m, NoDup (keys m) -> NoDup (keys (filter p m)).
Proof.
  induction m as [|[k v] m IH]; cbn; intros H; auto. inversion H; subst.
  destruct (p (k, v)); cbn; auto. constructor; auto.
  intros Hin. apply H2. unfold keys in *. apply in_map_iff in Hin. destruct Hin as [[k' v'] [E Hf]].
  apply filter_In in Hf. cbn in E; subst. apply in_map_iff. exists (k, v'); tauto.
Qed.

Lemma NoDup_app_intro {A} : forall (l1 l2 : list A),
    NoDup l1 -> NoDup l2 -> (forall x, In x l1 -> ~ In x l2) -> NoDup (l1 ++ l2).
Proof.
  induction l1; intros l2 H1 H2 Hd; cbn; auto. inversion H1; subst. constructor.
  - intros Hin. apply in_app_or in Hin. destruct Hin; auto. apply (Hd a); cbn; auto.
  - apply IHl1; auto. intros x Hx; apply Hd; cbn; auto.
Qed.

Lemma NoDup_dict_union : forall a b, NoDup (keys a) -> NoDup (keys b) -> NoDup (keys (dict_union a b)).
Proof.
  intros a b Ha Hb. unfold dict_union, keys. rewrite map_app.
  apply NoDup_app_intro.
  - fold (keys (map (fun kv => (fst kv, match lget b (fst kv) with Some v' => v' | None => snd kv end)) a)).
    rewrite (keys_map_snd (fun kv => match lget b (fst kv) with Some v' => v' | None => snd kv end)). exact Ha.
  - apply NoDup_keys_filter; auto.
  - intros k H1 H2.
    fold (keys (map (fun kv => (fst kv, match lget b (fst kv) with Some v' => v' | None => snd kv end)) a)) in H1.
    rewrite (keys_map_snd (fun kv => match lget b (fst kv) with Some v' => v' | None => snd kv end)) in H1.
    apply in_map_iff in H2. destruct H2 as [[k' v'] [E Hf]]. cbn in E; subst.
    apply filter_In in Hf. destruct Hf as [_ Hf]. cbn in Hf.
    apply lmem_iff in H1. rewrite H1 in Hf. discriminate.
Qed.

Lemma in_keys_iff_lget : forall m k, In k (keys m) <-> lget m k <> None.
Proof.
  intros; split.
  - intros H E. apply lget_none_iff in E; contradiction.
  - intros H. destruct (lget m k) eqn:E; [eapply lget_some_in; eauto | congruence].
Qed.

Lemma in_keys_dict_union : forall a b k, In k (keys (dict_union a b)) <-> In k (keys a) \/ In k (keys b).
Proof.
  intros. rewrite !in_keys_iff_lget, lget_dict_union.
  destruct (lget a k), (lget b k); split; intros; try tauto; try congruence;
    try (left; congruence); try (right; congruence);
    try (destruct H; congruence).
Qed.

Lemma lget_common : forall f l r k,
    lget (common f l r) k =
    match lget l k, lget r k with Some v, Some w => Some (f v w) | _, _ => None end.
Proof.
  intros f l r k. unfold common. induction l as [|[k' v] l IH]; cbn; auto.
  rewrite lget_app. destruct (key_eqb k' k) eqn:E.
  - apply key_eqb_eq in E; subst. destruct (lget r k) eqn:Er; cbn.
    + rewrite key_eqb_refl. reflexivity.
    + rewrite IH. destruct (lget l k); auto.
  - destruct (lget r k') eqn:Er; cbn; [rewrite E|]; exact IH.
Qed.

Lemma NoDup_common : forall f l r, NoDup (keys l) -> NoDup (keys (common f l r)).
Proof.
  intros f l r. unfold common. induction l as [|[k v] l IH]; cbn; intros H; [constructor|].
  inversion H; subst. unfold keys. rewrite map_app. apply NoDup_app_intro.
  - destruct (lget r k); cbn; repeat constructor; auto.
  - apply IH; auto.
  - intros x Hx Hin. destruct (lget r k); cbn in Hx; [|contradiction]. destruct Hx as [<-|[]].
    apply H2. fold (keys (flat_map (fun kv => match lget r (fst kv) with Some w => [(fst kv, f (snd kv) w)] | None => [] end) l)) in Hin.
    apply in_keys_iff_lget in Hin. fold (common f l r) in Hin. rewrite lget_common in Hin.
    apply in_keys_iff_lget. destruct (lget l k); congruence.
Qed.

Lemma keys_map_vals : forall f m, keys (map_vals f m) = keys m.
Proof. intros; unfold map_vals; apply (keys_map_snd (fun kv => f (snd kv))). Qed.

Lemma lget_map_vals : forall f m k, lget (map_vals f m) k = option_map f (lget m k).
Proof. intros; unfold map_vals. apply (lget_map_snd (fun _ v => f v)). Qed.

Lemma dsum_map_vals_mul : forall rho m c, dsum rho (map_vals (fun v => v * c) m) = c * dsum rho m.
Proof.
  intros rho m c. induction m as [|[k v] m IH]; [cbn; lia|].
  change (map_vals (fun v => v * c) ((k, v) :: m)) with ((k, v * c) :: map_vals (fun v => v * c) m).
  change (dsum rho ((k, v * c) :: map_vals (fun v0 => v0 * c) m))
    with (v * c * kval rho k + dsum rho (map_vals (fun v0 => v0 * c) m)).
  change (dsum rho ((k, v) :: m)) with (v * kval rho k + dsum rho m).
  rewrite IH. lia.
Qed.

Lemma dsum_map_vals_opp : forall rho m, dsum rho (map_vals Z.opp m) = - dsum rho m.
Proof.
  intros rho m. induction m as [|[k v] m IH]; [cbn; lia|].
  change (map_vals Z.opp ((k, v) :: m)) with ((k, - v) :: map_vals Z.opp m).
  change (dsum rho ((k, - v) :: map_vals Z.opp m)) with (- v * kval rho k + dsum rho (map_vals Z.opp m)).
  change (dsum rho ((k, v) :: m)) with (v * kval rho k + dsum rho m).
  rewrite IH. lia.
Qed.

(* ------------------------------------------------------------------------------------------------ concat_map *)
Lemma concat_add_sound : forall rho l r,
    NoDup (keys l) -> NoDup (keys r) ->
    let m := dict_union (dict_union l r) (common Z.add l r) in
    NoDup (keys m) /\ dsum rho m = dsum rho l + dsum rho r.
Proof.
  intros rho l r Hl Hr m.
  assert (Hm : NoDup (keys m)) by (apply NoDup_dict_union; [apply NoDup_dict_union|apply NoDup_common]; auto).
  split; auto.
  replace (dsum rho l + dsum rho r) with (dsum rho l + 1 * dsum rho r) by lia.
  apply dsum_lin3; auto.
  - intros k H. apply in_keys_dict_union; left. apply in_keys_dict_union; auto.
  - intros k H. apply in_keys_dict_union; left. apply in_keys_dict_union; auto.
  - intros k. unfold coef, m. rewrite lget_dict_union, lget_dict_union, lget_common.
    destruct (lget l k), (lget r k); lia.
Qed.

Lemma concat_sub_sound : forall rho l r,
    NoDup (keys l) -> NoDup (keys r) ->
    let m := dict_union (dict_union l (map_vals Z.opp r)) (common Z.sub l r) in
    NoDup (keys m) /\ dsum rho m = dsum rho l - dsum rho r.
Proof.
  intros rho l r Hl Hr m.
  assert (Hr' : NoDup (keys (map_vals Z.opp r))) by (rewrite keys_map_vals; auto).
  assert (Hm : NoDup (keys m)) by (apply NoDup_dict_union; [apply NoDup_dict_union|apply NoDup_common]; auto).
  split; auto.
  replace (dsum rho l - dsum rho r) with (dsum rho l + (-1) * dsum rho r) by lia.
  apply dsum_lin3; auto.
  - intros k H. apply in_keys_dict_union; left. apply in_keys_dict_union; auto.
  - intros k H. apply in_keys_dict_union; left. apply in_keys_dict_union; right. rewrite keys_map_vals; auto.
  - intros k. unfold coef, m. rewrite lget_dict_union, lget_dict_union, lget_common, lget_map_vals.
    destruct (lget l k), (lget r k); cbn [option_map]; lia.
Qed.

Lemma len1_inv : forall m : lmap, len1 m = true -> exists kv, m = [kv].
Proof. intros [|kv [|? ?]]; cbn; try discriminate; eauto. Qed.

Lemma concat_map_sound : forall rho op l r m,
    NoDup (keys l) -> NoDup (keys r) -> concat_map op l r = Some m ->
    NoDup (keys m) /\ dsum rho m = eval_op op (dsum rho l) (dsum rho r).
Proof.
  intros rho op l r m Hl Hr H. destruct op; cbn in H; try discriminate.
  - inversion H; subst. apply concat_add_sound; auto.
  - inversion H; subst. apply concat_sub_sound; auto.
  - destruct (len1 r || len1 l); [|discriminate].
    destruct (len1 r && lmem r None) eqn:E1.
    + apply andb_true_iff in E1. destruct E1 as [E1 E2].
      destruct (lget r None) as [c|] eqn:Ec; [|discriminate]. inversion H; subst.
      split; [rewrite keys_map_vals; auto|].
      rewrite dsum_map_vals_mul. cbn [eval_op].
      destruct (len1_inv _ E1) as [[k v] ->]. cbn in Ec.
      destruct (key_eqb k None) eqn:Ek; [|discriminate]. apply key_eqb_eq in Ek; subst. inversion Ec; subst.
      cbn. lia.
    + destruct (len1 l && lmem l None) eqn:E2; [|discriminate].
      apply andb_true_iff in E2. destruct E2 as [E2 E3].
      destruct (lget l None) as [c|] eqn:Ec; [|discriminate]. inversion H; subst.
      split; [rewrite keys_map_vals; auto|].
      rewrite dsum_map_vals_mul. cbn [eval_op].
      destruct (len1_inv _ E2) as [[k v] ->]. cbn in Ec.
      destruct (key_eqb k None) eqn:Ek; [|discriminate]. apply key_eqb_eq in Ek; subst. inversion Ec; subst.
      cbn. lia.
Qed.

(* ------------------------------------------------------------------------------------------------ normalize_e *)
Lemma normalize_e_sound : forall rho cv e m,
    normalize_e e = Some m -> NoDup (keys m) /\ dsum rho m = eval rho cv e.
Proof.
  intros rho cv. induction e as [x a|c a|e IH a|op l IHl r IHr a|c f a]; intros m H; cbn in H.
  - destruct (indexable (aty a)); inversion H; subst. split; [apply NoDup_cons; [intros []|apply NoDup_nil]|cbn [dsum fst snd kval eval]; lia].
  - destruct (indexable (aty a)); inversion H; subst. split; [apply NoDup_cons; [intros []|apply NoDup_nil]|cbn [dsum fst snd kval eval]; lia].
  - destruct (indexable (aty a)); [|discriminate].
    destruct (normalize_e e) as [m'|]; [|discriminate]. cbn in H; inversion H; subst.
    destruct (IH m' eq_refl) as [N S]. split; [rewrite keys_map_vals; auto|].
    rewrite dsum_map_vals_opp, S. reflexivity.
  - destruct (indexable (aty a)); [|discriminate].
    destruct (normalize_e l) as [lm|]; [|discriminate].
    destruct (normalize_e r) as [rm|]; [|discriminate].
    destruct (IHl lm eq_refl) as [Nl Sl]. destruct (IHr rm eq_refl) as [Nr Sr].
    destruct (concat_map_sound rho op lm rm m Nl Nr H) as [N S]. split; auto.
    cbn [eval]. rewrite S, Sl, Sr. reflexivity.
  - discriminate.
Qed.

(* ------------------------------------------------------------------------------------------------ terms *)
Fixpoint tsum (rho : sym -> Z) (l : list (Z * sym)) : Z :=
  match l with [] => 0 | t :: l' => fst t * rho (snd t) + tsum rho l' end.

Lemma tsum_app : forall rho l1 l2, tsum rho (l1 ++ l2) = tsum rho l1 + tsum rho l2.
Proof. induction l1; intros; cbn [tsum app]; [|rewrite IHl1]; lia. Qed.

Lemma dsum_terms : forall rho m,
    NoDup (keys m) ->
    dsum rho m = (match lget m None with Some c => c | None => 0 end) + tsum rho (terms_of m).
Proof.
  induction m as [|[k v] m IH]; intros H; [cbn; lia|].
  inversion H; subst. specialize (IH H3). unfold terms_of in *. cbn [flat_map fst snd dsum lget].
  rewrite tsum_app. destruct k as [x|]; cbn [key_eqb kval].
  - rewrite IH. destruct (v =? 0) eqn:E; cbn [tsum fst snd]; lia.
  - assert (lget m None = None) by (apply lget_none_iff; auto). rewrite H0 in IH. rewrite IH. cbn [tsum]. lia.
Qed.

Lemma get_normalized_expr_sound : forall rho cv e c a nl,
    get_normalized_expr e = Some (c, a, nl) -> eval rho cv e = c + tsum rho nl.
Proof.
  intros rho cv e c a nl H. unfold get_normalized_expr in H.
  destruct (normalize_e e) as [m|] eqn:E; [|discriminate]. inversion H; subst.
  destruct (normalize_e_sound rho cv e m E) as [N S]. rewrite <- S. apply dsum_terms; auto.
Qed.

Lemma tsum_insert : forall rho t l, tsum rho (insert_term t l) = fst t * rho (snd t) + tsum rho l.
Proof.
  induction l as [|u l IH]; cbn [insert_term tsum]; [lia|]. destruct (term_ltb u t); cbn [tsum]; [rewrite IH|]; lia.
Qed.

Lemma tsum_sort : forall rho l, tsum rho (sort_terms l) = tsum rho l.
Proof.
  induction l as [|t l IH]; [reflexivity|]. unfold sort_terms in *. cbn [fold_right tsum]. rewrite tsum_insert, IH. reflexivity.
Qed.

Lemma eval_gen_fold : forall rho cv ctx l acc,
    eval rho cv (fold_left (gen_step ctx) l acc) = eval rho cv acc + tsum rho l.
Proof.
  induction l as [|t l IH]; intros acc; cbn [fold_left tsum]; [lia|].
  rewrite IH. unfold gen_step, scale_read. destruct (0 <? fst t); cbn [eval eval_op]; lia.
Qed.

Lemma generate_loopIR_sound : forall rho cv ctx c l,
    eval rho cv (generate_loopIR ctx c l) = eval rho cv c + tsum rho l.
Proof. intros; unfold generate_loopIR. rewrite eval_gen_fold, tsum_sort. reflexivity. Qed.

(* filtering / splitting the term list *)
Lemma tsum_filter_split : forall rho (p : Z * sym -> bool) l,
    tsum rho l = tsum rho (filter p l) + tsum rho (filter (fun t => negb (p t)) l).
Proof.
  induction l as [|t l IH]; [reflexivity|]. cbn [filter tsum]. destruct (p t); cbn [negb tsum]; rewrite IH; lia.
Qed.
