(* C12 proofs, part 4: DoSimplify's expression layer (cfold, identity rules, quotient-remainder, facts). *)
From Coq Require Import ZArith List Bool String Lia.
From Simplify Require Import Model ProofsLin.
Import ListNotations.
Open Scope Z_scope.

(* ------------------------------------------------------------------------------------------------ equalities *)
Lemma ty_eqb_eq : forall a b, ty_eqb a b = true -> a = b.
Proof. intros [] []; cbn; congruence. Qed.

Lemma ann_eqb_eq : forall a b, ann_eqb a b = true -> a = b.
Proof.
  intros [t1 s1] [t2 s2] H. unfold ann_eqb in H. cbn in H. apply andb_true_iff in H. destruct H as [H1 H2].
  apply ty_eqb_eq in H1. apply Pos.eqb_eq in H2. subst; reflexivity.
Qed.

Lemma binop_eqb_eq : forall a b, binop_eqb a b = true -> a = b.
Proof. intros [] []; cbn; congruence. Qed.

Lemma expr_eqb_eq : forall a b, expr_eqb a b = true -> a = b.
Proof.
  induction a as [x a1|c a1|e IH a1|op l IHl r IHr a1|c f a1]; intros [y a2|d a2|e2 a2|op2 l2 r2 a2|c2 f2 a2] H;
    cbn in H; try discriminate.
  - apply andb_true_iff in H. destruct H as [H1 H2]. apply sym_eqb_eq in H1. apply ann_eqb_eq in H2. congruence.
  - apply andb_true_iff in H. destruct H as [H1 H2]. apply Z.eqb_eq in H1. apply ann_eqb_eq in H2. congruence.
  - apply andb_true_iff in H. destruct H as [H1 H2]. apply IH in H1. apply ann_eqb_eq in H2. congruence.
  - repeat (apply andb_true_iff in H; destruct H as [H ?]).
    apply binop_eqb_eq in H. apply IHl in H2. apply IHr in H1. apply ann_eqb_eq in H0. congruence.
  - repeat (apply andb_true_iff in H; destruct H as [H ?]).
    apply String.eqb_eq in H. apply String.eqb_eq in H1. apply ann_eqb_eq in H0. congruence.
Qed.

Lemma list_eqb_eq {A} (eqb : A -> A -> bool) :
  (forall x y, eqb x y = true -> x = y) -> forall l1 l2, list_eqb eqb l1 l2 = true -> l1 = l2.
Proof.
  intros He. induction l1 as [|x l1 IH]; intros [|y l2] H; cbn in H; try discriminate; auto.
  apply andb_true_iff in H. destruct H as [H1 H2]. apply He in H1. apply IH in H2. congruence.
Qed.

(* ------------------------------------------------------------------------------------------------ shapes *)
(* evaluate a shape, taking the variables from a list *)
Fixpoint seval (rho : sym -> Z) (cv : string -> string -> Z) (s : expr) (vs : list sym) : Z * list sym :=
  match s with
  | EVar _ _ => match vs with x :: vs' => (rho x, vs') | [] => (0, []) end
  | EConst c _ => (c, vs)
  | ENeg x _ => let '(v, vs') := seval rho cv x vs in (- v, vs')
  | EBin op l r _ =>
      let '(a, vs1) := seval rho cv l vs in
      let '(b, vs2) := seval rho cv r vs1 in (eval_op op a b, vs2)
  | ECfg c f _ => (cv c f, vs)
  end.

Lemma seval_neg : forall rho cv s a vs,
    seval rho cv (ENeg s a) vs = let '(v, vs') := seval rho cv s vs in (- v, vs').
Proof. reflexivity. Qed.

Lemma seval_shape : forall rho cv e rest, seval rho cv (shape e) (occ e ++ rest) = (eval rho cv e, rest).
Proof.
  intros rho cv. induction e as [x a|c a|e IH a|op l IHl r IHr a|c f a]; intros rest; cbn [shape occ eval].
  - reflexivity.
  - reflexivity.
  - specialize (IH rest). destruct (shape e) as [y ay|k ak|e1 a1|op1 l1 r1 a1|c1 f1 a1] eqn:Es;
      try (rewrite seval_neg, IH; reflexivity).
    cbn [seval] in IH. injection IH as Hk Hr.
    destruct ((0 <? k) && negb (ty_eqb (aty ak) TBool)); cbn [seval]; rewrite Hr, Hk; reflexivity.
  - cbn [seval]. rewrite <- app_assoc. rewrite IHl, IHr. reflexivity.
  - reflexivity.
Qed.

Lemma shape_occ_eval : forall rho cv a b, shape a = shape b -> occ a = occ b -> eval rho cv a = eval rho cv b.
Proof.
  intros rho cv a b Hs Ho.
  pose proof (seval_shape rho cv a []) as Ha. pose proof (seval_shape rho cv b []) as Hb.
  rewrite Hs, Ho, Hb in Ha. congruence.
Qed.

Lemma fact_key_sound : forall rho cv a b, fact_key_eqb a b = true -> eval rho cv a = eval rho cv b.
Proof.
  intros rho cv a b H. unfold fact_key_eqb in H.
  apply andb_true_iff in H. destruct H as [H H3]. apply andb_true_iff in H. destruct H as [H1 _].
  apply shape_occ_eval.
  - apply expr_eqb_eq; auto.
  - apply (list_eqb_eq sym_eqb); auto. intros x y E; apply sym_eqb_eq; auto.
Qed.

(* printed names: a non-empty variable list prints a non-empty name list *)
Lemma pnames_from_nil : forall pe l, pnames_from pe l = [] -> l = [].
Proof.
  intros pe [|x l] H; auto. cbn in H. destruct (get_name pe x); discriminate.
Qed.

(* str(a) == str(b) where b is a literal *)
Lemma str_eqb_const_sound : forall rho cv a b,
    is_const b = true -> str_eqb a b = true -> eval rho cv a = eval rho cv b.
Proof.
  intros rho cv a b Hc H. destruct b as [|c ab| | |]; try discriminate.
  unfold str_eqb in H. apply andb_true_iff in H. destruct H as [H1 H2].
  apply shape_occ_eval; [apply expr_eqb_eq; auto|].
  cbn [occ] in *. unfold pnames in H2. cbn [pnames_from] in H2.
  destruct (pnames_from (mkPenv [] []) (occ a)) eqn:E; [|discriminate].
  apply pnames_from_nil in E. exact E.
Qed.

(* ------------------------------------------------------------------------------------------------ facts *)
Definition facts_sound (fs : facts) (rho : sym -> Z) (cv : string -> string -> Z) : Prop :=
  forall k v, In (k, v) fs -> eval rho cv k = eval rho cv v.

Lemma known_sound : forall rho cv fs e c,
    facts_sound fs rho cv -> known fs e = Some c -> eval rho cv c = eval rho cv e.
Proof.
  intros rho cv. induction fs as [|[k v] fs IH]; intros e c Hf H; cbn in H; [discriminate|].
  destruct (fact_key_eqb k e) eqn:E.
  - inversion H; subst. rewrite <- (fact_key_sound rho cv k e E). symmetry. apply Hf; cbn; auto.
  - apply IH; auto. intros k' v' Hin; apply Hf; cbn; auto.
Qed.

Lemma or_known_sound : forall rho cv fs e, facts_sound fs rho cv -> eval rho cv (or_known fs e) = eval rho cv e.
Proof.
  intros. unfold or_known. destruct (known fs e) eqn:E; auto. eapply known_sound; eauto.
Qed.

Lemma is_const_val_eval : forall rho cv e v, is_const_val e v = true -> eval rho cv e = v.
Proof. intros rho cv [] v H; cbn in H; try discriminate. apply Z.eqb_eq in H. subst; reflexivity. Qed.

Lemma const_val_eval : forall rho cv e v, const_val e = Some v -> eval rho cv e = v.
Proof. intros rho cv [] v H; cbn in H; try discriminate. inversion H; reflexivity. Qed.

Lemma is_const_inv : forall e, is_const e = true -> exists c a, e = EConst c a.
Proof. intros [] H; try discriminate; eauto. Qed.

(* a true guard [e == c] (or [c == e]) makes the recorded facts true *)
Lemma div_zero_mod : forall x m, x / m = 0 -> x mod m = x.
Proof.
  intros x m H. pose proof (Z_div_mod_eq_full x m) as E. rewrite H in E. lia.
Qed.

Lemma add_fact_sound : forall rho cv cond fs,
    facts_sound fs rho cv -> eval rho cv cond <> 0 -> facts_sound (add_fact cond fs) rho cv.
Proof.
  intros rho cv cond fs Hf Hc. unfold add_fact.
  destruct cond as [| | |op l r a|]; auto. destruct op; auto.
  assert (Heq : eval rho cv l = eval rho cv r).
  { cbn in Hc. destruct (eval rho cv l =? eval rho cv r) eqn:E; [apply Z.eqb_eq; auto|cbn in Hc; congruence]. }
  assert (Hgen : forall ex cst, eval rho cv ex = eval rho cv cst ->
            facts_sound (if has_cfg ex then fs else
                           let fs1 := (ex, cst) :: fs in
                           match ex with
                           | EBin ODiv dl dr da => if is_const_val cst 0 then (EBin OMod dl dr da, dl) :: fs1 else fs1
                           | _ => fs1
                           end) rho cv).
  { intros ex cst He. destruct (has_cfg ex); auto. cbv zeta.
    assert (H1 : facts_sound ((ex, cst) :: fs) rho cv).
    { intros k v [E|Hin]; [inversion E; subst; auto|apply Hf; auto]. }
    destruct ex as [| | |op d1 d2 da|]; auto. destruct op; auto.
    destruct (is_const_val cst 0) eqn:Ez; auto.
    intros k v [E|Hin]; [|apply H1; auto]. inversion E; subst.
    rewrite (is_const_val_eval rho cv cst 0 Ez) in He. cbn [eval eval_op] in *. apply div_zero_mod; auto. }
  destruct (is_const r); [apply Hgen; auto|]. destruct (is_const l); [apply Hgen; auto|]. exact Hf.
Qed.

(* ------------------------------------------------------------------------------------------------ rules *)
Lemma cfold_sound : forall op x y v, cfold op x y = Some v -> v = eval_op op x y.
Proof.
  intros op x y v H. destruct op; cbn in H; try (inversion H; reflexivity);
    destruct (y =? 0); inversion H; reflexivity.
Qed.

Lemma check_quot_sound : forall rho cv num modc const div n,
    is_const modc = true ->
    check_quot num modc const div = Some n ->
    n = num /\ eval rho cv const * eval rho cv div = eval rho cv modc * (eval rho cv num / eval rho cv modc).
Proof.
  intros rho cv num modc const div n Hm H. unfold check_quot in H.
  destruct const as [|k ak| | |]; try discriminate.
  destruct div as [| | |op dl dr da|]; try discriminate. destruct op; try discriminate.
  destruct (str_eqb (EConst k ak) modc && fact_key_eqb dl num && str_eqb dr modc) eqn:E; [|discriminate].
  inversion H; subst. split; auto.
  apply andb_true_iff in E. destruct E as [E E3]. apply andb_true_iff in E. destruct E as [E1 E2].
  rewrite (str_eqb_const_sound rho cv _ modc Hm E1).
  cbn [eval eval_op]. rewrite (fact_key_sound rho cv dl n E2), (str_eqb_const_sound rho cv dr modc Hm E3).
  reflexivity.
Qed.

Lemma qr_check_sound : forall rho cv num modc quot n,
    is_const modc = true -> qr_check num modc quot = Some n ->
    n = num /\ eval rho cv quot = eval rho cv modc * (eval rho cv num / eval rho cv modc).
Proof.
  intros rho cv num modc quot n Hm H. unfold qr_check in H.
  destruct quot as [| | |op ql qr a|]; try discriminate. destruct op; try discriminate.
  destruct (check_quot num modc ql qr) eqn:E1.
  - inversion H; subst. destruct (check_quot_sound rho cv _ _ _ _ _ Hm E1) as [-> S]. split; auto.
  - destruct (check_quot_sound rho cv _ _ _ _ _ Hm H) as [-> S]. split; auto. cbn [eval eval_op]. lia.
Qed.

Lemma is_quotient_remainder_sound : forall rho cv l r n,
    is_quotient_remainder l r = Some (Some n) -> eval rho cv l + eval rho cv r = eval rho cv n.
Proof.
  intros rho cv l r n H. unfold is_quotient_remainder in H.
  assert (G : forall num modc a quot, is_const modc = true -> qr_check num modc quot = Some n ->
                                      eval rho cv (EBin OMod num modc a) + eval rho cv quot = eval rho cv n).
  { intros num modc a quot Hm Hq. destruct (qr_check_sound rho cv _ _ _ _ Hm Hq) as [-> S].
    cbn [eval eval_op]. rewrite S. pose proof (Z_div_mod_eq_full (eval rho cv num) (eval rho cv modc)). lia. }
  destruct l as [| | |opl ll lr la|];
    try (destruct r as [| | |opr rl rr ra|]; try discriminate; destruct opr; try discriminate;
         destruct (is_const rr) eqn:Ec; [|discriminate]; inversion H as [Hq];
         rewrite Z.add_comm; eapply G; eauto; fail).
  destruct opl;
    try (destruct r as [| | |opr rl rr ra|]; try discriminate; destruct opr; try discriminate;
         destruct (is_const rr) eqn:Ec; [|discriminate]; inversion H as [Hq];
         rewrite Z.add_comm; eapply G; eauto; fail).
  destruct (is_const lr) eqn:Ec; [|discriminate]. inversion H as [Hq]. eapply G; eauto.
Qed.

(* [and] / [or] are Python's: they return one of their operands.  The identity rules "x and True -> x",
   "x or False -> x" are value-preserving when x is a boolean (0 / 1), which exo's type checker guarantees for the
   operands of and / or.  [bool_ok] states exactly that, semantically. *)
Definition is01 (v : Z) : Prop := v = 0 \/ v = 1.

Fixpoint bool_ok (rho : sym -> Z) (cv : string -> string -> Z) (e : expr) : Prop :=
  match e with
  | EBin op l r _ =>
      bool_ok rho cv l /\ bool_ok rho cv r /\
      match op with
      | OAnd | OOr => is01 (eval rho cv l) /\ is01 (eval rho cv r)
      | _ => True
      end
  | ENeg x _ => bool_ok rho cv x
  | _ => True
  end.

Lemma and_or_rules_sound : forall rho cv b l r a,
    is01 (eval rho cv l) -> is01 (eval rho cv r) ->
    eval rho cv (and_or_rules b l r a (EBin (if b then OAnd else OOr) l r a)) =
    eval_op (if b then OAnd else OOr) (eval rho cv l) (eval rho cv r).
Proof.
  intros rho cv b l r a Hl Hr. unfold and_or_rules.
  destruct b.
  - destruct (is_const_val l 0) eqn:E1; [rewrite (is_const_val_eval rho cv l 0 E1); reflexivity|].
    destruct (is_const_val l 1) eqn:E2; [rewrite (is_const_val_eval rho cv l 1 E2); reflexivity|].
    destruct (is_const_val r 0) eqn:E3.
    { rewrite (is_const_val_eval rho cv r 0 E3). destruct Hl as [->| ->]; reflexivity. }
    destruct (is_const_val r 1) eqn:E4; [|reflexivity].
    rewrite (is_const_val_eval rho cv r 1 E4). destruct Hl as [->| ->]; reflexivity.
  - destruct (is_const_val l 0) eqn:E1; [rewrite (is_const_val_eval rho cv l 0 E1); reflexivity|].
    destruct (is_const_val l 1) eqn:E2; [rewrite (is_const_val_eval rho cv l 1 E2); reflexivity|].
    destruct (is_const_val r 0) eqn:E3.
    { rewrite (is_const_val_eval rho cv r 0 E3). destruct Hl as [->| ->]; reflexivity. }
    destruct (is_const_val r 1) eqn:E4; [|reflexivity].
    rewrite (is_const_val_eval rho cv r 1 E4). destruct Hl as [->| ->]; reflexivity.
Qed.

(* the rules applied when not both operands are literals *)
Definition generic_rules (op : binop) (l r : expr) (a : ann) : option expr :=
  let dflt := EBin op l r a in
  match op with
  | OAdd =>
      if is_const_val l 0 then Some r
      else if is_const_val r 0 then Some l
      else
        match is_quotient_remainder l r with
        | None => None
        | Some (Some n) => Some n
        | Some None => Some dflt
        end
  | OSub =>
      if is_const_val r 0 then Some l
      else if is_const_val l 0 then Some (ENeg r (ann_of r))
      else
        match l with
        | EBin OAdd ll lr _ =>
            if expr_eqb ll r then Some lr
            else if expr_eqb lr r then Some ll
            else Some dflt
        | _ => Some dflt
        end
  | OMul =>
      if is_const_val l 0 || is_const_val r 0 then Some (EConst 0 (ann_of l))
      else if is_const_val l 1 then Some r
      else if is_const_val r 1 then Some l
      else Some dflt
  | ODiv => if is_const_val r 1 then Some l else Some dflt
  | OMod => if is_const_val r 1 then Some (EConst 0 (ann_of l)) else Some dflt
  | OAnd => Some (and_or_rules true l r a dflt)
  | OOr => Some (and_or_rules false l r a dflt)
  | _ => Some dflt
  end.

Lemma binop_rules_unfold : forall op l r a,
    binop_rules op l r a =
    match const_val l, const_val r with
    | Some x, Some y => match cfold op x y with Some v => Some (EConst v (mkAnn (aty a) (asrc (ann_of l)))) | None => None end
    | _, _ => generic_rules op l r a
    end.
Proof. intros. unfold binop_rules, generic_rules. destruct (const_val l), (const_val r); reflexivity. Qed.

Lemma generic_rules_sound : forall rho cv op l r a e',
    (match op with OAnd | OOr => is01 (eval rho cv l) /\ is01 (eval rho cv r) | _ => True end) ->
    generic_rules op l r a = Some e' ->
    eval rho cv e' = eval_op op (eval rho cv l) (eval rho cv r).
Proof.
  intros rho cv op l r a e' Hb H. unfold generic_rules in H. cbv zeta in H.
  destruct op; try (inversion H; subst; reflexivity).
  - (* + *)
    destruct (is_const_val l 0) eqn:E1.
    { inversion H; subst. rewrite (is_const_val_eval rho cv l 0 E1). cbn; lia. }
    destruct (is_const_val r 0) eqn:E2.
    { inversion H; subst. rewrite (is_const_val_eval rho cv r 0 E2). cbn; lia. }
    destruct (is_quotient_remainder l r) as [[n|]|] eqn:Eq; inversion H; subst; [|reflexivity].
    cbn [eval_op]. symmetry. apply is_quotient_remainder_sound; auto.
  - (* - *)
    destruct (is_const_val r 0) eqn:E1.
    { inversion H; subst. rewrite (is_const_val_eval rho cv r 0 E1). cbn; lia. }
    destruct (is_const_val l 0) eqn:E2.
    { inversion H; subst. rewrite (is_const_val_eval rho cv l 0 E2). cbn; lia. }
    destruct l as [| | |opl ll lr la|]; try (inversion H; subst; reflexivity).
    destruct opl; try (inversion H; subst; reflexivity).
    destruct (expr_eqb ll r) eqn:E3.
    { inversion H; subst. apply expr_eqb_eq in E3; subst. cbn; lia. }
    destruct (expr_eqb lr r) eqn:E4; inversion H; subst; [|reflexivity].
    apply expr_eqb_eq in E4; subst. cbn; lia.
  - (* * *)
    destruct (is_const_val l 0 || is_const_val r 0) eqn:E1.
    { inversion H; subst. apply orb_true_iff in E1. destruct E1 as [E|E].
      - rewrite (is_const_val_eval rho cv l 0 E). reflexivity.
      - rewrite (is_const_val_eval rho cv r 0 E). cbn; lia. }
    destruct (is_const_val l 1) eqn:E2.
    { inversion H; subst. rewrite (is_const_val_eval rho cv l 1 E2). cbn [eval_op]; lia. }
    destruct (is_const_val r 1) eqn:E3; inversion H; subst; [|reflexivity].
    rewrite (is_const_val_eval rho cv r 1 E3). cbn [eval_op]; lia.
  - (* / *)
    destruct (is_const_val r 1) eqn:E1; inversion H; subst; [|reflexivity].
    rewrite (is_const_val_eval rho cv r 1 E1). cbn [eval_op]. rewrite Z.div_1_r. reflexivity.
  - (* % *)
    destruct (is_const_val r 1) eqn:E1; inversion H; subst; [|reflexivity].
    rewrite (is_const_val_eval rho cv r 1 E1). cbn [eval eval_op]. rewrite Z.mod_1_r. reflexivity.
  - (* and *) inversion H; subst. destruct Hb. apply (and_or_rules_sound rho cv true); auto.
  - (* or *) inversion H; subst. destruct Hb. apply (and_or_rules_sound rho cv false); auto.
Qed.

Lemma binop_rules_sound : forall rho cv op l r a e',
    (match op with OAnd | OOr => is01 (eval rho cv l) /\ is01 (eval rho cv r) | _ => True end) ->
    binop_rules op l r a = Some e' ->
    eval rho cv e' = eval_op op (eval rho cv l) (eval rho cv r).
Proof.
  intros rho cv op l r a e' Hb H. rewrite binop_rules_unfold in H.
  destruct (const_val l) as [x|] eqn:Cl; [destruct (const_val r) as [y|] eqn:Cr|];
    try (eapply generic_rules_sound; eauto; fail).
  destruct (cfold op x y) as [v|] eqn:Ef; [|discriminate]. inversion H; subst. cbn [eval].
  rewrite (const_val_eval rho cv l x Cl), (const_val_eval rho cv r y Cr). apply cfold_sound; auto.
Qed.

(* ------------------------------------------------------------------------------------------------ map_e *)
Theorem simp_e_sound : forall rho cv fs e e',
    bool_ok rho cv e -> facts_sound fs rho cv -> simp_e fs e = Some e' ->
    eval rho cv e' = eval rho cv e.
Proof.
  intros rho cv fs. induction e as [x a|c a|e IH a|op l IHl r IHr a|c f a]; intros e' Hb Hf H; cbn [simp_e] in H;
    (destruct (known fs _) as [k|] eqn:Ek; [inversion H; subst; eapply known_sound; eauto|]);
    try (inversion H; subst; reflexivity).
  - destruct (simp_e fs e) as [x'|] eqn:E; [|discriminate]. cbn in H. inversion H; subst.
    rewrite or_known_sound by auto. cbn [eval]. rewrite (IH x' Hb Hf eq_refl). reflexivity.
  - cbn [bool_ok] in Hb. destruct Hb as [Bl [Br Bo]].
    destruct (simp_e fs l) as [l'|] eqn:El; [|discriminate].
    destruct (simp_e fs r) as [r'|] eqn:Er; [|discriminate].
    destruct (binop_rules op l' r' a) as [o|] eqn:Eo; [|discriminate]. cbn in H. inversion H; subst.
    rewrite or_known_sound by auto.
    pose proof (IHl l' Bl Hf eq_refl) as Sl. pose proof (IHr r' Br Hf eq_refl) as Sr.
    rewrite (binop_rules_sound rho cv op l' r' a o); auto; rewrite Sl, Sr; auto.
Qed.

(* the value of a simplified expression decides dead branches and zero-trip loops *)
Corollary dead_branch : forall rho cv fs c v a,
    bool_ok rho cv c -> facts_sound fs rho cv -> simp_e fs c = Some (EConst v a) -> eval rho cv c = v.
Proof. intros rho cv fs c v a Hb Hf H. rewrite <- (simp_e_sound rho cv fs c _ Hb Hf H). reflexivity. Qed.

Corollary dead_loop : forall rho cv fs lo hi l al h ah,
    bool_ok rho cv lo -> bool_ok rho cv hi -> facts_sound fs rho cv ->
    simp_e fs lo = Some (EConst l al) -> simp_e fs hi = Some (EConst h ah) -> (h =? l) = true ->
    eval rho cv hi <= eval rho cv lo.
Proof.
  intros rho cv fs lo hi l al h ah Bl Bh Hf Hl Hh E.
  rewrite <- (simp_e_sound rho cv fs lo _ Bl Hf Hl), <- (simp_e_sound rho cv fs hi _ Bh Hf Hh).
  apply Z.eqb_eq in E. cbn. lia.
Qed.

Example simp_e_hyps_satisfiable :
  let i := mkSym "i" 1 in
  let a := mkAnn TIndex 1 in
  let c := EBin OEq (EVar i a) (EConst 0 (mkAnn TInt 1)) (mkAnn TBool 1) in
  let fs := add_fact c [] in
  let rho := fun _ : sym => 0 in
  let cv := fun _ _ : string => 0 in
  facts_sound fs rho cv /\ bool_ok rho cv (EBin OAdd (EVar i a) (EVar i a) a) /\
  simp_e fs (EBin OAdd (EVar i a) (EVar i a) a) = Some (EConst 0 (mkAnn TIndex 1)).
Proof.
  cbn zeta. split; [|split].
  - apply add_fact_sound; [intros k v []|cbn; lia].
  - cbn; auto.
  - vm_compute. reflexivity.
Qed.
