(* C12 proofs, part 5: the statement traversals of _DoNormalize and DoSimplify preserve the trace of all index /
   bound / size / condition values, and only remove statements that cannot execute. *)
From Coq Require Import ZArith List Bool String Lia.
From Simplify Require Import Model ProofsLin ProofsRange ProofsNorm ProofsSimp.
Import ListNotations.
Open Scope Z_scope.

Definition cfg := string -> string -> Z.
(* what a leaf statement shows of index arithmetic: its kind, identity, and the values of all its expressions *)
Definition entry := (Z * positive * list Z)%type.

Section Exec.
  (* effect of a leaf statement on the configuration state (a WriteConfig, or a call that writes configuration):
     arbitrary *)
  Variable updc : Z -> positive -> list Z -> cfg -> cfg.

  Definition exec_list (f : cfg -> stmt -> list entry * cfg) : list stmt -> cfg -> list entry * cfg :=
    fix go (l : list stmt) (cv : cfg) : list entry * cfg :=
      match l with
      | [] => ([], cv)
      | x :: l' => let '(t1, cv1) := f cv x in let '(t2, cv2) := go l' cv1 in (t1 ++ t2, cv2)
      end.

  Definition exec_loop (body : Z -> cfg -> list entry * cfg) : nat -> Z -> cfg -> list entry * cfg :=
    fix loop (n : nat) (v : Z) (cv : cfg) : list entry * cfg :=
      match n with
      | O => ([], cv)
      | S n' => let '(t1, cv1) := body v cv in let '(t2, cv2) := loop n' (v + 1) cv1 in (t1 ++ t2, cv2)
      end.

  (* Pass (kind 0) is invisible; loop bounds are evaluated on entry; iterations lo, lo+1, ..., hi-1 *)
  Fixpoint exec_s (rho : sym -> Z) (cv : cfg) (s : stmt) {struct s} : list entry * cfg :=
    match s with
    | SLeaf k src es =>
        if k =? 0 then ([], cv)
        else let vs := map (eval rho cv) es in ([(k, src, vs)], updc k src vs cv)
    | SIf src c b1 b2 =>
        exec_list (fun cv' x => exec_s rho cv' x) (if eval rho cv c =? 0 then b2 else b1) cv
    | SFor src i lo hi b =>
        exec_loop (fun v cv' => exec_list (fun cv'' x => exec_s (upd rho i v) cv'' x) b cv')
                  (Z.to_nat (eval rho cv hi - eval rho cv lo)) (eval rho cv lo) cv
    end.

  Definition exec_ss (rho : sym -> Z) (cv : cfg) (l : list stmt) : list entry * cfg :=
    exec_list (fun cv' x => exec_s rho cv' x) l cv.

  Lemma exec_ss_cons : forall rho cv x l,
      exec_ss rho cv (x :: l) =
      let '(t1, cv1) := exec_s rho cv x in let '(t2, cv2) := exec_ss rho cv1 l in (t1 ++ t2, cv2).
  Proof. reflexivity. Qed.

  Lemma exec_ss_app : forall rho l1 l2 cv,
      exec_ss rho cv (l1 ++ l2) =
      let '(t1, cv1) := exec_ss rho cv l1 in let '(t2, cv2) := exec_ss rho cv1 l2 in (t1 ++ t2, cv2).
  Proof.
    intros rho. induction l1 as [|x l1 IH]; intros l2 cv.
    - cbn [app]. unfold exec_ss at 2. cbn. destruct (exec_ss rho cv l2); reflexivity.
    - cbn [app]. rewrite !exec_ss_cons. destruct (exec_s rho cv x) as [t1 cv1]. rewrite IH.
      destruct (exec_ss rho cv1 l1) as [t2 cv2]. destruct (exec_ss rho cv2 l2) as [t3 cv3].
      rewrite app_assoc. reflexivity.
  Qed.

  Lemma exec_pass_if_emptied : forall rho cv src orig new,
      exec_ss rho cv (pass_if_emptied src orig new) = exec_ss rho cv new.
  Proof. intros. unfold pass_if_emptied. destruct new; [destruct orig|]; reflexivity. Qed.

  Lemma exec_loop_ext : forall body1 body2 n v0 cv,
      (forall v cv', v0 <= v < v0 + Z.of_nat n -> body1 v cv' = body2 v cv') ->
      exec_loop body1 n v0 cv = exec_loop body2 n v0 cv.
  Proof.
    intros body1 body2. induction n as [|n IH]; intros v0 cv H; [reflexivity|].
    cbn [exec_loop]. rewrite H by lia. destruct (body2 v0 cv) as [t1 cv1].
    rewrite IH; [reflexivity|]. intros; apply H; lia.
  Qed.

  (* ---------------------------------------------------------------------------------------------- induction *)
  Lemma stmt_ind2 : forall P : stmt -> Prop,
      (forall k s es, P (SLeaf k s es)) ->
      (forall s c b1 b2, Forall P b1 -> Forall P b2 -> P (SIf s c b1 b2)) ->
      (forall s i lo hi b, Forall P b -> P (SFor s i lo hi b)) ->
      forall s, P s.
  Proof.
    intros P Hl Hi Hf. fix IH 1. intros [k s es|s c b1 b2|s i lo hi b].
    - apply Hl.
    - apply Hi; [induction b1 | induction b2]; constructor; auto.
    - apply Hf; induction b; constructor; auto.
  Qed.

  Definition all_list (Q : stmt -> Prop) : list stmt -> Prop :=
    fix go (l : list stmt) : Prop := match l with [] => True | x :: l' => Q x /\ go l' end.

  (* every expression of the statement tree satisfies P *)
  Fixpoint all_e (P : expr -> Prop) (s : stmt) : Prop :=
    match s with
    | SLeaf _ _ es => Forall P es
    | SIf _ c b1 b2 => P c /\ all_list (all_e P) b1 /\ all_list (all_e P) b2
    | SFor _ _ lo hi b => P lo /\ P hi /\ all_list (all_e P) b
    end.

  Lemma all_list_in : forall Q l x, all_list Q l -> In x l -> Q x.
  Proof.
    induction l as [|y l IH]; intros x H Hin; [contradiction|].
    change (Q y /\ all_list Q l) in H. destruct H as [H1 H2].
    destruct Hin as [<-|Hin]; [exact H1|apply IH; auto].
  Qed.

  Lemma all_list_mono : forall (Q Q' : stmt -> Prop) l, (forall x, In x l -> Q x -> Q' x) -> all_list Q l -> all_list Q' l.
  Proof.
    induction l as [|y l IH]; intros H A; [exact I|].
    change (Q y /\ all_list Q l) in A. change (Q' y /\ all_list Q' l). destruct A as [A1 A2].
    split; [apply H; cbn; auto|apply IH; auto]. intros; apply H; cbn; auto.
  Qed.

  (* ---------------------------------------------------------------------------------------------- list lemmas *)
  Lemma map_opt_exec : forall (f : stmt -> option stmt) rho l l',
      map_opt f l = Some l' ->
      (forall x x', In x l -> f x = Some x' -> forall cv, exec_s rho cv x' = exec_s rho cv x) ->
      forall cv, exec_ss rho cv l' = exec_ss rho cv l.
  Proof.
    intros f rho. induction l as [|x l IH]; intros l' H Hx cv; cbn in H.
    - inversion H; reflexivity.
    - destruct (f x) as [y|] eqn:Ey; [|discriminate].
      destruct (map_opt f l) as [r|] eqn:Er; [|discriminate]. inversion H; subst.
      rewrite !exec_ss_cons. rewrite (Hx x y (or_introl eq_refl) Ey).
      destruct (exec_s rho cv x) as [t1 cv1]. rewrite (IH r eq_refl); [reflexivity|].
      intros; eapply Hx; eauto. right; auto.
  Qed.

  Lemma flat_opt_exec : forall (f : stmt -> option (list stmt)) rho l out,
      flat_opt f l = Some out ->
      (forall x y, In x l -> f x = Some y -> forall cv, exec_ss rho cv y = exec_s rho cv x) ->
      forall cv, exec_ss rho cv out = exec_ss rho cv l.
  Proof.
    intros f rho. induction l as [|x l IH]; intros out H Hx cv; cbn in H.
    - inversion H; reflexivity.
    - destruct (f x) as [y|] eqn:Ey; [|discriminate].
      destruct (flat_opt f l) as [r|] eqn:Er; [|discriminate]. inversion H; subst.
      rewrite exec_ss_app, exec_ss_cons. rewrite (Hx x y (or_introl eq_refl) Ey).
      destruct (exec_s rho cv x) as [t1 cv1]. rewrite (IH r eq_refl); [reflexivity|].
      intros; eapply Hx; eauto. right; auto.
  Qed.

  Lemma map_opt_eval : forall (f : expr -> option expr) rho cv es es',
      map_opt f es = Some es' ->
      (forall e e', In e es -> f e = Some e' -> eval rho cv e' = eval rho cv e) ->
      map (eval rho cv) es' = map (eval rho cv) es.
  Proof.
    intros f rho cv. induction es as [|e es IH]; intros es' H He; cbn in H.
    - inversion H; reflexivity.
    - destruct (f e) as [y|] eqn:Ey; [|discriminate].
      destruct (map_opt f es) as [r|] eqn:Er; [|discriminate]. inversion H; subst.
      cbn [map]. rewrite (He e y (or_introl eq_refl) Ey), (IH r eq_refl); auto.
      intros; eapply He; eauto. right; auto.
  Qed.

  (* ---------------------------------------------------------------------------------------------- _DoNormalize *)
  Definition wf_e (e : expr) : Prop := wf_div e = true.

  Theorem norm_s_exec : forall s env s',
      all_e wf_e s -> norm_s env s = Some s' ->
      forall rho cv, env_sound env rho -> exec_s rho cv s' = exec_s rho cv s.
  Proof.
    intros s. induction s as [k src es|src c b1 b2 IH1 IH2|src i lo hi b IH] using stmt_ind2;
      intros env s' W H rho cv Henv; cbn [norm_s] in H.
    - destruct (map_opt (norm_e env) es) as [es'|] eqn:E; [|discriminate]. cbn in H. inversion H; subst.
      cbn [exec_s]. destruct (k =? 0); auto.
      rewrite (map_opt_eval (norm_e env) rho cv es es' E); auto.
      intros e e' Hin He. cbn in W. rewrite Forall_forall in W.
      apply (norm_e_sound rho cv env e e' (W e Hin) Henv He).
    - cbn [all_e] in W. destruct W as [Wc [W1 W2]].
      destruct (norm_e env c) as [c'|] eqn:Ec; [|discriminate].
      destruct (map_opt (norm_s env) b1) as [b1'|] eqn:E1; [|discriminate].
      destruct (map_opt (norm_s env) b2) as [b2'|] eqn:E2; [|discriminate]. inversion H; subst.
      cbn [exec_s]. destruct (norm_e_sound rho cv env c c' Wc Henv Ec) as [-> _].
      destruct (eval rho cv c =? 0).
      + apply (map_opt_exec (norm_s env) rho b2 b2' E2). intros x x' Hin Hx cv'.
        rewrite Forall_forall in IH2. apply (IH2 x Hin env x' (all_list_in _ b2 x W2 Hin) Hx rho cv' Henv).
      + apply (map_opt_exec (norm_s env) rho b1 b1' E1). intros x x' Hin Hx cv'.
        rewrite Forall_forall in IH1. apply (IH1 x Hin env x' (all_list_in _ b1 x W1 Hin) Hx rho cv' Henv).
    - cbn [all_e] in W. destruct W as [Wlo [Whi Wb]].
      destruct (norm_e env lo) as [lo'|] eqn:El; [|discriminate].
      destruct (norm_e env hi) as [hi'|] eqn:Eh; [|discriminate].
      destruct (add_loop_iter env i lo' hi') as [env'|] eqn:Ea; [|discriminate].
      destruct (map_opt (norm_s env') b) as [b'|] eqn:Eb; [|discriminate]. inversion H; subst.
      cbn [exec_s].
      destruct (norm_e_sound rho cv env lo lo' Wlo Henv El) as [Sl _].
      destruct (norm_e_sound rho cv env hi hi' Whi Henv Eh) as [Sh _].
      rewrite Sl, Sh. apply exec_loop_ext. intros v cv' Hv.
      assert (Henv' : env_sound env' (upd rho i v)).
      { apply (add_loop_iter_sound rho cv env i lo' hi' env' v Henv Ea). rewrite Sl, Sh. lia. }
      apply (map_opt_exec (norm_s env') (upd rho i v) b b' Eb). intros x x' Hin Hx cv''.
      rewrite Forall_forall in IH. apply (IH x Hin env' x' (all_list_in _ b x Wb Hin) Hx (upd rho i v) cv'' Henv').
  Qed.

  (* ---------------------------------------------------------------------------------------------- occurrences *)
  Definition facts_occ (fs : facts) : list sym := flat_map (fun kv => occ (fst kv) ++ occ (snd kv)) fs.

  Lemma known_in : forall fs e c, known fs e = Some c -> exists k, In (k, c) fs.
  Proof.
    induction fs as [|[k v] fs IH]; intros e c H; cbn in H; [discriminate|].
    destruct (fact_key_eqb k e); [inversion H; subst; exists k; cbn; auto|].
    destruct (IH e c H) as [k' Hk]. exists k'; cbn; auto.
  Qed.

  Lemma facts_occ_in : forall fs k v, In (k, v) fs -> incl (occ k ++ occ v) (facts_occ fs).
  Proof.
    intros fs k v H x Hx. unfold facts_occ. apply in_flat_map. exists (k, v); auto.
  Qed.

  Lemma or_known_occ : forall fs e, incl (occ (or_known fs e)) (occ e ++ facts_occ fs).
  Proof.
    intros fs e x Hx. unfold or_known in Hx. destruct (known fs e) as [c|] eqn:E.
    - destruct (known_in fs e c E) as [k Hk]. apply in_or_app; right.
      apply (facts_occ_in fs k c Hk). apply in_or_app; auto.
    - apply in_or_app; auto.
  Qed.

  Lemma qr_check_num : forall num modc quot n, qr_check num modc quot = Some n -> n = num.
  Proof.
    intros num modc quot n Hq. unfold qr_check in Hq.
    destruct quot as [| | |op ql qr a|]; try discriminate. destruct op; try discriminate.
    assert (C : forall c d, check_quot num modc c d = Some n -> n = num).
    { intros c d Hc. unfold check_quot in Hc. destruct c; try discriminate. destruct d; try discriminate.
      destruct op; try discriminate. destruct (_ && _); inversion Hc; auto. }
    destruct (check_quot num modc ql qr) eqn:E1; [inversion Hq; subst; eapply C; eauto|eapply C; eauto].
  Qed.

  Opaque qr_check.
  Lemma is_qr_cases : forall l r n,
      is_quotient_remainder l r = Some (Some n) ->
      (exists num modc a, l = EBin OMod num modc a /\ qr_check num modc r = Some n) \/
      (exists num modc a, r = EBin OMod num modc a /\ qr_check num modc l = Some n).
  Proof.
    intros l r n H. unfold is_quotient_remainder in H.
    assert (R : forall q, match r with
                          | EBin OMod num modc _ => if is_const modc then Some (qr_check num modc q) else None
                          | _ => Some None
                          end = Some (Some n) ->
                          exists num modc a, r = EBin OMod num modc a /\ qr_check num modc q = Some n).
    { intros q Hr. destruct r as [| | |opr rl rr ra|]; try discriminate. destruct opr; try discriminate.
      destruct (is_const rr); [|discriminate]. injection Hr as Hr. eauto. }
    destruct l as [| | |opl ll lr la|]; try (right; apply R; exact H).
    destruct opl; try (right; apply R; exact H).
    left. destruct (is_const lr); [|discriminate]. injection H as H. eauto.
  Qed.
  Transparent qr_check.

  Lemma qr_occ : forall l r n, is_quotient_remainder l r = Some (Some n) -> incl (occ n) (occ l ++ occ r).
  Proof.
    intros l r n H. destruct (is_qr_cases l r n H) as [[num [modc [a [-> Hq]]]]|[num [modc [a [-> Hq]]]]];
      rewrite (qr_check_num _ _ _ _ Hq); cbn [occ]; intros y Hy; apply in_or_app; [left|right]; apply in_or_app; auto.
  Qed.

  Lemma generic_rules_occ : forall op l r a o, generic_rules op l r a = Some o -> incl (occ o) (occ l ++ occ r).
  Proof.
    intros op l r a o H. unfold generic_rules in H. cbv zeta in H.
    assert (Hd : incl (occ (EBin op l r a)) (occ l ++ occ r)) by (cbn [occ]; apply incl_refl).
    assert (Hl : incl (occ l) (occ l ++ occ r)) by (apply incl_appl, incl_refl).
    assert (Hr : incl (occ r) (occ l ++ occ r)) by (apply incl_appr, incl_refl).
    assert (Hc : forall c a', incl (occ (EConst c a')) (occ l ++ occ r)) by (intros; cbn; intros x []).
    destruct op; try (inversion H; subst; auto; fail).
    - destruct (is_const_val l 0); [inversion H; subst; auto|].
      destruct (is_const_val r 0); [inversion H; subst; auto|].
      destruct (is_quotient_remainder l r) as [[n|]|] eqn:Eq; inversion H; subst; auto. apply qr_occ; auto.
    - destruct (is_const_val r 0); [inversion H; subst; auto|].
      destruct (is_const_val l 0); [inversion H; subst; auto|].
      destruct l as [| | |opl ll lr la|]; try (inversion H; subst; auto; fail).
      destruct opl; try (inversion H; subst; auto; fail).
      destruct (expr_eqb ll r); [inversion H; subst; cbn [occ]; intros x Hx; apply in_or_app; left; apply in_or_app; auto|].
      destruct (expr_eqb lr r); inversion H; subst; auto.
      cbn [occ]; intros x Hx; apply in_or_app; left; apply in_or_app; auto.
    - destruct (is_const_val l 0 || is_const_val r 0); [inversion H; subst; auto|].
      destruct (is_const_val l 1); [inversion H; subst; auto|].
      destruct (is_const_val r 1); inversion H; subst; auto.
    - destruct (is_const_val r 1); inversion H; subst; auto.
    - destruct (is_const_val r 1); inversion H; subst; auto.
    - inversion H; subst. unfold and_or_rules.
      destruct (is_const_val l 0); auto. destruct (is_const_val l 1); auto.
      destruct (is_const_val r 0); auto. destruct (is_const_val r 1); auto.
    - inversion H; subst. unfold and_or_rules.
      destruct (is_const_val l 0); auto. destruct (is_const_val l 1); auto.
      destruct (is_const_val r 0); auto. destruct (is_const_val r 1); auto.
  Qed.

  Lemma binop_rules_occ : forall op l r a o, binop_rules op l r a = Some o -> incl (occ o) (occ l ++ occ r).
  Proof.
    intros op l r a o H. rewrite binop_rules_unfold in H.
    destruct (const_val l); [destruct (const_val r)|]; try (eapply generic_rules_occ; eauto; fail).
    destruct (cfold op z z0); inversion H; subst. cbn; intros x [].
  Qed.

  Lemma simp_e_occ : forall fs e e', simp_e fs e = Some e' -> incl (occ e') (occ e ++ facts_occ fs).
  Proof.
    intros fs. induction e as [x a|c a|e IH a|op l IHl r IHr a|c f a]; intros e' H; cbn [simp_e] in H;
      (destruct (known fs _) as [k|] eqn:Ek;
       [inversion H; subst; destruct (known_in _ _ _ Ek) as [k0 Hk]; intros y Hy; apply in_or_app; right;
        apply (facts_occ_in fs k0 e' Hk); apply in_or_app; auto|]);
      try (inversion H; subst; apply incl_appl, incl_refl).
    - destruct (simp_e fs e) as [x'|] eqn:E; [|discriminate]. cbn in H. inversion H; subst.
      intros y Hy. apply or_known_occ in Hy. cbn [occ] in *. apply in_app_or in Hy. destruct Hy as [Hy|Hy].
      + apply (IH x' eq_refl); auto.
      + apply in_or_app; auto.
    - destruct (simp_e fs l) as [l'|] eqn:El; [|discriminate].
      destruct (simp_e fs r) as [r'|] eqn:Er; [|discriminate].
      destruct (binop_rules op l' r' a) as [o|] eqn:Eo; [|discriminate]. cbn in H. inversion H; subst.
      intros y Hy. apply or_known_occ in Hy. apply in_app_or in Hy. destruct Hy as [Hy|Hy]; [|apply in_or_app; auto].
      apply (binop_rules_occ _ _ _ _ _ Eo) in Hy. cbn [occ]. apply in_app_or in Hy. destruct Hy as [Hy|Hy].
      + apply (IHl l' eq_refl) in Hy. apply in_app_or in Hy. destruct Hy; apply in_or_app; auto.
        left; apply in_or_app; auto.
      + apply (IHr r' eq_refl) in Hy. apply in_app_or in Hy. destruct Hy; apply in_or_app; auto.
        left; apply in_or_app; auto.
  Qed.

  Lemma add_fact_occ : forall c fs, incl (facts_occ (add_fact c fs)) (occ c ++ facts_occ fs).
  Proof.
    intros c fs. unfold add_fact.
    assert (H0 : incl (facts_occ fs) (occ c ++ facts_occ fs)) by (apply incl_appr, incl_refl).
    destruct c as [| | |op l r a|]; auto. destruct op; auto.
    assert (G : forall ex cst, incl (occ ex ++ occ cst) (occ l ++ occ r) ->
                incl (facts_occ (if has_cfg ex then fs else
                                   let fs1 := (ex, cst) :: fs in
                                   match ex with
                                   | EBin ODiv dl dr da =>
                                       if is_const_val cst 0 then (EBin OMod dl dr da, dl) :: fs1 else fs1
                                   | _ => fs1
                                   end)) (occ (EBin OEq l r a) ++ facts_occ fs)).
    { intros ex cst Hi. destruct (has_cfg ex); auto. cbv zeta.
      assert (H1 : incl (facts_occ ((ex, cst) :: fs)) (occ (EBin OEq l r a) ++ facts_occ fs)).
      { cbn [facts_occ flat_map fst snd occ]. intros x Hx. apply in_app_or in Hx. destruct Hx as [Hx|Hx].
        - apply in_or_app; left. apply Hi; auto.
        - apply in_or_app; right; auto. }
      destruct ex as [| | |op d1 d2 da|]; auto. destruct op; auto.
      destruct (is_const_val cst 0); auto.
      cbn [facts_occ flat_map fst snd occ] in *. intros x Hx. apply in_app_or in Hx. destruct Hx as [Hx|Hx]; [|apply H1; auto].
      apply in_or_app; left. apply Hi. apply in_or_app; left. cbn [occ].
      apply in_app_or in Hx. destruct Hx as [Hx|Hx]; auto. apply in_or_app; auto. }
    destruct (is_const r); [apply G; apply incl_refl|].
    destruct (is_const l); [apply G; intros x Hx; apply in_app_or in Hx; apply in_or_app; tauto|]. auto.
  Qed.

  Lemma eval_upd_notin : forall rho cv i v e, ~ In i (occ e) -> eval (upd rho i v) cv e = eval rho cv e.
  Proof.
    intros rho cv i v. induction e as [x a|c a|e IH a|op l IHl r IHr a|c f a]; intros H; cbn [eval occ] in *; auto.
    - unfold upd. destruct (sym_eqb i x) eqn:E; auto. apply sym_eqb_eq in E. subst. exfalso; apply H; cbn; auto.
    - rewrite IH; auto.
    - rewrite IHl, IHr; auto; intros Hin; apply H; apply in_or_app; auto.
  Qed.

  Lemma eval_no_cfg : forall rho cv cv' e, has_cfg e = false -> eval rho cv e = eval rho cv' e.
  Proof.
    intros rho cv cv'. induction e as [x a|c a|e IH a|op l IHl r IHr a|c f a]; intros H; cbn [eval has_cfg] in *; auto.
    - rewrite IH; auto.
    - apply orb_false_iff in H. destruct H. rewrite IHl, IHr; auto.
    - discriminate.
  Qed.

  (* ---------------------------------------------------------------------------------------------- DoSimplify *)
  (* facts that hold whatever the configuration state is (a branch body may write configuration fields) *)
  Definition facts_good (fs : facts) (rho : sym -> Z) : Prop := forall cv, facts_sound fs rho cv.

  Lemma add_fact_indep : forall cond fs,
      add_fact cond fs = fs \/ (forall rho cv cv', eval rho cv cond = eval rho cv' cond).
  Proof.
    intros cond fs. unfold add_fact.
    destruct cond as [| | |op l r a|]; auto. destruct op; auto.
    destruct (is_const r) eqn:Cr.
    - destruct (has_cfg l) eqn:Hl; auto. right. intros rho cv cv'. cbn [eval].
      destruct (is_const_inv r Cr) as [c [ar ->]]. rewrite (eval_no_cfg rho cv cv' l Hl). reflexivity.
    - destruct (is_const l) eqn:Cl; auto.
      destruct (has_cfg r) eqn:Hr; auto. right. intros rho cv cv'. cbn [eval].
      destruct (is_const_inv l Cl) as [c [al ->]]. rewrite (eval_no_cfg rho cv cv' r Hr). reflexivity.
  Qed.

  Lemma add_fact_good : forall rho cv cond fs,
      facts_good fs rho -> eval rho cv cond <> 0 -> facts_good (add_fact cond fs) rho.
  Proof.
    intros rho cv cond fs Hf Hc cv'. destruct (add_fact_indep cond fs) as [->|Hi]; [apply Hf|].
    apply add_fact_sound; [apply Hf|]. rewrite <- (Hi rho cv cv'). exact Hc.
  Qed.

  Lemma facts_good_upd : forall fs rho i v,
      facts_good fs rho -> ~ In i (facts_occ fs) -> facts_good fs (upd rho i v).
  Proof.
    intros fs rho i v Hf Hn cv k c Hin.
    assert (incl (occ k ++ occ c) (facts_occ fs)) by (apply facts_occ_in; auto).
    rewrite !eval_upd_notin; [apply Hf; auto| |]; intros Hx; apply Hn, H; apply in_or_app; auto.
  Qed.

  (* binders are fresh: a loop variable does not occur in the guards that enclose the loop *)
  Fixpoint scoped (U : list sym) (s : stmt) : Prop :=
    match s with
    | SLeaf _ _ _ => True
    | SIf _ c b1 b2 => all_list (scoped (occ c ++ U)) b1 /\ all_list (scoped U) b2
    | SFor _ i _ _ b => ~ In i U /\ all_list (scoped U) b
    end.

  Definition bool_e (e : expr) : Prop := forall rho cv, bool_ok rho cv e.

  Theorem simp_s_exec : forall s fs out U,
      scoped U s -> incl (facts_occ fs) U -> all_e bool_e s -> simp_s fs s = Some out ->
      forall rho cv, facts_good fs rho -> exec_ss rho cv out = exec_s rho cv s.
  Proof.
    intros s. induction s as [k src es|src c b1 b2 IH1 IH2|src i lo hi b IH] using stmt_ind2;
      intros fs out U Sc Hu B H rho cv Hf; cbn [simp_s] in H.
    - destruct (map_opt (simp_e fs) es) as [es'|] eqn:E; [|discriminate]. cbn in H. inversion H; subst.
      unfold exec_ss. cbn [exec_list exec_s]. destruct (k =? 0); [reflexivity|].
      rewrite (map_opt_eval (simp_e fs) rho cv es es' E); [reflexivity|].
      intros e e' Hin He. cbn in B. rewrite Forall_forall in B.
      apply (simp_e_sound rho cv fs e e' (B e Hin rho cv) (Hf cv) He).
    - cbn [all_e] in B. destruct B as [Bc [B1 B2]]. cbn [scoped] in Sc. destruct Sc as [S1 S2].
      destruct (simp_e fs c) as [c'|] eqn:Ec; [|discriminate].
      pose proof (simp_e_sound rho cv fs c c' (Bc rho cv) (Hf cv) Ec) as Sv.
      assert (Hu' : incl (facts_occ fs) (occ c ++ U)) by (apply incl_appr; auto).
      assert (Drop : forall v a, c' = EConst v a ->
                (if v =? 0 then flat_opt (simp_s fs) b2 else flat_opt (simp_s fs) b1) = Some out ->
                exec_ss rho cv out = exec_s rho cv (SIf src c b1 b2)).
      { intros v a -> Hd. cbn [eval] in Sv. cbn [exec_s]. rewrite <- Sv.
        destruct (v =? 0).
        - apply (flat_opt_exec (simp_s fs) rho b2 out Hd). intros x y Hin Hx cv'.
          rewrite Forall_forall in IH2.
          apply (IH2 x Hin fs y U (all_list_in _ b2 x S2 Hin) Hu (all_list_in _ b2 x B2 Hin) Hx rho cv' Hf).
        - apply (flat_opt_exec (simp_s fs) rho b1 out Hd). intros x y Hin Hx cv'.
          rewrite Forall_forall in IH1.
          apply (IH1 x Hin fs y (occ c ++ U) (all_list_in _ b1 x S1 Hin) Hu' (all_list_in _ b1 x B1 Hin) Hx rho cv' Hf). }
      assert (Keep : match flat_opt (simp_s (add_fact c' fs)) b1, flat_opt (simp_s fs) b2 with
                     | Some b1', Some b2' =>
                         Some [SIf src c' (pass_if_emptied src b1 b1') (pass_if_emptied src b2 b2')]
                     | _, _ => None
                     end = Some out -> exec_ss rho cv out = exec_s rho cv (SIf src c b1 b2)).
      { intros Hk.
        destruct (flat_opt (simp_s (add_fact c' fs)) b1) as [b1'|] eqn:E1; [|discriminate].
        destruct (flat_opt (simp_s fs) b2) as [b2'|] eqn:E2; [|discriminate]. inversion Hk; subst.
        unfold exec_ss at 1. cbn [exec_list exec_s]. rewrite Sv.
        destruct (eval rho cv c =? 0) eqn:Ez.
        - fold (exec_ss rho cv (pass_if_emptied src b2 b2')). rewrite exec_pass_if_emptied.
          rewrite (flat_opt_exec (simp_s fs) rho b2 b2' E2).
          + fold (exec_ss rho cv b2). destruct (exec_ss rho cv b2). rewrite app_nil_r. reflexivity.
          + intros x y Hin Hx cv'. rewrite Forall_forall in IH2.
            apply (IH2 x Hin fs y U (all_list_in _ b2 x S2 Hin) Hu (all_list_in _ b2 x B2 Hin) Hx rho cv' Hf).
        - fold (exec_ss rho cv (pass_if_emptied src b1 b1')). rewrite exec_pass_if_emptied.
          rewrite (flat_opt_exec (simp_s (add_fact c' fs)) rho b1 b1' E1).
          + fold (exec_ss rho cv b1). destruct (exec_ss rho cv b1). rewrite app_nil_r. reflexivity.
          + assert (Hocc : incl (facts_occ (add_fact c' fs)) (occ c ++ U)).
            { intros z Hz. apply add_fact_occ in Hz. apply in_app_or in Hz. destruct Hz as [Hz|Hz]; [|apply Hu'; auto].
              apply (simp_e_occ fs c c' Ec) in Hz. apply in_app_or in Hz. destruct Hz; [apply in_or_app; auto|apply Hu'; auto]. }
            assert (Hgood : facts_good (add_fact c' fs) rho).
            { apply (add_fact_good rho cv); auto. rewrite Sv. apply Z.eqb_neq; auto. }
            intros x y Hin Hx cv'. rewrite Forall_forall in IH1.
            apply (IH1 x Hin (add_fact c' fs) y (occ c ++ U) (all_list_in _ b1 x S1 Hin) Hocc
                       (all_list_in _ b1 x B1 Hin) Hx rho cv' Hgood). }
      destruct c' as [| v a | | |]; try (apply Keep; exact H). eapply Drop; eauto.
    - cbn [all_e] in B. destruct B as [Blo [Bhi Bb]]. cbn [scoped] in Sc. destruct Sc as [Si Sb].
      destruct (simp_e fs lo) as [lo'|] eqn:El; [|discriminate].
      destruct (simp_e fs hi) as [hi'|] eqn:Eh; [|discriminate].
      pose proof (simp_e_sound rho cv fs lo lo' (Blo rho cv) (Hf cv) El) as Sl.
      pose proof (simp_e_sound rho cv fs hi hi' (Bhi rho cv) (Hf cv) Eh) as Sh.
      destruct (loop_is_dead lo' hi') eqn:Ed.
      + inversion H; subst. cbn [exec_s]. rewrite <- Sl, <- Sh.
        unfold loop_is_dead in Ed. destruct lo' as [|l al| | |]; try discriminate.
        destruct hi' as [|h ah| | |]; try discriminate. apply Z.eqb_eq in Ed. cbn [eval]. subst.
        rewrite Z.sub_diag. reflexivity.
      + destruct (flat_opt (simp_s fs) b) as [b'|] eqn:Eb; [|discriminate]. inversion H; subst.
        unfold exec_ss. cbn [exec_list exec_s]. rewrite Sl, Sh.
        match goal with |- (let '(t1, cv1) := ?X in _) = ?Y => assert (E : X = Y); [|rewrite E; destruct Y; rewrite app_nil_r; reflexivity] end.
        apply exec_loop_ext. intros v cv' Hv.
        fold (exec_ss (upd rho i v) cv' (pass_if_emptied src b b')). rewrite exec_pass_if_emptied.
        apply (flat_opt_exec (simp_s fs) (upd rho i v) b b' Eb). intros x y Hin Hx cv''.
        rewrite Forall_forall in IH.
        assert (Hni : ~ In i (facts_occ fs)) by (intros Hi; apply Si, Hu; auto).
        apply (IH x Hin fs y U (all_list_in _ b x Sb Hin) Hu (all_list_in _ b x Bb Hin) Hx (upd rho i v) cv''
                  (facts_good_upd fs rho i v Hf Hni)).
  Qed.

  (* ---------------------------------------------------------------------------------------------- blocks *)
  Theorem norm_ss_exec : forall env l l',
      all_list (all_e wf_e) l -> norm_ss env l = Some l' ->
      forall rho cv, env_sound env rho -> exec_ss rho cv l' = exec_ss rho cv l.
  Proof.
    intros env l l' W H rho cv Henv. unfold norm_ss in H.
    apply (map_opt_exec (norm_s env) rho l l' H). intros x x' Hin Hx cv'.
    apply (norm_s_exec x env x' (all_list_in _ l x W Hin) Hx rho cv' Henv).
  Qed.

  Theorem simp_ss_exec : forall fs l out U,
      all_list (scoped U) l -> incl (facts_occ fs) U -> all_list (all_e bool_e) l -> simp_ss fs l = Some out ->
      forall rho cv, facts_good fs rho -> exec_ss rho cv out = exec_ss rho cv l.
  Proof.
    intros fs l out U Sc Hu B H rho cv Hf. unfold simp_ss in H.
    apply (flat_opt_exec (simp_s fs) rho l out H). intros x y Hin Hx cv'.
    apply (simp_s_exec x fs y U (all_list_in _ l x Sc Hin) Hu (all_list_in _ l x B Hin) Hx rho cv' Hf).
  Qed.

  (* the whole of simplify: _DoNormalize, then DoSimplify with no facts.  The side conditions of the second
     phase (fresh binders, boolean operands of and/or) are stated on the normalised procedure p1. *)
  Theorem simplify_proc_exec : forall p p1 p',
      normalize_proc p = Some p1 -> simplify_proc p = Some p' ->
      all_list (all_e wf_e) (p_body p) -> Forall wf_e (p_preds p) ->
      all_list (scoped []) (p_body p1) -> all_list (all_e bool_e) (p_body p1) -> Forall bool_e (p_preds p1) ->
      forall rho cv, (forall x, In x (p_sizes p) -> 1 <= rho x) ->
        exec_ss rho cv (p_body p') = exec_ss rho cv (p_body p) /\
        map (eval rho cv) (p_preds p') = map (eval rho cv) (p_preds p).
  Proof.
    intros p p1 p' Hn Hs W Wp Sc B Bp rho cv Hsz.
    unfold simplify_proc in Hs. rewrite Hn in Hs. unfold normalize_proc in Hn.
    destruct (norm_ss (init_env (p_sizes p)) (p_body p)) as [b1|] eqn:Eb; [|discriminate].
    destruct (map_opt (norm_e (init_env (p_sizes p))) (p_preds p)) as [ps1|] eqn:Ep; [|discriminate].
    inversion Hn; subst p1. cbn [p_body p_preds p_src p_sizes] in *.
    destruct (simp_ss [] b1) as [b2|] eqn:Eb2; [|discriminate].
    destruct (map_opt (simp_e []) ps1) as [ps2|] eqn:Ep2; [|discriminate].
    inversion Hs; subst p'. cbn [p_body p_preds].
    pose proof (init_env_sound (p_sizes p) rho Hsz) as Henv.
    assert (Hf : facts_good [] rho) by (intros cv' k v []).
    split.
    - rewrite exec_pass_if_emptied.
      rewrite (simp_ss_exec [] b1 b2 [] Sc (incl_refl _) B Eb2 rho cv Hf).
      apply (norm_ss_exec _ _ _ W Eb rho cv Henv).
    - rewrite (map_opt_eval (simp_e []) rho cv ps1 ps2 Ep2).
      + apply (map_opt_eval (norm_e (init_env (p_sizes p))) rho cv (p_preds p) ps1 Ep).
        intros e e' Hin He. rewrite Forall_forall in Wp. apply (norm_e_sound rho cv _ e e' (Wp e Hin) Henv He).
      + intros e e' Hin He. rewrite Forall_forall in Bp.
        apply (simp_e_sound rho cv [] e e' (Bp e Hin rho cv) (Hf cv) He).
  Qed.

End Exec.
