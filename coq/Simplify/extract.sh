#!/bin/bash
# Build the OCaml correspondence driver of the Simplify engine from the extracted model.
set -e
cd "$(dirname "$0")"
mkdir -p _build
cd _build
timeout 300 coqc -Q .. Simplify ../extract/Extract.v >extract.log 2>&1 || { cat extract.log; exit 1; }
cp ../extract/driver.ml driver.ml
timeout 300 ocamlfind ocamlopt -w -a -package str simplify_model.mli simplify_model.ml driver.ml -o c12_driver >ocaml.log 2>&1 \
  || { cat ocaml.log; exit 1; }
echo "built $(pwd)/c12_driver"
