(* C12 — executable model of exo's index normalisation (_DoNormalize) and of DoSimplify
   (src/exo/rewrite/LoopIR_scheduling.py) together with the part of range_analysis.py they use.
   Executable Gallina only; proofs are in Proofs*.v.

   Conventions
   - every LoopIR expression node carries its [type] and the identity of its [srcinfo] object ([ann]); both take
     part in LoopIR's structural [==] (attrs-generated __eq__, SrcInfo compares by identity) and are therefore
     modelled; the evaluator ignores them.
   - Python bool constants are the integers 1 / 0 (Python: True == 1, False == 0).
   - a result [None] stands for "the Python code raises" (assert / ZeroDivisionError / TypeError ...), or for a
     divisor c <= 0, which the front end rejects (typecheck.py: "cannot divide or modulo by zero or a negative
     value"); the guard 0 < c is explicit everywhere.
   - Python's // and % are Z.div and Z.modulo (floor division, remainder has the sign of the divisor). *)
From Coq Require Import ZArith List Bool String Ascii DecimalString Decimal.
Import ListNotations.
Open Scope Z_scope.

(* ------------------------------------------------------------------------------------------------ symbols *)
(* prelude.Sym: equality on (name, id); order on (name, id) *)
Record sym := mkSym { sname : string; sid : positive }.

Definition sym_eqb (x y : sym) : bool := String.eqb (sname x) (sname y) && Pos.eqb (sid x) (sid y).

Definition sym_ltb (x y : sym) : bool :=
  match String.compare (sname x) (sname y) with
  | Lt => true
  | Gt => false
  | Eq => Pos.ltb (sid x) (sid y)
  end.

(* ------------------------------------------------------------------------------------------------ syntax *)
Inductive ty := TInt | TIndex | TSize | TBool | TOther.

Definition ty_eqb (a b : ty) : bool :=
  match a, b with
  | TInt, TInt | TIndex, TIndex | TSize, TSize | TBool, TBool | TOther, TOther => true
  | _, _ => false
  end.

(* LoopIR.type.is_indexable *)
Definition indexable (t : ty) : bool := match t with TInt | TIndex | TSize => true | _ => false end.

Record ann := mkAnn { aty : ty; asrc : positive }.
Definition ann_eqb (a b : ann) : bool := ty_eqb (aty a) (aty b) && Pos.eqb (asrc a) (asrc b).

Inductive binop := OAdd | OSub | OMul | ODiv | OMod | OAnd | OOr | OLt | OGt | OLe | OGe | OEq.

Definition binop_eqb (a b : binop) : bool :=
  match a, b with
  | OAdd, OAdd | OSub, OSub | OMul, OMul | ODiv, ODiv | OMod, OMod | OAnd, OAnd | OOr, OOr
  | OLt, OLt | OGt, OGt | OLe, OLe | OGe, OGe | OEq, OEq => true
  | _, _ => false
  end.

Inductive expr :=
| EVar (x : sym) (a : ann)                 (* LoopIR.Read(name, [], type, srcinfo) *)
| EConst (c : Z) (a : ann)                 (* LoopIR.Const *)
| ENeg (e : expr) (a : ann)                (* LoopIR.USub *)
| EBin (op : binop) (l r : expr) (a : ann) (* LoopIR.BinOp *)
| ECfg (cfg fld : string) (a : ann).       (* LoopIR.ReadConfig: opaque atom *)

Definition ann_of (e : expr) : ann :=
  match e with EVar _ a | EConst _ a | ENeg _ a | EBin _ _ _ a | ECfg _ _ a => a end.
Definition ety (e : expr) : ty := aty (ann_of e).

(* LoopIR node equality ( == ): structural, including type and srcinfo identity *)
Fixpoint expr_eqb (a b : expr) : bool :=
  match a, b with
  | EVar x a1, EVar y a2 => sym_eqb x y && ann_eqb a1 a2
  | EConst c a1, EConst d a2 => Z.eqb c d && ann_eqb a1 a2
  | ENeg x a1, ENeg y a2 => expr_eqb x y && ann_eqb a1 a2
  | EBin o l r a1, EBin o' l' r' a2 => binop_eqb o o' && expr_eqb l l' && expr_eqb r r' && ann_eqb a1 a2
  | ECfg c f a1, ECfg c' f' a2 => String.eqb c c' && String.eqb f f' && ann_eqb a1 a2
  | _, _ => false
  end.

(* ------------------------------------------------------------------------------------------------ semantics *)
Definition b2z (b : bool) : Z := if b then 1 else 0.

Definition eval_op (op : binop) (a b : Z) : Z :=
  match op with
  | OAdd => a + b
  | OSub => a - b
  | OMul => a * b
  | ODiv => a / b          (* Python // *)
  | OMod => a mod b        (* Python %  *)
  | OAnd => if a =? 0 then a else b     (* Python  a and b *)
  | OOr => if a =? 0 then b else a      (* Python  a or b  *)
  | OLt => b2z (a <? b)
  | OGt => b2z (a >? b)
  | OLe => b2z (a <=? b)
  | OGe => b2z (a >=? b)
  | OEq => b2z (a =? b)
  end.

(* rho: value of every index / size / bool variable; cv: value of every configuration field *)
Fixpoint eval (rho : sym -> Z) (cv : string -> string -> Z) (e : expr) : Z :=
  match e with
  | EVar x _ => rho x
  | EConst c _ => c
  | ENeg a _ => - eval rho cv a
  | EBin op l r _ => eval_op op (eval rho cv l) (eval rho cv r)
  | ECfg c f _ => cv c f
  end.

(* every divisor is a positive literal (what typecheck.py guarantees); on such expressions [eval] is Python's value *)
Fixpoint wf_div (e : expr) : bool :=
  match e with
  | EBin ODiv l r _ | EBin OMod l r _ => wf_div l && match r with EConst c _ => 0 <? c | _ => false end
  | EBin _ l r _ => wf_div l && wf_div r
  | ENeg a _ => wf_div a
  | _ => true
  end.

(* ------------------------------------------------------------------------------------------------ coefficient maps *)
(* Python dict Sym -> int, insertion ordered; key None is self.C = Sym("temporary_constant_symbol") *)
Definition key := option sym.
Definition key_eqb (a b : key) : bool :=
  match a, b with
  | None, None => true
  | Some x, Some y => sym_eqb x y
  | _, _ => false
  end.
Definition lmap := list (key * Z).

Fixpoint lget (m : lmap) (k : key) : option Z :=
  match m with
  | [] => None
  | (k', v) :: m' => if key_eqb k' k then Some v else lget m' k
  end.
Definition lmem (m : lmap) (k : key) : bool := match lget m k with Some _ => true | None => false end.

(* a | b : keys of a in a's order (value from b when present there), then the keys only in b *)
Definition dict_union (a b : lmap) : lmap :=
  map (fun kv => (fst kv, match lget b (fst kv) with Some v' => v' | None => snd kv end)) a
  ++ filter (fun kv => negb (lmem a (fst kv))) b.

(* {key: f(lhs[key], rhs[key]) for key in lhs if key in rhs} *)
Definition common (f : Z -> Z -> Z) (l r : lmap) : lmap :=
  flat_map (fun kv => match lget r (fst kv) with Some w => [(fst kv, f (snd kv) w)] | None => [] end) l.

Definition map_vals (f : Z -> Z) (m : lmap) : lmap := map (fun kv => (fst kv, f (snd kv))) m.

Definition len1 (m : lmap) : bool := match m with [_] => true | _ => false end.

Definition concat_map (op : binop) (l r : lmap) : option lmap :=
  match op with
  | OAdd => Some (dict_union (dict_union l r) (common Z.add l r))
  | OSub => Some (dict_union (dict_union l (map_vals Z.opp r)) (common Z.sub l r))
  | OMul =>
      if len1 r || len1 l then
        if len1 r && lmem r None then
          match lget r None with Some c => Some (map_vals (fun v => v * c) l) | None => None end
        else if len1 l && lmem l None then
          match lget l None with Some c => Some (map_vals (fun v => v * c) r) | None => None end
        else None       (* assert len(lhs) == 1 and self.C in lhs *)
      else None         (* assert len(rhs) == 1 or len(lhs) == 1 *)
  | _ => None           (* assert False, "bad case" *)
  end.

Fixpoint normalize_e (e : expr) : option lmap :=
  match e with
  | EVar x a => if indexable (aty a) then Some [(Some x, 1)] else None
  | EConst c a => if indexable (aty a) then Some [(None, c)] else None
  | ENeg x a =>
      if indexable (aty a) then option_map (map_vals Z.opp) (normalize_e x) else None
  | EBin op l r a =>
      if indexable (aty a) then
        match normalize_e l, normalize_e r with
        | Some lm, Some rm => concat_map op lm rm
        | _, _ => None
        end
      else None
  | ECfg _ _ _ => None
  end.

Fixpoint has_div_mod_config (e : expr) : bool :=
  match e with
  | EVar _ _ | EConst _ _ => false
  | ENeg x _ => has_div_mod_config x
  | EBin op l r _ =>
      match op with
      | ODiv | OMod => true
      | _ => has_div_mod_config l || has_div_mod_config r
      end
  | ECfg _ _ _ => true
  end.

(* get_normalized_expr: (constant value, annotation of the new Const node, [(coeff, sym)] without zeros) *)
Definition terms_of (m : lmap) : list (Z * sym) :=
  flat_map (fun kv => match fst kv with
                      | Some v => if snd kv =? 0 then [] else [(snd kv, v)]
                      | None => []
                      end) m.

Definition get_normalized_expr (e : expr) : option (Z * ann * list (Z * sym)) :=
  match normalize_e e with
  | None => None
  | Some m =>
      Some (match lget m None with Some c => c | None => 0 end, mkAnn TInt (asrc (ann_of e)), terms_of m)
  end.

(* sorted(normalization_list): tuples (coeff, Sym) *)
Definition term_ltb (a b : Z * sym) : bool :=
  (fst a <? fst b) || ((fst a =? fst b) && sym_ltb (snd a) (snd b)).

Fixpoint insert_term (t : Z * sym) (l : list (Z * sym)) : list (Z * sym) :=
  match l with
  | [] => [t]
  | u :: l' => if term_ltb u t then u :: insert_term t l' else t :: u :: l'
  end.
Definition sort_terms (l : list (Z * sym)) : list (Z * sym) := fold_right insert_term [] l.

Definition scale_read (ctx : ann) (coeff : Z) (v : sym) : expr :=
  EBin OMul (EConst coeff (mkAnn TInt (asrc ctx))) (EVar v ctx) ctx.

Definition gen_step (ctx : ann) (acc : expr) (t : Z * sym) : expr :=
  if 0 <? fst t then EBin OAdd acc (scale_read ctx (fst t) (snd t)) ctx
  else EBin OSub acc (scale_read ctx (- fst t) (snd t)) ctx.

Definition generate_loopIR (ctx : ann) (constant : expr) (l : list (Z * sym)) : expr :=
  fold_left (gen_step ctx) (sort_terms l) constant.

(* ------------------------------------------------------------------------------------------------ range analysis *)
(* range_analysis.py.  An IndexRange is (base, lo, hi); only "is the base the literal 0" is ever observed by
   constant_bound, so the base is abstracted to that bit [bz]. *)
Definition bound := (option Z * option Z)%type.
Definition renv := list (sym * bound).     (* ChainMap Sym -> (lo, hi); scopes are nested, so a functional list *)

Fixpoint env_get (env : renv) (x : sym) : option bound :=
  match env with
  | [] => None
  | (y, b) :: env' => if sym_eqb y x then Some b else env_get env' x
  end.

Inductive rng := RInt (z : Z) | RRng (bz : bool) (lo hi : option Z).

Definition oadd (a b : option Z) : option Z :=
  match a, b with Some x, Some y => Some (x + y) | _, _ => None end.
Definition omap (f : Z -> Z) (a : option Z) : option Z := match a with Some x => Some (f x) | None => None end.

Definition r_neg (a : rng) : rng :=
  match a with
  | RInt x => RInt (- x)
  | RRng bz lo hi => RRng bz (omap Z.opp hi) (omap Z.opp lo)
  end.

Definition r_add (a b : rng) : rng :=
  match a, b with
  | RInt x, RInt y => RInt (x + y)
  | RRng bz lo hi, RInt c => RRng bz (omap (fun v => v + c) lo) (omap (fun v => v + c) hi)
  | RInt c, RRng bz lo hi => RRng bz (omap (fun v => v + c) lo) (omap (fun v => v + c) hi)
  | RRng b1 l1 h1, RRng b2 l2 h2 => RRng (b1 && b2) (oadd l1 l2) (oadd h1 h2)
  end.

Definition r_sub (a b : rng) : rng :=
  match a, b with
  | RInt x, RInt y => RInt (x - y)
  | RInt c, RRng _ _ _ => r_add (r_neg b) (RInt c)      (* __rsub__ : -self + c *)
  | _, _ => r_add a (r_neg b)                            (* __sub__ : self + (-other) *)
  end.

Definition r_scale (a : rng) (c : Z) : rng :=
  match a with
  | RInt x => RInt (x * c)
  | RRng bz lo hi =>
      if c =? 0 then RInt 0
      else if 0 <? c then RRng bz (omap (fun v => v * c) lo) (omap (fun v => v * c) hi)
      else RRng bz (omap (fun v => v * c) hi) (omap (fun v => v * c) lo)
  end.

Definition r_mul (a b : rng) : option rng :=
  match a, b with
  | RInt x, RInt y => Some (RInt (x * y))
  | RRng _ _ _, RInt c => Some (r_scale a c)
  | RInt c, RRng _ _ _ => Some (r_scale b c)
  | RRng _ _ _, RRng _ _ _ => None                       (* assert isinstance(c, int) *)
  end.

Definition r_div (a b : rng) : option rng :=
  match b with
  | RInt c =>
      if 0 <? c then
        match a with
        | RInt x => Some (RInt (x / c))
        | RRng true lo hi => Some (RRng true (omap (fun v => v / c) lo) (omap (fun v => v / c) hi))
        | RRng false (Some lo) (Some hi) => Some (RRng false (Some (lo / c)) (Some (hi / c + 1)))
        | RRng false _ _ => Some (RRng false None None)
        end
      else None
  | RRng _ _ _ => None
  end.

Definition r_mod (a b : rng) : option rng :=
  match b with
  | RInt c =>
      if 0 <? c then
        match a with
        | RInt x => Some (RInt (x mod c))
        | RRng true (Some lo) (Some hi) =>
            if lo / c =? hi / c then Some (RRng true (Some (lo mod c)) (Some (hi mod c)))
            else Some (RRng true (Some 0) (Some (c - 1)))
        | RRng _ _ _ => Some (RRng true (Some 0) (Some (c - 1)))
        end
      else None
  | RRng _ _ _ => None
  end.

(* index_range_analysis *)
Fixpoint analyze (env : renv) (e : expr) : option rng :=
  if negb (indexable (ety e)) then None       (* ValueError *)
  else
    match e with
    | EVar x _ =>
        match env_get env x with
        | None => Some (RRng false (Some 0) (Some 0))       (* IndexRange(expr, 0, 0) *)
        | Some (lo, hi) => Some (RRng true lo hi)           (* create_constant_range(lo, hi) *)
        end
    | EConst c _ => Some (RInt c)
    | ENeg x _ => option_map r_neg (analyze env x)
    | EBin op l r _ =>
        match analyze env l, analyze env r with
        | Some a, Some b =>
            match op with
            | OAdd => Some (r_add a b)
            | OSub => Some (r_sub a b)
            | OMul => r_mul a b
            | ODiv => r_div a b
            | OMod => r_mod a b
            | _ => None
            end
        | _, _ => None
        end
    | ECfg _ _ _ => None                                    (* assert False, "invalid expr in index expression" *)
    end.

Definition constant_bound (env : renv) (e : expr) : option bound :=
  match analyze env e with
  | None => None
  | Some (RInt z) => Some (Some z, Some z)
  | Some (RRng true lo hi) => Some (lo, hi)
  | Some (RRng false _ _) => Some (None, None)
  end.

Inductive cmpop := CLt | CLeq | CEq.

(* IndexRangeEnvironment._check_range *)
Definition check_range (r0 : bound) (op : cmpop) (r1 : bound) : bool :=
  match snd r0, fst r1 with
  | Some h0, Some l1 =>
      match op with
      | CLt => h0 <? l1
      | CLeq => h0 <=? l1
      | CEq =>
          match fst r0, snd r1 with
          | Some l0, Some h1 => (l0 =? h0) && (h0 =? l1) && (l1 =? h1)
          | _, _ => false
          end
      end
  | _, _ => false
  end.

(* check_expr_bounds(c0, op0, e, op1, c2) with integer end points *)
Definition check_expr_bounds (env : renv) (c0 : Z) (op0 : cmpop) (e : expr) (op1 : cmpop) (c2 : Z)
  : option bool :=
  match constant_bound env e with
  | None => None
  | Some r => Some (check_range (Some c0, Some c0) op0 r && check_range r op1 (Some c2, Some c2))
  end.

(* IndexRangeEnvironment.add_loop_iter (inside a fresh scope) *)
Definition add_loop_iter (env : renv) (i : sym) (lo hi : expr) : option renv :=
  match constant_bound env lo, constant_bound env hi with
  | Some (l, _), Some (_, h) =>
      let h' := omap (fun v => v - 1) h in
      let r := match l, h' with
               | Some lv, Some hv => if hv <? lv then (None, None) else (l, h')
               | _, _ => (l, h')
               end in
      Some ((i, r) :: env)
  | _, _ => None
  end.

(* ------------------------------------------------------------------------------------------------ _DoNormalize *)
Definition still_division (e : expr) : bool := match e with EBin ODiv _ _ _ => true | _ => false end.

Definition nonempty {A} (l : list A) : bool := match l with [] => false | _ => true end.

(* e = EBin ODiv lhs rhs a  with rhs = EConst d _ *)
Definition division_simplification (env : renv) (lhs rhs : expr) (d : Z) (a : ann) : option expr :=
  if d <=? 0 then None
  else
    match get_normalized_expr lhs with
    | None => None
    | Some (cval, cann, nl) =>
        let ctx := ann_of lhs in
        let non_div := filter (fun t => negb (fst t mod d =? 0)) nl in
        let divisible := map (fun t => (fst t / d, snd t)) (filter (fun t => fst t mod d =? 0) nl) in
        let fallback := Some (EBin ODiv (generate_loopIR ctx (EConst cval cann) nl) rhs a) in
        if negb (nonempty non_div) then
          Some (generate_loopIR ctx (EConst (cval / d) cann) (map (fun t => (fst t / d, snd t)) nl))
        else if cval mod d =? 0 then
          match check_expr_bounds env 0 CLeq (generate_loopIR ctx (EConst 0 cann) non_div) CLt d with
          | None => None
          | Some true => Some (generate_loopIR ctx (EConst (cval / d) cann) divisible)
          | Some false => fallback
          end
        else
          match check_expr_bounds env 0 CLeq (generate_loopIR ctx (EConst cval cann) non_div) CLt d with
          | None => None
          | Some true => Some (generate_loopIR ctx (EConst 0 cann) divisible)
          | Some false => fallback
          end
    end.

(* division_denominator_simplification: (n / c1) / c2 -> n / (c1 * c2), repeatedly;
   returns (numerator, denominator value, annotation of the denominator Const) *)
Fixpoint denom_simp (l : expr) (c2 : Z) (a2 : ann) : expr * Z * ann :=
  match l with
  | EBin ODiv n (EConst c1 _) al => denom_simp n (c1 * c2) al
  | _ => (l, c2, a2)
  end.

Definition division_denominator_simplification (lhs : expr) (c2 : Z) (a2 : ann) (a : ann) : expr :=
  let '(n, c, ac) := denom_simp lhs c2 a2 in EBin ODiv n (EConst c ac) a.

(* the while loop of division_simplification_and_try_spliting_denominator; e is the unsplit result *)
Fixpoint split_loop (env : renv) (fuel : nat) (divisor : Z) (lhs : expr) (d : Z) (ar a : ann) (e : expr)
  : option expr :=
  match fuel with
  | O => Some e
  | S f =>
      if divisor * divisor <=? d then
        if d mod divisor =? 0 then
          match division_simplification env lhs (EConst divisor ar) divisor a with
          | None => None
          | Some ne1 =>
              if negb (still_division ne1) then Some (EBin ODiv ne1 (EConst (d / divisor) ar) a)
              else
                match division_simplification env lhs (EConst (d / divisor) ar) (d / divisor) a with
                | None => None
                | Some ne2 =>
                    if negb (still_division ne2) then Some (EBin ODiv ne2 (EConst divisor ar) a)
                    else split_loop env f (divisor + 1) lhs d ar a e
                end
          end
        else split_loop env f (divisor + 1) lhs d ar a e
      else Some e
  end.

Definition division_simplification_and_try_spliting_denominator
  (env : renv) (lhs rhs : expr) (d : Z) (a : ann) : option expr :=
  match division_simplification env lhs rhs d a with
  | None => None
  | Some e =>
      match e with
      | EBin ODiv lhs' (EConst d' ar) a' =>
          split_loop env (Z.to_nat (Z.sqrt d')) 2 lhs' d' ar a' e
      | _ => Some e
      end
  end.

Definition modulo_simplification (env : renv) (lhs rhs : expr) (m : Z) (a : ann) : option expr :=
  if m <=? 0 then None
  else
    match get_normalized_expr lhs with
    | None => None
    | Some (cval, cann, nl) =>
        let nl' := filter (fun t => negb (fst t mod m =? 0)) nl in
        if negb (nonempty nl') then Some (EConst (cval mod m) cann)
        else
          let cval' := if cval mod m =? 0 then 0 else cval in
          let new_lhs := generate_loopIR (ann_of lhs) (EConst cval' cann) nl' in
          match check_expr_bounds env 0 CLeq new_lhs CLt m with
          | None => None
          | Some true => Some new_lhs
          | Some false => Some (EBin OMod new_lhs rhs a)
          end
    end.

(* the tail of index_start: "if self.has_div_mod_config(e): return e" then the linear normal form *)
Definition normal_form (e : expr) : option expr :=
  if has_div_mod_config e then Some e
  else
    match get_normalized_expr e with
    | None => None
    | Some (cval, cann, nl) => Some (generate_loopIR (ann_of e) (EConst cval cann) nl)
    end.

Fixpoint index_start (env : renv) (e : expr) : option expr :=
  match e with
  | EBin op l r a =>
      match index_start env l, index_start env r with
      | Some l', Some r' =>
          match op with
          | ODiv =>
              match r' with
              | EConst d ar =>
                  if has_div_mod_config l' then Some (division_denominator_simplification l' d ar a)
                  else division_simplification_and_try_spliting_denominator env l' r' d a
              | _ => None              (* assert isinstance(e.rhs, LoopIR.Const) *)
              end
          | OMod =>
              match r' with
              | EConst m ar =>
                  if has_div_mod_config l' then Some (EBin op l' r' a)
                  else modulo_simplification env l' r' m a
              | _ => None
              end
          | _ => normal_form (EBin op l' r' a)
          end
      | _, _ => None
      end
  | _ => normal_form e
  end.

(* _DoNormalize.map_e: indexable expressions go to index_start, the others are traversed (LoopIR_Rewrite.map_e) *)
Fixpoint norm_e (env : renv) (e : expr) : option expr :=
  if indexable (ety e) then index_start env e
  else
    match e with
    | EBin op l r a =>
        match norm_e env l, norm_e env r with
        | Some l', Some r' => Some (EBin op l' r' a)
        | _, _ => None
        end
    | ENeg x a => option_map (fun x' => ENeg x' a) (norm_e env x)
    | _ => Some e
    end.

(* ------------------------------------------------------------------------------------------------ printing *)
(* str(e) is only ever compared for equality.  Two expressions print alike iff they have the same shape
   (operators, constants, config reads; Const(-c) and USub(Const(c)) both print "-c") and the same sequence of
   printed variable names, where names are resolved by LoopIR_pprint.PrintEnv.get_name in a fresh environment. *)
Definition dec (n : nat) : string := NilEmpty.string_of_uint (Nat.to_uint n).

Fixpoint sget {A} (m : list (string * A)) (k : string) : option A :=
  match m with
  | [] => None
  | (k', v) :: m' => if String.eqb k' k then Some v else sget m' k
  end.

Fixpoint pe_get (m : list (sym * string)) (x : sym) : option string :=
  match m with
  | [] => None
  | (y, v) :: m' => if sym_eqb y x then Some v else pe_get m' x
  end.

Record penv := mkPenv { pe_env : list (sym * string); pe_names : list (string * nat) }.

(* while candidate in self.names: candidate = f"{nm}_{num}"; num += 1 *)
Fixpoint find_candidate (fuel : nat) (names : list (string * nat)) (nm cand : string) (num : nat)
  : string * nat :=
  match fuel with
  | O => (cand, num)
  | S f =>
      match sget names cand with
      | Some _ => find_candidate f names nm (nm ++ "_" ++ dec num)%string (S num)
      | None => (cand, num)
      end
  end.

Definition get_name (pe : penv) (x : sym) : string * penv :=
  match pe_get (pe_env pe) x with
  | Some r => (r, pe)
  | None =>
      let nm := sname x in
      let num0 := match sget (pe_names pe) nm with Some n => n | None => 1%nat end in
      let '(cand, num) := find_candidate (S (List.length (pe_names pe))) (pe_names pe) nm nm num0 in
      let names1 := (nm, num) :: pe_names pe in
      let names2 := match sget names1 cand with Some _ => names1 | None => (cand, 1%nat) :: names1 end in
      (cand, mkPenv ((x, cand) :: pe_env pe) names2)
  end.

Fixpoint pnames_from (pe : penv) (l : list sym) : list string :=
  match l with
  | [] => []
  | x :: l' => let '(s, pe') := get_name pe x in s :: pnames_from pe' l'
  end.
Definition pnames (l : list sym) : list string := pnames_from (mkPenv [] []) l.

(* variables in printing order = the order of get_reads_of_expr *)
Fixpoint occ (e : expr) : list sym :=
  match e with
  | EVar x _ => [x]
  | EConst _ _ | ECfg _ _ _ => []
  | ENeg x _ => occ x
  | EBin _ l r _ => occ l ++ occ r
  end.

Definition dsym : sym := mkSym EmptyString 1%positive.
Definition dann : ann := mkAnn TOther 1%positive.
Definition bann : ann := mkAnn TBool 1%positive.

(* what of an expression, besides its variable names, determines its printed form *)
Fixpoint shape (e : expr) : expr :=
  match e with
  | EVar _ _ => EVar dsym dann
  | EConst c a => EConst c (match aty a with TBool => bann | _ => dann end)
  | ENeg x _ =>
      match shape x with
      | EConst c a' => if (0 <? c) && negb (ty_eqb (aty a') TBool) then EConst (- c) dann
                       else ENeg (EConst c a') dann
      | s => ENeg s dann
      end
  | EBin op l r _ => EBin op (shape l) (shape r) dann
  | ECfg c f _ => ECfg c f dann
  end.

Fixpoint list_eqb {A} (eqb : A -> A -> bool) (l1 l2 : list A) : bool :=
  match l1, l2 with
  | [], [] => true
  | x :: l1', y :: l2' => eqb x y && list_eqb eqb l1' l2'
  | _, _ => false
  end.

(* str(a) == str(b) *)
Definition str_eqb (a b : expr) : bool :=
  expr_eqb (shape a) (shape b) && list_eqb String.eqb (pnames (occ a)) (pnames (occ b)).

(* DoSimplify._fact_key(a) == _fact_key(b): (str(e), tuple(repr(sym) for the reads of e)) *)
Definition fact_key_eqb (a b : expr) : bool :=
  expr_eqb (shape a) (shape b) && list_eqb String.eqb (pnames (occ a)) (pnames (occ b))
  && list_eqb sym_eqb (occ a) (occ b).

(* ------------------------------------------------------------------------------------------------ DoSimplify *)
Definition facts := list (expr * expr).      (* ChainMap key -> LoopIR.expr; newest binding first *)

Fixpoint known (fs : facts) (e : expr) : option expr :=
  match fs with
  | [] => None
  | (k, v) :: fs' => if fact_key_eqb k e then Some v else known fs' e
  end.

Definition const_val (e : expr) : option Z := match e with EConst c _ => Some c | _ => None end.
Definition is_const (e : expr) : bool := match e with EConst _ _ => true | _ => false end.
Definition is_const_val (e : expr) (v : Z) : bool :=
  match e with EConst c _ => c =? v | _ => false end.

(* DoSimplify.cfold on index / bool constants *)
Definition cfold (op : binop) (a b : Z) : option Z :=
  match op with
  | ODiv | OMod => if b =? 0 then None else Some (eval_op op a b)     (* ZeroDivisionError *)
  | _ => Some (eval_op op a b)
  end.

(* is_quotient_remainder(BinOp("+", l, r)): None = assertion failure, Some None = no match.
   check_quot: str(const) == str(mod) and _fact_key(div.lhs) == _fact_key(num) and str(div.rhs) == str(mod) *)
Definition check_quot (num modc : expr) (const div : expr) : option expr :=
  match const, div with
  | EConst _ _, EBin ODiv dl dr _ =>
      if str_eqb const modc && fact_key_eqb dl num && str_eqb dr modc then Some num else None
  | _, _ => None
  end.

Definition qr_check (num modc quot : expr) : option expr :=
  match quot with
  | EBin OMul ql qr _ =>
      match check_quot num modc ql qr with
      | Some n => Some n
      | None => check_quot num modc qr ql
      end
  | _ => None
  end.

Definition is_quotient_remainder (l r : expr) : option (option expr) :=
  match l with
  | EBin OMod num modc _ => if is_const modc then Some (qr_check num modc r) else None
  | _ =>
      match r with
      | EBin OMod num modc _ => if is_const modc then Some (qr_check num modc l) else None
      | _ => Some None
      end
  end.

Definition and_or_rules (is_and : bool) (l r : expr) (a : ann) (dflt : expr) : expr :=
  (* for l, r in (lhs, rhs), (rhs, lhs) *)
  if is_and then
    if is_const_val l 0 then EConst 0 (mkAnn TBool (asrc a))
    else if is_const_val l 1 then r
    else if is_const_val r 0 then EConst 0 (mkAnn TBool (asrc a))
    else if is_const_val r 1 then l
    else dflt
  else
    if is_const_val l 0 then r
    else if is_const_val l 1 then EConst 1 (mkAnn TBool (asrc a))
    else if is_const_val r 0 then l
    else if is_const_val r 1 then EConst 1 (mkAnn TBool (asrc a))
    else dflt.

(* map_binop after both operands have been simplified *)
Definition binop_rules (op : binop) (l r : expr) (a : ann) : option expr :=
  let dflt := EBin op l r a in
  match const_val l, const_val r with
  | Some x, Some y =>      (* isinstance(lhs, Const) and isinstance(rhs, Const): Const(cfold, e.type, lhs.srcinfo) *)
      match cfold op x y with Some v => Some (EConst v (mkAnn (aty a) (asrc (ann_of l)))) | None => None end
  | _, _ =>
      match op with
      | OAdd =>
          if is_const_val l 0 then Some r
          else if is_const_val r 0 then Some l
          else
            match is_quotient_remainder l r with
            | None => None
            | Some (Some n) => Some n
            | Some None => Some dflt
            end
      | OSub =>
          if is_const_val r 0 then Some l
          else if is_const_val l 0 then Some (ENeg r (ann_of r))
          else
            match l with
            | EBin OAdd ll lr _ =>
                if expr_eqb ll r then Some lr
                else if expr_eqb lr r then Some ll
                else Some dflt
            | _ => Some dflt
            end
      | OMul =>
          if is_const_val l 0 || is_const_val r 0 then Some (EConst 0 (ann_of l))
          else if is_const_val l 1 then Some r
          else if is_const_val r 1 then Some l
          else Some dflt
      | ODiv => if is_const_val r 1 then Some l else Some dflt
      | OMod => if is_const_val r 1 then Some (EConst 0 (ann_of l)) else Some dflt
      | OAnd => Some (and_or_rules true l r a dflt)
      | OOr => Some (and_or_rules false l r a dflt)
      | _ => Some dflt
      end
  end.

Definition or_known (fs : facts) (e : expr) : expr :=
  match known fs e with Some c => c | None => e end.

(* DoSimplify.map_e *)
Fixpoint simp_e (fs : facts) (e : expr) : option expr :=
  match known fs e with
  | Some c => Some c
  | None =>
      match e with
      | EBin op l r a =>
          match simp_e fs l, simp_e fs r with
          | Some l', Some r' => option_map (or_known fs) (binop_rules op l' r' a)
          | _, _ => None
          end
      | ENeg x a => option_map (fun x' => or_known fs (ENeg x' a)) (simp_e fs x)
      | _ => Some e
      end
  end.

Fixpoint has_cfg (e : expr) : bool :=
  match e with
  | ECfg _ _ _ => true
  | ENeg x _ => has_cfg x
  | EBin _ l r _ => has_cfg l || has_cfg r
  | _ => false
  end.

Definition add_fact (cond : expr) (fs : facts) : facts :=
  match
    match cond with
    | EBin OEq l r _ =>
        if is_const r then Some (l, r) else if is_const l then Some (r, l) else None
    | _ => None
    end
  with
  | None => fs
  | Some (ex, cst) =>
      if has_cfg ex then fs
      else
        let fs1 := (ex, cst) :: fs in
        match ex with
        | EBin ODiv dl dr da => if is_const_val cst 0 then (EBin OMod dl dr da, dl) :: fs1 else fs1
        | _ => fs1
        end
  end.

(* ------------------------------------------------------------------------------------------------ statements *)
(* A leaf is any statement without sub-blocks; [es] are its index / condition expressions ("slots") in the
   order LoopIR_Rewrite visits them; [k] is the statement kind (0 = Pass), [s] the srcinfo identity. *)
Inductive stmt :=
| SLeaf (k : Z) (s : positive) (es : list expr)
| SIf (s : positive) (c : expr) (body orelse : list stmt)
| SFor (s : positive) (i : sym) (lo hi : expr) (body : list stmt).

(* list traversals written so that the statement functions below can recurse through them *)
Definition map_opt {A B} (f : A -> option B) : list A -> option (list B) :=
  fix go (l : list A) : option (list B) :=
    match l with
    | [] => Some []
    | x :: l' => match f x, go l' with Some y, Some r => Some (y :: r) | _, _ => None end
    end.

Definition flat_opt {A B} (f : A -> option (list B)) : list A -> option (list B) :=
  fix go (l : list A) : option (list B) :=
    match l with
    | [] => Some []
    | x :: l' => match f x, go l' with Some y, Some r => Some (y ++ r) | _, _ => None end
    end.

(* _DoNormalize.map_s *)
Fixpoint norm_s (env : renv) (s : stmt) : option stmt :=
  match s with
  | SLeaf k src es => option_map (SLeaf k src) (map_opt (norm_e env) es)
  | SIf src c b1 b2 =>
      match norm_e env c, map_opt (norm_s env) b1, map_opt (norm_s env) b2 with
      | Some c', Some b1', Some b2' => Some (SIf src c' b1' b2')
      | _, _, _ => None
      end
  | SFor src i lo hi b =>
      match norm_e env lo, norm_e env hi with
      | Some lo', Some hi' =>
          match add_loop_iter env i lo' hi' with
          | None => None
          | Some env' =>
              match map_opt (norm_s env') b with
              | Some b' => Some (SFor src i lo' hi' b')
              | None => None
              end
          end
      | _, _ => None
      end
  end.

Definition norm_ss (env : renv) (l : list stmt) : option (list stmt) := map_opt (norm_s env) l.

(* Block._delete: a block that becomes empty is replaced by [Pass(parent.srcinfo)] *)
Definition pass_if_emptied (src : positive) (orig new : list stmt) : list stmt :=
  match new with
  | [] => match orig with [] => [] | _ => [SLeaf 0 src []] end
  | _ => new
  end.

Definition loop_is_dead (lo hi : expr) : bool :=
  match lo, hi with EConst l _, EConst h _ => h =? l | _, _ => false end.

(* DoSimplify.map_s: the list of statements that replace s *)
Fixpoint simp_s (fs : facts) (s : stmt) : option (list stmt) :=
  match s with
  | SLeaf k src es => option_map (fun es' => [SLeaf k src es']) (map_opt (simp_e fs) es)
  | SIf src c b1 b2 =>
      match simp_e fs c with
      | None => None
      | Some c' =>
          match c' with
          | EConst v _ =>                                   (* the branch is dropped *)
              if v =? 0 then flat_opt (simp_s fs) b2 else flat_opt (simp_s fs) b1
          | _ =>
              match flat_opt (simp_s (add_fact c' fs)) b1, flat_opt (simp_s fs) b2 with
              | Some b1', Some b2' =>
                  Some [SIf src c' (pass_if_emptied src b1 b1') (pass_if_emptied src b2 b2')]
              | _, _ => None
              end
          end
      end
  | SFor src i lo hi b =>
      match simp_e fs lo, simp_e fs hi with
      | Some lo', Some hi' =>
          if loop_is_dead lo' hi' then Some []              (* hi.val == lo.val *)
          else
            match flat_opt (simp_s fs) b with
            | Some b' => Some [SFor src i lo' hi' (pass_if_emptied src b b')]
            | None => None
            end
      | _, _ => None
      end
  end.

Definition simp_ss (fs : facts) (l : list stmt) : option (list stmt) := flat_opt (simp_s fs) l.

(* ------------------------------------------------------------------------------------------------ procedures *)
Record proc := mkProc { p_src : positive; p_sizes : list sym; p_preds : list expr; p_body : list stmt }.

(* IndexRangeEnvironment.__init__ (fast=True): size arguments are (1, None); nothing else is known *)
Definition init_env (sizes : list sym) : renv := map (fun x => (x, (Some 1, None))) sizes.

Definition normalize_proc (p : proc) : option proc :=
  let env := init_env (p_sizes p) in
  match norm_ss env (p_body p), map_opt (norm_e env) (p_preds p) with
  | Some b, Some ps => Some (mkProc (p_src p) (p_sizes p) ps b)
  | _, _ => None
  end.

Definition simplify_proc (p : proc) : option proc :=
  match normalize_proc p with
  | None => None
  | Some p1 =>
      match simp_ss [] (p_body p1), map_opt (simp_e []) (p_preds p1) with
      | Some b, Some ps => Some (mkProc (p_src p1) (p_sizes p1) ps (pass_if_emptied (p_src p1) (p_body p1) b))
      | _, _ => None
      end
  end.
