(* C12 — simplify, and the index normalisation other operations rely on, replaces an index, bound, size or condition
   expression only by one that has the same integer value (under floor division and modulo) for every assignment
   of the variables permitted by the enclosing loop bounds, guards and assertions, and removes a branch or loop
   only if it can never execute.

   Model: Model.v (hand-written, tied to /repo by the correspondence of harness/props/C12.py).
   [eval] is over unbounded Z with Z.div / Z.modulo (= Python // and % for the positive literal divisors that
   exo's type checker admits: hypothesis [wf_div]).  A model result [None] = the Python code raises. *)
From Coq Require Import ZArith List Bool String.
From Simplify Require Import Model ProofsLin ProofsRange ProofsNorm ProofsSimp ProofsStmt.
Import ListNotations.
Open Scope Z_scope.

(* ---- the range analysis that justifies dropping / and % ------------------------------------------------ *)
Theorem C12_check_expr_bounds : forall rho cv env e d,
    env_sound env rho -> check_expr_bounds env 0 CLeq e CLt d = Some true -> 0 <= eval rho cv e < d.
Proof. exact check_expr_bounds_sound. Qed.
Print Assumptions C12_check_expr_bounds.

Theorem C12_loop_iter : forall rho cv env i lo hi env' v,
    env_sound env rho -> add_loop_iter env i lo hi = Some env' ->
    eval rho cv lo <= v < eval rho cv hi -> env_sound env' (upd rho i v).
Proof. exact add_loop_iter_sound. Qed.
Print Assumptions C12_loop_iter.

(* ---- linear normal form ---------------------------------------------------------------------------------- *)
Theorem C12_linear_form : forall rho cv e c a nl,
    get_normalized_expr e = Some (c, a, nl) ->
    eval rho cv e = c + tsum rho nl /\
    forall ctx k ak, eval rho cv (generate_loopIR ctx (EConst k ak) nl) = k + tsum rho nl.
Proof.
  intros rho cv e c a nl H. split; [exact (get_normalized_expr_sound rho cv e c a nl H)|].
  intros; apply generate_loopIR_sound.
Qed.
Print Assumptions C12_linear_form.

Theorem C12_division_simplification : forall rho cv env lhs rhs d a e',
    env_sound env rho -> eval rho cv rhs = d ->
    division_simplification_and_try_spliting_denominator env lhs rhs d a = Some e' ->
    eval rho cv e' = eval rho cv lhs / d.
Proof. exact try_split_sound. Qed.
Print Assumptions C12_division_simplification.

Theorem C12_modulo_simplification : forall rho cv env lhs rhs m a e',
    env_sound env rho -> eval rho cv rhs = m ->
    modulo_simplification env lhs rhs m a = Some e' ->
    eval rho cv e' = eval rho cv lhs mod m.
Proof. exact modulo_simplification_sound. Qed.
Print Assumptions C12_modulo_simplification.

(* ---- index_start / _DoNormalize.map_e -------------------------------------------------------------------- *)
Theorem C12_normalize : forall rho cv env e e',
    wf_div e = true -> env_sound env rho -> index_start env e = Some e' ->
    eval rho cv e' = eval rho cv e /\ wf_div e' = true.
Proof. exact index_start_sound. Qed.
Print Assumptions C12_normalize.

Theorem C12_normalize_map_e : forall rho cv env e e',
    wf_div e = true -> env_sound env rho -> norm_e env e = Some e' ->
    eval rho cv e' = eval rho cv e /\ wf_div e' = true.
Proof. exact norm_e_sound. Qed.
Print Assumptions C12_normalize_map_e.

(* the guard 0 < c is needed: with a negative literal divisor (rejected by exo's front end) the faithful model of
   division_denominator_simplification changes the value: (Cfg.a / 3) / (-2) -> Cfg.a / (-6), Cfg.a = 1: 0 vs -1 *)
Theorem C12_normalize_negative_divisor_refuted :
  exists rho cv env e e',
    env_sound env rho /\ index_start env e = Some e' /\ eval rho cv e' <> eval rho cv e.
Proof.
  exists (fun _ => 0), (fun _ _ => 1), [],
    (EBin ODiv (EBin ODiv (ECfg "Cfg" "a" (mkAnn TIndex 1)) (EConst 3 (mkAnn TInt 1)) (mkAnn TIndex 1))
          (EConst (-2) (mkAnn TInt 1)) (mkAnn TIndex 1)).
  eexists. split; [intros x b H; discriminate H|]. split; [vm_compute; reflexivity|]. vm_compute. discriminate.
Qed.
Print Assumptions C12_normalize_negative_divisor_refuted.

(* ---- DoSimplify.map_e -------------------------------------------------------------------------------------- *)
Theorem C12_simplify_e : forall rho cv fs e e',
    bool_ok rho cv e -> facts_sound fs rho cv -> simp_e fs e = Some e' ->
    eval rho cv e' = eval rho cv e.
Proof. exact simp_e_sound. Qed.
Print Assumptions C12_simplify_e.

(* [bool_ok] (operands of and / or are booleans — guaranteed by exo's type checker) is needed: Python's
   [x and True] is [True] for x = 5, but the identity rule returns x *)
Theorem C12_simplify_e_untyped_refuted :
  exists rho cv fs e e',
    facts_sound fs rho cv /\ simp_e fs e = Some e' /\ eval rho cv e' <> eval rho cv e.
Proof.
  exists (fun _ => 5), (fun _ _ => 0), [],
    (EBin OAnd (EVar (mkSym "x" 1) (mkAnn TBool 1)) (EConst 1 (mkAnn TBool 1)) (mkAnn TBool 1)).
  eexists. split; [intros k v []|]. split; [vm_compute; reflexivity|]. vm_compute. discriminate.
Qed.
Print Assumptions C12_simplify_e_untyped_refuted.

(* a guard that holds makes the recorded facts true; facts never mention configuration fields, so they survive
   configuration writes inside the branch *)
Theorem C12_facts : forall rho cv cond fs,
    facts_sound fs rho cv -> eval rho cv cond <> 0 -> facts_sound (add_fact cond fs) rho cv.
Proof. exact add_fact_sound. Qed.
Print Assumptions C12_facts.

Theorem C12_facts_config_independent : forall rho cv cond fs,
    facts_good fs rho -> eval rho cv cond <> 0 -> facts_good (add_fact cond fs) rho.
Proof. exact add_fact_good. Qed.
Print Assumptions C12_facts_config_independent.

(* _fact_key / the quotient-remainder rule identify expressions only if they denote the same value *)
Theorem C12_fact_key : forall rho cv a b, fact_key_eqb a b = true -> eval rho cv a = eval rho cv b.
Proof. exact fact_key_sound. Qed.
Print Assumptions C12_fact_key.

Theorem C12_quotient_remainder : forall rho cv l r n,
    is_quotient_remainder l r = Some (Some n) -> eval rho cv l + eval rho cv r = eval rho cv n.
Proof. exact is_quotient_remainder_sound. Qed.
Print Assumptions C12_quotient_remainder.

(* ---- removal of branches and loops ----------------------------------------------------------------------- *)
(* a branch is dropped only when its simplified condition is a literal, and then the condition has that value *)
Theorem C12_dead : forall rho cv fs c v a,
    bool_ok rho cv c -> facts_sound fs rho cv -> simp_e fs c = Some (EConst v a) -> eval rho cv c = v.
Proof. exact dead_branch. Qed.
Print Assumptions C12_dead.

(* a loop is dropped only when both simplified bounds are literals with hi = lo, and then it is a zero-trip loop *)
Theorem C12_dead_loop : forall rho cv fs lo hi l al h ah,
    bool_ok rho cv lo -> bool_ok rho cv hi -> facts_sound fs rho cv ->
    simp_e fs lo = Some (EConst l al) -> simp_e fs hi = Some (EConst h ah) -> (h =? l) = true ->
    eval rho cv hi <= eval rho cv lo.
Proof. exact dead_loop. Qed.
Print Assumptions C12_dead_loop.

(* ---- statement traversals: the trace of all index / bound / size / condition values is preserved ------------ *)
Theorem C12_normalize_trace : forall updc env l l',
    all_list (all_e wf_e) l -> norm_ss env l = Some l' ->
    forall rho cv, env_sound env rho -> exec_ss updc rho cv l' = exec_ss updc rho cv l.
Proof. exact norm_ss_exec. Qed.
Print Assumptions C12_normalize_trace.

Theorem C12_simplify_trace : forall updc fs l out U,
    all_list (scoped U) l -> incl (facts_occ fs) U -> all_list (all_e bool_e) l -> simp_ss fs l = Some out ->
    forall rho cv, facts_good fs rho -> exec_ss updc rho cv out = exec_ss updc rho cv l.
Proof. exact simp_ss_exec. Qed.
Print Assumptions C12_simplify_trace.

Theorem C12_simplify : forall updc p p1 p',
    normalize_proc p = Some p1 -> simplify_proc p = Some p' ->
    all_list (all_e wf_e) (p_body p) -> Forall wf_e (p_preds p) ->
    all_list (scoped []) (p_body p1) -> all_list (all_e bool_e) (p_body p1) -> Forall bool_e (p_preds p1) ->
    forall rho cv, (forall x, In x (p_sizes p) -> 1 <= rho x) ->
      exec_ss updc rho cv (p_body p') = exec_ss updc rho cv (p_body p) /\
      map (eval rho cv) (p_preds p') = map (eval rho cv) (p_preds p).
Proof. exact simplify_proc_exec. Qed.
Print Assumptions C12_simplify.
