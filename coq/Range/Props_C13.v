(* Props_C13.v — property C13: "Every bound reported by range analysis ... contains every value the
   expression can take when its variables range over the stated intervals."
   Only the property theorems; proofs are in ProofsOps.v / ProofsAnalysis.v / ProofsUser.v.
   gamma r rho v  :=  exists b, ieval rho (base r) = Some b /\ lo r <= v - b <= hi r   (None = no bound). *)
From Coq Require Import ZArith List Bool.
From Range Require Import Model Gen_Range ModelAnalysis ProofsOps ProofsAnalysis ProofsUser ProofsFold.
Import ListNotations.
Open Scope Z_scope.

(* ---- interval arithmetic (TRANSLATED code, incl. Python's int/IndexRange operator dispatch) *)
Theorem C13_ops :
  (forall x y rv rho vx vy, py_add x y = Ok rv -> gamma_val x rho vx -> gamma_val y rho vy ->
      gamma_val rv rho (vx + vy)) /\
  (forall x y rv rho vx vy, py_sub x y = Ok rv -> gamma_val x rho vx -> gamma_val y rho vy ->
      gamma_val rv rho (vx - vy)) /\
  (forall x y rv rho vx vy, py_mul x y = Ok rv -> gamma_val x rho vx -> gamma_val y rho vy ->
      gamma_val rv rho (vx * vy)) /\
  (forall x y rv rho vx vy, py_floordiv x y = Ok rv -> gamma_val x rho vx -> gamma_val y rho vy ->
      0 < vy -> gamma_val rv rho (vx / vy)) /\
  (forall x y rv rho vx vy, py_mod x y = Ok rv -> gamma_val x rho vx -> gamma_val y rho vy ->
      0 < vy -> gamma_val rv rho (vx mod vy)) /\
  (forall x rv rho vx, py_neg x = Ok rv -> gamma_val x rho vx -> gamma_val rv rho (- vx)).
Proof. exact ops_sound_holds. Qed.
Print Assumptions C13_ops.

(* the join `|` contains both operands, provided the bases that LoopIR_Compare identifies BY NAME have the
   same value ... *)
Theorem C13_join : forall a b rv rho v,
  ir_or a (RRange b) = Ok rv ->
  (match_e (base a) (base b) = true -> ieval rho (base a) = ieval rho (base b)) ->
  gamma a rho v \/ gamma b rho v -> gamma_val rv rho v.
Proof. exact ir_or_sound. Qed.
Print Assumptions C13_join.

(* ... which holds for every valuation that gives equally named symbols equal values ... *)
Theorem C13_join_named : forall rho, name_determined rho ->
  forall a b, match_e a b = true -> ieval rho a = ieval rho b.
Proof. exact match_e_eval. Qed.
Print Assumptions C13_join_named.

(* ... and is needed: two different Syms with one name are merged (open finding C13-join-name-only) *)
Theorem C13_join_name_refuted :
  exists a b rv rho v, ir_or a (RRange b) = Ok rv /\ gamma b rho v /\ ~ gamma_val rv rho v.
Proof. exact ir_or_name_refuted. Qed.
Print Assumptions C13_join_name_refuted.

(* ---- _check_range (TRANSLATED) *)
Theorem C13_check_range : forall r0 op r1 v0 v1,
  check_range r0 op r1 = true ->
  in_itv (fst r0) (snd r0) v0 -> in_itv (fst r1) (snd r1) v1 -> cmp_holds op v0 v1.
Proof. exact check_range_sound. Qed.
Print Assumptions C13_check_range.

(* ---- index_range_analysis / constant_bound under a sound environment *)
Theorem C13_analysis : forall env rho, env_sound env rho ->
  forall e rv v, analyze env e = Ok rv -> ieval rho e = Some v -> gamma_val rv rho v.
Proof. exact analyze_sound. Qed.
Print Assumptions C13_analysis.

Theorem C13_constant_bound : forall env rho a bd v,
  env_sound env rho -> constant_bound a env = Ok bd -> aeval rho a = Some v ->
  in_itv (fst bd) (snd bd) v.
Proof. exact constant_bound_sound. Qed.
Print Assumptions C13_constant_bound.

(* ---- IndexRangeEnvironment *)
Theorem C13_init_env : forall args rho,
  (forall s b, In (s, b) args -> in_itv (fst b) (snd b) (rho s)) -> env_sound (init_env args) rho.
Proof. exact init_env_sound. Qed.
Print Assumptions C13_init_env.

Theorem C13_init_env_fast : forall sizes rho,
  (forall s, In s sizes -> 1 <= rho s) -> env_sound (init_env_fast sizes) rho.
Proof. exact init_env_fast_sound. Qed.
Print Assumptions C13_init_env_fast.

Theorem C13_loop_iter : forall env rho x lo_e hi_e env' vl vh vx,
  env_sound env rho ->
  add_loop_iter env x lo_e hi_e = Ok env' ->
  aeval rho lo_e = Some vl -> aeval rho hi_e = Some vh -> vl <= vx < vh ->
  env_sound env' (upd rho x vx).
Proof. exact add_loop_iter_sound. Qed.
Print Assumptions C13_loop_iter.

Theorem C13_scope_enter : forall env rho, env_sound env rho -> env_sound (enter_scope env) rho.
Proof. exact env_sound_enter. Qed.
Print Assumptions C13_scope_enter.

Theorem C13_scope_exit : forall env rho x b,
  env_sound env rho -> env_sound (exit_scope (env_set (enter_scope env) x b)) rho.
Proof. exact env_sound_exit. Qed.
Print Assumptions C13_scope_exit.

Theorem C13_check_expr_bound : forall env rho e0 op e1 v0 v1,
  env_sound env rho -> check_expr_bound env e0 op e1 = Ok true ->
  aeval rho e0 = Some v0 -> aeval rho e1 = Some v1 -> cmp_holds op v0 v1.
Proof. exact check_expr_bound_sound. Qed.
Print Assumptions C13_check_expr_bound.

Theorem C13_check_expr_bounds : forall env rho e0 op0 e1 op1 e2 v0 v1 v2,
  env_sound env rho -> check_expr_bounds env e0 op0 e1 op1 e2 = Ok true ->
  aeval rho e0 = Some v0 -> aeval rho e1 = Some v1 -> aeval rho e2 = Some v2 ->
  cmp_holds op0 v0 v1 /\ cmp_holds op1 v1 v2.
Proof. exact check_expr_bounds_sound. Qed.
Print Assumptions C13_check_expr_bounds.

(* ---- consumers *)
Corollary C13_compiler_c_division : forall env rho a c va vc,
  env_sound env rho ->
  check_expr_bound env (AInt 0) CLeq (AExpr (IDiv a c)) = Ok true ->
  ieval rho a = Some va -> ieval rho c = Some vc -> 0 < vc ->
  Z.quot va vc = va / vc.
Proof. exact compiler_c_division_ok. Qed.
Print Assumptions C13_compiler_c_division.

Corollary C13_simplify_div_mod : forall env rho e d ve,
  env_sound env rho ->
  check_expr_bounds env (AInt 0) CLeq (AExpr e) CLt (AInt d) = Ok true ->
  ieval rho e = Some ve -> ve / d = 0 /\ ve mod d = ve.
Proof. exact simplify_div_mod_ok. Qed.
Print Assumptions C13_simplify_div_mod.

(* ---- user level (stdlib/range_analysis.py) *)
Theorem C13_user_level_partial : forall loops e rho rv v,
  names_unique loops e -> Forall (loop_ok rho) loops ->
  u_infer_range loops e = Ok rv -> ieval rho e = Some v -> gamma_val rv rho v.
Proof. exact u_infer_range_partial. Qed.
Print Assumptions C13_user_level_partial.

Theorem C13_user_level_shadow_refuted :
  exists loops e rho rv v,
    Forall (loop_ok rho) loops /\ u_infer_range loops e = Ok rv /\ ieval rho e = Some v /\
    ~ gamma_val rv rho v.
Proof. exact u_infer_range_shadow_refuted. Qed.
Print Assumptions C13_user_level_shadow_refuted.

Theorem C13_user_level_named : forall loops e rho rv v,
  name_determined rho -> Forall (loop_ok rho) loops ->
  u_infer_range loops e = Ok rv -> ieval rho e = Some v -> gamma_val rv rho v.
Proof. exact u_infer_range_named. Qed.
Print Assumptions C13_user_level_named.

Theorem C13_bounds_inference_partial : forall accs rho r loops e v,
  name_determined rho ->
  u_bounds_inference accs = Ok (Some r) -> In (loops, e) accs ->
  Forall (loop_ok rho) loops -> ieval rho e = Some v -> gamma_val r rho v.
Proof. exact u_bounds_inference_sound. Qed.
Print Assumptions C13_bounds_inference_partial.

Theorem C13_bounds_inference_name_refuted :
  exists accs rho r loops e v,
    u_bounds_inference accs = Ok (Some r) /\ In (loops, e) accs /\
    Forall (loop_ok rho) loops /\ ieval rho e = Some v /\ ~ gamma_val r rho v.
Proof. exact u_bounds_inference_name_refuted. Qed.
Print Assumptions C13_bounds_inference_name_refuted.

(* ---- fold-buffer helper: eliminating the loop variable `var` (ranging over rng) from the window `self`;
   `lin` is the class invariant of bases (linear, no constant term), established by the analysis itself *)
Theorem C13_partial_eval : forall self var rng rv rho v,
  lin (base self) = true ->
  partial_eval_with_range self var rng = Ok rv ->
  gamma rng rho (rho var) -> gamma self rho v -> gamma_val rv rho v.
Proof. exact partial_eval_sound. Qed.
Print Assumptions C13_partial_eval.

Theorem C13_analysis_bases_linear : forall env e rv,
  no_div e = true -> analyze env e = Ok rv -> lin_rv rv.
Proof. exact analyze_lin. Qed.
Print Assumptions C13_analysis_bases_linear.
