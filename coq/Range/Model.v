(* Range/Model.v — base datatypes of the C13 engine (executable Gallina only, stdlib only).

   Mirrors the data of /repo/src/exo/rewrite/range_analysis.py:
     iexpr    = the fragment of LoopIR.expr that index expressions use
                (Read of a scalar Sym, Const, USub, BinOp + - * / %)
     irange   = dataclass IndexRange(base, lo, hi)
     rval     = what the Python arithmetic on "int | IndexRange" can produce
                (RErrV is the ValueError *object* that __floordiv__ RETURNS for c == 0)
     res      = a Python result: a value or a raised exception (kind only)
   The IndexRange methods themselves are NOT here: they are generated into
   Gen_Range.v by translator/py2coq_range.py from the current source.          *)
From Coq Require Import ZArith List Bool.
Import ListNotations.
Open Scope Z_scope.

(* ---------------------------------------------------------------- symbols *)
(* exo's Sym = (name string, unique id); Sym.__eq__ compares both, LoopIR_Compare.match_name
   compares the NAME ONLY, the user-level environment of stdlib/range_analysis.py is keyed by
   the name string.  Names are numbered by the harness. *)
Record sym := mksym { sname : Z ; sid : Z }.

Definition sym_eqb (a b : sym) : bool := (sname a =? sname b) && (sid a =? sid b).

(* ---------------------------------------------------------------- index expressions *)
Inductive bop := OAdd | OSub | OMul | ODiv | OMod.

Definition bop_eqb (a b : bop) : bool :=
  match a, b with
  | OAdd, OAdd | OSub, OSub | OMul, OMul | ODiv, ODiv | OMod, OMod => true
  | _, _ => false
  end.

Inductive iexpr :=
| IVar (x : sym)
| IConst (c : Z)
| INeg (e : iexpr)
| IBin (op : bop) (a b : iexpr).

Notation IAdd := (IBin OAdd).
Notation ISub := (IBin OSub).
Notation IMul := (IBin OMul).
Notation IDiv := (IBin ODiv).
Notation IMod := (IBin OMod).

(* A valuation gives every Sym an integer. *)
Definition valuation := sym -> Z.

Definition upd (rho : valuation) (x : sym) (v : Z) : valuation :=
  fun y => if sym_eqb x y then v else rho y.

(* Exo's index semantics: + - * are the integer operations, / and % are floor division and floor
   modulo and are ONLY defined for a positive divisor (typecheck.py rejects anything else), so a
   non-positive divisor has no value here (never totalised through Z.div x 0 = 0). *)
Definition eval_bop (op : bop) (x y : Z) : option Z :=
  match op with
  | OAdd => Some (x + y)
  | OSub => Some (x - y)
  | OMul => Some (x * y)
  | ODiv => if 0 <? y then Some (x / y) else None
  | OMod => if 0 <? y then Some (x mod y) else None
  end.

Fixpoint ieval (rho : valuation) (e : iexpr) : option Z :=
  match e with
  | IVar x => Some (rho x)
  | IConst c => Some c
  | INeg a => match ieval rho a with Some x => Some (- x) | None => None end
  | IBin op a b =>
      match ieval rho a, ieval rho b with
      | Some x, Some y => eval_bop op x y
      | _, _ => None
      end
  end.

(* LoopIR_Compare.match_e restricted to index expressions (LoopIR.py:988-1027):
   same node class, Read: names equal AS STRINGS (match_name), Const: equal values,
   BinOp: equal op and both children match. *)
Fixpoint match_e (a b : iexpr) : bool :=
  match a, b with
  | IVar x, IVar y => sname x =? sname y
  | IConst c, IConst d => c =? d
  | INeg x, INeg y => match_e x y
  | IBin o1 a1 b1, IBin o2 a2 b2 => bop_eqb o1 o2 && match_e a1 a2 && match_e b1 b2
  | _, _ => false
  end.

(* ---------------------------------------------------------------- ranges and results *)
Record irange := mkrange { base : iexpr ; lo : option Z ; hi : option Z }.

Inductive rval :=
| RInt (n : Z)
| RRange (r : irange)
| RErrV.   (* the ValueError instance returned (not raised) by IndexRange.__floordiv__(_, 0) *)

Inductive errkind :=
| EAssert      (* AssertionError *)
| ETypeError   (* TypeError: unsupported operand type(s) *)
| EZeroDiv     (* ZeroDivisionError of int // 0 and int % 0 *)
| EAttr        (* AttributeError: e.g. ValueError object has no attribute 'base' *)
| EValue       (* ValueError raised *)
| EDead.       (* branch that the translator knows to be unreachable (already excluded by an assert) *)

Inductive res (A : Type) :=
| Ok (a : A)
| Err (k : errkind).
Arguments Ok {A} a.
Arguments Err {A} k.

Definition bind {A B : Type} (m : res A) (f : A -> res B) : res B :=
  match m with Ok a => f a | Err k => Err k end.

(* comparison operators of IndexRangeEnvironment: lt = "<", leq = "<=", eq = "==" *)
Inductive cmpop := CLt | CLeq | CEq.

Definition cmpop_eqb (a b : cmpop) : bool :=
  match a, b with CLt, CLt | CLeq, CLeq | CEq, CEq => true | _, _ => false end.

Definition bounds := (option Z * option Z)%type.
