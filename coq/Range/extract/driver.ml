(* C13 correspondence driver: one s-expression job per input line, one result line per job. *)
open Range_model

type sx = A of string | L of sx list

let parse (s : string) : sx =
  let n = String.length s in
  let pos = ref 0 in
  let rec skip () = if !pos < n && (s.[!pos] = ' ' || s.[!pos] = '\t') then (incr pos; skip ()) in
  let rec rd () =
    skip ();
    if !pos >= n then failwith "eof"
    else if s.[!pos] = '(' then begin
      incr pos;
      let items = ref [] in
      let rec loop () =
        skip ();
        if !pos >= n then failwith "unclosed"
        else if s.[!pos] = ')' then incr pos
        else (items := rd () :: !items; loop ()) in
      loop (); L (List.rev !items)
    end else begin
      let st = !pos in
      while !pos < n && s.[!pos] <> ' ' && s.[!pos] <> '(' && s.[!pos] <> ')' do incr pos done;
      A (String.sub s st (!pos - st))
    end in
  rd ()

let rec pos_of_int (n : int) : positive =
  if n = 1 then XH else if n land 1 = 0 then XO (pos_of_int (n lsr 1)) else XI (pos_of_int (n lsr 1))
let z_of_int (n : int) : z = if n = 0 then Z0 else if n > 0 then Zpos (pos_of_int n) else Zneg (pos_of_int (-n))
let rec int_of_pos = function XH -> 1 | XO p -> 2 * int_of_pos p | XI p -> 2 * int_of_pos p + 1
let int_of_z = function Z0 -> 0 | Zpos p -> int_of_pos p | Zneg p -> - (int_of_pos p)

let zs (a : sx) : z = match a with A s -> z_of_int (int_of_string s) | _ -> failwith "int expected"
let optz (a : sx) : z option = match a with A "N" -> None | _ -> Some (zs a)
let sym_of n i : sym = { sname = zs n; sid = zs i }

let op_of = function "add" -> OAdd | "sub" -> OSub | "mul" -> OMul | "div" -> ODiv | "mod" -> OMod
                   | s -> failwith ("op " ^ s)
let rec expr (x : sx) : iexpr = match x with
  | L [A "v"; n; i] -> IVar (sym_of n i)
  | L [A "c"; n] -> IConst (zs n)
  | L [A "neg"; e] -> INeg (expr e)
  | L [A "b"; A o; a; b] -> IBin (op_of o, expr a, expr b)
  | _ -> failwith "expr"
let arg = function L [A "int"; n] -> AInt (zs n) | L [A "expr"; e] -> AExpr (expr e) | _ -> failwith "arg"
let cmp = function A "lt" -> CLt | A "leq" -> CLeq | A "eq" -> CEq | _ -> failwith "cmp"
let scope (x : sx) = match x with
  | L items -> List.map (function L [n; i; l; h] -> (sym_of n i, (optz l, optz h)) | _ -> failwith "binding") items
  | _ -> failwith "scope"
let env (x : sx) : renv = match x with L ss -> List.map scope ss | _ -> failwith "env"
let range (x : sx) : irange = match x with
  | L [A "range"; b; l; h] -> { base = expr b; lo = optz l; hi = optz h }
  | _ -> failwith "range"
let rval (x : sx) : rval = match x with
  | L [A "int"; n] -> RInt (zs n)
  | A "errv" -> RErrV
  | _ -> RRange (range x)

let pz z = string_of_int (int_of_z z)
let popt = function None -> "N" | Some z -> pz z
let pop = function OAdd -> "add" | OSub -> "sub" | OMul -> "mul" | ODiv -> "div" | OMod -> "mod"
let rec pexpr = function
  | IVar s -> "(v " ^ pz s.sname ^ " " ^ pz s.sid ^ ")"
  | IConst c -> "(c " ^ pz c ^ ")"
  | INeg e -> "(neg " ^ pexpr e ^ ")"
  | IBin (o, a, b) -> "(b " ^ pop o ^ " " ^ pexpr a ^ " " ^ pexpr b ^ ")"
let prange r = "(range " ^ pexpr r.base ^ " " ^ popt r.lo ^ " " ^ popt r.hi ^ ")"
let prval = function RInt n -> "(int " ^ pz n ^ ")" | RRange r -> prange r | RErrV -> "errv"
let perr = function EAssert -> "AssertionError" | ETypeError -> "TypeError" | EZeroDiv -> "ZeroDivisionError"
                  | EAttr -> "AttributeError" | EValue -> "ValueError" | EDead -> "DEAD"
let pres f = function Ok a -> f a | Err k -> "(err " ^ perr k ^ ")"
let pbounds (l, h) = "(" ^ popt l ^ " " ^ popt h ^ ")"
let pbool b = if b then "true" else "false"
let plookup = function None -> "none" | Some b -> pbounds b

let loops (x : sx) : uloop list = match x with
  | L ls -> List.map (function L [n; i; lo; hi] -> ((sym_of n i, expr lo), expr hi) | _ -> failwith "loop") ls
  | _ -> failwith "loops"

let run (x : sx) : string = match x with
  | L [A "analyze"; e; x] -> pres prval (analyze (env e) (expr x))
  | L [A "cbound"; e; a] -> pres pbounds (constant_bound (arg a) (env e))
  | L [A "check"; e; a; o; b] -> pres pbool (check_expr_bound (env e) (arg a) (cmp o) (arg b))
  | L [A "checks"; e; a; o; b; o2; c] ->
      pres pbool (check_expr_bounds (env e) (arg a) (cmp o) (arg b) (cmp o2) (arg c))
  | L [A "crange"; L [l0; h0]; o; L [l1; h1]] -> pbool (check_range (optz l0, optz h0) (cmp o) (optz l1, optz h1))
  | L [A "envseq"; L sizes; L ops; L keys; q] ->
      let e0 = init_env_fast (List.map (function L [n; i] -> sym_of n i | _ -> failwith "size") sizes) in
      let step (acc : renv res) (o : sx) : renv res = match acc with
        | Err k -> Err k
        | Ok e -> (match o with
            | L [A "enter"] -> Ok (enter_scope e)
            | L [A "exit"] -> Ok (exit_scope e)
            | L [A "loop"; n; i; lo; hi] -> add_loop_iter e (sym_of n i) (arg lo) (arg hi)
            | _ -> failwith "envop") in
      (match List.fold_left step (Ok e0) ops with
       | Err k -> "(err " ^ perr k ^ ")"
       | Ok e ->
           "(" ^ String.concat " " (List.map (function L [n; i] -> plookup (env_lookup e (sym_of n i))
                                                      | _ -> failwith "key") keys)
           ^ " " ^ pres pbounds (constant_bound (arg q) e) ^ ")")
  | L [A "binop"; A o; a; b] -> pres prval (py_binop (op_of o) (rval a) (rval b))
  | L [A "uneg"; a] -> pres prval (py_neg (rval a))
  | L (A "orchain" :: r0 :: rest) ->
      let step acc r = match acc with
        | Err k -> Err k
        | Ok (RRange a) -> ir_or a (rval r)
        | Ok _ -> Err ETypeError in
      pres prval (List.fold_left step (Ok (rval r0)) rest)
  | L [A "stride"; r; L [n; i]] -> pres pz (get_stride_of (range r) (sym_of n i))
  | L [A "peval"; r; L [n; i]; g] -> pres prval (partial_eval_with_range (range r) (sym_of n i) (range g))
  | L [A "size"; r] -> popt (get_size (range r))
  | L [A "wrapper"; x] -> pres prval (analysis_wrapper (expr x))
  | L [A "uinfer"; ls; x] -> pres prval (u_infer_range (loops ls) (expr x))
  | L [A "ubounds"; L accs] ->
      pres (function None -> "none" | Some r -> prval r)
        (u_bounds_inference (List.map (function L [ls; x] -> (loops ls, expr x) | _ -> failwith "acc") accs))
  | L [A "ieval"; L vals; x] ->
      let tbl = List.map (function L [n; i; v] -> ((int_of_z (zs n), int_of_z (zs i)), zs v) | _ -> failwith "val") vals in
      let rho (s : sym) = try List.assoc (int_of_z s.sname, int_of_z s.sid) tbl with Not_found -> Z0 in
      (match ieval rho (expr x) with None -> "undef" | Some v -> pz v)
  | _ -> failwith "job"

let () =
  try
    while true do
      let line = input_line stdin in
      if String.trim line <> "" then
        print_endline (try run (parse line) with Failure m -> "(driver-error " ^ m ^ ")")
    done
  with End_of_file -> ()
