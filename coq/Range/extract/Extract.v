(* Extraction of the executable model for the correspondence driver.  ExtrOcamlBasic only:
   Z / positive stay the extracted inductive datatypes. *)
Require Extraction.
Require Import ExtrOcamlBasic.
From Range Require Import Model Gen_Range ModelAnalysis.
Extraction "range_model.ml"
  ieval match_e
  ir_add ir_radd ir_neg ir_sub ir_rsub ir_mul ir_rmul ir_floordiv ir_mod ir_or check_range
  py_binop py_neg
  analyze constant_bound
  init_env init_env_fast enter_scope exit_scope env_set env_lookup add_loop_iter
  check_expr_bound check_expr_bounds
  get_stride_of partial_eval_with_range get_size analysis_wrapper merge_index_ranges
  u_analyze u_constant_bound u_infer_range u_bounds_inference.
