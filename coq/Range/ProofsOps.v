(* Range/ProofsOps.v — soundness of the TRANSLATED IndexRange arithmetic (Gen_Range.v) w.r.t. the
   concretisation gamma.  The proofs are written against the behaviour, not the shape, of the generated
   code (they destruct whatever matches/ifs the translator emitted), so that harmless refactorings of the
   Python keep them alive while a changed comparison, sign or offset breaks them. *)
From Coq Require Import ZArith List Bool Lia ZifyBool.
From Range Require Import Model Gen_Range ModelAnalysis.
Import ListNotations.
Open Scope Z_scope.

(* ------------------------------------------------------------------ concretisation *)
Definition in_itv (l h : option Z) (x : Z) : Prop :=
  match l with Some a => a <= x | None => True end /\
  match h with Some b => x <= b | None => True end.

(* IndexRange(base, lo, hi) denotes { base + x | lo <= x <= hi } (None = no bound on that side);
   written with x := v - b so that only the value of the base has to be exhibited. *)
Definition gamma (r : irange) (rho : valuation) (v : Z) : Prop :=
  exists b, ieval rho (base r) = Some b /\ in_itv (lo r) (hi r) (v - b).

Definition gamma_val (rv : rval) (rho : valuation) (v : Z) : Prop :=
  match rv with
  | RInt n => v = n
  | RRange r => gamma r rho v
  | RErrV => False
  end.

(* the formulation of DESIGN.md: v = base + x with x in [lo, hi] *)
Lemma gamma_iff_design : forall r rho v,
  gamma r rho v <-> exists b x, ieval rho (base r) = Some b /\ in_itv (lo r) (hi r) x /\ v = b + x.
Proof.
  intros; split.
  - intros [b [Hb Hi]]. exists b, (v - b). repeat split; auto; try apply Hi; lia.
  - intros [b [x [Hb [Hi Hv]]]]. exists b; split; auto. replace (v - b) with x by lia. exact Hi.
Qed.

(* ------------------------------------------------------------------ helpers *)
Lemma is_zero_true : forall e, is_zero e = true -> e = IConst 0.
Proof.
  intros e H. unfold is_zero in H. destruct e; try discriminate.
  destruct (c =? 0) eqn:E; try discriminate. apply Z.eqb_eq in E. subst. reflexivity.
Qed.

Lemma ieval_zero : forall rho, ieval rho zero = Some 0.
Proof. reflexivity. Qed.

Lemma div_shift_bounds : forall c b x l h,
  0 < c -> l <= x <= h -> l / c <= (b + x) / c - b / c <= h / c + 1.
Proof.
  intros c b x l h Hc Hx.
  pose proof (Z.div_mod (b + x) c ltac:(lia)).
  pose proof (Z.mod_pos_bound (b + x) c Hc).
  pose proof (Z.div_mod b c ltac:(lia)).
  pose proof (Z.mod_pos_bound b c Hc).
  pose proof (Z.div_mod l c ltac:(lia)).
  pose proof (Z.mod_pos_bound l c Hc).
  pose proof (Z.div_mod h c ltac:(lia)).
  pose proof (Z.mod_pos_bound h c Hc).
  split; nia.
Qed.

Lemma div_shift_lo : forall c x l, 0 < c -> l <= x -> l / c <= x / c.
Proof. intros. apply Z.div_le_mono; lia. Qed.

Lemma same_quot_mod : forall c x l h,
  0 < c -> l <= x <= h -> l / c = h / c -> l mod c <= x mod c <= h mod c.
Proof.
  intros c x l h Hc Hx Hq.
  assert (x / c = l / c).
  { pose proof (Z.div_le_mono l x c Hc ltac:(lia)). pose proof (Z.div_le_mono x h c Hc ltac:(lia)). lia. }
  pose proof (Z.div_mod x c ltac:(lia)).
  pose proof (Z.div_mod l c ltac:(lia)).
  pose proof (Z.div_mod h c ltac:(lia)).
  split; nia.
Qed.

(* destruct every match / if of the generated code that blocks reduction in hypothesis H *)
Ltac break_in H :=
  repeat (cbv beta zeta in H; cbn [base lo hi bind create_constant_range create_unbounded create_int binop] in H;
    match type of H with
    | context [match ?x with _ => _ end] =>
        (is_var x; destruct x) || (let E := fresh "E" in destruct x eqn:E)
    | context [if ?b then _ else _] => let E := fresh "E" in destruct b eqn:E
    end; try discriminate H).

Ltac inv_ok H := injection H as H; subst.

Ltac zero_bases :=
  repeat match goal with
  | H : is_zero ?e = true |- _ => apply is_zero_true in H; try subst e
  end.

(* close a gamma goal: the base's value is found by evaluation, the interval part by arithmetic *)
Ltac gamma_close :=
  cbn [gamma_val] in *; unfold gamma in *; cbn [base lo hi] in *;
  repeat match goal with H : exists _, _ |- _ => destruct H as [? [? ?]] end;
  unfold in_itv in *; cbn [base lo hi] in *.

Ltac solve_gamma :=
  eexists; split;
  [ unfold binop, zero; cbn [ieval eval_bop];
    repeat match goal with H : ieval _ _ = Some _ |- _ => rewrite H end;
    cbn [ieval eval_bop]; first [reflexivity | eassumption]
  | try lia ].

Ltac prep :=
  zero_bases; unfold create_constant_range, create_unbounded, create_int in *; gamma_close;
  unfold zero in *; cbn [ieval eval_bop] in *;
  repeat match goal with H : Some _ = Some _ |- _ => injection H as H; subst end.

(* ------------------------------------------------------------------ __add__ *)
Lemma ir_add_int_sound : forall a n rv rho va,
  ir_add a (RInt n) = Ok rv -> gamma a rho va -> gamma_val rv rho (va + n).
Proof.
  intros [ab al ah] n rv rho va H G. unfold ir_add in H. break_in H; inv_ok H; prep; solve_gamma.
Qed.

Lemma ir_add_range_sound : forall a b rv rho va vb,
  ir_add a (RRange b) = Ok rv -> gamma a rho va -> gamma b rho vb -> gamma_val rv rho (va + vb).
Proof.
  intros [ab al ah] [bb bl bh] rv rho va vb H Ga Gb. unfold ir_add in H.
  break_in H; inv_ok H; prep; solve_gamma.
Qed.

(* ------------------------------------------------------------------ __neg__ *)
Lemma ir_neg_sound : forall a rv rho va,
  ir_neg a = Ok rv -> gamma a rho va -> gamma_val rv rho (- va).
Proof.
  intros [ab al ah] rv rho va H G. unfold ir_neg in H.
  break_in H; inv_ok H; prep; solve_gamma.
Qed.

(* ------------------------------------------------------------------ __radd__ __sub__ __rsub__ *)
Lemma ir_radd_sound : forall a c rv rho va vc,
  ir_radd a c = Ok rv -> gamma a rho va -> gamma_val c rho vc -> gamma_val rv rho (vc + va).
Proof.
  intros a c rv rho va vc H Ga Gc. unfold ir_radd in H. destruct c; try discriminate.
  cbn in Gc; subst. replace (n + va) with (va + n) by lia. eapply ir_add_int_sound; eauto.
Qed.

Lemma ir_add_sound : forall a c rv rho va vc,
  ir_add a c = Ok rv -> gamma a rho va -> gamma_val c rho vc -> gamma_val rv rho (va + vc).
Proof.
  intros a c rv rho va vc H Ga Gc. destruct c; cbn in Gc.
  - subst. eapply ir_add_int_sound; eauto.
  - eapply ir_add_range_sound; eauto.
  - contradiction.
Qed.

Lemma ir_sub_sound : forall a c rv rho va vc,
  ir_sub a c = Ok rv -> gamma a rho va -> gamma_val c rho vc -> gamma_val rv rho (va - vc).
Proof.
  intros a c rv rho va vc H Ga Gc. unfold ir_sub in H. destruct c; cbn in Gc; try contradiction.
  - subst. cbn [bind] in H. replace (va - n) with (va + - n) by lia. eapply ir_add_int_sound; eauto.
  - destruct (ir_neg r) eqn:En; cbn [bind] in H; try discriminate.
    replace (va - vc) with (va + - vc) by lia. eapply ir_add_sound; eauto. eapply ir_neg_sound; eauto.
Qed.

Lemma ir_rsub_sound : forall a c rv rho va vc,
  ir_rsub a c = Ok rv -> gamma a rho va -> gamma_val c rho vc -> gamma_val rv rho (vc - va).
Proof.
  intros a c rv rho va vc H Ga Gc. unfold ir_rsub in H. destruct c; try discriminate.
  cbn in Gc; subst. destruct (ir_neg a) eqn:En; cbn [bind] in H; try discriminate.
  pose proof (ir_neg_sound _ _ _ _ En Ga) as Gn.
  replace (n - va) with (- va + n) by lia.
  destruct a0; cbn in Gn; try discriminate.
  - inv_ok H. cbn. lia.
  - eapply ir_add_int_sound; eauto.
Qed.

(* ------------------------------------------------------------------ __mul__ __rmul__ *)
Lemma ir_mul_sound : forall a c rv rho va vc,
  ir_mul a c = Ok rv -> gamma a rho va -> gamma_val c rho vc -> gamma_val rv rho (va * vc).
Proof.
  intros [ab al ah] c rv rho va vc H Ga Gc. unfold ir_mul in H. destruct c; try discriminate.
  cbn in Gc; subst vc.
  break_in H; inv_ok H; prep; try (cbn; lia); solve_gamma; nia.
Qed.

Lemma ir_rmul_sound : forall a c rv rho va vc,
  ir_rmul a c = Ok rv -> gamma a rho va -> gamma_val c rho vc -> gamma_val rv rho (vc * va).
Proof.
  intros a c rv rho va vc H Ga Gc. unfold ir_rmul in H. destruct c; try discriminate.
  rewrite Z.mul_comm. eapply ir_mul_sound; eauto.
Qed.

(* ------------------------------------------------------------------ __floordiv__ (guard 0 < c) *)
Lemma ir_floordiv_sound : forall a c rv rho va vc,
  ir_floordiv a c = Ok rv -> gamma a rho va -> gamma_val c rho vc -> 0 < vc ->
  gamma_val rv rho (va / vc).
Proof.
  intros [ab al ah] c rv rho va vc H Ga Gc Hc. unfold ir_floordiv in H. destruct c; try discriminate.
  cbn in Gc; subst vc.
  break_in H; inv_ok H; try lia; prep.
  all: try (solve_gamma; rewrite ?Z.sub_0_r in *; repeat split; try (apply Z.div_le_mono; lia); fail).
  all: try (eexists; split;
            [ cbn [ieval eval_bop]; repeat match goal with H : ieval _ _ = Some _ |- _ => rewrite H end;
              cbn [eval_bop]; destruct (0 <? n) eqn:En; [reflexivity | lia]
            | try lia ]).
  all: try match goal with
       | Hb : ieval _ _ = Some ?b, Hx : ?l <= ?v - ?b <= ?h |- _ =>
           pose proof (div_shift_bounds n b (v - b) l h Hc Hx) as D;
           replace (b + (v - b)) with v in D by lia; lia
       end.
Qed.

(* ------------------------------------------------------------------ __mod__ (guard 0 < c) *)
Lemma ir_mod_sound : forall a c rv rho va vc,
  ir_mod a c = Ok rv -> gamma a rho va -> gamma_val c rho vc -> 0 < vc ->
  gamma_val rv rho (va mod vc).
Proof.
  intros [ab al ah] c rv rho va vc H Ga Gc Hc. unfold ir_mod in H. destruct c; try discriminate.
  cbn in Gc; subst vc. pose proof (Z.mod_pos_bound va n Hc).
  break_in H; inv_ok H; try lia; prep; solve_gamma.
  rewrite ?Z.sub_0_r in *.
  match goal with E : (_ / _ =? _ / _) = true |- _ => apply Z.eqb_eq in E;
    pose proof (same_quot_mod n va _ _ Hc ltac:(eassumption) E) end. lia.
Qed.

(* ------------------------------------------------------------------ Python operator protocol level *)
Ltac py_case L R :=
  first [ match goal with H : Ok _ = Ok _ |- _ => inv_ok H; cbn; lia end
        | match goal with H : (if ?b then _ else _) = Ok _ |- _ =>
            destruct b; [discriminate | inv_ok H; cbn; lia] end
        | eapply L; eauto; reflexivity
        | eapply R; eauto; reflexivity ].

Lemma py_add_sound : forall x y rv rho vx vy,
  py_add x y = Ok rv -> gamma_val x rho vx -> gamma_val y rho vy -> gamma_val rv rho (vx + vy).
Proof.
  intros x y rv rho vx vy H Gx Gy. unfold py_add in H.
  destruct x, y; cbn [gamma_val] in Gx, Gy; try contradiction; try discriminate; subst;
    py_case ir_add_sound ir_radd_sound.
Qed.

Lemma py_sub_sound : forall x y rv rho vx vy,
  py_sub x y = Ok rv -> gamma_val x rho vx -> gamma_val y rho vy -> gamma_val rv rho (vx - vy).
Proof.
  intros x y rv rho vx vy H Gx Gy. unfold py_sub in H.
  destruct x, y; cbn [gamma_val] in Gx, Gy; try contradiction; try discriminate; subst;
    py_case ir_sub_sound ir_rsub_sound.
Qed.

Lemma py_mul_sound : forall x y rv rho vx vy,
  py_mul x y = Ok rv -> gamma_val x rho vx -> gamma_val y rho vy -> gamma_val rv rho (vx * vy).
Proof.
  intros x y rv rho vx vy H Gx Gy. unfold py_mul in H.
  destruct x, y; cbn [gamma_val] in Gx, Gy; try contradiction; try discriminate; subst;
    py_case ir_mul_sound ir_rmul_sound.
Qed.

Lemma py_floordiv_sound : forall x y rv rho vx vy,
  py_floordiv x y = Ok rv -> gamma_val x rho vx -> gamma_val y rho vy -> 0 < vy ->
  gamma_val rv rho (vx / vy).
Proof.
  intros x y rv rho vx vy H Gx Gy Hc. unfold py_floordiv in H.
  destruct x, y; cbn [gamma_val] in Gx, Gy; try contradiction; try discriminate; subst;
    py_case ir_floordiv_sound ir_floordiv_sound.
Qed.

Lemma py_mod_sound : forall x y rv rho vx vy,
  py_mod x y = Ok rv -> gamma_val x rho vx -> gamma_val y rho vy -> 0 < vy ->
  gamma_val rv rho (vx mod vy).
Proof.
  intros x y rv rho vx vy H Gx Gy Hc. unfold py_mod in H.
  destruct x, y; cbn [gamma_val] in Gx, Gy; try contradiction; try discriminate; subst;
    py_case ir_mod_sound ir_mod_sound.
Qed.

Lemma py_neg_sound : forall x rv rho vx,
  py_neg x = Ok rv -> gamma_val x rho vx -> gamma_val rv rho (- vx).
Proof.
  intros x rv rho vx H Gx. unfold py_neg in H. destruct x; cbn [gamma_val] in Gx; try contradiction.
  - inv_ok H. cbn. lia.
  - eapply ir_neg_sound; eauto.
Qed.

(* All six at once, as stated in DESIGN.md (C13_ops). *)
Definition ops_sound : Prop :=
  (forall x y rv rho vx vy, py_add x y = Ok rv -> gamma_val x rho vx -> gamma_val y rho vy ->
      gamma_val rv rho (vx + vy)) /\
  (forall x y rv rho vx vy, py_sub x y = Ok rv -> gamma_val x rho vx -> gamma_val y rho vy ->
      gamma_val rv rho (vx - vy)) /\
  (forall x y rv rho vx vy, py_mul x y = Ok rv -> gamma_val x rho vx -> gamma_val y rho vy ->
      gamma_val rv rho (vx * vy)) /\
  (forall x y rv rho vx vy, py_floordiv x y = Ok rv -> gamma_val x rho vx -> gamma_val y rho vy ->
      0 < vy -> gamma_val rv rho (vx / vy)) /\
  (forall x y rv rho vx vy, py_mod x y = Ok rv -> gamma_val x rho vx -> gamma_val y rho vy ->
      0 < vy -> gamma_val rv rho (vx mod vy)) /\
  (forall x rv rho vx, py_neg x = Ok rv -> gamma_val x rho vx -> gamma_val rv rho (- vx)).

Lemma ops_sound_holds : ops_sound.
Proof.
  unfold ops_sound. repeat split.
  - exact py_add_sound. - exact py_sub_sound. - exact py_mul_sound.
  - exact py_floordiv_sound. - exact py_mod_sound. - exact py_neg_sound.
Qed.

(* the hypotheses are satisfiable: (i + [0,3]) // 4 at i = 5, offset 2 *)
Example ops_sound_nonvacuous :
  let i := mksym 1 1 in
  let rho : valuation := fun _ => 5 in
  exists rv, py_floordiv (RRange (mkrange (IVar i) (Some 0) (Some 3))) (RInt 4) = Ok rv /\
             gamma_val (RRange (mkrange (IVar i) (Some 0) (Some 3))) rho 7 /\
             gamma_val (RInt 4) rho 4 /\ gamma_val rv rho (7 / 4).
Proof.
  cbv zeta. eexists. split; [vm_compute; reflexivity|]. split; [|split].
  - exists 5. split; [reflexivity|]. unfold in_itv; cbn [lo hi]; lia.
  - reflexivity.
  - exists 1. split; [reflexivity|]. unfold in_itv; cbn [lo hi]. change (7 / 4) with 1. lia.
Qed.

(* ------------------------------------------------------------------ __or__ ("join") *)
(* The join over-approximates the union of its operands provided the two bases that LoopIR_Compare
   identifies (it compares Sym NAMES, not Syms) have the same value. *)
Lemma ir_or_sound : forall a b rv rho v,
  ir_or a (RRange b) = Ok rv ->
  (match_e (base a) (base b) = true -> ieval rho (base a) = ieval rho (base b)) ->
  gamma a rho v \/ gamma b rho v -> gamma_val rv rho v.
Proof.
  intros [ab al ah] [bb bl bh] rv rho v H Hm G. cbn [base lo hi] in *.
  destruct (match_e ab bb) eqn:Em.
  - specialize (Hm eq_refl).
    assert (G' : exists b, ieval rho ab = Some b /\ (in_itv al ah (v - b) \/ in_itv bl bh (v - b))).
    { destruct G as [[b [Hb Hi]]|[b [Hb Hi]]]; exists b; cbn [base lo hi] in *; split; auto.
      rewrite Hm; auto. }
    clear G Hm. destruct G' as [b [Hb Hi]].
    unfold ir_or in H; cbn [base lo hi] in H; cbv beta zeta in H; rewrite Em in H.
    destruct al as [al|], bl as [bl|], ah as [ah|], bh as [bh|];
      break_in H; inv_ok H; cbn [gamma_val]; exists b; (split; [assumption|]);
      unfold in_itv in *; cbn [lo hi] in *; lia.
  - unfold ir_or in H; cbn [base lo hi] in H; cbv beta zeta in H; rewrite Em in H.
    break_in H; inv_ok H; cbn [gamma_val]; exists 0; (split; [reflexivity|]);
    unfold create_unbounded, in_itv; cbn [lo hi]; auto.
Qed.

Example ir_or_sound_nonvacuous :
  exists rv, ir_or (mkrange (IConst 0) (Some 0) None) (RRange (mkrange (IConst 0) (Some 5) (Some 7))) = Ok rv
             /\ gamma_val rv (fun _ => 0) 60.
Proof.
  eexists. split; [vm_compute; reflexivity|]. exists 0. split; [reflexivity|].
  unfold in_itv; cbn [lo hi]. lia.
Qed.

(* Without that hypothesis the join is NOT sound: two different Syms with the same name are taken to
   be the same base.  Reachable through the API: divide_loop(p, "i", 4, ["o", "n"]) in a proc with a
   size argument n, then bounds_inference over x[n_loop], x[n_size]. *)
Lemma ir_or_name_refuted :
  exists a b rv rho v, ir_or a (RRange b) = Ok rv /\ gamma b rho v /\ ~ gamma_val rv rho v.
Proof.
  exists (mkrange (IVar (mksym 1 1)) (Some 0) (Some 0)), (mkrange (IVar (mksym 1 2)) (Some 0) (Some 0)).
  eexists. exists (fun s => if sid s =? 2 then 10 else 0), 10. split; [vm_compute; reflexivity|]. split.
  - exists 10. split; [reflexivity|]. unfold in_itv; cbn [lo hi]. lia.
  - cbn. intros [b [Hb Hi]]. cbn in Hb. injection Hb as <-. unfold in_itv in Hi; cbn [lo hi] in Hi. lia.
Qed.

(* match_e implies equal values as soon as equally named symbols have equal values *)
Definition name_determined (rho : valuation) : Prop :=
  forall x y, sname x = sname y -> rho x = rho y.

Lemma bop_eqb_eq : forall a b, bop_eqb a b = true -> a = b.
Proof. destruct a, b; cbn; congruence. Qed.

Lemma match_e_eval : forall rho, name_determined rho ->
  forall a b, match_e a b = true -> ieval rho a = ieval rho b.
Proof.
  intros rho ND a. induction a as [x|c|a IHa|op a1 IH1 a2 IH2]; intros b H; destruct b; cbn [match_e] in H;
    try discriminate; cbn [ieval].
  - apply Z.eqb_eq in H. rewrite (ND _ _ H). reflexivity.
  - apply Z.eqb_eq in H. subst. reflexivity.
  - rewrite (IHa _ H). reflexivity.
  - apply andb_true_iff in H as [H H2]. apply andb_true_iff in H as [H0 H1].
    apply bop_eqb_eq in H0. subst. rewrite (IH1 _ H1), (IH2 _ H2). reflexivity.
Qed.

(* ------------------------------------------------------------------ _check_range *)
Definition cmp_holds (op : cmpop) (x y : Z) : Prop :=
  match op with CLt => x < y | CLeq => x <= y | CEq => x = y end.

Lemma check_range_sound : forall r0 op r1 v0 v1,
  check_range r0 op r1 = true ->
  in_itv (fst r0) (snd r0) v0 -> in_itv (fst r1) (snd r1) v1 -> cmp_holds op v0 v1.
Proof.
  intros [l0 h0] op [l1 h1] v0 v1 H I0 I1. unfold check_range in H. cbn [fst snd] in *.
  unfold in_itv in *.
  break_in H; destruct op; cbn [cmpop_eqb] in *; try discriminate; cbn [cmp_holds]; lia.
Qed.

Example check_range_nonvacuous : check_range (Some 0, Some 3) CLt (Some 4, None) = true.
Proof. reflexivity. Qed.
