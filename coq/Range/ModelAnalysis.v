(* Range/ModelAnalysis.v — HAND-WRITTEN model (executable Gallina, no proofs) of the parts of
   /repo/src/exo/rewrite/range_analysis.py and /repo/src/exo/stdlib/range_analysis.py that sit on top of
   the translated IndexRange arithmetic (Gen_Range.v).  Tied to the code by differential execution
   (harness/props/C13.py), not by the translator.

     rewrite/range_analysis.py   index_range_analysis (254-302), constant_bound (305-319),
                                 arg_range_analysis fast mode (338-342),
                                 IndexRangeEnvironment: __init__, enter_scope, exit_scope, add_loop_iter,
                                 check_expr_bound, check_expr_bounds (404-491; _check_range is translated),
                                 IndexRange.get_stride_of (64-96), partial_eval_with_range (98-110),
                                 get_size (112-115)
     stdlib/range_analysis.py    index_range_analysis, constant_bound, infer_range, bounds_inference
     LoopIR_scheduling.py        index_range_analysis_wrapper (3684), merge_index_ranges (3693)           *)
From Coq Require Import ZArith List Bool.
From Range Require Import Model Gen_Range.
Import ListNotations.
Open Scope Z_scope.

(* ------------------------------------------------------------------ environments *)
(* A Python dict / one map of a ChainMap: association list, most recent assignment first. *)
Definition scope := list (sym * bounds).
(* collections.ChainMap: list of maps, innermost (maps[0]) first. *)
Definition renv := list scope.

Fixpoint scope_lookup (m : scope) (x : sym) : option bounds :=
  match m with
  | [] => None
  | (y, b) :: m' => if sym_eqb y x then Some b else scope_lookup m' x
  end.

Fixpoint env_lookup (env : renv) (x : sym) : option bounds :=
  match env with
  | [] => None
  | m :: env' => match scope_lookup m x with Some b => Some b | None => env_lookup env' x end
  end.

(* ChainMap.__setitem__ writes into maps[0] *)
Definition env_set (env : renv) (x : sym) (b : bounds) : renv :=
  match env with
  | m :: env' => ((x, b) :: m) :: env'
  | [] => [[(x, b)]]
  end.

(* ChainMap.new_child() / .parents (parents of a single-map chain is a fresh empty chain) *)
Definition enter_scope (env : renv) : renv := [] :: env.
Definition exit_scope (env : renv) : renv :=
  match env with
  | _ :: m :: env' => m :: env'
  | _ => [[]]
  end.

(* ------------------------------------------------------------------ index_range_analysis *)
Definition py_binop (op : bop) (a b : rval) : res rval :=
  match op with
  | OAdd => py_add a b
  | OSub => py_sub a b
  | OMul => py_mul a b
  | ODiv => py_floordiv a b
  | OMod => py_mod a b
  end.

(* analyze_range (range_analysis.py:268-300); both operands are analysed before the operator is applied.
   Not modelled: the `expr.type.is_indexable()` ValueError (all modelled expressions are index-typed). *)
Fixpoint analyze (env : renv) (e : iexpr) : res rval :=
  match e with
  | IVar x =>
      match env_lookup env x with
      | None => Ok (RRange (mkrange (IVar x) (Some 0) (Some 0)))
      | Some (l, h) => Ok (RRange (create_constant_range l h))
      end
  | IConst c => Ok (RInt c)
  | INeg a => bind (analyze env a) py_neg
  | IBin op a b =>
      bind (analyze env a) (fun x => bind (analyze env b) (fun y => py_binop op x y))
  end.

(* arguments of constant_bound / check_expr_bound are LoopIR expressions or plain Python ints *)
Inductive cb_arg := AInt (n : Z) | AExpr (e : iexpr).

Definition bounds_of_rval (r : rval) : res bounds :=
  match r with
  | RInt n => Ok (Some n, Some n)
  | RRange r => if negb (is_zero (base r)) then Ok (None, None) else Ok (lo r, hi r)
  | RErrV => Err EAttr       (* `idx_rng.base` on the ValueError object *)
  end.

Definition constant_bound (a : cb_arg) (env : renv) : res bounds :=
  match a with
  | AInt n => Ok (Some n, Some n)
  | AExpr e => bind (analyze env e) bounds_of_rval
  end.

(* ------------------------------------------------------------------ IndexRangeEnvironment *)
(* __init__: one map; every argument of type `size` gets the range given by arg_range_analysis.
   fast mode: (1, None).  In slow mode the range comes from an SMT query (oracle: given as input). *)
Definition fast_size_bounds : bounds := (Some 1, None).

Definition init_env (size_args : list (sym * bounds)) : renv :=
  [fold_left (fun m sb => sb :: m) size_args []].

Definition init_env_fast (size_args : list sym) : renv :=
  init_env (map (fun s => (s, fast_size_bounds)) size_args).

Definition loop_iter_bounds (l h : option Z) : bounds :=
  let h' := match h with Some h0 => Some (h0 - 1) | None => None end in
  match l, h' with
  | Some a, Some b => if a >? b then (None, None) else (l, h')
  | _, _ => (l, h')
  end.

Definition add_loop_iter (env : renv) (x : sym) (lo_e hi_e : cb_arg) : res renv :=
  bind (constant_bound lo_e env) (fun bl =>
  bind (constant_bound hi_e env) (fun bh =>
  Ok (env_set env x (loop_iter_bounds (fst bl) (snd bh))))).

Definition check_expr_bound (env : renv) (e0 : cb_arg) (op : cmpop) (e1 : cb_arg) : res bool :=
  bind (constant_bound e0 env) (fun r0 =>
  bind (constant_bound e1 env) (fun r1 =>
  Ok (check_range r0 op r1))).

Definition check_expr_bounds (env : renv) (e0 : cb_arg) (op0 : cmpop) (e1 : cb_arg) (op1 : cmpop) (e2 : cb_arg)
  : res bool :=
  bind (constant_bound e0 env) (fun r0 =>
  bind (constant_bound e1 env) (fun r1 =>
  bind (constant_bound e2 env) (fun r2 =>
  Ok (check_range r0 op0 r1 && check_range r1 op1 r2)))).

(* ------------------------------------------------------------------ get_stride_of / partial_eval_with_range *)
(* get_coeff (range_analysis.py:67-94): raises ValueError on / and % *)
Fixpoint get_coeff (idx : sym) (e : iexpr) : res Z :=
  match e with
  | IVar x => Ok (if sym_eqb x idx then 1 else 0)
  | IConst c => Ok c
  | IBin op a b =>
      bind (get_coeff idx a) (fun l => bind (get_coeff idx b) (fun r =>
        match op with
        | OAdd => Ok (l + r)
        | OSub => Ok (l - r)
        | OMul => Ok (l * r)
        | _ => Err EValue
        end))
  | INeg a => bind (get_coeff idx a) (fun c => Ok (- c))
  end.

Definition get_stride_of (r : irange) (idx : sym) : res Z := get_coeff idx (base r).

(* range_analysis.py:98-114 (after the repair that keeps self.lo / self.hi) *)
Definition partial_eval_with_range (self : irange) (var : sym) (rng : irange) : res rval :=
  bind (get_stride_of self var) (fun c =>
    if c =? 0 then Ok (RRange self)
    else
      bind (analyze [[(var, (lo rng, hi rng))]] (base self)) (fun nb0 =>
        let nb1 := match nb0 with RInt n => RRange (create_int n) | _ => nb0 end in
        bind (py_add nb1 (RRange (mkrange zero (lo self) (hi self)))) (fun nb =>
          if is_zero (base rng) then Ok nb
          else py_add nb (RRange (mkrange (IBin OMul (IConst c) (base rng)) (Some 0) (Some 0)))))).

Definition get_size (r : irange) : option Z :=
  match lo r, hi r with
  | Some l, Some h => Some (h - l + 1)
  | _, _ => None
  end.

(* LoopIR_scheduling.index_range_analysis_wrapper: empty environment, ints become point ranges *)
Definition analysis_wrapper (e : iexpr) : res rval :=
  bind (analyze [] e) (fun r =>
    match r with
    | RInt n => Ok (RRange (create_int n))
    | RRange r => Ok (RRange r)
    | RErrV => Err EAssert
    end).

(* LoopIR_scheduling.merge_index_ranges *)
Definition merge_index_ranges (x y : option irange) : res (option irange) :=
  match x, y with
  | None, _ => Ok y
  | _, None => Ok x
  | Some a, Some b =>
      bind (ir_or a (RRange b)) (fun r => match r with RRange r => Ok (Some r) | _ => Err EDead end)
  end.

(* ------------------------------------------------------------------ user level: stdlib/range_analysis.py *)
(* The user-level environment is a dict keyed by the NAME STRING of the loop variable. *)
Definition uenv := list (Z * bounds).

Fixpoint uenv_lookup (m : uenv) (n : Z) : option bounds :=
  match m with
  | [] => None
  | (k, b) :: m' => if k =? n then Some b else uenv_lookup m' n
  end.

Fixpoint u_analyze (env : uenv) (e : iexpr) : res rval :=
  match e with
  | IVar x =>
      match uenv_lookup env (sname x) with
      | None => Ok (RRange (mkrange (IVar x) (Some 0) (Some 0)))
      | Some (l, h) => Ok (RRange (create_constant_range l h))
      end
  | IConst c => Ok (RInt c)
  | INeg a => bind (u_analyze env a) py_neg
  | IBin op a b =>
      bind (u_analyze env a) (fun x => bind (u_analyze env b) (fun y => py_binop op x y))
  end.

(* stdlib constant_bound: `if idx_rng.base is not None: return (None, None)` — base is never None *)
Definition u_bounds_of_rval (r : rval) : res bounds :=
  match r with
  | RInt n => Ok (Some n, Some n)
  | RRange _ => Ok (None, None)
  | RErrV => Err EAttr
  end.

Definition u_constant_bound (e : iexpr) (env : uenv) : res bounds :=
  bind (u_analyze env e) u_bounds_of_rval.

(* one enclosing loop: name of the iteration variable (as a Sym), lo, hi *)
Definition uloop := (sym * iexpr * iexpr)%type.

(* infer_range: loops are the ForCursor ancestors between the expression and the scope (exclusive),
   in the order get_parents yields them: INNERMOST FIRST. *)
Fixpoint u_build_env (loops : list uloop) (env : uenv) : res uenv :=
  match loops with
  | [] => Ok env
  | (x, lo_e, hi_e) :: rest =>
      bind (u_constant_bound lo_e env) (fun bl =>
      bind (u_constant_bound hi_e env) (fun bh =>
      let h := match snd bh with Some h0 => Some (h0 - 1) | None => None end in
      u_build_env rest ((sname x, (fst bl, h)) :: env)))
  end.

Definition u_infer_range (loops : list uloop) (e : iexpr) : res rval :=
  bind (u_build_env loops []) (fun env =>
  bind (u_analyze env e) (fun r =>
    match r with
    | RInt n => Ok (RRange (create_int n))
    | _ => Ok r
    end)).

(* bounds_inference: fold of `bound |= cur` over the matched accesses, None = nothing seen yet *)
Definition u_join (bound : option rval) (cur : rval) : res (option rval) :=
  match bound with
  | None => Ok (Some cur)
  | Some (RRange b) => bind (ir_or b cur) (fun r => Ok (Some r))
  | Some _ => Err ETypeError
  end.

Fixpoint u_bounds_inference_from (accs : list (list uloop * iexpr)) (bound : option rval)
  : res (option rval) :=
  match accs with
  | [] => Ok bound
  | (loops, e) :: rest =>
      bind (u_infer_range loops e) (fun cur =>
      bind (u_join bound cur) (fun b => u_bounds_inference_from rest b))
  end.

Definition u_bounds_inference (accs : list (list uloop * iexpr)) : res (option rval) :=
  u_bounds_inference_from accs None.
