(* Range/ProofsAnalysis.v — soundness of index_range_analysis, constant_bound and
   IndexRangeEnvironment (hand-written model ModelAnalysis.v on top of the translated arithmetic). *)
From Coq Require Import ZArith List Bool Lia ZifyBool.
From Range Require Import Model Gen_Range ModelAnalysis ProofsOps.
Import ListNotations.
Open Scope Z_scope.

(* ------------------------------------------------------------------ symbols *)
Lemma sym_eqb_eq : forall a b, sym_eqb a b = true <-> a = b.
Proof.
  intros [n1 i1] [n2 i2]. unfold sym_eqb; cbn [sname sid]. split.
  - intros H. apply andb_true_iff in H as [A B]. apply Z.eqb_eq in A, B. subst. reflexivity.
  - intros H. injection H as -> ->. rewrite !Z.eqb_refl. reflexivity.
Qed.

Lemma sym_eqb_refl : forall a, sym_eqb a a = true.
Proof. intros. apply sym_eqb_eq. reflexivity. Qed.

Lemma sym_eqb_neq : forall a b, sym_eqb a b = false <-> a <> b.
Proof.
  intros a b. split.
  - intros H E. apply sym_eqb_eq in E. congruence.
  - intros H. destruct (sym_eqb a b) eqn:E; auto. apply sym_eqb_eq in E. contradiction.
Qed.

(* ------------------------------------------------------------------ sound environments *)
(* every range recorded for a symbol contains the symbol's value *)
Definition env_sound (env : renv) (rho : valuation) : Prop :=
  forall x l h, env_lookup env x = Some (l, h) -> in_itv l h (rho x).

Definition aeval (rho : valuation) (a : cb_arg) : option Z :=
  match a with AInt n => Some n | AExpr e => ieval rho e end.

Lemma env_lookup_set : forall env x b y,
  env_lookup (env_set env x b) y = if sym_eqb x y then Some b else env_lookup env y.
Proof.
  intros [|m env] x b y; cbn; destruct (sym_eqb x y); reflexivity.
Qed.

Lemma env_lookup_enter : forall env x, env_lookup (enter_scope env) x = env_lookup env x.
Proof. reflexivity. Qed.

(* leaving the scope of a loop restores exactly the bindings visible before it was entered *)
Lemma env_lookup_exit_set_enter : forall env x b y,
  env_lookup (exit_scope (env_set (enter_scope env) x b)) y = env_lookup env y.
Proof. intros [|m env] x b y; reflexivity. Qed.

Lemma env_lookup_exit_enter : forall env y,
  env_lookup (exit_scope (enter_scope env)) y = env_lookup env y.
Proof. intros [|m env] y; reflexivity. Qed.

Lemma env_sound_enter : forall env rho, env_sound env rho -> env_sound (enter_scope env) rho.
Proof. intros env rho H x l h. rewrite env_lookup_enter. apply H. Qed.

Lemma env_sound_exit : forall env rho x b,
  env_sound env rho -> env_sound (exit_scope (env_set (enter_scope env) x b)) rho.
Proof. intros env rho x b H y l h. rewrite env_lookup_exit_set_enter. apply H. Qed.

(* ------------------------------------------------------------------ index_range_analysis *)
Lemma py_binop_sound : forall op x y rv rho vx vy v,
  py_binop op x y = Ok rv -> gamma_val x rho vx -> gamma_val y rho vy ->
  eval_bop op vx vy = Some v -> gamma_val rv rho v.
Proof.
  intros op x y rv rho vx vy v H Gx Gy E. destruct op; cbn [py_binop eval_bop] in *.
  - injection E as <-. eapply py_add_sound; eauto.
  - injection E as <-. eapply py_sub_sound; eauto.
  - injection E as <-. eapply py_mul_sound; eauto.
  - destruct (0 <? vy) eqn:P; try discriminate. injection E as <-.
    eapply py_floordiv_sound; eauto. lia.
  - destruct (0 <? vy) eqn:P; try discriminate. injection E as <-.
    eapply py_mod_sound; eauto. lia.
Qed.

Theorem analyze_sound : forall env rho, env_sound env rho ->
  forall e rv v, analyze env e = Ok rv -> ieval rho e = Some v -> gamma_val rv rho v.
Proof.
  intros env rho Henv e. induction e as [x|c|a IHa|op a IHa b IHb]; intros rv v H E; cbn [analyze ieval] in *.
  - injection E as <-. destruct (env_lookup env x) as [[l h]|] eqn:L.
    + inv_ok H. specialize (Henv _ _ _ L). cbn [gamma_val]. exists 0. split; [reflexivity|].
      unfold create_constant_range; cbn [lo hi]. rewrite Z.sub_0_r. exact Henv.
    + inv_ok H. cbn [gamma_val]. exists (rho x). split; [reflexivity|].
      unfold in_itv; cbn [lo hi]. lia.
  - inv_ok H. injection E as <-. reflexivity.
  - destruct (analyze env a) as [ra|] eqn:A; cbn [bind] in H; try discriminate.
    destruct (ieval rho a) as [va|] eqn:Ea; try discriminate. injection E as <-.
    eapply py_neg_sound; eauto.
  - destruct (analyze env a) as [ra|] eqn:A; cbn [bind] in H; try discriminate.
    destruct (analyze env b) as [rb|] eqn:B; cbn [bind] in H; try discriminate.
    destruct (ieval rho a) as [va|] eqn:Ea; try discriminate.
    destruct (ieval rho b) as [vb|] eqn:Eb; try discriminate.
    eapply py_binop_sound; eauto.
Qed.

Example analyze_sound_nonvacuous :
  let i := mksym 1 1 in
  let env := [[(i, (Some 0, Some 7))]] in
  let e := IMod (IAdd (IMul (IVar i) (IConst (-3))) (IConst 2)) (IConst 4) in
  env_sound env (fun _ => 5) /\ (exists rv, analyze env e = Ok rv) /\ ieval (fun _ => 5) e = Some 3.
Proof.
  cbv zeta. split; [|split].
  - intros x l h. cbn. destruct (sym_eqb _ x); intros H; try discriminate. injection H as <- <-.
    unfold in_itv. lia.
  - eexists. vm_compute. reflexivity.
  - vm_compute. reflexivity.
Qed.

(* ------------------------------------------------------------------ constant_bound *)
Lemma bounds_of_rval_sound : forall r bd rho v,
  bounds_of_rval r = Ok bd -> gamma_val r rho v -> in_itv (fst bd) (snd bd) v.
Proof.
  intros r bd rho v H G. destruct r as [n|r|]; cbn [bounds_of_rval] in H; try discriminate.
  - inv_ok H. cbn in *. unfold in_itv. lia.
  - destruct (is_zero (base r)) eqn:Z; cbn [negb] in H; inv_ok H.
    + apply is_zero_true in Z. destruct G as [b [Hb Hi]]. rewrite Z in Hb. cbn in Hb.
      injection Hb as <-. rewrite Z.sub_0_r in Hi. exact Hi.
    + unfold in_itv; cbn. auto.
Qed.

Theorem constant_bound_sound : forall env rho a bd v,
  env_sound env rho -> constant_bound a env = Ok bd -> aeval rho a = Some v ->
  in_itv (fst bd) (snd bd) v.
Proof.
  intros env rho a bd v Henv H E. destruct a as [n|e]; cbn [constant_bound aeval] in *.
  - inv_ok H. injection E as <-. unfold in_itv; cbn. lia.
  - destruct (analyze env e) as [r|] eqn:A; cbn [bind] in H; try discriminate.
    eapply bounds_of_rval_sound; eauto. eapply analyze_sound; eauto.
Qed.

(* ------------------------------------------------------------------ IndexRangeEnvironment *)
Lemma scope_lookup_in : forall m x b, scope_lookup m x = Some b -> In (x, b) m.
Proof.
  induction m as [|[y c] m IH]; intros x b H; cbn in H; try discriminate.
  destruct (sym_eqb y x) eqn:E.
  - apply sym_eqb_eq in E. injection H as <-. subst. left. reflexivity.
  - right. apply IH. exact H.
Qed.

Lemma fold_left_cons_in : forall (A : Type) (l : list A) (acc : list A) (a : A),
  In a (fold_left (fun m x => x :: m) l acc) -> In a l \/ In a acc.
Proof.
  induction l as [|y l IH]; intros acc a H; cbn in H.
  - right. exact H.
  - apply IH in H as [H|H].
    + left. right. exact H.
    + destruct H as [H|H]; [left; left; exact H | right; exact H].
Qed.

(* __init__: sound as soon as every recorded argument range is (fast mode: sizes are >= 1;
   slow mode: whatever the SMT oracle answered, assumed correct) *)
Theorem init_env_sound : forall args rho,
  (forall s b, In (s, b) args -> in_itv (fst b) (snd b) (rho s)) -> env_sound (init_env args) rho.
Proof.
  intros args rho H x l h L. unfold init_env in L. cbn [env_lookup] in L.
  destruct (scope_lookup _ x) as [b|] eqn:S; try discriminate. injection L as ->.
  apply scope_lookup_in in S. apply fold_left_cons_in in S as [S|[]].
  apply (H _ _ S).
Qed.

Theorem init_env_fast_sound : forall sizes rho,
  (forall s, In s sizes -> 1 <= rho s) -> env_sound (init_env_fast sizes) rho.
Proof.
  intros sizes rho H. apply init_env_sound. intros s b I. apply in_map_iff in I as [s' [E I]].
  injection E as <- <-. unfold in_itv, fast_size_bounds; cbn. split; auto.
Qed.

Example init_env_fast_nonvacuous : env_sound (init_env_fast [mksym 1 1]) (fun _ => 4).
Proof. apply init_env_fast_sound. intros; lia. Qed.

Lemma loop_iter_bounds_sound : forall l h vl vh x,
  in_itv l None vl -> in_itv None h vh -> vl <= x < vh ->
  in_itv (fst (loop_iter_bounds l h)) (snd (loop_iter_bounds l h)) x.
Proof.
  intros l h vl vh x Il Ih Hx. unfold loop_iter_bounds, in_itv in *.
  destruct l as [l|], h as [h|]; cbn [fst snd] in *;
    try (destruct (l >? h - 1) eqn:E); cbn [fst snd]; lia.
Qed.

(* add_loop_iter: inside the body of `for x in seq(lo, hi)` (lo <= x < hi, with lo and hi evaluated
   in the enclosing scope) the extended environment is sound for the extended valuation *)
Theorem add_loop_iter_sound : forall env rho x lo_e hi_e env' vl vh vx,
  env_sound env rho ->
  add_loop_iter env x lo_e hi_e = Ok env' ->
  aeval rho lo_e = Some vl -> aeval rho hi_e = Some vh -> vl <= vx < vh ->
  env_sound env' (upd rho x vx).
Proof.
  intros env rho x lo_e hi_e env' vl vh vx Henv H El Eh Hx. unfold add_loop_iter in H.
  destruct (constant_bound lo_e env) as [bl|] eqn:Cl; cbn [bind] in H; try discriminate.
  destruct (constant_bound hi_e env) as [bh|] eqn:Ch; cbn [bind] in H; try discriminate.
  inv_ok H.
  pose proof (constant_bound_sound _ _ _ _ _ Henv Cl El) as Il.
  pose proof (constant_bound_sound _ _ _ _ _ Henv Ch Eh) as Ih.
  intros y l h L. rewrite env_lookup_set in L. unfold upd.
  destruct (sym_eqb x y) eqn:E.
  - injection L as L.
    pose proof (loop_iter_bounds_sound (fst bl) (snd bh) vl vh vx) as S.
    rewrite L in S. cbn [fst snd] in S. apply S; auto.
    + unfold in_itv in *. tauto.
    + unfold in_itv in *. tauto.
  - apply Henv. exact L.
Qed.

Example add_loop_iter_nonvacuous :
  exists env', add_loop_iter (init_env_fast [mksym 1 1]) (mksym 2 2) (AInt 0) (AExpr (IConst 8)) = Ok env'
               /\ env_lookup env' (mksym 2 2) = Some (Some 0, Some 7).
Proof. eexists. split; vm_compute; reflexivity. Qed.

(* check_expr_bound / check_expr_bounds: a positive answer is a fact about every valuation the
   environment admits *)
Theorem check_expr_bound_sound : forall env rho e0 op e1 v0 v1,
  env_sound env rho -> check_expr_bound env e0 op e1 = Ok true ->
  aeval rho e0 = Some v0 -> aeval rho e1 = Some v1 -> cmp_holds op v0 v1.
Proof.
  intros env rho e0 op e1 v0 v1 Henv H E0 E1. unfold check_expr_bound in H.
  destruct (constant_bound e0 env) as [r0|] eqn:C0; cbn [bind] in H; try discriminate.
  destruct (constant_bound e1 env) as [r1|] eqn:C1; cbn [bind] in H; try discriminate.
  injection H as H.
  eapply check_range_sound; eauto; eapply constant_bound_sound; eauto.
Qed.

Theorem check_expr_bounds_sound : forall env rho e0 op0 e1 op1 e2 v0 v1 v2,
  env_sound env rho -> check_expr_bounds env e0 op0 e1 op1 e2 = Ok true ->
  aeval rho e0 = Some v0 -> aeval rho e1 = Some v1 -> aeval rho e2 = Some v2 ->
  cmp_holds op0 v0 v1 /\ cmp_holds op1 v1 v2.
Proof.
  intros env rho e0 op0 e1 op1 e2 v0 v1 v2 Henv H E0 E1 E2. unfold check_expr_bounds in H.
  destruct (constant_bound e0 env) as [r0|] eqn:C0; cbn [bind] in H; try discriminate.
  destruct (constant_bound e1 env) as [r1|] eqn:C1; cbn [bind] in H; try discriminate.
  destruct (constant_bound e2 env) as [r2|] eqn:C2; cbn [bind] in H; try discriminate.
  injection H as H. apply andb_true_iff in H as [A B].
  split; eapply check_range_sound; eauto; eapply constant_bound_sound; eauto.
Qed.

Example check_expr_bound_nonvacuous :
  let i := mksym 2 2 in
  check_expr_bound [[(i, (Some 0, Some 7))]] (AInt 0) CLeq (AExpr (IDiv (IVar i) (IConst 2))) = Ok true.
Proof. vm_compute. reflexivity. Qed.

(* ------------------------------------------------------------------ consumers *)
(* LoopIR_compiler.py:1035 — C's truncating `/` is emitted instead of exo_floor_div exactly when
   check_expr_bound(0, <=, a / c) holds; then the quotient is non-negative, hence so is the numerator,
   and truncation = floor. *)
Corollary compiler_c_division_ok : forall env rho a c va vc,
  env_sound env rho ->
  check_expr_bound env (AInt 0) CLeq (AExpr (IDiv a c)) = Ok true ->
  ieval rho a = Some va -> ieval rho c = Some vc -> 0 < vc ->
  Z.quot va vc = va / vc.
Proof.
  intros env rho a c va vc Henv H Ea Ec Hc.
  assert (E : aeval rho (AExpr (IDiv a c)) = Some (va / vc)).
  { cbn. rewrite Ea, Ec. cbn. destruct (0 <? vc) eqn:P; [reflexivity|lia]. }
  pose proof (check_expr_bound_sound env rho (AInt 0) CLeq _ 0 _ Henv H eq_refl E) as G.
  cbn in G.
  assert (0 <= va).
  { destruct (Z_lt_le_dec va 0) as [N|]; auto.
    assert (va / vc < 0) by (apply Z.div_lt_upper_bound; lia). lia. }
  apply Z.quot_div_nonneg; lia.
Qed.

(* LoopIR_scheduling.py:3012/3032 (simplify): `0 <= e < d` as answered by check_expr_bounds justifies
   e / d = 0 and e % d = e *)
Corollary simplify_div_mod_ok : forall env rho e d ve,
  env_sound env rho ->
  check_expr_bounds env (AInt 0) CLeq (AExpr e) CLt (AInt d) = Ok true ->
  ieval rho e = Some ve -> ve / d = 0 /\ ve mod d = ve.
Proof.
  intros env rho e d ve Henv H E.
  destruct (check_expr_bounds_sound env rho _ _ _ _ _ 0 ve d Henv H eq_refl E eq_refl) as [A B].
  cbn in A, B. split; [apply Z.div_small | apply Z.mod_small]; lia.
Qed.

(* ------------------------------------------------------------------ the hypotheses above are satisfiable *)
Example env_sound_example :
  env_sound [[(mksym 2 2, (Some 0, Some 7))]] (fun _ => 5).
Proof.
  intros x l h. cbn. destruct (sym_eqb _ x); intros H; try discriminate. injection H as <- <-.
  unfold in_itv. lia.
Qed.

Example constant_bound_nonvacuous :
  constant_bound (AExpr (IAdd (IVar (mksym 2 2)) (IConst 1))) [[(mksym 2 2, (Some 0, Some 7))]]
  = Ok (Some 1, Some 8)
  /\ aeval (fun _ => 5) (AExpr (IAdd (IVar (mksym 2 2)) (IConst 1))) = Some 6.
Proof. split; vm_compute; reflexivity. Qed.

Example check_expr_bounds_nonvacuous :
  check_expr_bounds [[(mksym 2 2, (Some 0, Some 7))]]
    (AInt 0) CLeq (AExpr (IMod (IVar (mksym 2 2)) (IConst 4))) CLt (AInt 4) = Ok true.
Proof. vm_compute. reflexivity. Qed.

Example compiler_c_division_nonvacuous :
  check_expr_bound [[(mksym 2 2, (Some 0, Some 7))]]
    (AInt 0) CLeq (AExpr (IDiv (IVar (mksym 2 2)) (IConst 2))) = Ok true.
Proof. vm_compute. reflexivity. Qed.

Example simplify_div_mod_nonvacuous :
  check_expr_bounds [[(mksym 2 2, (Some 0, Some 7))]]
    (AInt 0) CLeq (AExpr (IVar (mksym 2 2))) CLt (AInt 8) = Ok true.
Proof. vm_compute. reflexivity. Qed.

Example scope_exit_nonvacuous :
  env_lookup (exit_scope (env_set (enter_scope [[(mksym 2 2, (Some 0, Some 7))]]) (mksym 3 3) (None, None)))
    (mksym 2 2) = Some (Some 0, Some 7).
Proof. vm_compute. reflexivity. Qed.
