#!/bin/bash
# Build the OCaml correspondence driver of the Range engine from the extracted model.
set -e
cd "$(dirname "$0")"
mkdir -p _build
cd _build
timeout 300 coqc -Q .. Range ../extract/Extract.v >extract.log 2>&1 || { cat extract.log; exit 1; }
cp ../extract/driver.ml driver.ml
timeout 300 ocamlfind ocamlopt -w -a -package str range_model.mli range_model.ml driver.ml -o c13_driver >ocaml.log 2>&1 \
  || { cat ocaml.log; exit 1; }
echo "built $(pwd)/c13_driver"
