(* Range/ProofsFold.v — soundness of IndexRange.partial_eval_with_range (the fold-buffer helper that
   eliminates a loop variable from an access window), after the repair that keeps self.lo / self.hi. *)
From Coq Require Import ZArith List Bool Lia ZifyBool.
From Range Require Import Model Gen_Range ModelAnalysis ProofsOps ProofsAnalysis ProofsUser.
Import ListNotations.
Open Scope Z_scope.

(* ------------------------------------------------------------------ which symbols can a result base mention *)
Definition bvars (rv : rval) (P : sym -> Prop) : Prop :=
  match rv with RRange r => forall y, occurs y (base r) -> P y | _ => True end.

Ltac bv_close :=
  cbn [bvars base occurs] in *; unfold binop, create_constant_range, create_unbounded, create_int in *; unfold zero in *;
  cbn [base occurs] in *; intros; intuition eauto.

Lemma ir_add_bvars : forall (P : sym -> Prop) a c rv,
  ir_add a c = Ok rv -> bvars (RRange a) P -> bvars c P -> bvars rv P.
Proof.
  intros P [ab al ah] c rv H Ba Bc. unfold ir_add in H. destruct c as [n|[bb bl bh]|]; try discriminate;
    break_in H; inv_ok H; bv_close.
Qed.

Lemma ir_neg_bvars : forall (P : sym -> Prop) a rv, ir_neg a = Ok rv -> bvars (RRange a) P -> bvars rv P.
Proof.
  intros P [ab al ah] rv H Ba. unfold ir_neg in H. break_in H; inv_ok H; bv_close.
Qed.

Lemma ir_sub_bvars : forall (P : sym -> Prop) a c rv,
  ir_sub a c = Ok rv -> bvars (RRange a) P -> bvars c P -> bvars rv P.
Proof.
  intros P a c rv H Ba Bc. unfold ir_sub in H. destruct c as [n|b|]; try discriminate; cbn [bind] in H.
  - eapply ir_add_bvars; eauto; try exact I.
  - destruct (ir_neg b) eqn:N; cbn [bind] in H; try discriminate.
    eapply ir_add_bvars; eauto. eapply ir_neg_bvars; eauto.
Qed.

Lemma ir_rsub_bvars : forall (P : sym -> Prop) a c rv,
  ir_rsub a c = Ok rv -> bvars (RRange a) P -> bvars rv P.
Proof.
  intros P a c rv H Ba. unfold ir_rsub in H. destruct c as [n|b|]; try discriminate.
  destruct (ir_neg a) as [r|] eqn:N; cbn [bind] in H; try discriminate.
  pose proof (ir_neg_bvars P _ _ N Ba) as Bn.
  destruct r; try discriminate.
  - inv_ok H. exact I.
  - eapply ir_add_bvars; eauto; try exact I.
Qed.

Lemma ir_mul_bvars : forall (P : sym -> Prop) a c rv, ir_mul a c = Ok rv -> bvars (RRange a) P -> bvars rv P.
Proof.
  intros P [ab al ah] c rv H Ba. unfold ir_mul in H. destruct c; try discriminate.
  break_in H; inv_ok H; bv_close.
Qed.

Lemma ir_floordiv_bvars : forall (P : sym -> Prop) a c rv,
  ir_floordiv a c = Ok rv -> bvars (RRange a) P -> bvars rv P.
Proof.
  intros P [ab al ah] c rv H Ba. unfold ir_floordiv in H. destruct c; try discriminate.
  break_in H; inv_ok H; bv_close.
Qed.

Lemma ir_mod_bvars : forall (P : sym -> Prop) a c rv, ir_mod a c = Ok rv -> bvars rv P.
Proof.
  intros P [ab al ah] c rv H. unfold ir_mod in H. destruct c; try discriminate.
  break_in H; inv_ok H; bv_close.
Qed.

Lemma py_add_bvars : forall (P : sym -> Prop) x y rv, py_add x y = Ok rv -> bvars x P -> bvars y P -> bvars rv P.
Proof.
  intros P x y rv H Bx By. unfold py_add in H. destruct x, y; try discriminate;
    try (inv_ok H; exact I);
    try (eapply ir_add_bvars; eauto; exact I);
    try (unfold ir_radd in H; eapply ir_add_bvars; eauto; exact I).
Qed.

Lemma py_binop_bvars : forall (P : sym -> Prop) op x y rv,
  py_binop op x y = Ok rv -> bvars x P -> bvars y P -> bvars rv P.
Proof.
  intros P op x y rv H Bx By. destruct op; cbn [py_binop] in H.
  - eapply py_add_bvars; eauto.
  - unfold py_sub in H. destruct x, y; try discriminate; try (inv_ok H; exact I);
      try (eapply ir_sub_bvars; eauto; exact I); try (eapply ir_rsub_bvars; eauto).
  - unfold py_mul in H. destruct x, y; try discriminate; try (inv_ok H; exact I);
      try (eapply ir_mul_bvars; eauto); try (unfold ir_rmul in H; destruct (RInt n); eapply ir_mul_bvars; eauto).
  - unfold py_floordiv in H. destruct x, y; try discriminate;
      try (destruct (n0 =? 0); [discriminate | inv_ok H; exact I]);
      try (eapply ir_floordiv_bvars; eauto).
  - unfold py_mod in H. destruct x, y; try discriminate;
      try (destruct (n0 =? 0); [discriminate | inv_ok H; exact I]);
      try (eapply ir_mod_bvars; eauto).
Qed.

Lemma py_neg_bvars : forall (P : sym -> Prop) x rv, py_neg x = Ok rv -> bvars x P -> bvars rv P.
Proof.
  intros P x rv H Bx. unfold py_neg in H. destruct x; try discriminate.
  - inv_ok H. exact I.
  - eapply ir_neg_bvars; eauto.
Qed.

(* the base of an analysis result only mentions symbols the environment does not bind *)
Lemma analyze_bvars : forall env e rv,
  analyze env e = Ok rv -> bvars rv (fun y => env_lookup env y = None).
Proof.
  intros env e. induction e as [x|c|a IHa|op a IHa b IHb]; intros rv H; cbn [analyze] in H.
  - destruct (env_lookup env x) as [[l h]|] eqn:L; inv_ok H; bv_close. subst. exact L.
  - inv_ok H. exact I.
  - destruct (analyze env a) as [ra|] eqn:A; cbn [bind] in H; try discriminate.
    eapply py_neg_bvars; eauto.
  - destruct (analyze env a) as [ra|] eqn:A; cbn [bind] in H; try discriminate.
    destruct (analyze env b) as [rb|] eqn:B; cbn [bind] in H; try discriminate.
    eapply py_binop_bvars; eauto.
Qed.

(* ------------------------------------------------------------------ valuations that agree on a base *)
Lemma ieval_ext : forall rho1 rho2 e,
  (forall y, occurs y e -> rho1 y = rho2 y) -> ieval rho1 e = ieval rho2 e.
Proof.
  intros rho1 rho2 e. induction e as [x|c|a IHa|op a IHa b IHb]; intros H; cbn [ieval].
  - rewrite (H x eq_refl). reflexivity.
  - reflexivity.
  - rewrite IHa; auto.
  - rewrite IHa, IHb; auto; intros y O; apply H; cbn; auto.
Qed.

Lemma gamma_val_ext : forall rv rho1 rho2 v,
  bvars rv (fun y => rho1 y = rho2 y) -> gamma_val rv rho1 v -> gamma_val rv rho2 v.
Proof.
  intros [n|r|] rho1 rho2 v B G; cbn [gamma_val bvars] in *; auto.
  destruct G as [b [Hb Hi]]. exists b. split; auto. rewrite <- Hb. symmetry. apply ieval_ext. exact B.
Qed.

Lemma bvars_weaken : forall rv (P Q : sym -> Prop), (forall y, P y -> Q y) -> bvars rv P -> bvars rv Q.
Proof. intros [n|r|] P Q H B; cbn [bvars] in *; auto. Qed.

(* ------------------------------------------------------------------ get_stride_of is the coefficient *)
(* The class invariant stated in get_coeff's docstring: a base is a linear combination of index
   variables WITHOUT a constant term (constants are folded into lo / hi); every base built by the
   translated arithmetic from variables with +, -, unary minus and scaling has this shape. *)
Fixpoint lin (e : iexpr) : bool :=
  match e with
  | IVar _ => true
  | IConst k => k =? 0
  | INeg a => lin a
  | IBin OAdd a b | IBin OSub a b => lin a && lin b
  | IBin OMul a b =>
      match b with
      | IConst _ => lin a
      | _ => match a with IConst _ => lin b | _ => false end
      end
  | IBin _ _ _ => false
  end.

Lemma upd_same : forall rho x v, upd rho x v x = v.
Proof. intros. unfold upd. rewrite sym_eqb_refl. reflexivity. Qed.

Lemma upd_other : forall rho x v y, y <> x -> upd rho x v y = rho y.
Proof.
  intros. unfold upd. destruct (sym_eqb x y) eqn:E; auto. apply sym_eqb_eq in E. congruence.
Qed.

Lemma get_coeff_linear : forall var rho x e c b,
  lin e = true -> get_coeff var e = Ok c -> ieval rho e = Some b ->
  ieval (upd rho var x) e = Some (b + c * (x - rho var)).
Proof.
  intros var rho x e. induction e as [y|k|a IHa|op a IHa b0 IHb]; intros c b L H E;
    cbn [lin get_coeff ieval] in *.
  - inv_ok H. injection E as <-. f_equal. destruct (sym_eqb y var) eqn:Ey.
    + apply sym_eqb_eq in Ey. subst. rewrite upd_same. lia.
    + apply sym_eqb_neq in Ey. rewrite upd_other; auto. lia.
  - inv_ok H. injection E as <-. apply Z.eqb_eq in L. subst. f_equal; lia.
  - destruct (get_coeff var a) as [ca|] eqn:Ca; cbn [bind] in H; try discriminate. inv_ok H.
    destruct (ieval rho a) as [va|] eqn:Ea; try discriminate. injection E as <-.
    rewrite (IHa ca va L eq_refl eq_refl). f_equal. lia.
  - destruct (get_coeff var a) as [ca|] eqn:Ca; cbn [bind] in H; try discriminate.
    destruct (get_coeff var b0) as [cb|] eqn:Cb; cbn [bind] in H; try discriminate.
    destruct (ieval rho a) as [va|] eqn:Ea; try discriminate.
    destruct (ieval rho b0) as [vb|] eqn:Eb; try discriminate.
    destruct op; try discriminate; cbn [eval_bop] in E; injection E as <-; inv_ok H.
    + apply andb_true_iff in L as [La Lb].
      rewrite (IHa ca va La eq_refl eq_refl), (IHb cb vb Lb eq_refl eq_refl). cbn [eval_bop]. f_equal. lia.
    + apply andb_true_iff in L as [La Lb].
      rewrite (IHa ca va La eq_refl eq_refl), (IHb cb vb Lb eq_refl eq_refl). cbn [eval_bop]. f_equal. lia.
    + destruct b0 as [?|kb|?|? ? ?].
      * destruct a as [?|ka|?|? ? ?]; try discriminate.
        cbn [get_coeff] in Ca. inv_ok Ca. cbn [ieval] in Ea. injection Ea as <-.
        rewrite (IHb cb vb L eq_refl eq_refl). cbn [ieval eval_bop]. f_equal. ring.
      * cbn [get_coeff] in Cb. inv_ok Cb. cbn [ieval] in Eb. injection Eb as <-.
        rewrite (IHa ca va L eq_refl eq_refl). cbn [ieval eval_bop]. f_equal. ring.
      * destruct a as [?|ka|?|? ? ?]; try discriminate.
        cbn [get_coeff] in Ca. inv_ok Ca. cbn [ieval] in Ea. injection Ea as <-.
        rewrite (IHb cb vb L eq_refl eq_refl). cbn [ieval eval_bop]. f_equal. ring.
      * destruct a as [?|ka|?|? ? ?]; try discriminate.
        cbn [get_coeff] in Ca. inv_ok Ca. cbn [ieval] in Ea. injection Ea as <-.
        rewrite (IHb cb vb L eq_refl eq_refl). cbn [ieval eval_bop]. f_equal. ring.
Qed.

(* ------------------------------------------------------------------ partial_eval_with_range *)
(* If the loop variable `var` ranges over rng (its value is rng.base + x with x in [rng.lo, rng.hi]) and v
   lies in the access window `self` for that iteration, then v lies in the returned window. *)
Theorem partial_eval_sound : forall self var rng rv rho v,
  lin (base self) = true ->
  partial_eval_with_range self var rng = Ok rv ->
  gamma rng rho (rho var) -> gamma self rho v -> gamma_val rv rho v.
Proof.
  intros self var rng rv rho v L H Gr Gs. unfold partial_eval_with_range, get_stride_of in H.
  destruct (get_coeff var (base self)) as [c|] eqn:C; cbn [bind] in H; try discriminate.
  destruct (c =? 0) eqn:Cz.
  { inv_ok H. exact Gs. }
  destruct (analyze [[(var, (lo rng, hi rng))]] (base self)) as [nb0|] eqn:A; cbn [bind] in H; try discriminate.
  match type of H with bind (py_add ?n1 _) _ = _ => set (nb1 := n1) in * end.
  destruct (py_add nb1 _) as [nb|] eqn:P1; cbn [bind] in H; try discriminate.
  destruct Gs as [b [Hb Hw]]. destruct Gr as [gb [Hgb Hx]].
  set (x := rho var - gb) in *. set (rho' := upd rho var x).
  (* the base under rho' *)
  pose proof (get_coeff_linear var rho x (base self) c b L C Hb) as Hb'. fold rho' in Hb'.
  assert (Henv : env_sound [[(var, (lo rng, hi rng))]] rho').
  { intros y l h Lk. cbn in Lk. destruct (sym_eqb var y) eqn:Ey; try discriminate.
    apply sym_eqb_eq in Ey. subst y. injection Lk as <- <-. unfold rho'. rewrite upd_same. exact Hx. }
  pose proof (analyze_sound _ _ Henv _ _ _ A Hb') as G0.
  assert (G1 : gamma_val nb1 rho' (b + c * (x - rho var))).
  { subst nb1. destruct nb0; auto. cbn in G0. rewrite G0. cbn. exists 0. split; [reflexivity|].
    unfold create_int, in_itv; cbn [lo hi]. lia. }
  assert (Gw : gamma_val (RRange (mkrange zero (lo self) (hi self))) rho' (v - b)).
  { cbn. exists 0. split; [reflexivity|]. cbn [lo hi]. rewrite Z.sub_0_r. exact Hw. }
  pose proof (py_add_sound _ _ _ _ _ _ P1 G1 Gw) as G2.
  (* nb does not mention var: transfer from rho' to rho *)
  assert (B0 : bvars nb0 (fun y => y <> var)).
  { eapply bvars_weaken; [|eapply analyze_bvars; eauto]. intros y Lk E. subst y.
    cbn in Lk. rewrite sym_eqb_refl in Lk. discriminate. }
  assert (B1 : bvars nb1 (fun y => y <> var)).
  { subst nb1. destruct nb0; auto. cbn. unfold create_int, zero. cbn. intros y []. }
  assert (B2 : bvars nb (fun y => y <> var)).
  { eapply py_add_bvars; eauto. cbn. unfold zero. cbn. intros y []. }
  assert (G3 : gamma_val nb rho (b + c * (x - rho var) + (v - b))).
  { eapply gamma_val_ext; [|exact G2]. eapply bvars_weaken; [|exact B2].
    intros y Ny. unfold rho'. apply upd_other. exact Ny. }
  assert (Hxg : x - rho var = - gb) by (subst x; lia).
  destruct (is_zero (base rng)) eqn:Zr.
  - inv_ok H. apply is_zero_true in Zr. rewrite Zr in Hgb. cbn in Hgb. injection Hgb as <-.
    replace v with (b + c * (x - rho var) + (v - b)) by (rewrite Hxg; lia). exact G3.
  - assert (Gc : gamma_val (RRange (mkrange (IBin OMul (IConst c) (base rng)) (Some 0) (Some 0))) rho (c * gb)).
    { unfold gamma_val, gamma; cbn [base lo hi]. exists (c * gb). split.
      - cbn [ieval]. rewrite Hgb. reflexivity.
      - unfold in_itv. lia. }
    pose proof (py_add_sound _ _ _ _ _ _ H G3 Gc) as G4.
    replace v with (b + c * (x - rho var) + (v - b) + c * gb) by (rewrite Hxg; lia). exact G4.
Qed.

(* hypotheses are satisfiable: the witness of the repaired defect — window (i, 0, 3), i in [0,7], value 10 *)
Example partial_eval_sound_nonvacuous :
  let i := mksym 1 1 in
  lin (IVar i) = true /\
  partial_eval_with_range (mkrange (IVar i) (Some 0) (Some 3)) i (mkrange (IConst 0) (Some 0) (Some 7))
    = Ok (RRange (mkrange (IConst 0) (Some 0) (Some 10))) /\
  gamma (mkrange (IConst 0) (Some 0) (Some 7)) (fun _ => 7) 7 /\
  gamma (mkrange (IVar i) (Some 0) (Some 3)) (fun _ => 7) 10.
Proof.
  cbv zeta. split; [reflexivity|]. split; [vm_compute; reflexivity|]. split.
  - exists 0. split; [reflexivity|]. unfold in_itv; cbn [lo hi]. lia.
  - exists 7. split; [reflexivity|]. unfold in_itv; cbn [lo hi]. lia.
Qed.

(* ------------------------------------------------------------------ the invariant is established by the analysis *)
(* every base the analysis itself produces from an expression without `/` satisfies `lin`
   (with `/` in the base, get_stride_of raises ValueError and partial_eval_with_range returns no range) *)
Definition lin_rv (rv : rval) : Prop := match rv with RRange r => lin (base r) = true | _ => True end.

Fixpoint no_div (e : iexpr) : bool :=
  match e with
  | IVar _ | IConst _ => true
  | INeg a => no_div a
  | IBin ODiv _ _ => false
  | IBin _ a b => no_div a && no_div b
  end.

Ltac lin_close :=
  cbn [lin_rv base] in *; unfold binop, create_constant_range, create_unbounded, create_int in *; unfold zero in *;
  cbn [base lin] in *; zero_bases;
  repeat match goal with H : ?a = true |- context [?a] => rewrite H end; try reflexivity; auto.

Lemma ir_add_lin : forall a c rv, ir_add a c = Ok rv -> lin_rv (RRange a) -> lin_rv c -> lin_rv rv.
Proof.
  intros [ab al ah] c rv H La Lc. unfold ir_add in H. destruct c as [n|[bb bl bh]|]; try discriminate;
    break_in H; inv_ok H; lin_close.
Qed.

Lemma ir_neg_lin : forall a rv, ir_neg a = Ok rv -> lin_rv (RRange a) -> lin_rv rv.
Proof. intros [ab al ah] rv H La. unfold ir_neg in H. break_in H; inv_ok H; lin_close. Qed.

Lemma ir_mul_lin : forall a c rv, ir_mul a c = Ok rv -> lin_rv (RRange a) -> lin_rv rv.
Proof.
  intros [ab al ah] c rv H La. unfold ir_mul in H. destruct c; try discriminate.
  break_in H; inv_ok H; lin_close.
Qed.

Lemma ir_mod_lin : forall a c rv, ir_mod a c = Ok rv -> lin_rv rv.
Proof.
  intros [ab al ah] c rv H. unfold ir_mod in H. destruct c; try discriminate.
  break_in H; inv_ok H; lin_close.
Qed.

Lemma py_neg_lin : forall x rv, py_neg x = Ok rv -> lin_rv x -> lin_rv rv.
Proof.
  intros x rv H L. unfold py_neg in H. destruct x; try discriminate; [inv_ok H; exact I|].
  eapply ir_neg_lin; eauto.
Qed.

Lemma py_binop_lin : forall op x y rv,
  op <> ODiv -> py_binop op x y = Ok rv -> lin_rv x -> lin_rv y -> lin_rv rv.
Proof.
  intros op x y rv Nd H Lx Ly. destruct op; try congruence; cbn [py_binop] in H.
  - unfold py_add in H. destruct x, y; try discriminate; try (inv_ok H; exact I);
      try (eapply ir_add_lin; eauto; exact I); try (unfold ir_radd in H; eapply ir_add_lin; eauto; exact I).
  - unfold py_sub in H. destruct x as [n|a|], y as [m|b|]; try discriminate; try (inv_ok H; exact I).
    + unfold ir_rsub in H. destruct (ir_neg b) as [r|] eqn:N; cbn [bind] in H; try discriminate.
      pose proof (ir_neg_lin _ _ N Ly). destruct r; try discriminate; [inv_ok H; exact I|].
      eapply ir_add_lin; eauto; try exact I.
    + unfold ir_sub in H. cbn [bind] in H. eapply ir_add_lin; eauto; try exact I.
    + unfold ir_sub in H. destruct (ir_neg b) as [r|] eqn:N; cbn [bind] in H; try discriminate.
      eapply ir_add_lin; eauto. eapply ir_neg_lin; eauto.
  - unfold py_mul in H. destruct x, y; try discriminate; try (inv_ok H; exact I);
      try (eapply ir_mul_lin; eauto); try (unfold ir_rmul in H; eapply ir_mul_lin; eauto).
  - unfold py_mod in H. destruct x, y; try discriminate;
      try (destruct (n0 =? 0); [discriminate | inv_ok H; exact I]);
      try (eapply ir_mod_lin; eauto).
Qed.

Lemma analyze_lin : forall env e rv, no_div e = true -> analyze env e = Ok rv -> lin_rv rv.
Proof.
  intros env e. induction e as [x|c|a IHa|op a IHa b IHb]; intros rv N H; cbn [analyze no_div] in *.
  - destruct (env_lookup env x) as [[l h]|]; inv_ok H; lin_close.
  - inv_ok H. exact I.
  - destruct (analyze env a) as [ra|] eqn:A; cbn [bind] in H; try discriminate.
    eapply py_neg_lin; eauto.
  - destruct (analyze env a) as [ra|] eqn:A; cbn [bind] in H; try discriminate.
    destruct (analyze env b) as [rb|] eqn:B; cbn [bind] in H; try discriminate.
    assert (op <> ODiv) by (destruct op; try discriminate; congruence).
    assert (no_div a = true /\ no_div b = true) as [Na Nb]
      by (destruct op; try congruence; apply andb_true_iff in N; exact N).
    eapply py_binop_lin; eauto.
Qed.
