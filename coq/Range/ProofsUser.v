(* Range/ProofsUser.v — the user-level mirror (stdlib/range_analysis.py: infer_range, bounds_inference)
   and the fold-buffer helper partial_eval_with_range: what holds, and machine-checked witnesses of what
   does not. *)
From Coq Require Import ZArith List Bool Lia ZifyBool.
From Range Require Import Model Gen_Range ModelAnalysis ProofsOps ProofsAnalysis.
Import ListNotations.
Open Scope Z_scope.

Fixpoint occurs (x : sym) (e : iexpr) : Prop :=
  match e with
  | IVar y => x = y
  | IConst _ => False
  | INeg a => occurs x a
  | IBin _ a b => occurs x a \/ occurs x b
  end.

(* the name-keyed environment is sound for the symbols of interest (P) *)
Definition uenv_ok (P : sym -> Prop) (env : uenv) (rho : valuation) : Prop :=
  forall y l h, P y -> uenv_lookup env (sname y) = Some (l, h) -> in_itv l h (rho y).

Lemma u_analyze_sound : forall env rho e,
  uenv_ok (fun y => occurs y e) env rho ->
  forall rv v, u_analyze env e = Ok rv -> ieval rho e = Some v -> gamma_val rv rho v.
Proof.
  intros env rho e. induction e as [x|c|a IHa|op a IHa b IHb]; intros Henv rv v H E;
    cbn [u_analyze ieval] in *.
  - injection E as <-. destruct (uenv_lookup env (sname x)) as [[l h]|] eqn:L.
    + inv_ok H. specialize (Henv x l h eq_refl L). cbn [gamma_val]. exists 0. split; [reflexivity|].
      unfold create_constant_range; cbn [lo hi]. rewrite Z.sub_0_r. exact Henv.
    + inv_ok H. cbn [gamma_val]. exists (rho x). split; [reflexivity|]. unfold in_itv; cbn [lo hi]. lia.
  - inv_ok H. injection E as <-. reflexivity.
  - destruct (u_analyze env a) as [ra|] eqn:A; cbn [bind] in H; try discriminate.
    destruct (ieval rho a) as [va|] eqn:Ea; try discriminate. injection E as <-.
    eapply py_neg_sound; eauto.
  - destruct (u_analyze env a) as [ra|] eqn:A; cbn [bind] in H; try discriminate.
    destruct (u_analyze env b) as [rb|] eqn:B; cbn [bind] in H; try discriminate.
    destruct (ieval rho a) as [va|] eqn:Ea; try discriminate.
    destruct (ieval rho b) as [vb|] eqn:Eb; try discriminate.
    eapply py_binop_sound; eauto.
    + apply IHa; auto. intros y l h O. apply Henv. cbn. auto.
    + apply IHb; auto. intros y l h O. apply Henv. cbn. auto.
Qed.

(* a valuation is a point of the iteration space of the enclosing loops *)
Definition loop_ok (rho : valuation) (l : uloop) : Prop :=
  let '(x, lo_e, hi_e) := l in
  exists vl vh, ieval rho lo_e = Some vl /\ ieval rho hi_e = Some vh /\ vl <= rho x < vh.

(* symbols occurring in the analysed expression or in a bound of one of the loops *)
Definition relevant (loops : list uloop) (e : iexpr) (y : sym) : Prop :=
  occurs y e \/ exists x lo_e hi_e, In (x, lo_e, hi_e) loops /\ (occurs y lo_e \/ occurs y hi_e).

(* "names are unique": a relevant symbol that has the NAME of a loop variable IS that loop variable *)
Definition names_unique (loops : list uloop) (e : iexpr) : Prop :=
  forall y x lo_e hi_e, relevant loops e y -> In (x, lo_e, hi_e) loops -> sname y = sname x -> y = x.

Lemma u_constant_bound_sound : forall P env rho e bd v,
  uenv_ok P env rho -> (forall y, occurs y e -> P y) ->
  u_constant_bound e env = Ok bd -> ieval rho e = Some v -> in_itv (fst bd) (snd bd) v.
Proof.
  intros P env rho e bd v Henv HP H E. unfold u_constant_bound in H.
  destruct (u_analyze env e) as [r|] eqn:A; cbn [bind] in H; try discriminate.
  assert (G : gamma_val r rho v).
  { eapply u_analyze_sound; eauto. intros y l h O. apply Henv. auto. }
  destruct r; cbn [u_bounds_of_rval] in H; try discriminate; inv_ok H; cbn in *; unfold in_itv; cbn; lia.
Qed.

Lemma u_build_env_sound : forall (P : sym -> Prop) rho loops env env',
  (forall x lo_e hi_e, In (x, lo_e, hi_e) loops ->
      (forall y, occurs y lo_e \/ occurs y hi_e -> P y) /\
      (forall y, P y -> sname y = sname x -> rho y = rho x)) ->
  Forall (loop_ok rho) loops ->
  uenv_ok P env rho -> u_build_env loops env = Ok env' -> uenv_ok P env' rho.
Proof.
  intros P rho loops. induction loops as [|[[x lo_e] hi_e] rest IH]; intros env env' HP HL Henv H;
    cbn [u_build_env] in H.
  - inv_ok H. exact Henv.
  - destruct (u_constant_bound lo_e env) as [bl|] eqn:Cl; cbn [bind] in H; try discriminate.
    destruct (u_constant_bound hi_e env) as [bh|] eqn:Ch; cbn [bind] in H; try discriminate.
    inversion HL as [|? ? Hx HL']; subst.
    destruct (HP x lo_e hi_e (or_introl eq_refl)) as [Hocc Hname].
    destruct Hx as [vl [vh [El [Eh Hr]]]].
    pose proof (u_constant_bound_sound P env rho lo_e bl vl Henv ltac:(auto) Cl El) as Il.
    pose proof (u_constant_bound_sound P env rho hi_e bh vh Henv ltac:(auto) Ch Eh) as Ih.
    eapply IH; [ | exact HL' | | exact H ].
    + intros x' l' h' I. apply HP. right. exact I.
    + intros y l h Py L. cbn [uenv_lookup] in L. destruct (sname x =? sname y) eqn:E.
      * apply Z.eqb_eq in E. rewrite (Hname y Py (eq_sym E)).
        injection L as <- <-. unfold in_itv in *. destruct Il as [Il1 _], Ih as [_ Ih2].
        destruct (fst bl), (snd bh); split; auto; lia.
      * eapply Henv; eauto.
Qed.

(* infer_range is sound when no relevant name is shadowed *)
Theorem u_infer_range_partial : forall loops e rho rv v,
  names_unique loops e -> Forall (loop_ok rho) loops ->
  u_infer_range loops e = Ok rv -> ieval rho e = Some v -> gamma_val rv rho v.
Proof.
  intros loops e rho rv v HN HL H E. unfold u_infer_range in H.
  destruct (u_build_env loops []) as [env|] eqn:B; cbn [bind] in H; try discriminate.
  destruct (u_analyze env e) as [r|] eqn:A; cbn [bind] in H; try discriminate.
  assert (Henv : uenv_ok (relevant loops e) env rho).
  { eapply u_build_env_sound; eauto.
    - intros x lo_e hi_e I. split.
      + intros y O. right. exists x, lo_e, hi_e. auto.
      + intros y Py S. f_equal. eapply HN; eauto.
    - intros y l h _ L. discriminate. }
  assert (G : gamma_val r rho v).
  { eapply u_analyze_sound; eauto. intros y l h O. apply Henv. left. exact O. }
  destruct r; inv_ok H; auto. cbn in G. subst. cbn. exists 0. split; [reflexivity|].
  unfold create_int, in_itv; cbn [lo hi]. lia.
Qed.

Example u_infer_range_partial_nonvacuous :
  let i := mksym 1 1 in let j := mksym 2 2 in
  let loops := [(j, IConst 0, IConst 4); (i, IConst 0, IConst 8)] in
  let e := IAdd (IMul (IVar i) (IConst 4)) (IVar j) in
  names_unique loops e /\ Forall (loop_ok (fun _ => 3)) loops /\
  u_infer_range loops e = Ok (RRange (mkrange (IConst 0) (Some 0) (Some 31))).
Proof.
  cbv zeta. split; [|split].
  - intros y x lo_e hi_e R I S.
    assert (Hy : y = mksym 1 1 \/ y = mksym 2 2).
    { destruct R as [O|[x' [l' [h' [I' O]]]]].
      - cbn in O. tauto.
      - cbn in I'. destruct I' as [I'|[I'|[]]]; injection I' as <- <- <-; cbn in O; tauto. }
    cbn in I. destruct I as [I|[I|[]]]; injection I as <- <- <-; destruct Hy; subst; cbn in S;
      try reflexivity; discriminate.
  - repeat constructor; cbn; exists 0; eexists; (split; [reflexivity|split; [reflexivity|lia]]).
  - vm_compute. reflexivity.
Qed.

(* ... and it is NOT sound in general: an inner loop variable that shadows the name of an outer one gets
   the OUTER range, because ancestors are visited innermost first and the dict is keyed by name
   (`for i in seq(0,4): for i in seq(0,8): x[i]` reports [0,3]). *)
Theorem u_infer_range_shadow_refuted :
  exists loops e rho rv v,
    Forall (loop_ok rho) loops /\ u_infer_range loops e = Ok rv /\ ieval rho e = Some v /\
    ~ gamma_val rv rho v.
Proof.
  exists [(mksym 1 2, IConst 0, IConst 8); (mksym 1 1, IConst 0, IConst 4)], (IVar (mksym 1 2)),
         (fun s => if sid s =? 2 then 7 else 0).
  eexists. exists 7. split; [|split; [|split]].
  - repeat constructor; cbn; eexists; eexists; (split; [reflexivity|split; [reflexivity|lia]]).
  - vm_compute. reflexivity.
  - reflexivity.
  - cbn. intros [b [Hb Hi]]. cbn in Hb. injection Hb as <-. unfold in_itv in Hi; cbn [lo hi] in Hi. lia.
Qed.

(* under a valuation that gives equally named symbols equal values ("distinct symbols in scope have
   distinct names") nothing can be confused: infer_range and bounds_inference are sound *)
Theorem u_infer_range_named : forall loops e rho rv v,
  name_determined rho -> Forall (loop_ok rho) loops ->
  u_infer_range loops e = Ok rv -> ieval rho e = Some v -> gamma_val rv rho v.
Proof.
  intros loops e rho rv v ND HL H E. unfold u_infer_range in H.
  destruct (u_build_env loops []) as [env|] eqn:B; cbn [bind] in H; try discriminate.
  destruct (u_analyze env e) as [r|] eqn:A; cbn [bind] in H; try discriminate.
  assert (Henv : uenv_ok (fun _ => True) env rho).
  { apply (u_build_env_sound (fun _ => True) rho loops [] env); auto;
      try (intros y l h _ L; discriminate L).
    all: intros x lo_e hi_e I0; split; [intros; exact Logic.I|]; intros y _ S; apply ND; exact S. }
  assert (G : gamma_val r rho v).
  { eapply u_analyze_sound; eauto. intros y l h O. apply Henv. exact Logic.I. }
  destruct r; inv_ok H; auto. cbn in G. subst. cbn. exists 0. split; [reflexivity|].
  unfold create_int, in_itv; cbn [lo hi]. lia.
Qed.

(* values of the accesses of a list, at the iteration points rho belongs to *)
Definition acc_value (rho : valuation) (accs : list (list uloop * iexpr)) (v : Z) : Prop :=
  exists loops e, In (loops, e) accs /\ Forall (loop_ok rho) loops /\ ieval rho e = Some v.

Definition covers (rho : valuation) (S : Z -> Prop) (bound : option rval) : Prop :=
  forall v, S v -> match bound with Some r => gamma_val r rho v | None => False end.

Lemma u_bounds_inference_from_sound : forall rho, name_determined rho ->
  forall accs bound res (S : Z -> Prop),
    u_bounds_inference_from accs bound = Ok res -> covers rho S bound ->
    covers rho (fun v => S v \/ acc_value rho accs v) res.
Proof.
  intros rho ND accs. induction accs as [|[loops e] rest IH]; intros bound res S H C; cbn in H.
  - inv_ok H. intros v [Sv|[l [e [[] _]]]]. apply C. exact Sv.
  - destruct (u_infer_range loops e) as [cur|] eqn:I; cbn [bind] in H; try discriminate.
    destruct (u_join bound cur) as [b'|] eqn:J; cbn [bind] in H; try discriminate.
    assert (Hcur : forall v, Forall (loop_ok rho) loops -> ieval rho e = Some v -> gamma_val cur rho v).
    { intros v HL E. eapply u_infer_range_named; eauto. }
    assert (C' : covers rho (fun v => S v \/ (Forall (loop_ok rho) loops /\ ieval rho e = Some v)) b').
    { unfold u_join in J. destruct bound as [[n|b|]|]; try discriminate.
      - destruct (ir_or b cur) as [r|] eqn:O; cbn [bind] in J; try discriminate. inv_ok J.
        destruct cur as [n|c|]; try (unfold ir_or in O; discriminate).
        intros v [Sv|[HL E]].
        + eapply ir_or_sound; eauto. { intros M. apply match_e_eval; auto. } left. apply (C v Sv).
        + eapply ir_or_sound; eauto. { intros M. apply match_e_eval; auto. } right. apply (Hcur v HL E).
      - inv_ok J. intros v [Sv|[HL E]]. + destruct (C v Sv). + apply (Hcur v HL E). }
    specialize (IH _ _ _ H C'). intros v [Sv|[l [e' [[In1|In2] [HL E]]]]].
    + apply IH. left. left. exact Sv.
    + injection In1 as <- <-. apply IH. left. right. auto.
    + apply IH. right. exists l, e'. auto.
Qed.

(* bounds_inference (after the repair of IndexRange.__or__): the reported bound contains the index of
   every matched access at every iteration point *)
Theorem u_bounds_inference_sound : forall accs rho r loops e v,
  name_determined rho ->
  u_bounds_inference accs = Ok (Some r) -> In (loops, e) accs ->
  Forall (loop_ok rho) loops -> ieval rho e = Some v -> gamma_val r rho v.
Proof.
  intros accs rho r loops e v ND H I HL E. unfold u_bounds_inference in H.
  pose proof (u_bounds_inference_from_sound rho ND accs None (Some r) (fun _ => False) H) as C.
  apply (C ltac:(intros ? [])). right. exists loops, e. auto.
Qed.

Example u_bounds_inference_sound_nonvacuous :
  let i := mksym 1 1 in let n := mksym 2 2 in
  u_bounds_inference [([(i, IConst 0, IVar n)], IVar i); ([], IConst 3)]
  = Ok (Some (RRange (mkrange (IConst 0) (Some 0) None))).
Proof. vm_compute. reflexivity. Qed.

(* ... but NOT for arbitrary valuations: bases are matched by name (LoopIR_Compare.match_name), so an
   access through a loop variable that has the name of a free variable hides the access through the free
   variable (reachable: divide_loop(.., ["o", "n"]) in a proc with a size argument n). *)
Theorem u_bounds_inference_name_refuted :
  exists accs rho r loops e v,
    u_bounds_inference accs = Ok (Some r) /\ In (loops, e) accs /\
    Forall (loop_ok rho) loops /\ ieval rho e = Some v /\ ~ gamma_val r rho v.
Proof.
  exists [([], IVar (mksym 1 1)); ([], IVar (mksym 1 2))], (fun s => if sid s =? 2 then 10 else 0).
  eexists. exists [], (IVar (mksym 1 2)), 10.
  split; [vm_compute; reflexivity|]. split; [right; left; reflexivity|]. split; [constructor|]. split.
  - reflexivity.
  - cbn. intros [b [Hb Hi]]. cbn in Hb. injection Hb as <-. unfold in_itv in Hi; cbn [lo hi] in Hi. lia.
Qed.
