(* Property C11 — procedure-equivalence tracking (src/exo/core/proc_eqv.py).
   Only the property theorems; proofs are in Proofs_*.v.

   Reading guide:  [run ops] is the module state of Model.v after the calls [ops] (any
   interleaving of decl_new_proc / derive_proc / assert_eqv_proc / new_uf_by_eqv_key and
   queries, including calls that raise);  [history_of ops] is the list of [Decl]/[Step] events
   those calls record (Spec.v);  [conn_all], [conn_k k], [conn_within K] are the
   reflexive-symmetric-transitive closures of all steps / the steps that did not disturb
   field k / the steps that disturbed only fields of K.
   An answer [RBool b] / [RStrictest b Ks] / [RProc r] excludes the model's out-of-fuel value
   and the exceptions. *)
From Coq Require Import PArith List Bool.
From Eqv Require Import Model Spec Proofs_C11.
Import ListNotations.

(* check_eqv_proc says yes  <->  connected at all, and connected for every field outside K *)
Theorem C11_check : forall ops p q K,
  let H := history_of ops in
  declared H p -> declared H q ->
  exists b, snd (check_eqv_proc (run ops) p q K) = RBool b /\
            (b = true <-> conn_all H p q /\ forall k, ~ In k K -> conn_k k H p q).
Proof. exact c11_check. Qed.
Print Assumptions C11_check.

(* get_strictest_eqv_proc returns (connected at all?, exactly the fields whose closure separates p and q) *)
Theorem C11_strictest : forall ops p q,
  let H := history_of ops in
  declared H p -> declared H q ->
  exists b Ks, snd (get_strictest_eqv_proc (run ops) p q) = RStrictest b Ks /\
               (b = true <-> conn_all H p q) /\
               (b = true -> forall k, In k Ks <-> ~ conn_k k H p q) /\
               (b = false -> Ks = []).
Proof. exact c11_strictest. Qed.
Print Assumptions C11_strictest.

(* ... and that set is the least K accepted by check_eqv_proc (what call_eqv relies on) *)
Theorem C11_strictest_least : forall ops p q Ks,
  let H := history_of ops in
  declared H p -> declared H q ->
  snd (get_strictest_eqv_proc (run ops) p q) = RStrictest true Ks ->
  forall K, snd (check_eqv_proc (run ops) p q K) = RBool true <-> incl Ks K.
Proof. exact c11_strictest_least. Qed.
Print Assumptions C11_strictest_least.

(* different origins: if a set of procedures S is closed under the recorded steps (no step
   connects inside and outside; Procedure(...) without provenance -- @proc, partial_eval,
   transpose, add_assertion -- records only a Decl), p inside and q outside are never reported
   equivalent, for any K *)
Theorem C11_origins : forall ops p q (S : proc -> Prop),
  let H := history_of ops in
  declared H p -> declared H q ->
  (forall a b K, In (Step a b K) H -> (S a <-> S b)) ->
  S p -> ~ S q ->
  (forall K, snd (check_eqv_proc (run ops) p q K) = RBool false) /\
  snd (get_strictest_eqv_proc (run ops) p q) = RStrictest false [].
Proof. exact c11_origins. Qed.
Print Assumptions C11_origins.

(* late keys: creating the per-field union-finds of any fields ks at any earlier point of the
   call sequence (instead of lazily, when a step first mentions them) changes no answer *)
Theorem C11_late_key : forall ops1 ks ops2 p q,
  let early := ops1 ++ map ONewKey ks ++ ops2 in
  let late := ops1 ++ ops2 in
  declared (history_of late) p -> declared (history_of late) q ->
  (forall K, snd (check_eqv_proc (run early) p q K) = snd (check_eqv_proc (run late) p q K)) /\
  (exists b Ks1 Ks2,
      snd (get_strictest_eqv_proc (run early) p q) = RStrictest b Ks1 /\
      snd (get_strictest_eqv_proc (run late) p q) = RStrictest b Ks2 /\
      forall k, In k Ks1 <-> In k Ks2).
Proof. exact c11_late_key. Qed.
Print Assumptions C11_late_key.

(* more generally the answers depend on the recorded events only: not on queries (path
   splitting), failed calls, or when union-finds were created *)
Theorem C11_history_determines : forall ops1 ops2 p q,
  history_of ops1 = history_of ops2 ->
  declared (history_of ops1) p -> declared (history_of ops1) q ->
  (forall K, snd (check_eqv_proc (run ops1) p q K) = snd (check_eqv_proc (run ops2) p q K)) /\
  (exists b Ks1 Ks2,
      snd (get_strictest_eqv_proc (run ops1) p q) = RStrictest b Ks1 /\
      snd (get_strictest_eqv_proc (run ops2) p q) = RStrictest b Ks2 /\
      forall k, In k Ks1 <-> In k Ks2).
Proof. exact c11_history_determines. Qed.
Print Assumptions C11_history_determines.

(* find never runs out of fuel (= number of nodes) on a reachable state, whatever is called next *)
Theorem C11_no_out_of_fuel : forall ops o, snd (run_op (run ops) o) <> ROutOfFuel.
Proof. exact c11_no_out_of_fuel. Qed.
Print Assumptions C11_no_out_of_fuel.

(* get_repr_proc returns a declared procedure connected by unconditional (K = {}) steps *)
Theorem C11_repr : forall ops p,
  let H := history_of ops in
  declared H p ->
  exists r, snd (get_repr_proc (run ops) p) = RProc r /\ declared H r /\ conn_within [] H p r.
Proof. exact c11_repr. Qed.
Print Assumptions C11_repr.

(* "connected by steps each of which disturbed only fields in K" read as ONE chain of steps: *)
(* (a) such a chain is always reported *)
Theorem C11_within_reported : forall ops p q K,
  let H := history_of ops in
  declared H p -> declared H q ->
  conn_within K H p q -> snd (check_eqv_proc (run ops) p q K) = RBool true.
Proof. exact c11_within_reported. Qed.
Print Assumptions C11_within_reported.

(* (b) without unsafe_assert_eq (derivations of fresh procedures only: a forest) it is exact *)
Theorem C11_singlepath_partial : forall ops p q K,
  let H := history_of ops in
  forest ops ->
  declared H p -> declared H q ->
  (snd (check_eqv_proc (run ops) p q K) = RBool true <-> conn_within K H p q).
Proof. exact c11_singlepath_partial. Qed.
Print Assumptions C11_singlepath_partial.

(* (c) with an unsafe_assert_eq cycle the per-field answer can be yes without such a chain
   (1 -{k1}- 2, 1 -{k2}- 3, 2 -{}- 3, query (1,2) modulo {}); this is the intersection law
   x =L y /\ x =K y ==> x =(L^K) y that proc_eqv.py states as its design *)
Theorem C11_singlepath_refuted :
  exists ops p q K,
    let H := history_of ops in
    declared H p /\ declared H q /\
    snd (check_eqv_proc (run ops) p q K) = RBool true /\ ~ conn_within K H p q.
Proof. exact c11_singlepath_refuted. Qed.
Print Assumptions C11_singlepath_refuted.
