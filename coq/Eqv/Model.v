(* Executable model of /repo/src/exo/core/proc_eqv.py (hand-written; tied to the code by
   the C11 correspondence harness).  Executable Gallina only; no proofs in this file.

   Procedures are [positive] ids (Python object identity = [Pos.eqb]); configuration
   keys are [positive] (the harness interns the (config, field) pairs).

   Python exceptions are modelled: an operation returns the (possibly partially
   mutated) state together with an [outcome]; [ROutOfFuel] has no Python counterpart
   (the Python [find] would loop forever on a cyclic parent map) and is excluded by
   every theorem. *)
From Coq Require Import PArith List Bool FMapPositive.
Import ListNotations.

Definition proc := positive.
Definition key := positive.

(* ------------------------------------------------------------------ *)
(* class _UnionFind: self.lookup = WeakKeyDictionary()                 *)

Definition uf := PositiveMap.t proc.

Inductive res (A : Type) : Type :=
| Ok (m : uf) (a : A)        (* normal return, map after the call *)
| KeyError (m : uf)          (* self.lookup[x] raised; map at that moment *)
| OutOfFuel.                 (* model artefact, see above *)
Arguments Ok {A} m a.
Arguments KeyError {A} m.
Arguments OutOfFuel {A}.

Definition uf_empty : uf := PositiveMap.empty proc.

(*  def new_node(self, val):
        if val not in self.lookup:
            self.lookup[val] = val                                      *)
Definition uf_new_node (m : uf) (val : proc) : uf :=
  if PositiveMap.mem val m then m else PositiveMap.add val val m.

(*  def find(self, val):
        parent = self.lookup[val]
        while val is not parent:
            # path splitting optimization
            grandparent = self.lookup[parent]
            self.lookup[val] = grandparent
            val, parent = parent, grandparent
        return val                                                      *)
Fixpoint find_loop (fuel : nat) (m : uf) (val parent : proc) : res proc :=
  if Pos.eqb val parent then Ok m val
  else match fuel with
       | O => OutOfFuel
       | S fuel' =>
           match PositiveMap.find parent m with
           | None => KeyError m
           | Some grandparent =>
               find_loop fuel' (PositiveMap.add val grandparent m) parent grandparent
           end
       end.

(* fuel = number of nodes of the union-find *)
Definition uf_find (m : uf) (val : proc) : res proc :=
  match PositiveMap.find val m with
  | None => KeyError m
  | Some parent => find_loop (PositiveMap.cardinal m) m val parent
  end.

(*  def union(self, val1, val2):
        p1, p2 = self.find(val1), self.find(val2)
        if p1 is p2: pass
        else: self.lookup[p2] = p1                                      *)
Definition uf_union (m : uf) (val1 val2 : proc) : res unit :=
  match uf_find m val1 with
  | Ok m1 p1 =>
      match uf_find m1 val2 with
      | Ok m2 p2 =>
          if Pos.eqb p1 p2 then Ok m2 tt else Ok (PositiveMap.add p2 p1 m2) tt
      | KeyError m2 => KeyError m2
      | OutOfFuel => OutOfFuel
      end
  | KeyError m1 => KeyError m1
  | OutOfFuel => OutOfFuel
  end.

(*  def check_eqv(self, val1, val2):
        p1, p2 = self.find(val1), self.find(val2)
        return p1 is p2                                                 *)
Definition uf_check_eqv (m : uf) (val1 val2 : proc) : res bool :=
  match uf_find m val1 with
  | Ok m1 p1 =>
      match uf_find m1 val2 with
      | Ok m2 p2 => Ok m2 (Pos.eqb p1 p2)
      | KeyError m2 => KeyError m2
      | OutOfFuel => OutOfFuel
      end
  | KeyError m1 => KeyError m1
  | OutOfFuel => OutOfFuel
  end.

(*  def copy_entire_UF(self):
        copy = _UnionFind()
        for v, p in self.lookup.items():
            copy.lookup[v] = p
        return copy                                                     *)
Definition uf_copy (m : uf) : uf :=
  PositiveMap.fold (fun v p copy => PositiveMap.add v p copy) m uf_empty.

(* ------------------------------------------------------------------ *)
(* module state:  _UF_Unv, _UF_Strict, _UF_Unv_key (dict, insertion-ordered) *)

Record state : Type := mkState {
  unv : uf;
  strict : uf;
  keyed : list (key * uf)
}.

Definition init_state : state := mkState uf_empty uf_empty [].

Inductive outcome : Type :=
| RNone                                   (* returned None *)
| RBool (b : bool)                        (* check_eqv_proc *)
| RStrictest (b : bool) (ks : list key)   (* get_strictest_eqv_proc: (is_eqv, keys) *)
| RProc (p : proc)                        (* get_repr_proc *)
| RKeyError                               (* raised KeyError *)
| RAssertionError                         (* raised AssertionError *)
| ROutOfFuel.                             (* model artefact *)

Definition mem_key (k : key) (K : list key) : bool := existsb (Pos.eqb k) K.

Fixpoint has_key (k : key) (l : list (key * uf)) : bool :=
  match l with
  | [] => false
  | (k', _) :: r => if Pos.eqb k k' then true else has_key k r
  end.

(*  def new_uf_by_eqv_key(key):
        assert key not in _UF_Unv_key
        _UF_Unv_key[key] = _UF_Unv.copy_entire_UF()                    *)
Definition new_uf_by_eqv_key (s : state) (k : key) : state * outcome :=
  if has_key k (keyed s) then (s, RAssertionError)
  else (mkState (unv s) (strict s) (keyed s ++ [(k, uf_copy (unv s))]), RNone).

(*  def decl_new_proc(proc):
        _UF_Strict.new_node(proc)
        _UF_Unv.new_node(proc)
        for uf in _UF_Unv_key.values():
            uf.new_node(proc)                                           *)
Definition decl_new_proc (s : state) (p : proc) : state * outcome :=
  (mkState (uf_new_node (unv s) p)
           (uf_new_node (strict s) p)
           (map (fun ku => (fst ku, uf_new_node (snd ku) p)) (keyed s)),
   RNone).

(*      for key in config_set:
            if key not in _UF_Unv_key:
                new_uf_by_eqv_key(key)                                  *)
Fixpoint expand_keys (s : state) (K : list key) : state :=
  match K with
  | [] => s
  | k :: K' =>
      if has_key k (keyed s) then expand_keys s K'
      else expand_keys (fst (new_uf_by_eqv_key s k)) K'
  end.

(*      for key, uf in _UF_Unv_key.items():
            if key not in config_set:
                uf.union(proc1, proc2)                                  *)
Fixpoint union_keyed (l : list (key * uf)) (K : list key) (p1 p2 : proc)
  : list (key * uf) * outcome :=
  match l with
  | [] => ([], RNone)
  | (k, u) :: r =>
      if mem_key k K then
        let (r', o) := union_keyed r K p1 p2 in ((k, u) :: r', o)
      else
        match uf_union u p1 p2 with
        | Ok u' _ => let (r', o) := union_keyed r K p1 p2 in ((k, u') :: r', o)
        | KeyError u' => ((k, u') :: r, RKeyError)
        | OutOfFuel => (l, ROutOfFuel)
        end
  end.

(*  def assert_eqv_proc(proc1, proc2, config_set=frozenset()):
        for key in config_set: ...expand...
        if not config_set:
            _UF_Strict.union(proc1, proc2)
        _UF_Unv.union(proc1, proc2)
        for key, uf in _UF_Unv_key.items(): ...                         *)
Definition assert_eqv_proc (s : state) (p1 p2 : proc) (K : list key) : state * outcome :=
  let s1 := expand_keys s K in
  let after_strict : res unit :=
    match K with
    | [] => uf_union (strict s1) p1 p2
    | _ => Ok (strict s1) tt
    end in
  match after_strict with
  | KeyError st => (mkState (unv s1) st (keyed s1), RKeyError)
  | OutOfFuel => (s1, ROutOfFuel)
  | Ok st _ =>
      match uf_union (unv s1) p1 p2 with
      | KeyError un => (mkState un st (keyed s1), RKeyError)
      | OutOfFuel => (s1, ROutOfFuel)
      | Ok un _ =>
          let (kd, o) := union_keyed (keyed s1) K p1 p2 in
          (mkState un st kd, o)
      end
  end.

(*  def derive_proc(orig_proc, new_proc, config_set=frozenset()):
        decl_new_proc(new_proc)
        assert_eqv_proc(orig_proc, new_proc, config_set)                *)
Definition derive_proc (s : state) (orig new : proc) (K : list key) : state * outcome :=
  assert_eqv_proc (fst (decl_new_proc s new)) orig new K.

(*      all(uf.check_eqv(proc1, proc2)
            for key, uf in _UF_Unv_key.items() if key not in config_set)
   -- short-circuits at the first False; later union-finds are not touched *)
Fixpoint check_keyed (l : list (key * uf)) (K : list key) (p1 p2 : proc)
  : list (key * uf) * outcome :=
  match l with
  | [] => ([], RBool true)
  | (k, u) :: r =>
      if mem_key k K then
        let (r', o) := check_keyed r K p1 p2 in ((k, u) :: r', o)
      else
        match uf_check_eqv u p1 p2 with
        | Ok u' true => let (r', o) := check_keyed r K p1 p2 in ((k, u') :: r', o)
        | Ok u' false => ((k, u') :: r, RBool false)
        | KeyError u' => ((k, u') :: r, RKeyError)
        | OutOfFuel => (l, ROutOfFuel)
        end
  end.

(*  def check_eqv_proc(proc1, proc2, config_set=frozenset()):
        if not _UF_Unv.check_eqv(proc1, proc2):
            return False
        return all(...)                                                 *)
Definition check_eqv_proc (s : state) (p1 p2 : proc) (K : list key) : state * outcome :=
  match uf_check_eqv (unv s) p1 p2 with
  | KeyError un => (mkState un (strict s) (keyed s), RKeyError)
  | OutOfFuel => (s, ROutOfFuel)
  | Ok un false => (mkState un (strict s) (keyed s), RBool false)
  | Ok un true =>
      let (kd, o) := check_keyed (keyed s) K p1 p2 in
      (mkState un (strict s) kd, o)
  end.

(*      keys = {key for key, uf in _UF_Unv_key.items() if not uf.check_eqv(proc1, proc2)}
   -- no short-circuit; the result is a set, the model lists it in dict order *)
Fixpoint strictest_keyed (l : list (key * uf)) (p1 p2 : proc)
  : list (key * uf) * option (list key) * outcome :=
  match l with
  | [] => ([], Some [], RNone)
  | (k, u) :: r =>
      match uf_check_eqv u p1 p2 with
      | Ok u' b =>
          match strictest_keyed r p1 p2 with
          | (r', Some ks, o) => ((k, u') :: r', Some (if b then ks else k :: ks), o)
          | (r', None, o) => ((k, u') :: r', None, o)
          end
      | KeyError u' => ((k, u') :: r, None, RKeyError)
      | OutOfFuel => (l, None, ROutOfFuel)
      end
  end.

(*  def get_strictest_eqv_proc(proc1, proc2):
        is_eqv = _UF_Unv.check_eqv(proc1, proc2)
        keys = set()
        if is_eqv: keys = {...}
        return is_eqv, keys                                             *)
Definition get_strictest_eqv_proc (s : state) (p1 p2 : proc) : state * outcome :=
  match uf_check_eqv (unv s) p1 p2 with
  | KeyError un => (mkState un (strict s) (keyed s), RKeyError)
  | OutOfFuel => (s, ROutOfFuel)
  | Ok un false => (mkState un (strict s) (keyed s), RStrictest false [])
  | Ok un true =>
      match strictest_keyed (keyed s) p1 p2 with
      | (kd, Some ks, _) => (mkState un (strict s) kd, RStrictest true ks)
      | (kd, None, o) => (mkState un (strict s) kd, o)
      end
  end.

(*  def get_repr_proc(q_proc):
        proc = _UF_Strict.find(q_proc)
        return proc                                                     *)
Definition get_repr_proc (s : state) (q : proc) : state * outcome :=
  match uf_find (strict s) q with
  | Ok st r => (mkState (unv s) st (keyed s), RProc r)
  | KeyError st => (mkState (unv s) st (keyed s), RKeyError)
  | OutOfFuel => (s, ROutOfFuel)
  end.

(* ------------------------------------------------------------------ *)
(* sequences of calls into the module                                  *)

Inductive op : Type :=
| ODecl (p : proc)                           (* decl_new_proc(p) *)
| ODerive (orig new : proc) (K : list key)   (* derive_proc(orig, new, frozenset(K)) *)
| OAssert (p q : proc) (K : list key)        (* assert_eqv_proc(p, q, frozenset(K)) *)
| ONewKey (k : key)                          (* new_uf_by_eqv_key(k) *)
| OCheck (p q : proc) (K : list key)         (* check_eqv_proc(p, q, frozenset(K)) *)
| OStrictest (p q : proc)                    (* get_strictest_eqv_proc(p, q) *)
| ORepr (p : proc).                          (* get_repr_proc(p) *)

Definition run_op (s : state) (o : op) : state * outcome :=
  match o with
  | ODecl p => decl_new_proc s p
  | ODerive p q K => derive_proc s p q K
  | OAssert p q K => assert_eqv_proc s p q K
  | ONewKey k => new_uf_by_eqv_key s k
  | OCheck p q K => check_eqv_proc s p q K
  | OStrictest p q => get_strictest_eqv_proc s p q
  | ORepr p => get_repr_proc s p
  end.

(* the caller catches exceptions and carries on with whatever state is left *)
Definition run_from (s : state) (ops : list op) : state :=
  fold_left (fun s o => fst (run_op s o)) ops s.

Definition run (ops : list op) : state := run_from init_state ops.

Fixpoint trace_from (s : state) (ops : list op) : list outcome :=
  match ops with
  | [] => []
  | o :: r => let (s', out) := run_op s o in out :: trace_from s' r
  end.
