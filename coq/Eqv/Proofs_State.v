(* Refinement: after any sequence of calls, each union-find of the module state denotes
   exactly the closure the specification assigns to it. *)
From Coq Require Import PArith List Bool Relations Lia FMapPositive.
From Eqv Require Import Model Spec Proofs_UF Proofs_Conn.
Import ListNotations.

(* the parent map m denotes the equivalence R restricted to the node set D *)
Definition repr (m : uf) (D : proc -> Prop) (R : proc -> proc -> Prop) : Prop :=
  uf_wf m /\ (forall a, dom m a <-> D a) /\ (forall a b, uf_rel m a b <-> D a /\ D b /\ R a b).

Lemma repr_same_roots m m' D R : repr m D R -> uf_wf m' -> same_roots m m' -> repr m' D R.
Proof.
  intros [W [Dm Rm]] W' SR. split; [auto|split].
  - intros a. rewrite <- Dm. symmetry. apply same_roots_dom; auto.
  - intros a b. rewrite <- Rm. symmetry. apply same_roots_rel; auto.
Qed.

Lemma repr_meq m m' D R : meq m' m -> repr m D R -> repr m' D R.
Proof.
  intros E Rp. pose proof Rp as [W _].
  assert (same_roots m m') as SR by (apply meq_same_roots, meq_sym; auto).
  eapply repr_same_roots; eauto.
  eapply same_roots_wf; eauto. intros x Dx. apply (meq_dom _ _ E); auto.
Qed.

Lemma repr_ext m D D' (R R' : proc -> proc -> Prop) :
  (forall a, D a <-> D' a) -> (forall a b, R a b <-> R' a b) -> repr m D R -> repr m D' R'.
Proof.
  intros ED ER [W [Dm Rm]]. split; [auto|split].
  - intros a. rewrite Dm. apply ED.
  - intros a b. rewrite Rm, (ED a), (ED b), (ER a b). tauto.
Qed.

Lemma repr_union m D R p q :
  repr m D R -> D p -> D q ->
  exists m', uf_union m p q = Ok m' tt /\ repr m' D (merged_c R p q).
Proof.
  intros [W [Dm Rm]] Dp Dq.
  destruct (uf_union_ok m p q W (proj2 (Dm p) Dp) (proj2 (Dm q) Dq)) as [m' [E [W' [D' R']]]].
  exists m'; split; auto. split; [auto|split].
  - intros a. rewrite D'. apply Dm.
  - intros a b. rewrite R'. unfold merged, merged_c. rewrite !Rm. tauto.
Qed.

Lemma repr_union_fail m D R p q :
  repr m D R -> ~ (D p /\ D q) ->
  exists m', uf_union m p q = KeyError m' /\ repr m' D R.
Proof.
  intros Rp N. pose proof Rp as [W [Dm Rm]].
  destruct (uf_union_keyerror m p q W) as [m' [E [W' SR]]].
  { rewrite !Dm. auto. }
  exists m'; split; auto. eapply repr_same_roots; eauto.
Qed.

Lemma repr_check m D R p q :
  repr m D R -> D p -> D q ->
  exists m' b, uf_check_eqv m p q = Ok m' b /\ repr m' D R /\ (b = true <-> R p q).
Proof.
  intros Rp Dp Dq. pose proof Rp as [W [Dm Rm]].
  destruct (uf_check_ok m p q W (proj2 (Dm p) Dp) (proj2 (Dm q) Dq)) as [m' [b [E [W' [SR B]]]]].
  exists m', b; split; auto. split.
  - eapply repr_same_roots; eauto.
  - rewrite B, Rm. tauto.
Qed.

Lemma repr_check_fail m D R p q :
  repr m D R -> ~ (D p /\ D q) ->
  exists m', uf_check_eqv m p q = KeyError m' /\ repr m' D R.
Proof.
  intros Rp N. pose proof Rp as [W [Dm Rm]].
  destruct (uf_check_keyerror m p q W) as [m' [E [W' SR]]].
  { rewrite !Dm. auto. }
  exists m'; split; auto. eapply repr_same_roots; eauto.
Qed.

Lemma repr_find m D R p :
  repr m D R -> D p ->
  exists m' r, uf_find m p = Ok m' r /\ repr m' D R /\ D r /\ R p r.
Proof.
  intros Rp Dp. pose proof Rp as [W [Dm Rm]].
  destruct (uf_find_ok m p W (proj2 (Dm p) Dp)) as [m' [r [E [Rt [W' SR]]]]].
  exists m', r; split; auto. split.
  - eapply repr_same_roots; eauto.
  - assert (uf_rel m p r) as U by (exists r; split; auto; eapply rt_root; eauto).
    apply Rm in U. tauto.
Qed.

Lemma repr_find_fail m D R p : repr m D R -> ~ D p -> uf_find m p = KeyError m.
Proof. intros [W [Dm Rm]] N. apply uf_find_keyerror. rewrite Dm; auto. Qed.

Lemma repr_new_node m D (R : proc -> proc -> Prop) v :
  repr m D R -> (forall a, R a a) -> (forall a b, R a b -> a = b \/ (D a /\ D b)) ->
  repr (uf_new_node m v) (fun a => D a \/ a = v) R.
Proof.
  intros Rp Rf St. pose proof Rp as [W [Dm Rm]].
  destruct (PositiveMap.find v m) eqn:Fv.
  - assert (dom m v) as Dv by (eexists; eauto).
    rewrite new_node_old; auto. eapply repr_ext; eauto; try tauto.
    intros a; split; auto. intros [?| ->]; auto. apply Dm; auto.
  - assert (~ dom m v) as Nv by (intros [p Hp]; congruence).
    destruct (new_node_fresh m v W Nv) as [W' [D' R']].
    split; [auto|split].
    + intros a. rewrite D', Dm. tauto.
    + intros a b. split.
      * intros [r [A B]]. apply R' in A. apply R' in B.
        destruct A as [A|[-> ->]]; destruct B as [B|[Eb Er]].
        -- assert (uf_rel m a b) as U by (exists r; auto). apply Rm in U. tauto.
        -- subst. exfalso. apply Nv. eapply rt_dom. eapply rt_root; eauto.
        -- exfalso. apply Nv. eapply rt_dom. eapply rt_root; eauto.
        -- subst. auto.
      * intros [Da [Db Rab]]. destruct (St _ _ Rab) as [<-|[Da' Db']].
        -- destruct Da as [Da| ->].
           ++ assert (uf_rel m a a) as [r [A _]] by (apply Rm; auto).
              exists r; split; apply R'; auto.
           ++ exists v; split; apply R'; auto.
        -- assert (uf_rel m a b) as [r [A B]] by (apply Rm; auto).
           exists r; split; apply R'; auto.
Qed.

Lemma repr_empty R : repr uf_empty (declared []) R.
Proof.
  assert (forall x, ~ dom uf_empty x) as N.
  { intros x [p Hp]. unfold uf_empty in Hp. rewrite PositiveMap.gempty in Hp. discriminate. }
  split; [|split].
  - intros x Dx. destruct (N _ Dx).
  - intros a. split; [intros Da; destruct (N _ Da)|intros []].
  - intros a b. split.
    + intros U. destruct (uf_rel_dom _ _ _ U) as [Da _]. destruct (N _ Da).
    + intros [[] _].
Qed.

(* ------------------------------------------------------------------ *)
(* the refinement invariant *)

Definition keyed_ok (H : history) (l : list (key * uf)) : Prop :=
  Forall (fun ku => repr (snd ku) (declared H) (conn_k (fst ku) H)) l.

Record Inv (H : history) (s : state) : Prop := mkInv {
  inv_steps : steps_declared H;
  inv_unv : repr (unv s) (declared H) (conn_all H);
  inv_strict : repr (strict s) (declared H) (conn_within [] H);
  inv_keyed : keyed_ok H (keyed s);
  (* a field without a union-find of its own has not been mentioned by any step yet *)
  inv_fresh : forall k, has_key k (keyed s) = false ->
                        forall p q K, In (Step p q K) H -> ~ In k K
}.

Lemma inv_init : Inv [] init_state.
Proof.
  constructor; simpl.
  - apply steps_declared_nil.
  - apply repr_empty.
  - apply repr_empty.
  - constructor.
  - intros k _ p q K [].
Qed.

Lemma mem_key_spec k K : mem_key k K = true <-> In k K.
Proof.
  unfold mem_key. rewrite existsb_exists. split.
  - intros [x [I E]]. apply Pos.eqb_eq in E; subst; auto.
  - intros I. exists k; split; auto. apply Pos.eqb_refl.
Qed.

Lemma has_key_spec k l : has_key k l = true <-> In k (map fst l).
Proof.
  induction l as [|[k' u] l IH]; simpl.
  - split; [discriminate|tauto].
  - destruct (Pos.eqb_spec k k') as [->|N].
    + split; auto.
    + rewrite IH. split; auto. intros [E|I]; auto. congruence.
Qed.

Lemma has_key_map_fst k l l' : map fst l' = map fst l -> has_key k l' = has_key k l.
Proof.
  intros E. destruct (has_key k l) eqn:A.
  - apply has_key_spec. rewrite E. apply has_key_spec; auto.
  - destruct (has_key k l') eqn:B; auto.
    apply has_key_spec in B. rewrite E in B. apply has_key_spec in B. congruence.
Qed.

Lemma has_key_app k l l' : has_key k (l ++ l') = has_key k l || has_key k l'.
Proof.
  induction l as [|[k' u] l IH]; simpl; auto.
  destruct (Pos.eqb k k'); auto.
Qed.

(* ------------------------------------------------------------------ *)
(* new_uf_by_eqv_key / expand *)

Lemma new_key_inv H s k :
  Inv H s -> has_key k (keyed s) = false -> Inv H (fst (new_uf_by_eqv_key s k)).
Proof.
  intros I Hk. unfold new_uf_by_eqv_key. rewrite Hk. simpl.
  destruct I as [St U S Kd Fr]. constructor; simpl; auto.
  - apply Forall_app; split; auto. constructor; [|constructor]. simpl.
    eapply repr_ext; [reflexivity| |eapply repr_meq; [apply uf_copy_meq|exact U]].
    apply conn_k_unmentioned. apply Fr; auto.
  - intros k' Hk'. rewrite has_key_app in Hk'. apply orb_false_iff in Hk'. apply Fr; tauto.
Qed.

Lemma new_key_present s k :
  has_key k (keyed s) = true -> new_uf_by_eqv_key s k = (s, RAssertionError).
Proof. intros Hk. unfold new_uf_by_eqv_key. rewrite Hk. auto. Qed.

Lemma new_key_has s k k' :
  has_key k' (keyed s) = true \/ k' = k -> has_key k' (keyed (fst (new_uf_by_eqv_key s k))) = true.
Proof.
  intros C. unfold new_uf_by_eqv_key. destruct (has_key k (keyed s)) eqn:Hk; simpl.
  - destruct C as [?| ->]; auto.
  - rewrite has_key_app. simpl. destruct C as [->| ->].
    + auto.
    + rewrite Pos.eqb_refl. apply orb_true_r.
Qed.

Lemma expand_keys_inv H K :
  forall s, Inv H s ->
    Inv H (expand_keys s K) /\
    (forall k, In k K -> has_key k (keyed (expand_keys s K)) = true) /\
    (forall k, has_key k (keyed s) = true -> has_key k (keyed (expand_keys s K)) = true).
Proof.
  induction K as [|k K IH]; intros s I; simpl.
  - split; [auto|split; [intros k []|auto]].
  - destruct (has_key k (keyed s)) eqn:Hk.
    + destruct (IH s I) as [I' [A B]]. split; auto. split; auto.
      intros k' [<-|Ik]; auto.
    + pose proof (new_key_inv H s k I Hk) as I1.
      destruct (IH _ I1) as [I' [A B]]. split; auto. split.
      * intros k' [<-|Ik]; auto. apply B. apply new_key_has; auto.
      * intros k' Hk'. apply B. apply new_key_has; auto.
Qed.

(* ------------------------------------------------------------------ *)
(* decl_new_proc *)

Lemma decl_inv H s p : Inv H s -> Inv (H ++ [Decl p]) (fst (decl_new_proc s p)).
Proof.
  intros [St U S Kd Fr]. constructor; simpl.
  - apply steps_declared_snoc_decl; auto.
  - eapply repr_ext; [| |apply (repr_new_node _ _ _ p U)].
    + intros a. symmetry. apply declared_snoc_decl.
    + intros a b. symmetry. apply conn_all_snoc_decl.
    + intros a. apply rst_refl.
    + intros a b. apply conn_all_stays; auto.
  - eapply repr_ext; [| |apply (repr_new_node _ _ _ p S)].
    + intros a. symmetry. apply declared_snoc_decl.
    + intros a b. symmetry. apply conn_within_snoc_decl.
    + intros a. apply rst_refl.
    + intros a b. apply conn_within_stays; auto.
  - unfold keyed_ok in *. rewrite Forall_map. eapply Forall_impl; [|exact Kd].
    intros [k u] Rp. simpl in *.
    eapply repr_ext; [| |apply (repr_new_node _ _ _ p Rp)].
    + intros a. symmetry. apply declared_snoc_decl.
    + intros a b. symmetry. apply conn_k_snoc_decl.
    + intros a. apply rst_refl.
    + intros a b. apply conn_k_stays; auto.
  - intros k Hk p' q' K' I. apply step_in_snoc_decl in I.
    eapply Fr; eauto. rewrite <- Hk. symmetry. apply has_key_map_fst.
    rewrite map_map. simpl. auto.
Qed.

(* ------------------------------------------------------------------ *)
(* assert_eqv_proc *)

Lemma union_keyed_ok H l K p q :
  declared H p -> declared H q -> keyed_ok H l ->
  exists l', union_keyed l K p q = (l', RNone) /\
             keyed_ok (H ++ [Step p q K]) l' /\ map fst l' = map fst l.
Proof.
  intros Dp Dq. induction l as [|[k u] l IH]; intros Kd; simpl.
  - exists []; repeat split; auto. constructor.
  - inversion Kd as [|? ? Rk Kd']; subst. simpl in Rk.
    destruct (IH Kd') as [l' [E [Kd'' M]]].
    destruct (mem_key k K) eqn:Mk.
    + apply mem_key_spec in Mk. rewrite E.
      exists ((k, u) :: l'); repeat split; simpl; [|congruence].
      constructor; auto. simpl. eapply repr_ext; [| |exact Rk].
      * intros a. symmetry. apply declared_snoc_step.
      * intros a b. symmetry. apply conn_k_snoc_step_in; auto.
    + assert (~ In k K) as Nk by (rewrite <- mem_key_spec; congruence).
      destruct (repr_union _ _ _ p q Rk Dp Dq) as [u' [Eu Ru]]. rewrite Eu, E.
      exists ((k, u') :: l'); repeat split; simpl; [|congruence].
      constructor; auto. simpl. eapply repr_ext; [| |exact Ru].
      * intros a. symmetry. apply declared_snoc_step.
      * intros a b. symmetry. apply conn_k_snoc_step_out; auto.
Qed.

Lemma assert_inv_ok H s p q K :
  Inv H s -> declared H p -> declared H q ->
  Inv (H ++ [Step p q K]) (fst (assert_eqv_proc s p q K)) /\
  snd (assert_eqv_proc s p q K) = RNone.
Proof.
  intros I Dp Dq. unfold assert_eqv_proc.
  destruct (expand_keys_inv H K s I) as [[St U S Kd Fr] [HasK _]].
  set (s1 := expand_keys s K) in *.
  assert (exists st, (match K with [] => uf_union (strict s1) p q | _ => Ok (strict s1) tt end)
                     = Ok st tt /\
                     repr st (declared (H ++ [Step p q K])) (conn_within [] (H ++ [Step p q K])))
    as [st [Est Rst]].
  { destruct K as [|k0 K0].
    - destruct (repr_union _ _ _ p q S Dp Dq) as [st [E R]]. exists st; split; auto.
      eapply repr_ext; [| |exact R].
      + intros a. symmetry. apply declared_snoc_step.
      + intros a b. symmetry. apply conn_within_snoc_step_in. apply incl_refl.
    - exists (strict s1); split; auto. eapply repr_ext; [| |exact S].
      + intros a. symmetry. apply declared_snoc_step.
      + intros a b. symmetry. apply conn_within_snoc_step_out.
        intros C. apply (C k0). left; auto. }
  rewrite Est.
  destruct (repr_union _ _ _ p q U Dp Dq) as [un [Eun Run]]. rewrite Eun.
  destruct (union_keyed_ok H (keyed s1) K p q Dp Dq Kd) as [kd [Ekd [Rkd Mkd]]]. rewrite Ekd.
  simpl. split; auto. constructor; simpl; auto.
  - apply steps_declared_snoc_step; auto.
  - eapply repr_ext; [| |exact Run].
    + intros a. symmetry. apply declared_snoc_step.
    + intros a b. symmetry. apply conn_all_snoc_step.
  - intros k Hk p' q' K' I'. rewrite (has_key_map_fst _ _ _ Mkd) in Hk.
    apply step_in_snoc_step in I'. destruct I' as [I'|[-> [-> ->]]].
    + eapply Fr; eauto.
    + intros Ik. rewrite (HasK _ Ik) in Hk. discriminate.
Qed.

Lemma assert_inv_fail H s p q K :
  Inv H s -> ~ (declared H p /\ declared H q) ->
  Inv H (fst (assert_eqv_proc s p q K)) /\ snd (assert_eqv_proc s p q K) = RKeyError.
Proof.
  intros I N. unfold assert_eqv_proc.
  destruct (expand_keys_inv H K s I) as [[St U S Kd Fr] _].
  set (s1 := expand_keys s K) in *.
  destruct K as [|k0 K0].
  - destruct (repr_union_fail _ _ _ p q S N) as [st [E R]]. rewrite E. simpl.
    split; auto. constructor; auto.
  - destruct (repr_union_fail _ _ _ p q U N) as [un [E R]]. rewrite E. simpl.
    split; auto. constructor; auto.
Qed.

(* ------------------------------------------------------------------ *)
(* queries *)

Lemma check_keyed_ok H l K p q :
  declared H p -> declared H q -> keyed_ok H l ->
  exists l' b, check_keyed l K p q = (l', RBool b) /\ keyed_ok H l' /\ map fst l' = map fst l /\
               (b = true <-> forall k, In k (map fst l) -> ~ In k K -> conn_k k H p q).
Proof.
  intros Dp Dq. induction l as [|[k u] l IH]; intros Kd; simpl.
  - exists [], true; repeat split; auto. intros _ k0 [].  
  - inversion Kd as [|? ? Rk Kd']; subst. simpl in Rk.
    destruct (IH Kd') as [l' [b [E [Kd'' [M B]]]]].
    destruct (mem_key k K) eqn:Mk.
    + apply mem_key_spec in Mk. rewrite E.
      exists ((k, u) :: l'), b; split; auto. split; [constructor; auto|].
      split; [simpl; congruence|]. rewrite B. split.
      * intros A k' [<-|I] Nk; auto. tauto.
      * intros A k' I Nk. apply A; auto.
    + assert (~ In k K) as Nk by (rewrite <- mem_key_spec; congruence).
      destruct (repr_check _ _ _ p q Rk Dp Dq) as [u' [b0 [Eu [Ru B0]]]]. rewrite Eu.
      destruct b0.
      * rewrite E. exists ((k, u') :: l'), b; split; auto. split; [constructor; auto|].
        split; [simpl; congruence|]. rewrite B. split.
        -- intros A k' [<-|I] Nk'; auto. apply B0; auto.
        -- intros A k' I Nk'. apply A; auto.
      * exists ((k, u') :: l), false; split; auto. split; [constructor; auto|].
        split; auto. split; [discriminate|].
        intros A. apply B0. apply A; auto.
Qed.

Lemma check_spec H s p q K :
  Inv H s -> declared H p -> declared H q ->
  exists s' b, check_eqv_proc s p q K = (s', RBool b) /\ Inv H s' /\
               (b = true <-> eqv_mod K H p q).
Proof.
  intros [St U S Kd Fr] Dp Dq. unfold check_eqv_proc.
  destruct (repr_check _ _ _ p q U Dp Dq) as [un [b0 [Eu [Ru B0]]]]. rewrite Eu.
  destruct b0.
  - destruct (check_keyed_ok H (keyed s) K p q Dp Dq Kd) as [kd [b [E [Rkd [M B]]]]].
    rewrite E. exists (mkState un (strict s) kd), b; split; auto. split.
    + constructor; simpl; auto. intros k Hk. rewrite (has_key_map_fst _ _ _ M) in Hk. apply Fr; auto.
    + rewrite B. unfold eqv_mod. split.
      * intros A. split; [apply B0; auto|]. intros k Nk.
        destruct (has_key k (keyed s)) eqn:Hk.
        -- apply A; auto. apply has_key_spec; auto.
        -- apply (conn_k_unmentioned k H (Fr k Hk)). apply B0; auto.
      * intros [_ A] k _ Nk. auto.
  - exists (mkState un (strict s) (keyed s)), false; split; auto. split.
    + constructor; auto.
    + split; [discriminate|]. intros [A _]. apply B0; auto.
Qed.

Lemma check_fail H s p q K :
  Inv H s -> ~ (declared H p /\ declared H q) ->
  exists s', check_eqv_proc s p q K = (s', RKeyError) /\ Inv H s'.
Proof.
  intros [St U S Kd Fr] N. unfold check_eqv_proc.
  destruct (repr_check_fail _ _ _ p q U N) as [un [E R]]. rewrite E.
  eexists; split; eauto. constructor; auto.
Qed.

Lemma strictest_keyed_ok H l p q :
  declared H p -> declared H q -> keyed_ok H l ->
  exists l' ks, strictest_keyed l p q = (l', Some ks, RNone) /\ keyed_ok H l' /\
                map fst l' = map fst l /\
                (forall k, In k ks <-> In k (map fst l) /\ ~ conn_k k H p q).
Proof.
  intros Dp Dq. induction l as [|[k u] l IH]; intros Kd; simpl.
  - exists [], []; repeat split; auto; try tauto; try constructor.
  - inversion Kd as [|? ? Rk Kd']; subst. simpl in Rk.
    destruct (IH Kd') as [l' [ks [E [Kd'' [M B]]]]].
    destruct (repr_check _ _ _ p q Rk Dp Dq) as [u' [b0 [Eu [Ru B0]]]]. rewrite Eu, E.
    exists ((k, u') :: l'), (if b0 then ks else k :: ks).
    split; auto. split; [constructor; auto|]. split; [simpl; congruence|].
    intros k'. destruct b0; simpl; rewrite B.
    + split.
      * intros [I N]; auto.
      * intros [[<-|I] N]; auto. exfalso. apply N. apply B0; auto.
    + split.
      * intros [<-|[I N]]; auto. split; auto. intros C. apply B0 in C. discriminate.
      * intros [[<-|I] N]; auto.
Qed.

Lemma strictest_spec H s p q :
  Inv H s -> declared H p -> declared H q ->
  exists s' b ks, get_strictest_eqv_proc s p q = (s', RStrictest b ks) /\ Inv H s' /\
                  (b = true <-> conn_all H p q) /\
                  (b = true -> forall k, In k ks <-> ~ conn_k k H p q) /\
                  (b = false -> ks = []).
Proof.
  intros [St U S Kd Fr] Dp Dq. unfold get_strictest_eqv_proc.
  destruct (repr_check _ _ _ p q U Dp Dq) as [un [b0 [Eu [Ru B0]]]]. rewrite Eu.
  destruct b0.
  - destruct (strictest_keyed_ok H (keyed s) p q Dp Dq Kd) as [kd [ks [E [Rkd [M B]]]]].
    rewrite E. exists (mkState un (strict s) kd), true, ks; split; auto. split.
    + constructor; simpl; auto. intros k Hk. rewrite (has_key_map_fst _ _ _ M) in Hk. apply Fr; auto.
    + split; auto. split; [|discriminate]. intros _ k. rewrite B. split; [tauto|].
      intros N. split; auto. apply has_key_spec.
      destruct (has_key k (keyed s)) eqn:Hk; auto. exfalso. apply N.
      apply (conn_k_unmentioned k H (Fr k Hk)). apply B0; auto.
  - exists (mkState un (strict s) (keyed s)), false, []; split; auto. split.
    + constructor; auto.
    + split; auto. split; auto. discriminate.
Qed.

Lemma strictest_fail H s p q :
  Inv H s -> ~ (declared H p /\ declared H q) ->
  exists s', get_strictest_eqv_proc s p q = (s', RKeyError) /\ Inv H s'.
Proof.
  intros [St U S Kd Fr] N. unfold get_strictest_eqv_proc.
  destruct (repr_check_fail _ _ _ p q U N) as [un [E R]]. rewrite E.
  eexists; split; eauto. constructor; auto.
Qed.

Lemma repr_proc_spec H s p :
  Inv H s -> declared H p ->
  exists s' r, get_repr_proc s p = (s', RProc r) /\ Inv H s' /\
               declared H r /\ conn_within [] H p r.
Proof.
  intros [St U S Kd Fr] Dp. unfold get_repr_proc.
  destruct (repr_find _ _ _ p S Dp) as [st [r [E [R [Dr C]]]]]. rewrite E.
  exists (mkState (unv s) st (keyed s)), r; split; auto. split; auto. constructor; auto.
Qed.

Lemma repr_proc_fail H s p :
  Inv H s -> ~ declared H p -> get_repr_proc s p = (s, RKeyError).
Proof.
  intros [St U S Kd Fr] N. unfold get_repr_proc. rewrite (repr_find_fail _ _ _ p S N).
  destruct s; auto.
Qed.

(* ------------------------------------------------------------------ *)
(* every call preserves the invariant, with the events the specification says it records *)

Lemma decide_declared2 H p q :
  (declared_b H p && declared_b H q = true /\ declared H p /\ declared H q) \/
  (declared_b H p && declared_b H q = false /\ ~ (declared H p /\ declared H q)).
Proof.
  destruct (declared_b H p) eqn:A; destruct (declared_b H q) eqn:B; simpl.
  - left. rewrite <- !declared_b_spec. auto.
  - right. split; auto. rewrite <- !declared_b_spec. intros [_ C]; congruence.
  - right. split; auto. rewrite <- !declared_b_spec. intros [C _]; congruence.
  - right. split; auto. rewrite <- !declared_b_spec. intros [C _]; congruence.
Qed.

Lemma assert_inv H s p q K :
  Inv H s ->
  Inv (H ++ (if declared_b H p && declared_b H q then [Step p q K] else []))
      (fst (assert_eqv_proc s p q K)).
Proof.
  intros I. destruct (decide_declared2 H p q) as [[E [Dp Dq]]|[E N]]; rewrite E.
  - apply assert_inv_ok; auto.
  - rewrite app_nil_r. apply assert_inv_fail; auto.
Qed.

Lemma run_op_inv H s o : Inv H s -> Inv (H ++ events_of_op H o) (fst (run_op s o)).
Proof.
  intros I. destruct o as [p|orig new K|p q K|k|p q K|p q|p]; simpl.
  - apply decl_inv; auto.
  - unfold derive_proc.
    pose proof (decl_inv H s new I) as I1.
    pose proof (assert_inv _ _ orig new K I1) as I2.
    assert (declared_b (H ++ [Decl new]) new = true) as Dn.
    { apply declared_b_spec. apply declared_snoc_decl; auto. }
    rewrite Dn, andb_true_r in I2. rewrite <- app_assoc in I2. exact I2.
  - apply assert_inv; auto.
  - rewrite app_nil_r. destruct (has_key k (keyed s)) eqn:Hk.
    + rewrite new_key_present; auto.
    + apply new_key_inv; auto.
  - rewrite app_nil_r. destruct (decide_declared2 H p q) as [[_ [Dp Dq]]|[_ N]].
    + destruct (check_spec H s p q K I Dp Dq) as [s' [b [E [I' _]]]]. rewrite E; auto.
    + destruct (check_fail H s p q K I N) as [s' [E I']]. rewrite E; auto.
  - rewrite app_nil_r. destruct (decide_declared2 H p q) as [[_ [Dp Dq]]|[_ N]].
    + destruct (strictest_spec H s p q I Dp Dq) as [s' [b [ks [E [I' _]]]]]. rewrite E; auto.
    + destruct (strictest_fail H s p q I N) as [s' [E I']]. rewrite E; auto.
  - rewrite app_nil_r. destruct (declared_b H p) eqn:Dp.
    + apply declared_b_spec in Dp.
      destruct (repr_proc_spec H s p I Dp) as [s' [r [E [I' _]]]]. rewrite E; auto.
    + rewrite (repr_proc_fail H); auto. rewrite <- declared_b_spec. congruence.
Qed.

Lemma run_from_inv ops : forall H s, Inv H s -> Inv (history_from H ops) (run_from s ops).
Proof.
  induction ops as [|o ops IH]; intros H s I; simpl; auto.
  apply IH. apply run_op_inv; auto.
Qed.

Theorem run_inv ops : Inv (history_of ops) (run ops).
Proof. apply run_from_inv. apply inv_init. Qed.
