(* Extraction of the executable model for the C11 correspondence harness.
   ExtrOcamlBasic only; positive / nat / PositiveMap stay extracted datatypes.
   Writes eqv_model.ml(i) into the current directory; extract.sh moves them to _build/. *)
From Coq Require Import PArith List FMapPositive.
From Eqv Require Import Model.
Require Extraction.
Require Import ExtrOcamlBasic.

Definition uf_elements (m : uf) : list (proc * proc) := PositiveMap.elements m.

Extraction "eqv_model.ml" run_op init_state uf_elements.
