(* The C11 statements, derived from the refinement invariant [run_inv]. *)
From Coq Require Import PArith List Bool Relations Lia FMapPositive.
From Eqv Require Import Model Spec Proofs_UF Proofs_Conn Proofs_State.
Import ListNotations.

(* ------------------------------------------------------------------ *)
(* check_eqv_proc / get_strictest_eqv_proc / get_repr_proc answer the closure *)

Lemma c11_check : forall ops p q K,
  let H := history_of ops in
  declared H p -> declared H q ->
  exists b, snd (check_eqv_proc (run ops) p q K) = RBool b /\
            (b = true <-> conn_all H p q /\ forall k, ~ In k K -> conn_k k H p q).
Proof.
  intros ops p q K H Dp Dq.
  destruct (check_spec H (run ops) p q K (run_inv ops) Dp Dq) as [s' [b [E [_ B]]]].
  exists b. rewrite E. split; auto.
Qed.

Lemma c11_strictest : forall ops p q,
  let H := history_of ops in
  declared H p -> declared H q ->
  exists b Ks, snd (get_strictest_eqv_proc (run ops) p q) = RStrictest b Ks /\
               (b = true <-> conn_all H p q) /\
               (b = true -> forall k, In k Ks <-> ~ conn_k k H p q) /\
               (b = false -> Ks = []).
Proof.
  intros ops p q H Dp Dq.
  destruct (strictest_spec H (run ops) p q (run_inv ops) Dp Dq) as [s' [b [ks [E [_ B]]]]].
  exists b, ks. rewrite E. split; auto.
Qed.

Lemma c11_repr : forall ops p,
  let H := history_of ops in
  declared H p ->
  exists r, snd (get_repr_proc (run ops) p) = RProc r /\ declared H r /\ conn_within [] H p r.
Proof.
  intros ops p H Dp.
  destruct (repr_proc_spec H (run ops) p (run_inv ops) Dp) as [s' [r [E [_ B]]]].
  exists r. rewrite E. split; auto.
Qed.

(* the strictest set is the least K for which check_eqv_proc says yes *)
Lemma c11_strictest_least : forall ops p q Ks,
  let H := history_of ops in
  declared H p -> declared H q ->
  snd (get_strictest_eqv_proc (run ops) p q) = RStrictest true Ks ->
  forall K, snd (check_eqv_proc (run ops) p q K) = RBool true <-> incl Ks K.
Proof.
  intros ops p q Ks H Dp Dq E K.
  destruct (c11_strictest ops p q Dp Dq) as [b [Ks' [E' [B1 [B2 _]]]]].
  fold H in B1, B2. rewrite E in E'. inversion E'; subst b Ks'. clear E'.
  destruct (c11_check ops p q K Dp Dq) as [b [Ec Bc]]. fold H in Bc. rewrite Ec.
  pose proof (B2 eq_refl) as B3. split.
  - intros Eb. inversion Eb; subst b. destruct (proj1 Bc eq_refl) as [_ A].
    intros k Ik. destruct (in_dec Pos.eq_dec k K) as [?|N]; auto.
    exfalso. apply (proj1 (B3 k)); auto.
  - intros I. f_equal. apply Bc. split; [apply B1; auto|].
    intros k Nk.
    destruct (in_dec Pos.eq_dec k Ks) as [Ik|Nik].
    + exfalso. apply Nk. apply I; auto.
    + (* k not in Ks gives ~ ~ conn_k; conn_k is decided by k's own union-find *)
      pose proof (run_inv ops) as [St U S Kd Fr]. fold H in St, U, S, Kd, Fr.
      destruct (has_key k (keyed (run ops))) eqn:Hk.
      * apply has_key_spec in Hk. apply in_map_iff in Hk. destruct Hk as [[k' u] [Ek Iku]].
        simpl in Ek; subst k'.
        unfold keyed_ok in Kd. rewrite Forall_forall in Kd. pose proof (Kd _ Iku) as Rk. simpl in Rk.
        destruct (repr_check _ _ _ p q Rk Dp Dq) as [u' [bb [_ [_ Bb]]]].
        destruct bb; [apply Bb; auto|].
        exfalso. apply Nik. apply B3. intros C. apply Bb in C. discriminate.
      * apply (conn_k_unmentioned k H (Fr k Hk)). apply B1; auto.
Qed.

(* ------------------------------------------------------------------ *)
(* origins *)

Lemma c11_origins : forall ops p q (S : proc -> Prop),
  let H := history_of ops in
  declared H p -> declared H q ->
  (forall a b K, In (Step a b K) H -> (S a <-> S b)) ->   (* no step leaves S *)
  S p -> ~ S q ->
  (forall K, snd (check_eqv_proc (run ops) p q K) = RBool false) /\
  snd (get_strictest_eqv_proc (run ops) p q) = RStrictest false [].
Proof.
  intros ops p q S H Dp Dq Cl Sp Sq.
  assert (~ conn_all H p q) as N.
  { intros C. apply Sq. apply (clos_separates (edge_all H) S) in C; [tauto|].
    intros a b [K I]. eapply Cl; eauto. }
  split.
  - intros K. destruct (c11_check ops p q K Dp Dq) as [b [E B]]. fold H in B.
    rewrite E. destruct b; auto. exfalso. apply N. apply B; auto.
  - destruct (c11_strictest ops p q Dp Dq) as [b [Ks [E [B1 [_ B3]]]]]. fold H in B1.
    rewrite E. destruct b.
    + exfalso. apply N. apply B1; auto.
    + rewrite B3; auto.
Qed.

(* ------------------------------------------------------------------ *)
(* late keys: the answers are a function of the recorded history alone *)

Lemma history_from_app ops1 : forall H ops2,
  history_from H (ops1 ++ ops2) = history_from (history_from H ops1) ops2.
Proof. induction ops1 as [|o ops1 IH]; intros H ops2; simpl; auto. Qed.

Lemma history_from_newkeys ks : forall H, history_from H (map ONewKey ks) = H.
Proof.
  induction ks as [|k ks IH]; intros H; simpl; auto. rewrite app_nil_r. apply IH.
Qed.

Lemma history_prereg ops1 ks ops2 :
  history_of (ops1 ++ map ONewKey ks ++ ops2) = history_of (ops1 ++ ops2).
Proof.
  unfold history_of. rewrite !history_from_app, history_from_newkeys. auto.
Qed.

Lemma c11_history_determines : forall ops1 ops2 p q,
  history_of ops1 = history_of ops2 ->
  declared (history_of ops1) p -> declared (history_of ops1) q ->
  (forall K, snd (check_eqv_proc (run ops1) p q K) = snd (check_eqv_proc (run ops2) p q K)) /\
  (exists b Ks1 Ks2,
      snd (get_strictest_eqv_proc (run ops1) p q) = RStrictest b Ks1 /\
      snd (get_strictest_eqv_proc (run ops2) p q) = RStrictest b Ks2 /\
      forall k, In k Ks1 <-> In k Ks2).
Proof.
  intros ops1 ops2 p q EH Dp Dq. split.
  - intros K.
    destruct (c11_check ops1 p q K Dp Dq) as [b1 [E1 B1]].
    rewrite EH in Dp, Dq.
    destruct (c11_check ops2 p q K Dp Dq) as [b2 [E2 B2]].
    rewrite E1, E2. f_equal. rewrite EH in B1.
    destruct b1; destruct b2; auto.
    + symmetry. apply B2. apply B1; auto.
    + apply B1. apply B2; auto.
  - destruct (c11_strictest ops1 p q Dp Dq) as [b1 [Ks1 [E1 [A1 [A2 A3]]]]].
    rewrite EH in Dp, Dq.
    destruct (c11_strictest ops2 p q Dp Dq) as [b2 [Ks2 [E2 [C1 [C2 C3]]]]].
    rewrite EH in A1, A2.
    assert (b1 = b2) as Eb.
    { destruct b1; destruct b2; auto.
      - symmetry. apply C1. apply A1; auto.
      - apply A1. apply C1; auto. }
    subst b2. exists b1, Ks1, Ks2. split; auto. split; auto.
    destruct b1.
    + intros k. rewrite (A2 eq_refl k), (C2 eq_refl k). tauto.
    + rewrite A3, C3; auto. tauto.
Qed.

Lemma c11_late_key : forall ops1 ks ops2 p q,
  let early := ops1 ++ map ONewKey ks ++ ops2 in   (* fields ks registered before they are first used *)
  let late := ops1 ++ ops2 in                      (* ... or only when a step first mentions them *)
  declared (history_of late) p -> declared (history_of late) q ->
  (forall K, snd (check_eqv_proc (run early) p q K) = snd (check_eqv_proc (run late) p q K)) /\
  (exists b Ks1 Ks2,
      snd (get_strictest_eqv_proc (run early) p q) = RStrictest b Ks1 /\
      snd (get_strictest_eqv_proc (run late) p q) = RStrictest b Ks2 /\
      forall k, In k Ks1 <-> In k Ks2).
Proof.
  intros ops1 ks ops2 p q early late Dp Dq.
  assert (history_of early = history_of late) as EH by apply history_prereg.
  apply c11_history_determines; auto; rewrite EH; auto.
Qed.

(* ------------------------------------------------------------------ *)
(* the model never runs out of fuel on a reachable state, and raises only what Python raises *)

Lemma c11_no_out_of_fuel : forall ops o, snd (run_op (run ops) o) <> ROutOfFuel.
Proof.
  intros ops o. pose proof (run_inv ops) as I. set (H := history_of ops) in *.
  set (s := run ops) in *.
  destruct o as [p|orig new K|p q K|k|p q K|p q|p]; simpl.
  - discriminate.
  - unfold derive_proc. pose proof (decl_inv H s new I) as I1.
    destruct (decide_declared2 (H ++ [Decl new]) orig new) as [[_ [Dp Dq]]|[_ N]].
    + destruct (assert_inv_ok _ _ orig new K I1 Dp Dq) as [_ E]. rewrite E. discriminate.
    + destruct (assert_inv_fail _ _ orig new K I1 N) as [_ E]. rewrite E. discriminate.
  - destruct (decide_declared2 H p q) as [[_ [Dp Dq]]|[_ N]].
    + destruct (assert_inv_ok _ _ p q K I Dp Dq) as [_ E]. rewrite E. discriminate.
    + destruct (assert_inv_fail _ _ p q K I N) as [_ E]. rewrite E. discriminate.
  - unfold new_uf_by_eqv_key. destruct (has_key k (keyed s)); discriminate.
  - destruct (decide_declared2 H p q) as [[_ [Dp Dq]]|[_ N]].
    + destruct (check_spec H s p q K I Dp Dq) as [s' [b [E _]]]. rewrite E. discriminate.
    + destruct (check_fail H s p q K I N) as [s' [E _]]. rewrite E. discriminate.
  - destruct (decide_declared2 H p q) as [[_ [Dp Dq]]|[_ N]].
    + destruct (strictest_spec H s p q I Dp Dq) as [s' [b [ks [E _]]]]. rewrite E. discriminate.
    + destruct (strictest_fail H s p q I N) as [s' [E _]]. rewrite E. discriminate.
  - destruct (declared_b H p) eqn:Dp.
    + apply declared_b_spec in Dp.
      destruct (repr_proc_spec H s p I Dp) as [s' [r [E _]]]. rewrite E. discriminate.
    + rewrite (repr_proc_fail H s p I); [discriminate|]. rewrite <- declared_b_spec. congruence.
Qed.

(* calls on declared procedures never raise *)
Lemma c11_step_ok : forall ops p q K,
  let H := history_of ops in
  declared H p -> declared H q ->
  snd (assert_eqv_proc (run ops) p q K) = RNone /\
  history_of (ops ++ [OAssert p q K]) = H ++ [Step p q K].
Proof.
  intros ops p q K H Dp Dq. split.
  - apply (assert_inv_ok H); auto. apply run_inv.
  - unfold history_of. rewrite history_from_app. simpl. fold (history_of ops). fold H.
    apply declared_b_spec in Dp. apply declared_b_spec in Dq. rewrite Dp, Dq. auto.
Qed.

(* ------------------------------------------------------------------ *)
(* single-path reading: complete in general, sound for derivation forests, not sound with
   unsafe_assert_eq cycles *)

Lemma c11_within_reported : forall ops p q K,
  let H := history_of ops in
  declared H p -> declared H q ->
  conn_within K H p q -> snd (check_eqv_proc (run ops) p q K) = RBool true.
Proof.
  intros ops p q K H Dp Dq W.
  destruct (c11_check ops p q K Dp Dq) as [b [E B]]. fold H in B. rewrite E. f_equal.
  apply B. apply within_eqv_mod; auto.
Qed.

Definition tree_like (H : history) : Prop :=
  forall K p q, eqv_mod K H p q -> conn_within K H p q.

Lemma merged_isolated (R : proc -> proc -> Prop) orig new a b :
  (forall x, R new x -> x = new) -> (forall x, R x new -> x = new) ->
  a <> new -> b <> new -> merged_c R orig new a b -> R a b.
Proof.
  intros I1 I2 Na Nb [M|[[M1 M2]|[M1 M2]]]; auto.
  - exfalso. apply Nb. apply I1; auto.
  - exfalso. apply Na. apply I2; auto.
Qed.

Lemma merged_from_new (R : proc -> proc -> Prop) orig new b :
  (forall x, R new x -> x = new) ->
  b <> new -> merged_c R orig new new b -> R orig b.
Proof.
  intros I1 Nb [M|[[M1 M2]|[M1 M2]]]; auto.
  - exfalso. apply Nb. apply I1; auto.
  - exfalso. apply Nb. apply I1; auto.
Qed.

Lemma merged_to_new (R : proc -> proc -> Prop) orig new a :
  (forall x, R x new -> x = new) -> (forall x y, R x y -> R y x) ->
  a <> new -> merged_c R orig new a new -> R a orig.
Proof.
  intros I2 Sy Na [M|[[M1 M2]|[M1 M2]]]; auto.
  - exfalso. apply Na. apply I2; auto.
  - exfalso. apply Na. apply I2; auto.
Qed.

Lemma tree_like_nil : tree_like [].
Proof.
  intros K p q [C _]. destruct (conn_all_stays [] p q steps_declared_nil C) as [->|[[] _]].
  apply rst_refl.
Qed.

Lemma tree_like_decl H d : tree_like H -> tree_like (H ++ [Decl d]).
Proof.
  intros T K p q [C1 C2]. apply conn_within_snoc_decl. apply T. split.
  - apply conn_all_snoc_decl in C1; auto.
  - intros k N. apply (conn_k_snoc_decl k H d). auto.
Qed.

Lemma incl_dec_key (K0 K : list key) : incl K0 K \/ exists k, In k K0 /\ ~ In k K.
Proof.
  induction K0 as [|k K0 IH].
  - left. intros k [].
  - destruct (in_dec Pos.eq_dec k K) as [I|N].
    + destruct IH as [IH|[k' [A B]]].
      * left. intros x [<-|Ix]; auto.
      * right. exists k'; split; auto. right; auto.
    + right. exists k; split; auto. left; auto.
Qed.

Lemma tree_like_leaf H orig new K0 :
  steps_declared H -> ~ declared H new -> tree_like H ->
  tree_like ((H ++ [Decl new]) ++ [Step orig new K0]).
Proof.
  intros St Nn T. set (H1 := H ++ [Decl new]).
  assert (tree_like H1) as T1 by (apply tree_like_decl; auto).
  (* new is isolated in H1 *)
  assert (forall x y, conn_all H1 x y -> x = new \/ y = new -> x = y) as Iso.
  { intros x y C. apply conn_all_snoc_decl in C.
    destruct (conn_all_stays H x y St C) as [->|[Dx Dy]]; auto.
    intros [->| ->]; tauto. }
  assert (forall k x, conn_k k H1 new x -> x = new) as IsoK1.
  { intros k x C. symmetry. apply Iso; auto. eapply conn_k_all; eauto. }
  assert (forall k x, conn_k k H1 x new -> x = new) as IsoK2.
  { intros k x C. apply Iso; auto. eapply conn_k_all; eauto. }
  assert (forall x, conn_all H1 new x -> x = new) as IsoA1 by (intros x C; symmetry; apply Iso; auto).
  assert (forall x, conn_all H1 x new -> x = new) as IsoA2 by (intros x C; apply Iso; auto).
  intros K p q [CA CK].
  apply conn_all_snoc_step in CA.
  assert (forall k, ~ In k K ->
                    (In k K0 /\ conn_k k H1 p q) \/ (~ In k K0 /\ merged_c (conn_k k H1) orig new p q)) as CK'.
  { intros k N. specialize (CK k N). destruct (in_dec Pos.eq_dec k K0) as [I|N0].
    - left. split; auto. apply (conn_k_snoc_step_in k H1 orig new K0) in CK; auto.
    - right. split; auto. apply (conn_k_snoc_step_out k H1 orig new K0) in CK; auto. }
  destruct (Pos.eq_dec p new) as [->|Np]; destruct (Pos.eq_dec q new) as [->|Nq].
  - apply rst_refl.
  - (* new -- q must use the new edge: K0 inside K, and orig ~ q before *)
    destruct (incl_dec_key K0 K) as [Inc|[k0 [I0 N0]]].
    + apply conn_within_snoc_step_in; auto. right; right. split; [apply rst_refl|].
      apply T1. split.
      * eapply merged_from_new; eauto.
      * intros k N. destruct (CK' k N) as [[Ik _]|[_ M]]; [exfalso; apply N; auto|].
        eapply merged_from_new; eauto.
    + exfalso. destruct (CK' k0 N0) as [[_ C]|[N _]]; [|tauto].
      apply Nq. eapply IsoK1; eauto.
  - destruct (incl_dec_key K0 K) as [Inc|[k0 [I0 N0]]].
    + apply conn_within_snoc_step_in; auto. right; left. split; [|apply rst_refl].
      apply T1. split.
      * eapply merged_to_new; eauto. intros x y; apply rst_sym.
      * intros k N. destruct (CK' k N) as [[Ik _]|[_ M]]; [exfalso; apply N; auto|].
        eapply merged_to_new; eauto. intros x y; apply rst_sym.
    + exfalso. destruct (CK' k0 N0) as [[_ C]|[N _]]; [|tauto].
      apply Np. eapply IsoK2; eauto.
  - (* neither endpoint is the new leaf: the new edge is useless *)
    assert (conn_within K H1 p q) as W.
    { apply T1. split.
      - eapply merged_isolated; eauto.
      - intros k N. destruct (CK' k N) as [[_ C]|[_ M]]; auto.
        eapply merged_isolated; eauto. }
    destruct (incl_dec_key K0 K) as [Inc|[k0 [I0 N0]]].
    + apply conn_within_snoc_step_in; auto. left; auto.
    + apply conn_within_snoc_step_out; auto.
Qed.

Lemma forest_tree_like ops :
  forall H, forest_from H ops -> steps_declared H -> tree_like H ->
            tree_like (history_from H ops).
Proof.
  induction ops as [|o ops IH]; intros H F St T; simpl; auto.
  destruct F as [Fo Fr]. apply IH; auto.
  - destruct o as [p|orig new K|p q K|k|p q K|p q|p]; simpl; try (rewrite app_nil_r; auto).
    + apply steps_declared_snoc_decl; auto.
    + destruct Fo as [Do Nn].
      assert (declared_b (H ++ [Decl new]) orig = true) as E.
      { apply declared_b_spec. apply declared_snoc_decl; auto. }
      rewrite E. change (Decl new :: [Step orig new K]) with ([Decl new] ++ [Step orig new K]).
      rewrite app_assoc. apply steps_declared_snoc_step.
      * apply steps_declared_snoc_decl; auto.
      * apply declared_snoc_decl; auto.
      * apply declared_snoc_decl; auto.
    + destruct Fo.
  - destruct o as [p|orig new K|p q K|k|p q K|p q|p]; simpl; try (rewrite app_nil_r; auto).
    + apply tree_like_decl; auto.
    + destruct Fo as [Do Nn].
      assert (declared_b (H ++ [Decl new]) orig = true) as E.
      { apply declared_b_spec. apply declared_snoc_decl; auto. }
      rewrite E. change (Decl new :: [Step orig new K]) with ([Decl new] ++ [Step orig new K]).
      rewrite app_assoc. apply tree_like_leaf; auto.
    + destruct Fo.
Qed.

Lemma c11_singlepath_partial : forall ops p q K,
  let H := history_of ops in
  forest ops ->
  declared H p -> declared H q ->
  (snd (check_eqv_proc (run ops) p q K) = RBool true <-> conn_within K H p q).
Proof.
  intros ops p q K H F Dp Dq. split.
  - intros E. destruct (c11_check ops p q K Dp Dq) as [b [E' B]]. fold H in B.
    rewrite E in E'. inversion E'; subst b.
    apply (forest_tree_like ops [] F steps_declared_nil tree_like_nil).
    apply B; auto.
  - apply c11_within_reported; auto.
Qed.

(* with unsafe_assert_eq the per-field answer can be "yes" although no single chain of
   steps stays inside K:   1 -{k1}- 2,  1 -{k2}- 3,  2 -{}- 3,  query (1, 2) modulo {} *)
Definition witness_ops : list op :=
  [ODecl 1; ODerive 1 2 [1]; ODerive 1 3 [2]; OAssert 2 3 []]%positive.

Lemma c11_singlepath_refuted :
  exists ops p q K,
    let H := history_of ops in
    declared H p /\ declared H q /\
    snd (check_eqv_proc (run ops) p q K) = RBool true /\ ~ conn_within K H p q.
Proof.
  exists witness_ops, 1%positive, 2%positive, []. simpl.
  split; [left; reflexivity|]. split; [right; left; reflexivity|].
  split; [vm_compute; reflexivity|].
  intros C.
  apply (clos_separates _ (fun a => a = 1%positive)) in C.
  - assert (2 = 1)%positive by (apply C; auto). discriminate.
  - intros a b [K' [I S]]. unfold history_of, witness_ops in I. simpl in I.
    repeat (destruct I as [I|I]; [inversion I; subst; clear I|]); try destruct I;
      try (exfalso; apply (S 1%positive); left; reflexivity);
      try (exfalso; apply (S 2%positive); left; reflexivity).
    split; discriminate.
Qed.

(* ------------------------------------------------------------------ *)
(* the hypotheses of the implication-shaped theorems are satisfiable *)

Definition example_ops : list op :=
  [ODecl 1; ODerive 1 2 [7]; OCheck 1 2 []; ODerive 2 3 []; ODecl 4]%positive.

Example example_declared :
  declared (history_of example_ops) 1%positive /\ declared (history_of example_ops) 3%positive.
Proof. split; vm_compute; tauto. Qed.

Example example_forest : forest example_ops.
Proof.
  unfold forest, example_ops. simpl. repeat split; auto; unfold declared; simpl; intuition discriminate.
Qed.

Example example_answers :
  (snd (check_eqv_proc (run example_ops) 1 3 [7]) = RBool true /\
   snd (check_eqv_proc (run example_ops) 1 3 []) = RBool false /\
   snd (get_strictest_eqv_proc (run example_ops) 1 3) = RStrictest true [7] /\
   snd (check_eqv_proc (run example_ops) 1 4 [7]) = RBool false)%positive.
Proof. vm_compute. repeat split. Qed.

(* origins: {1,2,3} is closed under the steps, 4 is outside *)
Example example_origins :
  let H := history_of example_ops in
  let S := fun a => a <> 4%positive in
  (forall a b K, In (Step a b K) H -> (S a <-> S b)) /\ S 1%positive /\ ~ S 4%positive.
Proof.
  simpl. split; [|split; [discriminate|tauto]].
  intros a b K I. unfold history_of, example_ops in I. simpl in I.
  repeat (destruct I as [I|I]; [inversion I; subst; clear I|]); try destruct I;
    split; intros; discriminate.
Qed.

(* a chain inside K (hypothesis of C11_within_reported) *)
Example example_within :
  conn_within [7%positive] (history_of example_ops) 1%positive 3%positive.
Proof.
  apply (c11_singlepath_partial example_ops 1 3 [7])%positive.
  - exact example_forest.
  - apply example_declared.
  - apply example_declared.
  - apply example_answers.
Qed.

(* late keys: registering fields 7 and 8 early *)
Example example_late_key :
  let ops1 := [ODecl 1]%positive in
  let ks := [7; 8]%positive in
  let ops2 := [ODerive 1 2 [7]]%positive in
  declared (history_of (ops1 ++ ops2)) 1%positive /\ declared (history_of (ops1 ++ ops2)) 2%positive /\
  snd (check_eqv_proc (run (ops1 ++ map ONewKey ks ++ ops2)) 1 2 [])%positive = RBool false /\
  snd (check_eqv_proc (run (ops1 ++ map ONewKey ks ++ ops2)) 1 2 [7])%positive = RBool true.
Proof. vm_compute. repeat split; auto. Qed.

(* same recorded history, different call sequences (a query, a failed call, an early key) *)
Example example_same_history :
  history_of example_ops =
  history_of [ODecl 1; ONewKey 7; ODerive 1 2 [7]; OAssert 9 2 []; ODerive 2 3 []; ORepr 3; ODecl 4]%positive.
Proof. reflexivity. Qed.
