(* Driver of the extracted proc_eqv model (coq/Eqv/Model.v).
   stdin : one job per line   (job ID item item ...)
     item ::= (decl p) | (derive p q (k ...)) | (assert p q (k ...)) | (newkey k)
            | (check p q (k ...)) | (strictest p q) | (repr p)         -- model ops, threaded
            | (sweep (p ...) (k ...))   -- all ordered pairs x all subsets, NOT threaded
            | (dump)                    -- canonical print of the whole state
            | (drop p)                  -- implementation side only (gc); no-op here
   stdout: one line per job      ID tok tok ...   (one token per item)          *)
open Eqv_model

type sx = A of string | L of sx list

let parse (s : string) : sx =
  let n = String.length s in
  let pos = ref 0 in
  let rec skip () = if !pos < n && (s.[!pos] = ' ' || s.[!pos] = '\t') then (incr pos; skip ()) in
  let rec rd () =
    skip ();
    if s.[!pos] = '(' then begin
      incr pos;
      let items = ref [] in
      skip ();
      while s.[!pos] <> ')' do items := rd () :: !items; skip () done;
      incr pos; L (List.rev !items)
    end else begin
      let st = !pos in
      while !pos < n && s.[!pos] <> ' ' && s.[!pos] <> '(' && s.[!pos] <> ')' do incr pos done;
      A (String.sub s st (!pos - st))
    end in
  rd ()

let rec pos_of_int (n : int) : positive =
  if n <= 1 then XH else if n land 1 = 0 then XO (pos_of_int (n lsr 1)) else XI (pos_of_int (n lsr 1))
let rec int_of_pos (p : positive) : int =
  match p with XH -> 1 | XO q -> 2 * int_of_pos q | XI q -> 2 * int_of_pos q + 1

let atom_int = function A a -> int_of_string a | L _ -> failwith "int expected"
let pos_of x = pos_of_int (atom_int x)
let keys_of = function L l -> List.map pos_of l | A _ -> failwith "key list expected"

let show_keys ks =
  String.concat "," (List.map string_of_int (List.sort compare (List.map int_of_pos ks)))

let show_outcome = function
  | RNone -> "N"
  | RBool true -> "T"
  | RBool false -> "F"
  | RStrictest (b, ks) -> Printf.sprintf "S:%s:%s" (if b then "T" else "F") (show_keys ks)
  | RProc p -> Printf.sprintf "P:%d" (int_of_pos p)
  | RKeyError -> "KE"
  | RAssertionError -> "AE"
  | ROutOfFuel -> "OOF"

let show_uf (m : uf) =
  let l = List.map (fun (a, b) -> (int_of_pos a, int_of_pos b)) (uf_elements m) in
  String.concat "," (List.map (fun (a, b) -> Printf.sprintf "%d>%d" a b) (List.sort compare l))

let show_state (s : state) =
  let kd = List.map (fun (k, u) -> (int_of_pos k, u)) s.keyed in
  let ord = String.concat "," (List.map (fun (k, _) -> string_of_int k) kd) in
  let srt = List.sort (fun (a, _) (b, _) -> compare a b) kd in
  Printf.sprintf "D:u=%s;s=%s;ord=%s;%s" (show_uf s.unv) (show_uf s.strict) ord
    (String.concat ";" (List.map (fun (k, u) -> Printf.sprintf "k%d=%s" k (show_uf u)) srt))

let short = function
  | RBool true -> "T" | RBool false -> "F" | RKeyError -> "E" | ROutOfFuel -> "O"
  | _ -> "?"

(* all subsets of ks, in bitmask order over the given list *)
let subsets (ks : 'a list) : 'a list list =
  let n = List.length ks in
  let arr = Array.of_list ks in
  List.init (1 lsl n) (fun m ->
      List.filter_map (fun i -> if m land (1 lsl i) <> 0 then Some arr.(i) else None) (List.init n (fun i -> i)))

let sweep (s : state) (ps : positive list) (ks : positive list) : string =
  let st = ref s in
  let b = Buffer.create 256 in
  let subs = subsets ks in
  List.iter (fun p -> List.iter (fun q ->
      List.iter (fun kk ->
          let (s', o) = run_op !st (OCheck (p, q, kk)) in
          st := s'; Buffer.add_string b (short o)) subs) ps) ps;
  Buffer.add_char b '|';
  List.iter (fun p -> List.iter (fun q ->
      let (s', o) = run_op !st (OStrictest (p, q)) in
      st := s';
      Buffer.add_string b (match o with
          | RStrictest (bb, kl) -> Printf.sprintf "%s%s;" (if bb then "T" else "F") (show_keys kl)
          | o -> short o ^ ";")) ps) ps;
  "W:" ^ Buffer.contents b

let run_item (s : state) (it : sx) : state * string =
  let op o = let (s', r) = run_op s o in (s', show_outcome r) in
  match it with
  | L [A "decl"; p] -> op (ODecl (pos_of p))
  | L [A "derive"; p; q; k] -> op (ODerive (pos_of p, pos_of q, keys_of k))
  | L [A "assert"; p; q; k] -> op (OAssert (pos_of p, pos_of q, keys_of k))
  | L [A "newkey"; k] -> op (ONewKey (pos_of k))
  | L [A "check"; p; q; k] -> op (OCheck (pos_of p, pos_of q, keys_of k))
  | L [A "strictest"; p; q] -> op (OStrictest (pos_of p, pos_of q))
  | L [A "repr"; p] -> op (ORepr (pos_of p))
  | L [A "sweep"; ps; ks] -> (s, sweep s (keys_of ps) (keys_of ks))
  | L [A "dump"] -> (s, show_state s)
  | L [A "drop"; _] -> (s, "N")   (* Python-side garbage collection only; the model keeps the node *)
  | _ -> failwith "unknown item"

let () =
  try
    while true do
      let line = input_line stdin in
      if String.trim line <> "" then begin
        match parse line with
        | L (A "job" :: A id :: items) ->
            let s = ref init_state in
            let out = List.map (fun it -> let (s', t) = run_item !s it in s := s'; t) items in
            print_string id; List.iter (fun t -> print_char ' '; print_string t) out; print_newline ()
        | _ -> failwith "job expected"
      end
    done
  with End_of_file -> ()
