(* Specification of the procedure-equivalence tracker (property C11).
   Nothing here mentions union-find, copies or laziness. *)
From Coq Require Import PArith List Bool Relations.
From Eqv Require Import Model.   (* only for the types proc, key, op *)
Import ListNotations.

(* What has happened so far, oldest event first. *)
Inductive event : Type :=
| Decl (p : proc)                      (* p became known to the tracker *)
| Step (p q : proc) (K : list key).    (* "p and q are equivalent except on the fields in K" was recorded *)

Definition history := list event.

Definition declared (H : history) (p : proc) : Prop := In (Decl p) H.

(* p -- q is an edge for field k when some recorded step did not disturb k *)
Definition edge_k (k : key) (H : history) (p q : proc) : Prop :=
  exists K, In (Step p q K) H /\ ~ In k K.
Definition edge_all (H : history) (p q : proc) : Prop :=
  exists K, In (Step p q K) H.
(* ... when some recorded step disturbed only fields of K *)
Definition edge_within (K : list key) (H : history) (p q : proc) : Prop :=
  exists K', In (Step p q K') H /\ incl K' K.

(* reflexive, symmetric, transitive closures *)
Definition conn_k (k : key) (H : history) : proc -> proc -> Prop :=
  clos_refl_sym_trans proc (edge_k k H).
Definition conn_all (H : history) : proc -> proc -> Prop :=
  clos_refl_sym_trans proc (edge_all H).
Definition conn_within (K : list key) (H : history) : proc -> proc -> Prop :=
  clos_refl_sym_trans proc (edge_within K H).

(* The answer the tracker should give to "are p and q equivalent modulo K?":
   per configuration field, as the property states it. *)
Definition eqv_mod (K : list key) (H : history) (p q : proc) : Prop :=
  conn_all H p q /\ forall k, ~ In k K -> conn_k k H p q.

(* ------------------------------------------------------------------ *)
(* Which events a sequence of calls records.  A call that raises (KeyError: one of its
   procedures was never declared) records no step; queries record nothing. *)

Definition declared_b (H : history) (p : proc) : bool :=
  existsb (fun e => match e with Decl p' => Pos.eqb p p' | _ => false end) H.

Definition events_of_op (H : history) (o : op) : list event :=
  match o with
  | ODecl p => [Decl p]
  | ODerive orig new K =>                       (* = decl new; assert orig new K *)
      Decl new :: (if declared_b (H ++ [Decl new]) orig then [Step orig new K] else [])
  | OAssert p q K =>
      if declared_b H p && declared_b H q then [Step p q K] else []
  | ONewKey _ | OCheck _ _ _ | OStrictest _ _ | ORepr _ => []
  end.

Fixpoint history_from (H : history) (ops : list op) : history :=
  match ops with
  | [] => H
  | o :: r => history_from (H ++ events_of_op H o) r
  end.

Definition history_of (ops : list op) : history := history_from [] ops.

(* The scheduling API only ever derives a brand-new procedure from a declared one and
   never calls assert_eqv_proc with a non-empty set; without unsafe_assert_eq the
   recorded steps form a forest. *)
Fixpoint forest_from (H : history) (ops : list op) : Prop :=
  match ops with
  | [] => True
  | o :: r =>
      match o with
      | ODerive orig new _ => declared H orig /\ ~ declared H new
      | OAssert _ _ _ => False
      | _ => True
      end /\ forest_from (H ++ events_of_op H o) r
  end.
Definition forest (ops : list op) : Prop := forest_from [] ops.
