(* Closure-level facts about the specification (no union-find here). *)
From Coq Require Import PArith List Bool Relations Lia.
From Eqv Require Import Model Spec Proofs_UF.
Import ListNotations.

Section Closure.
  Variable A : Type.
  Implicit Types R E : relation A.

  Notation C := (clos_refl_sym_trans A).

  Lemma clos_mono R R' : (forall a b, R a b -> R' a b) -> forall a b, C R a b -> C R' a b.
  Proof.
    intros M a b H. induction H.
    - apply rst_step; auto.
    - apply rst_refl.
    - apply rst_sym; auto.
    - eapply rst_trans; eauto.
  Qed.

  Lemma clos_iff R R' : (forall a b, R a b <-> R' a b) -> forall a b, C R a b <-> C R' a b.
  Proof. intros E a b; split; apply clos_mono; intros; apply E; auto. Qed.

  (* adding the single edge p -- q merges exactly the classes of p and q *)
  Lemma clos_add_edge R R' (p q : A) :
    (forall a b, R' a b <-> R a b \/ (a = p /\ b = q)) ->
    forall a b, C R' a b <->
                (C R a b \/ (C R a p /\ C R q b) \/ (C R a q /\ C R p b)).
  Proof.
    intros E a b; split.
    - intros H. induction H as [x y H|x|x y H IH|x y z H1 IH1 H2 IH2].
      + apply E in H. destruct H as [H|[-> ->]].
        * left. apply rst_step; auto.
        * right; left. split; apply rst_refl.
      + left. apply rst_refl.
      + destruct IH as [I|[[I1 I2]|[I1 I2]]].
        * left. apply rst_sym; auto.
        * right; right. split; apply rst_sym; auto.
        * right; left. split; apply rst_sym; auto.
      + destruct IH1 as [I|[[I1 I2]|[I1 I2]]]; destruct IH2 as [J|[[J1 J2]|[J1 J2]]].
        * left. eapply rst_trans; eauto.
        * right; left. split; auto. eapply rst_trans; eauto.
        * right; right. split; auto. eapply rst_trans; eauto.
        * right; left. split; auto. eapply rst_trans; eauto.
        * right; left. split; auto.
        * left. eapply rst_trans; eauto.
        * right; right. split; auto. eapply rst_trans; eauto.
        * left. eapply rst_trans; eauto.
        * right; right. split; auto.
    - assert (forall x y, C R x y -> C R' x y) as M.
      { apply clos_mono. intros; apply E; auto. }
      assert (C R' p q) as PQ by (apply rst_step; apply E; auto).
      intros [H|[[H1 H2]|[H1 H2]]].
      + auto.
      + eapply rst_trans; [apply M; eauto|]. eapply rst_trans; [apply PQ|]. auto.
      + eapply rst_trans; [apply M; eauto|]. eapply rst_trans; [apply rst_sym, PQ|]. auto.
  Qed.

  (* a closure never leaves the set the edges live in *)
  Lemma clos_stays R (D : A -> Prop) :
    (forall a b, R a b -> D a /\ D b) ->
    forall a b, C R a b -> a = b \/ (D a /\ D b).
  Proof.
    intros E a b H. induction H as [x y H|x|x y H IH|x y z H1 IH1 H2 IH2].
    - right; auto.
    - left; auto.
    - destruct IH as [->|[? ?]]; auto.
    - destruct IH1 as [->|[? ?]]; auto. destruct IH2 as [<-|[? ?]]; auto.
  Qed.

  (* a set closed under the edges separates its inside from its outside *)
  Lemma clos_separates R (S : A -> Prop) :
    (forall a b, R a b -> (S a <-> S b)) ->
    forall a b, C R a b -> (S a <-> S b).
  Proof.
    intros E a b H. induction H as [x y H|x|x y H IH|x y z H1 IH1 H2 IH2].
    - auto.
    - tauto.
    - tauto.
    - tauto.
  Qed.
End Closure.

Arguments clos_mono {A}.
Arguments clos_iff {A}.
Arguments clos_add_edge {A}.
Arguments clos_stays {A}.
Arguments clos_separates {A}.

(* ------------------------------------------------------------------ *)
(* histories *)

Lemma declared_b_spec H p : declared_b H p = true <-> declared H p.
Proof.
  unfold declared_b, declared. rewrite existsb_exists. split.
  - intros [e [I B]]. destruct e; try discriminate. apply Pos.eqb_eq in B; subst; auto.
  - intros I. exists (Decl p); split; auto. apply Pos.eqb_refl.
Qed.

Lemma declared_app H H' p : declared (H ++ H') p <-> declared H p \/ declared H' p.
Proof. unfold declared. apply in_app_iff. Qed.

Lemma declared_snoc_decl H p a : declared (H ++ [Decl p]) a <-> declared H a \/ a = p.
Proof.
  rewrite declared_app. unfold declared at 2. simpl. split.
  - intros [?|[E|[]]]; auto. inversion E; auto.
  - intros [?| ->]; auto.
Qed.

Lemma declared_snoc_step H p q K a : declared (H ++ [Step p q K]) a <-> declared H a.
Proof.
  rewrite declared_app. unfold declared at 2. simpl. split; auto.
  intros [?|[E|[]]]; auto. discriminate.
Qed.

Lemma step_in_snoc_decl H d p q K : In (Step p q K) (H ++ [Decl d]) <-> In (Step p q K) H.
Proof.
  rewrite in_app_iff. simpl. split; auto. intros [?|[E|[]]]; auto. discriminate.
Qed.

Lemma step_in_snoc_step H p0 q0 K0 p q K :
  In (Step p q K) (H ++ [Step p0 q0 K0]) <-> In (Step p q K) H \/ (p = p0 /\ q = q0 /\ K = K0).
Proof.
  rewrite in_app_iff. simpl. split.
  - intros [?|[E|[]]]; auto. inversion E; auto.
  - intros [?|[-> [-> ->]]]; auto.
Qed.

(* edges after one more event *)
Lemma edge_k_snoc_decl k H d a b : edge_k k (H ++ [Decl d]) a b <-> edge_k k H a b.
Proof. unfold edge_k. split; intros [K [I N]]; exists K; split; auto; apply step_in_snoc_decl in I + apply step_in_snoc_decl; auto. Qed.

Lemma edge_all_snoc_decl H d a b : edge_all (H ++ [Decl d]) a b <-> edge_all H a b.
Proof. unfold edge_all. split; intros [K I]; exists K; apply step_in_snoc_decl in I + apply step_in_snoc_decl; auto. Qed.

Lemma edge_within_snoc_decl L H d a b : edge_within L (H ++ [Decl d]) a b <-> edge_within L H a b.
Proof. unfold edge_within. split; intros [K [I N]]; exists K; split; auto; apply step_in_snoc_decl in I + apply step_in_snoc_decl; auto. Qed.

Lemma edge_all_snoc_step H p q K a b :
  edge_all (H ++ [Step p q K]) a b <-> edge_all H a b \/ (a = p /\ b = q).
Proof.
  unfold edge_all. split.
  - intros [K' I]. apply step_in_snoc_step in I. destruct I as [I|[-> [-> _]]]; eauto.
  - intros [[K' I]|[-> ->]].
    + exists K'. apply step_in_snoc_step; auto.
    + exists K. apply step_in_snoc_step; auto.
Qed.

Lemma edge_k_snoc_step_out k H p q K a b :
  ~ In k K -> (edge_k k (H ++ [Step p q K]) a b <-> edge_k k H a b \/ (a = p /\ b = q)).
Proof.
  intros N. unfold edge_k. split.
  - intros [K' [I N']]. apply step_in_snoc_step in I. destruct I as [I|[-> [-> _]]]; eauto.
  - intros [[K' [I N']]|[-> ->]].
    + exists K'. split; auto. apply step_in_snoc_step; auto.
    + exists K. split; auto. apply step_in_snoc_step; auto.
Qed.

Lemma edge_k_snoc_step_in k H p q K a b :
  In k K -> (edge_k k (H ++ [Step p q K]) a b <-> edge_k k H a b).
Proof.
  intros Ik. unfold edge_k. split.
  - intros [K' [I N']]. apply step_in_snoc_step in I. destruct I as [I|[-> [-> ->]]]; eauto. tauto.
  - intros [K' [I N']]. exists K'. split; auto. apply step_in_snoc_step; auto.
Qed.

Lemma edge_within_snoc_step_in L H p q K a b :
  incl K L -> (edge_within L (H ++ [Step p q K]) a b <-> edge_within L H a b \/ (a = p /\ b = q)).
Proof.
  intros N. unfold edge_within. split.
  - intros [K' [I N']]. apply step_in_snoc_step in I. destruct I as [I|[-> [-> _]]]; eauto.
  - intros [[K' [I N']]|[-> ->]].
    + exists K'. split; auto. apply step_in_snoc_step; auto.
    + exists K. split; auto. apply step_in_snoc_step; auto.
Qed.

Lemma edge_within_snoc_step_out L H p q K a b :
  ~ incl K L -> (edge_within L (H ++ [Step p q K]) a b <-> edge_within L H a b).
Proof.
  intros Ik. unfold edge_within. split.
  - intros [K' [I N']]. apply step_in_snoc_step in I. destruct I as [I|[-> [-> ->]]]; eauto. tauto.
  - intros [K' [I N']]. exists K'. split; auto. apply step_in_snoc_step; auto.
Qed.

(* every recorded step relates declared procedures *)
Definition steps_declared (H : history) : Prop :=
  forall p q K, In (Step p q K) H -> declared H p /\ declared H q.

Lemma steps_declared_nil : steps_declared [].
Proof. intros p q K []. Qed.

Lemma steps_declared_snoc_decl H d : steps_declared H -> steps_declared (H ++ [Decl d]).
Proof.
  intros S p q K I. apply step_in_snoc_decl in I. destruct (S _ _ _ I).
  split; apply declared_snoc_decl; auto.
Qed.

Lemma steps_declared_snoc_step H p q K :
  steps_declared H -> declared H p -> declared H q -> steps_declared (H ++ [Step p q K]).
Proof.
  intros S Dp Dq p' q' K' I. apply step_in_snoc_step in I.
  rewrite !declared_snoc_step. destruct I as [I|[-> [-> _]]]; auto. apply (S _ _ _ I).
Qed.

Lemma conn_all_stays H a b :
  steps_declared H -> conn_all H a b -> a = b \/ (declared H a /\ declared H b).
Proof. intros S. apply clos_stays. intros x y [K I]. apply (S _ _ _ I). Qed.

Lemma conn_k_stays k H a b :
  steps_declared H -> conn_k k H a b -> a = b \/ (declared H a /\ declared H b).
Proof. intros S. apply clos_stays. intros x y [K [I _]]. apply (S _ _ _ I). Qed.

Lemma conn_within_stays L H a b :
  steps_declared H -> conn_within L H a b -> a = b \/ (declared H a /\ declared H b).
Proof. intros S. apply clos_stays. intros x y [K [I _]]. apply (S _ _ _ I). Qed.

(* relations between the closures *)
Lemma conn_k_all k H a b : conn_k k H a b -> conn_all H a b.
Proof. apply clos_mono. intros x y [K [I _]]. exists K; auto. Qed.

Lemma conn_within_all L H a b : conn_within L H a b -> conn_all H a b.
Proof. apply clos_mono. intros x y [K [I _]]. exists K; auto. Qed.

Lemma conn_within_k L k H a b : ~ In k L -> conn_within L H a b -> conn_k k H a b.
Proof. intros N. apply clos_mono. intros x y [K [I S]]. exists K; split; auto. Qed.

Lemma conn_within_mono L L' H a b : incl L L' -> conn_within L H a b -> conn_within L' H a b.
Proof.
  intros S. apply clos_mono. intros x y [K [I S']]. exists K; split; auto.
  eapply incl_tran; eauto.
Qed.

(* a field no step has mentioned so far is as good as the universe *)
Lemma conn_k_unmentioned k H :
  (forall p q K, In (Step p q K) H -> ~ In k K) ->
  forall a b, conn_all H a b <-> conn_k k H a b.
Proof.
  intros U. apply clos_iff. intros a b. unfold edge_all, edge_k. split.
  - intros [K I]. exists K; split; auto. eapply U; eauto.
  - intros [K [I _]]; eauto.
Qed.

Definition merged_c (R : proc -> proc -> Prop) (p q a b : proc) : Prop :=
  R a b \/ (R a p /\ R q b) \/ (R a q /\ R p b).

Lemma merged_c_eq R p q a b : merged_c R p q a b <-> merged R p q a b.
Proof. unfold merged_c, merged; tauto. Qed.

(* closures after one more event *)
Lemma conn_all_snoc_decl H d a b : conn_all (H ++ [Decl d]) a b <-> conn_all H a b.
Proof. apply clos_iff. intros; apply edge_all_snoc_decl. Qed.

Lemma conn_k_snoc_decl k H d a b : conn_k k (H ++ [Decl d]) a b <-> conn_k k H a b.
Proof. apply clos_iff. intros; apply edge_k_snoc_decl. Qed.

Lemma conn_within_snoc_decl L H d a b : conn_within L (H ++ [Decl d]) a b <-> conn_within L H a b.
Proof. apply clos_iff. intros; apply edge_within_snoc_decl. Qed.

Lemma conn_all_snoc_step H p q K a b :
  conn_all (H ++ [Step p q K]) a b <-> merged_c (conn_all H) p q a b.
Proof. apply clos_add_edge. intros; apply edge_all_snoc_step. Qed.

Lemma conn_k_snoc_step_out k H p q K a b :
  ~ In k K -> (conn_k k (H ++ [Step p q K]) a b <-> merged_c (conn_k k H) p q a b).
Proof. intros N. apply clos_add_edge. intros; apply edge_k_snoc_step_out; auto. Qed.

Lemma conn_k_snoc_step_in k H p q K a b :
  In k K -> (conn_k k (H ++ [Step p q K]) a b <-> conn_k k H a b).
Proof. intros N. apply clos_iff. intros; apply edge_k_snoc_step_in; auto. Qed.

Lemma conn_within_snoc_step_in L H p q K a b :
  incl K L -> (conn_within L (H ++ [Step p q K]) a b <-> merged_c (conn_within L H) p q a b).
Proof. intros N. apply clos_add_edge. intros; apply edge_within_snoc_step_in; auto. Qed.

Lemma conn_within_snoc_step_out L H p q K a b :
  ~ incl K L -> (conn_within L (H ++ [Step p q K]) a b <-> conn_within L H a b).
Proof. intros N. apply clos_iff. intros; apply edge_within_snoc_step_out; auto. Qed.

(* an existing single path inside K is enough for the per-field answer *)
Lemma within_eqv_mod K H p q : conn_within K H p q -> eqv_mod K H p q.
Proof.
  intros W. split.
  - eapply conn_within_all; eauto.
  - intros k N. eapply conn_within_k; eauto.
Qed.
