(* Union-find level: the parent map with path splitting denotes a partition; [find] never
   runs out of fuel on an acyclic map and never changes the partition. *)
From Coq Require Import PArith List Bool FMapPositive Lia Arith Wf_nat SetoidList.
From Eqv Require Import Model.
Import ListNotations.

Definition dom (m : uf) (x : proc) : Prop := exists p, PositiveMap.find x m = Some p.

(* [root_of m x r n]: following parent pointers from x reaches the self-loop r in n steps *)
Inductive root_of (m : uf) : proc -> proc -> nat -> Prop :=
| root_self x : PositiveMap.find x m = Some x -> root_of m x x 0
| root_step x p r n :
    PositiveMap.find x m = Some p -> x <> p -> root_of m p r n -> root_of m x r (S n).

Definition rt (m : uf) (x r : proc) : Prop := exists n, root_of m x r n.

(* acyclicity invariant: every node reaches a root (hence parents are nodes, no cycles) *)
Definition uf_wf (m : uf) : Prop := forall x, dom m x -> exists r, rt m x r.

Definition uf_rel (m : uf) (a b : proc) : Prop := exists r, rt m a r /\ rt m b r.

Definition same_roots (m m' : uf) : Prop := forall y r, rt m y r <-> rt m' y r.

Definition meq (m m' : uf) : Prop := forall x, PositiveMap.find x m = PositiveMap.find x m'.

(* two lookups of the same node agree (congruence alone trips over proc vs PositiveMap.key) *)
Lemma find_inj (m : uf) (x a b : proc) :
  PositiveMap.find x m = Some a -> PositiveMap.find x m = Some b -> a = b.
Proof. intros H1 H2. rewrite H1 in H2. inversion H2; auto. Qed.

Ltac fcon :=
  repeat match goal with
         | H1 : PositiveMap.find ?x ?m = Some ?a, H2 : PositiveMap.find ?x ?m = Some ?b |- _ =>
             let E := fresh "E" in
             pose proof (find_inj _ _ _ _ H1 H2) as E; clear H2; try subst
         end; try congruence; try tauto.

(* ------------------------------------------------------------------ *)

Lemma root_det (m : uf) (x : proc) (r : proc) (n : nat) :
  root_of m x r n -> forall r' n', root_of m x r' n' -> r = r' /\ n = n'.
Proof.
  induction 1; intros r' n' H'; inversion H'; subst; try congruence; auto.
  rewrite H in H2. inversion H2; subst. destruct (IHroot_of _ _ H4). auto.
Qed.

Lemma rt_det (m : uf) (x : proc) (r : proc) (r' : proc) : rt m x r -> rt m x r' -> r = r'.
Proof. intros [n H] [n' H']. eapply root_det; eauto. Qed.

Lemma root_dom (m : uf) (x : proc) (r : proc) (n : nat) : root_of m x r n -> dom m x.
Proof. destruct 1; eexists; eauto. Qed.

Lemma rt_dom (m : uf) (x : proc) (r : proc) : rt m x r -> dom m x.
Proof. intros [n H]; eapply root_dom; eauto. Qed.

Lemma root_is_root (m : uf) (x : proc) (r : proc) (n : nat) : root_of m x r n -> PositiveMap.find r m = Some r.
Proof. induction 1; auto. Qed.

Lemma rt_root (m : uf) (x : proc) (r : proc) : rt m x r -> rt m r r.
Proof. intros [n H]. exists 0. constructor. eapply root_is_root; eauto. Qed.

Lemma rt_self_root (m : uf) (r : proc) : PositiveMap.find r m = Some r -> rt m r r.
Proof. exists 0. constructor; auto. Qed.

Lemma rt_step (m : uf) (x : proc) (p : proc) (r : proc) : PositiveMap.find x m = Some p -> rt m p r -> rt m x r.
Proof.
  intros Hx [n Hp]. destruct (Pos.eq_dec x p) as [->|Hne].
  - exists n; auto.
  - exists (S n). econstructor; eauto.
Qed.

Lemma rt_parent (m : uf) (x : proc) (p : proc) (r : proc) : PositiveMap.find x m = Some p -> rt m x r -> rt m p r.
Proof.
  intros Hx [n Hr]. inversion Hr; subst.
  - rewrite Hx in H. inversion H; subst. exists 0; auto.
  - rewrite Hx in H. inversion H; subst. eexists; eauto.
Qed.

Lemma root_meq (m : uf) (m' : uf) : meq m m' -> forall x r n, root_of m x r n -> root_of m' x r n.
Proof.
  intros E x r n H. induction H.
  - constructor. rewrite <- E; auto.
  - econstructor; eauto. rewrite <- E; auto.
Qed.

Lemma meq_sym (m : uf) (m' : uf) : meq m m' -> meq m' m.
Proof. intros E x; symmetry; apply E. Qed.

Lemma meq_same_roots (m : uf) (m' : uf) : meq m m' -> same_roots m m'.
Proof.
  intros E y r; split; intros [n H]; exists n.
  - eapply root_meq; eauto.
  - eapply root_meq; [apply meq_sym|]; eauto.
Qed.

Lemma meq_dom (m : uf) (m' : uf) : meq m m' -> forall x, dom m x <-> dom m' x.
Proof. intros E x; unfold dom; rewrite E; tauto. Qed.

Lemma same_roots_refl (m : uf) : same_roots m m.
Proof. intros y r; tauto. Qed.

Lemma same_roots_trans (m1 : uf) (m2 : uf) (m3 : uf) : same_roots m1 m2 -> same_roots m2 m3 -> same_roots m1 m3.
Proof. intros A B y r. rewrite (A y r). apply B. Qed.

Lemma same_roots_sym (m1 : uf) (m2 : uf) : same_roots m1 m2 -> same_roots m2 m1.
Proof. intros A y r. symmetry. apply A. Qed.

Lemma same_roots_dom (m : uf) (m' : uf) :
  uf_wf m -> uf_wf m' -> same_roots m m' -> forall x, dom m x <-> dom m' x.
Proof.
  intros W W' S x; split; intros D.
  - destruct (W _ D) as [r R]. apply S in R. eapply rt_dom; eauto.
  - destruct (W' _ D) as [r R]. apply S in R. eapply rt_dom; eauto.
Qed.

Lemma same_roots_rel (m : uf) (m' : uf) : same_roots m m' -> forall a b, uf_rel m a b <-> uf_rel m' a b.
Proof.
  intros S a b; split; intros [r [A B]]; exists r; split; apply S; auto.
Qed.

Lemma same_roots_wf (m : uf) (m' : uf) :
  uf_wf m -> (forall x, dom m' x -> dom m x) -> same_roots m m' -> uf_wf m'.
Proof.
  intros W D S x Dx. destruct (W _ (D _ Dx)) as [r R]. exists r. apply S; auto.
Qed.

(* the partition is an equivalence on the nodes *)
Lemma uf_rel_refl (m : uf) (a : proc) : uf_wf m -> dom m a -> uf_rel m a a.
Proof. intros W D. destruct (W _ D) as [r R]. exists r; auto. Qed.

Lemma uf_rel_sym (m : uf) (a : proc) (b : proc) : uf_rel m a b -> uf_rel m b a.
Proof. intros [r [A B]]; exists r; auto. Qed.

Lemma uf_rel_trans (m : uf) (a : proc) (b : proc) (c : proc) : uf_rel m a b -> uf_rel m b c -> uf_rel m a c.
Proof.
  intros [r [A B]] [r' [B' C]]. assert (r = r') by (eapply rt_det; eauto). subst.
  exists r'; auto.
Qed.

Lemma uf_rel_dom (m : uf) (a : proc) (b : proc) : uf_rel m a b -> dom m a /\ dom m b.
Proof. intros [r [A B]]; split; eapply rt_dom; eauto. Qed.

(* ------------------------------------------------------------------ *)
(* fuel: a path of n parent steps visits n+1 distinct nodes *)

Lemma root_path (m : uf) (x : proc) (r : proc) (n : nat) :
  root_of m x r n ->
  exists l, length l = S n /\ NoDup l /\
            (forall y, In y l -> exists k, k <= n /\ root_of m y r k).
Proof.
  induction 1.
  - exists [x]. repeat split.
    + constructor; [intros []|constructor].
    + intros y [<-|[]]. exists 0; split; [lia|constructor; auto].
  - destruct IHroot_of as [l [L [N A]]].
    exists (x :: l). repeat split.
    + simpl; lia.
    + constructor; auto. intros I. destruct (A _ I) as [k [Hk Rk]].
      assert (root_of m x r (S n)) as Rx by (econstructor; eauto).
      destruct (root_det _ _ _ _ Rk _ _ Rx). lia.
    + intros y [<-|I].
      * exists (S n); split; [lia|econstructor; eauto].
      * destruct (A _ I) as [k [Hk Rk]]. exists k; split; [lia|auto].
Qed.

Lemma root_depth_lt_cardinal (m : uf) (x : proc) (r : proc) (n : nat) : root_of m x r n -> n < PositiveMap.cardinal m.
Proof.
  intros R. destruct (root_path _ _ _ _ R) as [l [L [N A]]].
  rewrite PositiveMap.cardinal_1.
  assert (incl l (map fst (PositiveMap.elements m))) as I.
  { intros y Iy. destruct (A _ Iy) as [k [_ Rk]]. destruct (root_dom _ _ _ _ Rk) as [p Hp].
    apply PositiveMap.elements_correct in Hp.
    change y with (fst (y, p)). apply in_map; auto. }
  pose proof (NoDup_incl_length N I) as Le. rewrite map_length in Le. lia.
Qed.

(* ------------------------------------------------------------------ *)
(* path splitting: redirecting x to its grandparent keeps every root *)

Lemma shortcut_root (m : uf) (x : proc) (p : proc) (g : proc) :
  PositiveMap.find x m = Some p -> PositiveMap.find p m = Some g -> x <> p ->
  forall n y r, root_of m y r n ->
                exists n', n' <= n /\ root_of (PositiveMap.add x g m) y r n'.
Proof.
  intros Hx Hp Hne n. induction n as [n IH] using lt_wf_ind. intros y r R.
  destruct R as [y Hy | y py r n Hy Hypy Rp].
  - (* y is a root, so y <> x *)
    assert (y <> x) by (intros ->; fcon).
    exists 0; split; auto. constructor. rewrite PositiveMap.gso; auto.
  - destruct (Pos.eq_dec y x) as [->|Hyx].
    + rewrite Hx in Hy. inversion Hy; subst py.
      pose proof Rp as Rp0.
      destruct Rp as [p Hpp | p pp r n Hpp Hppp Rg].
      * (* p is the root: g = p *)
        rewrite Hp in Hpp. inversion Hpp; subst g.
        destruct (IH 0 ltac:(lia) _ _ Rp0) as [n' [Le R']].
        exists (S n'); split; [lia|].
        apply root_step with (p := p); [apply PositiveMap.gss|auto|auto].
      * rewrite Hp in Hpp. inversion Hpp; subst pp.
        destruct (IH n ltac:(lia) _ _ Rg) as [n' [Le R']].
        assert (x <> g).
        { intros ->. assert (root_of m g r (S (S n))) as Rx by (econstructor; eauto).
          destruct (root_det _ _ _ _ Rx _ _ Rg). lia. }
        exists (S n'); split; [lia|].
        apply root_step with (p := g); [apply PositiveMap.gss|auto|auto].
    + destruct (IH n ltac:(lia) _ _ Rp) as [n' [Le R']].
      exists (S n'); split; [lia|].
      apply root_step with (p := py); [rewrite PositiveMap.gso; auto|auto|auto].
Qed.

Lemma dom_add_same (m : uf) (x : proc) (g : proc) : dom m x -> forall y, dom (PositiveMap.add x g m) y <-> dom m y.
Proof.
  intros D y. unfold dom. destruct (Pos.eq_dec y x) as [->|N].
  - rewrite PositiveMap.gss. split; intros _; eauto.
  - rewrite PositiveMap.gso; tauto.
Qed.

Lemma shortcut_same_roots (m : uf) (x : proc) (p : proc) (g : proc) :
  uf_wf m ->
  PositiveMap.find x m = Some p -> PositiveMap.find p m = Some g -> x <> p ->
  same_roots m (PositiveMap.add x g m) /\ uf_wf (PositiveMap.add x g m).
Proof.
  intros W Hx Hp Hne.
  assert (forall y r, rt m y r -> rt (PositiveMap.add x g m) y r) as Fwd.
  { intros y r [n R]. destruct (shortcut_root _ _ _ _ Hx Hp Hne _ _ _ R) as [n' [_ R']].
    exists n'; auto. }
  assert (dom m x) as Dx by (eexists; eauto).
  split.
  - intros y r; split; auto.
    intros R'. assert (dom m y) as Dy by (apply (dom_add_same m x g Dx); eapply rt_dom; eauto).
    destruct (W _ Dy) as [r0 R0]. pose proof (Fwd _ _ R0) as R0'.
    rewrite (rt_det _ _ _ _ R' R0'). auto.
  - intros y Dy. apply (dom_add_same m x g Dx) in Dy. destruct (W _ Dy) as [r R]. eauto.
Qed.

(* ------------------------------------------------------------------ *)
(* find *)

Lemma find_loop_spec :
  forall fuel m val parent r n,
    uf_wf m -> PositiveMap.find val m = Some parent -> root_of m val r n -> n <= fuel ->
    exists m', find_loop fuel m val parent = Ok m' r /\ uf_wf m' /\ same_roots m m'.
Proof.
  induction fuel as [|fuel IH]; intros m val parent r n W Hv R Le; simpl.
  - assert (n = 0) by lia; subst. inversion R; subst.
    rewrite Hv in H; inversion H; subst. rewrite Pos.eqb_refl.
    exists m; split; [|split]; auto; apply same_roots_refl.
  - destruct (Pos.eqb_spec val parent) as [->|Hne].
    + inversion R; subst.
      * exists m; split; [|split]; auto; apply same_roots_refl.
      * congruence.
    + inversion R; subst; [congruence|].
      rewrite Hv in H; inversion H; subst p.
      destruct (root_dom _ _ _ _ H1) as [g Hg]. rewrite Hg.
      destruct (shortcut_same_roots _ _ _ _ W Hv Hg Hne) as [SR W'].
      destruct (shortcut_root _ _ _ _ Hv Hg Hne _ _ _ H1) as [n' [Le' R']].
      assert (PositiveMap.find parent (PositiveMap.add val g m) = Some g) as Hp'
          by (rewrite PositiveMap.gso; auto).
      destruct (IH _ _ _ _ _ W' Hp' R' ltac:(lia)) as [m' [E [W'' SR']]].
      exists m'; split; [|split]; auto. eapply same_roots_trans; eauto.
Qed.

Lemma uf_find_ok (m : uf) (x : proc) :
  uf_wf m -> dom m x ->
  exists m' r, uf_find m x = Ok m' r /\ rt m x r /\ uf_wf m' /\ same_roots m m'.
Proof.
  intros W D. destruct (W _ D) as [r [n R]]. destruct D as [p Hp].
  unfold uf_find. rewrite Hp.
  pose proof (root_depth_lt_cardinal _ _ _ _ R).
  destruct (find_loop_spec (PositiveMap.cardinal m) _ _ _ _ _ W Hp R ltac:(lia)) as [m' [E [W' SR]]].
  exists m', r; split; [|split; [|split]]; auto. exists n; auto.
Qed.

Lemma uf_find_keyerror (m : uf) (x : proc) : ~ dom m x -> uf_find m x = KeyError m.
Proof.
  intros N. unfold uf_find. destruct (PositiveMap.find x m) eqn:E; auto.
  exfalso; apply N; eexists; eauto.
Qed.

(* ------------------------------------------------------------------ *)
(* check_eqv *)

Lemma uf_check_ok (m : uf) (x : proc) (y : proc) :
  uf_wf m -> dom m x -> dom m y ->
  exists m' b, uf_check_eqv m x y = Ok m' b /\ uf_wf m' /\ same_roots m m' /\
               (b = true <-> uf_rel m x y).
Proof.
  intros W Dx Dy. unfold uf_check_eqv.
  destruct (uf_find_ok _ _ W Dx) as [m1 [r1 [E1 [R1 [W1 S1]]]]]. rewrite E1.
  assert (dom m1 y) as Dy1 by (apply (same_roots_dom _ _ W W1 S1); auto).
  destruct (uf_find_ok _ _ W1 Dy1) as [m2 [r2 [E2 [R2 [W2 S2]]]]]. rewrite E2.
  exists m2, (Pos.eqb r1 r2); split; [|split; [|split; [|split]]]; auto.
  - eapply same_roots_trans; eauto.
  - intros Hb. apply Pos.eqb_eq in Hb; subst. exists r2; split; auto. apply S1; auto.
  - intros [r [A B]]. apply Pos.eqb_eq. apply S1 in B.
    rewrite (rt_det _ _ _ _ R1 A), (rt_det _ _ _ _ R2 B); auto.
Qed.

Lemma uf_check_keyerror (m : uf) (x : proc) (y : proc) :
  uf_wf m -> ~ (dom m x /\ dom m y) ->
  exists m', uf_check_eqv m x y = KeyError m' /\ uf_wf m' /\ same_roots m m'.
Proof.
  intros W N. unfold uf_check_eqv.
  destruct (PositiveMap.find x m) eqn:Ex.
  - assert (dom m x) as Dx by (eexists; eauto).
    destruct (uf_find_ok _ _ W Dx) as [m1 [r1 [E1 [R1 [W1 S1]]]]]. rewrite E1.
    assert (~ dom m1 y) as Ny.
    { intros D. apply N; split; auto. apply (same_roots_dom _ _ W W1 S1); auto. }
    rewrite (uf_find_keyerror _ _ Ny). eauto.
  - rewrite uf_find_keyerror; [|intros [p Hp]; congruence].
    exists m; split; [|split]; auto; apply same_roots_refl.
Qed.

(* ------------------------------------------------------------------ *)
(* union: linking root p2 below root p1 merges exactly the two classes *)

Lemma link_roots (m : uf) (p1 : proc) (p2 : proc) :
  PositiveMap.find p1 m = Some p1 -> PositiveMap.find p2 m = Some p2 -> p1 <> p2 ->
  forall z r n, root_of m z r n ->
    (r <> p2 -> rt (PositiveMap.add p2 p1 m) z r) /\
    (r = p2 -> rt (PositiveMap.add p2 p1 m) z p1).
Proof.
  intros H1 H2 Hne z r n R. induction R.
  - destruct (Pos.eq_dec x p2) as [->|N].
    + split; [congruence|]. intros _.
      eapply rt_step; [apply PositiveMap.gss|].
      apply rt_self_root. rewrite PositiveMap.gso; auto.
    + split; [|congruence]. intros _. apply rt_self_root. rewrite PositiveMap.gso; auto.
  - assert (x <> p2) by (intros ->; congruence).
    destruct IHR as [A B]. split; intros C.
    + eapply rt_step; [rewrite PositiveMap.gso; eauto|auto].
    + eapply rt_step; [rewrite PositiveMap.gso; eauto|auto].
Qed.

Lemma link_spec (m : uf) (p1 : proc) (p2 : proc) :
  uf_wf m ->
  PositiveMap.find p1 m = Some p1 -> PositiveMap.find p2 m = Some p2 -> p1 <> p2 ->
  let m' := PositiveMap.add p2 p1 m in
  uf_wf m' /\ (forall x, dom m' x <-> dom m x) /\
  (forall z r', rt m' z r' <-> (rt m z r' /\ r' <> p2) \/ (rt m z p2 /\ r' = p1)).
Proof.
  intros W H1 H2 Hne m'.
  assert (dom m p2) as D2 by (eexists; eauto).
  assert (forall x, dom m' x <-> dom m x) as DD by (apply dom_add_same; auto).
  assert (forall z r, rt m z r -> (r <> p2 -> rt m' z r) /\ (r = p2 -> rt m' z p1)) as L.
  { intros z r [n R]. eapply link_roots; eauto. }
  split; [|split; auto].
  - intros x Dx. apply DD in Dx. destruct (W _ Dx) as [r R].
    destruct (L _ _ R) as [A B]. destruct (Pos.eq_dec r p2); eauto.
  - intros z r'; split.
    + intros R'. assert (dom m z) as Dz by (apply DD; eapply rt_dom; eauto).
      destruct (W _ Dz) as [r R]. destruct (L _ _ R) as [A B].
      destruct (Pos.eq_dec r p2) as [->|N].
      * right. split; auto. eapply rt_det; eauto.
      * left. rewrite (rt_det _ _ _ _ R' (A N)). auto.
    + intros [[R N]|[R ->]]; apply L in R; tauto.
Qed.

Definition merged (R : proc -> proc -> Prop) (x y a b : proc) : Prop :=
  R a b \/ (R a x /\ R y b) \/ (R a y /\ R x b).

Lemma uf_union_ok (m : uf) (x : proc) (y : proc) :
  uf_wf m -> dom m x -> dom m y ->
  exists m', uf_union m x y = Ok m' tt /\ uf_wf m' /\ (forall a, dom m' a <-> dom m a) /\
             (forall a b, uf_rel m' a b <-> merged (uf_rel m) x y a b).
Proof.
  intros W Dx Dy. unfold uf_union.
  destruct (uf_find_ok _ _ W Dx) as [m1 [r1 [E1 [R1 [W1 S1]]]]]. rewrite E1.
  assert (dom m1 y) as Dy1 by (apply (same_roots_dom _ _ W W1 S1); auto).
  destruct (uf_find_ok _ _ W1 Dy1) as [m2 [r2 [E2 [R2 [W2 S2]]]]]. rewrite E2.
  assert (same_roots m m2) as SS by (eapply same_roots_trans; eauto).
  assert (rt m y r2) as R2' by (apply S1; auto).
  destruct (Pos.eqb_spec r1 r2) as [->|Hne].
  - exists m2; split; [|split; [|split]]; auto.
    + intros a. symmetry. apply same_roots_dom; auto.
    + assert (uf_rel m x y) as Rxy by (exists r2; auto).
      intros a b; split.
      * intros Rl. left. apply (same_roots_rel _ _ SS); auto.
      * intros [Rl|[[A B]|[A B]]]; apply (same_roots_rel _ _ SS); auto.
        -- eapply uf_rel_trans; [apply A|]. eapply uf_rel_trans; eauto.
        -- eapply uf_rel_trans; [apply A|]. eapply uf_rel_trans; [apply uf_rel_sym; apply Rxy|apply B].
  - assert (PositiveMap.find r1 m2 = Some r1) as F1.
    { apply SS in R1. destruct R1 as [n R]. eapply root_is_root; eauto. }
    assert (PositiveMap.find r2 m2 = Some r2) as F2.
    { apply S2 in R2. destruct R2 as [n R]. eapply root_is_root; eauto. }
    destruct (link_spec _ _ _ W2 F1 F2 Hne) as [W3 [D3 L]].
    exists (PositiveMap.add r2 r1 m2); split; [|split; [|split]]; auto.
    + intros a. rewrite D3. symmetry. apply same_roots_dom; auto.
    + intros a b; split.
      * intros [r [A B]]. apply L in A. apply L in B. unfold merged.
        destruct A as [[A NA]|[A ->]]; destruct B as [[B NB]|[B EB]]; apply SS in A; apply SS in B.
        -- left. exists r; auto.
        -- subst r. right; left. split; [exists r1; auto|exists r2; auto].
        -- right; right. split; [exists r2; auto|exists r1; auto].
        -- left. exists r2; auto.
      * unfold merged. intros [[r [A B]]|[[[r [A A']] [r' [B B']]]|[[r [A A']] [r' [B B']]]]].
        -- apply SS in A; apply SS in B. destruct (Pos.eq_dec r r2) as [->|N].
           ++ exists r1; split; apply L; right; auto.
           ++ exists r; split; apply L; left; auto.
        -- assert (r = r1) by (apply (rt_det _ _ _ _ A' R1)).
           assert (r' = r2) by (apply (rt_det _ _ _ _ B R2')).
           subst. apply SS in A; apply SS in B'.
           exists r1; split; apply L; [left; split; auto|right; split; auto].
        -- assert (r = r2) by (apply (rt_det _ _ _ _ A' R2')).
           assert (r' = r1) by (apply (rt_det _ _ _ _ B R1)).
           subst. apply SS in A; apply SS in B'.
           exists r1; split; apply L; [right; split; auto|left; split; auto].
Qed.

Lemma uf_union_keyerror (m : uf) (x : proc) (y : proc) :
  uf_wf m -> ~ (dom m x /\ dom m y) ->
  exists m', uf_union m x y = KeyError m' /\ uf_wf m' /\ same_roots m m'.
Proof.
  intros W N. unfold uf_union.
  destruct (PositiveMap.find x m) eqn:Ex.
  - assert (dom m x) as Dx by (eexists; eauto).
    destruct (uf_find_ok _ _ W Dx) as [m1 [r1 [E1 [R1 [W1 S1]]]]]. rewrite E1.
    assert (~ dom m1 y) as Ny.
    { intros D. apply N; split; auto. apply (same_roots_dom _ _ W W1 S1); auto. }
    rewrite (uf_find_keyerror _ _ Ny). eauto.
  - rewrite uf_find_keyerror; [|intros [p Hp]; congruence].
    exists m; split; [|split]; auto; apply same_roots_refl.
Qed.

(* ------------------------------------------------------------------ *)
(* new_node *)

Lemma new_node_old (m : uf) (v : proc) : dom m v -> uf_new_node m v = m.
Proof.
  intros [p Hp]. unfold uf_new_node. rewrite PositiveMap.mem_find, Hp. auto.
Qed.

Lemma new_node_fresh (m : uf) (v : proc) :
  uf_wf m -> ~ dom m v ->
  let m' := uf_new_node m v in
  uf_wf m' /\ (forall a, dom m' a <-> dom m a \/ a = v) /\
  (forall a r, rt m' a r <-> rt m a r \/ (a = v /\ r = v)).
Proof.
  intros W N m'.
  assert (m' = PositiveMap.add v v m) as ->.
  { unfold m', uf_new_node. rewrite PositiveMap.mem_find.
    destruct (PositiveMap.find v m) eqn:E; auto. exfalso; apply N; eexists; eauto. }
  assert (forall a, dom (PositiveMap.add v v m) a <-> dom m a \/ a = v) as DD.
  { intros a. unfold dom. destruct (Pos.eq_dec a v) as [->|Na].
    - rewrite PositiveMap.gss. split; eauto.
    - rewrite PositiveMap.gso; auto. split; auto. intros [?|?]; auto; congruence. }
  assert (forall a r n, root_of m a r n -> root_of (PositiveMap.add v v m) a r n) as Fwd.
  { intros a r n R. induction R.
    - constructor. rewrite PositiveMap.gso; auto. intros <-. apply N; eexists; eauto.
    - econstructor; eauto. rewrite PositiveMap.gso; auto. intros <-. apply N; eexists; eauto. }
  assert (forall a r, rt (PositiveMap.add v v m) a r <-> rt m a r \/ (a = v /\ r = v)) as RR.
  { intros a r; split.
    - intros [n R]. induction R.
      + destruct (Pos.eq_dec x v) as [->|Nx]; auto.
        left. apply rt_self_root. rewrite PositiveMap.gso in H; auto.
      + assert (x <> v) as Nx by (intros ->; rewrite PositiveMap.gss in H; congruence).
        rewrite PositiveMap.gso in H; auto.
        destruct IHR as [Rp|[-> ->]].
        * left. eapply rt_step; eauto.
        * exfalso. assert (dom m x) as Dx by (eexists; eauto).
          destruct (W _ Dx) as [r0 R0]. apply (rt_parent _ _ _ _ H) in R0.
          apply N. eapply rt_dom; eauto.
    - intros [[n R]|[-> ->]].
      + exists n; auto.
      + apply rt_self_root. apply PositiveMap.gss. }
  split; [|split; auto].
  intros a Da. apply DD in Da. destruct Da as [Da | ->].
  - destruct (W _ Da) as [r R]. exists r. apply RR; auto.
  - exists v. apply RR; auto.
Qed.

(* ------------------------------------------------------------------ *)
(* copy_entire_UF *)

Lemma fold_add_find (l : list (positive * proc)) :
  NoDupA (@PositiveMap.eq_key proc) l ->
  forall acc x,
    PositiveMap.find x
      (fold_left (fun (a : uf) (p : positive * proc) => PositiveMap.add (fst p) (snd p) a) l acc)
    = match findA (Pos.eqb x) l with
      | Some v => Some v
      | None => PositiveMap.find x acc
      end.
Proof.
  induction 1 as [|[k v] l Hn Hd IH]; intros acc x; simpl; auto.
  rewrite IH. destruct (Pos.eqb_spec x k) as [->|Nx].
  - destruct (findA (Pos.eqb k) l) eqn:F.
    + exfalso. apply Hn.
      clear - F. induction l as [|[k' v'] l IHl]; simpl in *; [discriminate|].
      destruct (Pos.eqb_spec k k') as [->|N].
      * left. reflexivity.
      * right. auto.
    + apply PositiveMap.gss.
  - destruct (findA (Pos.eqb x) l); auto. apply PositiveMap.gso; auto.
Qed.

Lemma findA_elements (m : uf) x :
  findA (Pos.eqb x) (PositiveMap.elements m) = PositiveMap.find x m.
Proof.
  destruct (PositiveMap.find x m) eqn:E.
  - apply PositiveMap.elements_correct in E.
    pose proof (PositiveMap.elements_3w m) as N.
    induction (PositiveMap.elements m) as [|[k v] l IH]; [destruct E|].
    simpl. inversion N; subst. destruct E as [E|E].
    + inversion E; subst. rewrite Pos.eqb_refl; auto.
    + destruct (Pos.eqb_spec x k) as [->|Nx]; auto.
      exfalso. apply H1. clear - E. induction l as [|[k' v'] l IHl]; [destruct E|].
      destruct E as [E|E]; [inversion E; subst; left; reflexivity|right; auto].
  - destruct (findA (Pos.eqb x) (PositiveMap.elements m)) eqn:F; auto.
    exfalso. assert (In (x, p) (PositiveMap.elements m)) as I.
    { clear - F. induction (PositiveMap.elements m) as [|[k v] l IH]; simpl in *; [discriminate|].
      destruct (Pos.eqb_spec x k) as [->|N]; [inversion F; subst; auto|right; auto]. }
    apply PositiveMap.elements_complete in I. congruence.
Qed.

Lemma uf_copy_meq (m : uf) : meq (uf_copy m) m.
Proof.
  intros x. unfold uf_copy. rewrite PositiveMap.fold_1.
  rewrite fold_add_find by apply PositiveMap.elements_3w.
  rewrite findA_elements. destruct (PositiveMap.find x m); auto.
  apply PositiveMap.gempty.
Qed.

(* the hypotheses of the lemmas above are satisfiable: a two-node chain *)
Example uf_example :
  let m := PositiveMap.add 2%positive 1%positive (PositiveMap.add 1%positive 1%positive uf_empty) in
  uf_wf m /\ dom m 2%positive /\ uf_find m 2%positive = Ok m 1%positive.
Proof.
  intros m. repeat split.
  - intros x [p Hp]. exists 1%positive.
    destruct (Pos.eq_dec x 2) as [->|N2].
    + eapply rt_step; [reflexivity|]. apply rt_self_root. reflexivity.
    + destruct (Pos.eq_dec x 1) as [->|N1].
      * apply rt_self_root; reflexivity.
      * unfold m in Hp. rewrite !PositiveMap.gso in Hp by auto.
        unfold uf_empty in Hp. rewrite PositiveMap.gempty in Hp. discriminate.
  - eexists; reflexivity.
Qed.
