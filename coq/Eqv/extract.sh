#!/bin/bash
# Builds the extracted model driver _build/eqv_driver from Extract.v + driver.ml.
set -e
cd "$(dirname "$0")"
mkdir -p _build
# (re)extract when the model or the extraction script is newer than the extracted code
if [ ! -f _build/eqv_model.ml ] || [ Model.v -nt _build/eqv_model.ml ] || [ Extract.v -nt _build/eqv_model.ml ] \
   || [ -f eqv_model.ml ]; then
  if [ ! -f eqv_model.ml ] || [ Model.v -nt eqv_model.ml ] || [ Extract.v -nt eqv_model.ml ]; then
    [ -f Model.vo ] && [ ! Model.v -nt Model.vo ] || timeout 300 coqc -Q . Eqv Model.v
    timeout 300 coqc -Q . Eqv Extract.v >/dev/null
  fi
  mv -f eqv_model.ml eqv_model.mli _build/
fi
cp -f driver.ml _build/driver.ml
cd _build
if [ ! -x eqv_driver ] || [ eqv_model.ml -nt eqv_driver ] || [ driver.ml -nt eqv_driver ]; then
  timeout 300 ocamlfind ocamlopt -package str -linkpkg -w -a eqv_model.mli eqv_model.ml driver.ml -o eqv_driver
fi
echo "built $(pwd)/eqv_driver"
