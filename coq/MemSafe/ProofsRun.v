(* MemSafe/ProofsRun.v — every execution of the output of MemoryAnalysis respects the allocation discipline, provided
   the input is well-formed and its buffers are lexically scoped.  Built on the scope properties of ProofsFree. *)
From Coq Require Import ZArith List Bool Lia.
Import ListNotations.
From MemSafe Require Import Model Gen_Used ModelMem Spec ProofsBase ProofsPlace ProofsMem ProofsFree
  ModelExec SpecExec ProofsExec ModelScope.
Open Scope Z_scope.

Definition pend_step (A : list sym) (s : stmt) : list sym :=
  match s with Alloc x => x :: A | Free x => remove_first x A | _ => A end.

Lemma remove_first_app_in : forall x P A, In x P -> remove_first x (P ++ A) = remove_first x P ++ A.
Proof.
  induction P as [|y P IH]; intros A H. contradiction.
  cbn. destruct (Z.eqb x y) eqn:E; auto. cbn. f_equal. apply IH.
  destruct H as [H|H]; auto. subst. rewrite Z.eqb_refl in E. discriminate.
Qed.

Lemma in_remove_first : forall x y P, NoDup P -> (In y (remove_first x P) <-> In y P /\ y <> x).
Proof.
  induction P as [|z P IH]; intros Hn; cbn. tauto.
  inversion Hn; subst. destruct (Z.eqb x z) eqn:E.
  - apply Z.eqb_eq in E. subst z. split.
    + intros H. split; auto. intros ->. contradiction.
    + intros ([H|H] & Hne); auto. congruence.
  - assert (x <> z) by (intros ->; rewrite Z.eqb_refl in E; discriminate).
    cbn. rewrite (IH H2). split.
    + intros [->|(H3 & H4)]; auto.
    + intros ([->|H3] & H4); auto.
Qed.

Lemma nodup_remove_first : forall x P, NoDup P -> NoDup (remove_first x P).
Proof.
  induction P as [|z P IH]; intros Hn; cbn. constructor.
  inversion Hn; subst. destruct (Z.eqb x z); auto. constructor; auto.
  intros H. apply in_remove_first in H; auto. tauto.
Qed.

Lemma nodup_app_disj : forall (l1 l2 : list sym) x, NoDup (l1 ++ l2) -> In x l1 -> In x l2 -> False.
Proof.
  induction l1 as [|a l1 IH]; intros l2 x Hn H1 H2. contradiction.
  cbn in Hn. inversion Hn; subst. destruct H1 as [->|H1].
  - apply H3. apply in_or_app. right; exact H2.
  - eapply IH; eauto.
Qed.

Lemma allocs_s_in : forall s l x, In s l -> In x (allocs_s s) -> In x (allocs l).
Proof. intros s l x Hs Hx. unfold allocs. apply in_flat_map. exists s. auto. Qed.

Lemma frees_top_In_split : forall x l, In x (frees_top l) -> exists l1 l2, l = l1 ++ Free x :: l2.
Proof. intros x l H. apply In_free_top in H. apply in_split in H. exact H. Qed.

Lemma two_frees_contra : forall x l1 l2 suf,
  cnt x (frees_top (l1 ++ Free x :: l2 ++ Free x :: suf)) = cnt x (allocs_top (l1 ++ Free x :: l2 ++ Free x :: suf)) ->
  (cnt x (allocs_top (l1 ++ Free x :: l2 ++ Free x :: suf)) <= 1)%nat -> False.
Proof.
  intros x l1 l2 suf Hc Hle. rewrite cntF_app, cntF_free, cntF_app, cntF_free in Hc. lia.
Qed.

Section Run.
  Variable W : dict.
  Variable AN : list sym.
  Hypothesis W_nodup : NoDup (map fst W).

  Definition usedx (s : stmt) (x : sym) : Prop := exists n, In n (used_s s) /\ reach W n x.

  Lemma live_names : forall D names, names_live W AN D names = true ->
    forall n x, In n names -> reach W n x -> In x AN -> In x D.
  Proof.
    intros D names H n x Hn Hr Hx. destruct (in_dec Z.eq_dec x D) as [Hd|Hd]; auto.
    exfalso. eapply names_live_sound; eauto. exists n, x. auto.
  Qed.

  Definition OKS (S : list stmt) : Prop := forall T, subscope S T -> ScopeOK W T.

  Definition Q (s : stmt) : Prop :=
    forall A D,
      (forall T, nested s T -> ScopeOK W T) ->
      NoDup (allocs_s s) ->
      (forall x, In x A -> ~ In x (allocs_s s)) ->
      ascoped_s W AN D s = true ->
      (forall x, In x D -> usedx s x -> In x AN -> In x A) ->
      (forall x, s = Free x -> In x A) ->
      forall o, exec_s W AN A s o -> o = Done (pend_step A s).

  Lemma head_uses_used : forall s n, In n (head_uses s) -> In n (used_s s).
  Proof.
    intros s n H. destruct s; cbn in *; auto; try contradiction.
    apply in_or_app. left; exact H.
  Qed.

  (* one scope, executed from its entry live set A *)
  Lemma scope_run : forall S, Forall Q S ->
    forall A D, OKS S -> NoDup (allocs S) -> (forall x, In x A -> ~ In x (allocs S)) ->
      ascoped_list (ascoped_s W AN) D S = true ->
      (forall x, In x D -> (exists s, In s S /\ usedx s x) -> In x AN -> In x A) ->
      forall o, exec_l W AN A S o -> o = Done A.
  Proof.
    intros S HQ A D HOK Hnd Hdisj Hsc Hout.
    destruct (HOK S (sub_refl S)) as (F1 & F2 & F3).
    assert (HndT : NoDup (allocs_top S)) by (apply allocs_top_nodup; exact Hnd).
    assert (Hgen : forall suf pre, S = pre ++ suf ->
      forall P Dc, NoDup P ->
        (forall x, In x P <-> In x (allocs_top pre) /\ ~ In x (frees_top pre)) ->
        (forall x, In x Dc <-> In x (allocs_top pre) \/ In x D) ->
        ascoped_list (ascoped_s W AN) Dc suf = true ->
        forall o, exec_l W AN (P ++ A) suf o -> o = Done A).
    { induction suf as [|s suf IH]; intros pre ES P Dc HnP HP HDc Hs o He.
      - inversion He; subst. rewrite app_nil_r in *.
        destruct P as [|x P]; auto. exfalso.
        destruct (proj1 (HP x) (or_introl eq_refl)) as (Ha & Hf).
        apply Hf. apply cnt_pos_In. rewrite F1. apply cnt_pos_In. exact Ha.
      - assert (HsS : In s S) by (rewrite ES; apply in_or_app; right; left; reflexivity).
        cbn [ascoped_list] in Hs. apply andb_true_iff in Hs. destruct Hs as (Hs1 & Hs2).
        assert (Hq : forall o', exec_s W AN (P ++ A) s o' -> o' = Done (pend_step (P ++ A) s)).
        { rewrite Forall_forall in HQ. apply (HQ s HsS (P ++ A) Dc); auto.
          - intros T HT. apply HOK. destruct s; cbn in HT; try contradiction.
            + destruct HT as [HT|HT]; [eapply sub_if_body|eapply sub_if_else]; eauto.
            + eapply sub_for; eauto.
          - destruct (allocs_in_split _ _ HsS) as (a & z & Ea). rewrite Ea in Hnd. apply nodup_mid in Hnd. exact Hnd.
          - intros x Hx Hxs. apply in_app_or in Hx. destruct Hx as [Hx|Hx].
            + apply HP in Hx. destruct Hx as (Hx & _).
              assert (Ea : allocs S = allocs pre ++ allocs_s s ++ allocs suf).
              { rewrite ES. unfold allocs. rewrite flat_map_app. reflexivity. }
              rewrite Ea in Hnd. eapply (nodup_app_disj (allocs pre)); eauto.
              apply allocs_top_incl; exact Hx. apply in_or_app; left; exact Hxs.
            + apply (Hdisj x Hx). eapply allocs_s_in; eauto.
          - intros x Hx Hu HxAN. apply in_or_app. apply HDc in Hx. destruct Hx as [Hx|Hx].
            + destruct (in_dec Z.eq_dec x (frees_top pre)) as [Hf|Hf].
              * exfalso. destruct (frees_top_In_split _ _ Hf) as (l1 & l2 & Epre).
                assert (ES' : S = l1 ++ Free x :: (l2 ++ s :: suf)).
                { rewrite ES, Epre, <- app_assoc. reflexivity. }
                destruct Hu as (n & Hn & Hr).
                apply (F3 _ _ _ ES' s n); auto. apply in_or_app. right. left. reflexivity.
              * left. apply HP. auto.
            + right. apply Hout; auto. exists s. auto.
          - intros x ->. apply in_or_app. left. apply HP.
            pose proof (F2 _ _ _ ES) as Hal. split. apply In_alloc_top; exact Hal.
            intros Hf. destruct (frees_top_In_split _ _ Hf) as (l1 & l2 & Epre).
            (* two Frees of x in S but at most one Alloc *)
            pose proof (F1 x) as Hc. pose proof (cnt_nodup x _ HndT) as Hle.
            assert (ES2 : S = l1 ++ Free x :: l2 ++ Free x :: suf) by (rewrite ES, Epre, <- app_assoc; reflexivity).
            rewrite ES2 in Hc, Hle. eapply two_frees_contra; eauto. }
        assert (Hstep : forall A1, exec_s W AN (P ++ A) s (Done A1) ->
                  forall o', exec_l W AN A1 suf o' -> o' = Done A).
        { intros A1 He1 o' He2. apply Hq in He1. inversion He1; subst A1. clear He1.
          assert (ES' : S = (pre ++ [s]) ++ suf) by (rewrite ES, <- app_assoc; reflexivity).
          destruct s; cbn [pend_step] in He2;
            try (apply (IH (pre ++ [_]) ES' P Dc HnP); auto;
                 [ intros y; rewrite allocs_top_app, frees_top_app; cbn; rewrite !app_nil_r; apply HP
                 | intros y; rewrite allocs_top_app; cbn; rewrite app_nil_r; apply HDc ]; fail).
          - (* Alloc *)
            assert (Hfresh : ~ In name (allocs_top pre)).
            { intros Hin. rewrite ES, allocs_top_app in HndT. cbn in HndT.
              eapply (nodup_app_disj (allocs_top pre)); eauto. left; reflexivity. }
            apply (IH (pre ++ [Alloc name]) ES' (name :: P) (name :: Dc)); auto.
            + constructor; auto. intros Hin. apply HP in Hin. tauto.
            + intros y. rewrite allocs_top_app, frees_top_app. cbn. rewrite app_nil_r. split.
              * intros [<-|Hy]. split. apply in_or_app; right; left; reflexivity.
                intros Hf. apply Hfresh. destruct (frees_top_In_split _ _ Hf) as (l1 & l2 & Epre).
                assert (ES2 : S = l1 ++ Free name :: (l2 ++ Alloc name :: suf)).
                { rewrite ES, Epre, <- app_assoc. reflexivity. }
                pose proof (F2 _ _ _ ES2) as Hal. rewrite Epre. rewrite allocs_top_app. apply in_or_app. left.
                apply In_alloc_top. exact Hal.
                apply HP in Hy. destruct Hy. split; auto. apply in_or_app; left; auto.
              * intros (Hy & Hnf). apply in_app_or in Hy. destruct Hy as [Hy|[<-|[]]]; auto. right. apply HP. auto.
            + intros y. rewrite allocs_top_app. cbn. split.
              * intros [<-|Hy]. left. apply in_or_app; right; left; reflexivity.
                apply HDc in Hy. destruct Hy; auto. left. apply in_or_app; left; auto.
              * intros [Hy|Hy]. apply in_app_or in Hy. destruct Hy as [Hy|[<-|[]]]; auto. right. apply HDc. auto.
                right. apply HDc. auto.
          - (* Free *)
            assert (HinP : In name P).
            { apply HP. pose proof (F2 _ _ _ ES) as Hal. split. apply In_alloc_top; exact Hal.
              intros Hf. destruct (frees_top_In_split _ _ Hf) as (l1 & l2 & Epre).
              pose proof (F1 name) as Hc. pose proof (cnt_nodup name _ HndT) as Hle.
              assert (ES2 : S = l1 ++ Free name :: l2 ++ Free name :: suf) by (rewrite ES, Epre, <- app_assoc; reflexivity).
              rewrite ES2 in Hc, Hle. eapply two_frees_contra; eauto. }
            rewrite remove_first_app_in in He2 by exact HinP.
            apply (IH (pre ++ [Free name]) ES' (remove_first name P) Dc); auto.
            + apply nodup_remove_first; exact HnP.
            + intros y. rewrite allocs_top_app, frees_top_app. cbn. rewrite app_nil_r.
              rewrite in_remove_first by exact HnP. rewrite HP. split.
              * intros ((Hy & Hnf) & Hne). split; auto. intros Hf. apply in_app_or in Hf.
                destruct Hf as [Hf|[Hf|[]]]; auto.
              * intros (Hy & Hnf). split; [split; auto|].
                intros Hf. apply Hnf. apply in_or_app. left; exact Hf.
                intros ->. apply Hnf. apply in_or_app. right. left. reflexivity.
            + intros y. rewrite allocs_top_app. cbn. rewrite app_nil_r. apply HDc. }
        inversion He; subst.
        + eapply Hstep; eauto.
        + match goal with Hx : exec_s _ _ _ s Fault |- _ => apply Hq in Hx; discriminate end. }
    intros o He. apply (Hgen S [] eq_refl [] D); auto.
    - constructor.
    - intros x. cbn. tauto.
    - intros x. cbn. tauto.
  Qed.

  Lemma used_s_if_body : forall c b e s n, In s b -> In n (used_s s) -> In n (used_s (If c b e)).
  Proof.
    intros. cbn [used_s]. apply in_or_app. right. apply in_or_app. left. apply in_flat_map. eauto.
  Qed.
  Lemma used_s_if_else : forall c b e s n, In s e -> In n (used_s s) -> In n (used_s (If c b e)).
  Proof.
    intros. cbn [used_s]. apply in_or_app. right. apply in_or_app. right. apply in_flat_map. eauto.
  Qed.
  Lemma used_s_for : forall lo hi b s n, In s b -> In n (used_s s) -> In n (used_s (For lo hi b)).
  Proof. intros. cbn [used_s]. apply in_flat_map. eauto. Qed.

  Lemma no_dead : forall A D s,
    names_live W AN D (head_uses s) = true ->
    (forall x, In x D -> usedx s x -> In x AN -> In x A) ->
    ~ dead_use W AN A (head_uses s).
  Proof.
    intros A D s Hl Hout (n & x & Hn & Hr & Hx & Hdead). apply Hdead. apply Hout; auto.
    - eapply live_names; eauto.
    - exists n. split; auto. apply head_uses_used; exact Hn.
  Qed.

  Lemma Q_all : forall s, Q s.
  Proof.
    induction s using stmt_ind'; unfold Q; intros A D HOK Hnd Hdisj Hsc Hout Hfree o He.
    1-4, 9-10:
      (inversion He; subst; try reflexivity;
       try match goal with Hd : dead_use _ _ _ (head_uses ?s0) |- _ => exfalso; exact (no_dead A D s0 Hsc Hout Hd) end;
       try match goal with Hl : leaf _ |- _ => cbn in Hl; contradiction end).
    - (* If *)
      cbn [ascoped_s] in Hsc. apply andb_true_iff in Hsc. destruct Hsc as (Hsc & Hse).
      apply andb_true_iff in Hsc. destruct Hsc as (Hsc & Hsb).
      cbn [allocs_s] in Hnd, Hdisj. fold (allocs b) in Hnd, Hdisj. fold (allocs e) in Hnd, Hdisj.
      assert (Hb : forall o0, exec_l W AN A b o0 -> o0 = Done A).
      { apply (scope_run b H A D); auto.
        - intros T HT. apply HOK. left; exact HT.
        - eapply nodup_app_l; eauto.
        - intros x Hx Hin. apply (Hdisj x Hx). apply in_or_app. left; exact Hin.
        - intros x Hx (s & Hs & n & Hn & Hr) HxAN. apply Hout; auto. exists n. split; auto.
          eapply used_s_if_body; eauto. }
      assert (Hee : forall o0, exec_l W AN A e o0 -> o0 = Done A).
      { apply (scope_run e H0 A D); auto.
        - intros T HT. apply HOK. right; exact HT.
        - eapply nodup_app_r; eauto.
        - intros x Hx Hin. apply (Hdisj x Hx). apply in_or_app. right; exact Hin.
        - intros x Hx (s & Hs & n & Hn & Hr) HxAN. apply Hout; auto. exists n. split; auto.
          eapply used_s_if_else; eauto. }
      inversion He; subst;
        try match goal with Hd : dead_use _ _ _ (head_uses ?s0) |- _ => exfalso; exact (no_dead A D s0 Hsc Hout Hd) end;
        try match goal with Hl : leaf _ |- _ => cbn in Hl; contradiction end.
      + match goal with Hx : exec_l _ _ _ b _ |- _ => rewrite (Hb _ Hx) end. apply scope_exit_same.
      + match goal with Hx : exec_l _ _ _ e _ |- _ => rewrite (Hee _ Hx) end. apply scope_exit_same.
    - (* For *)
      cbn [ascoped_s] in Hsc. cbn [allocs_s] in Hnd, Hdisj. fold (allocs b) in Hnd, Hdisj.
      assert (Hb : forall o0, exec_l W AN A b o0 -> o0 = Done A).
      { apply (scope_run b H A D); auto.
        - intros x Hx (s & Hs & n & Hn & Hr) HxAN. apply Hout; auto. exists n. split; auto.
          eapply used_s_for; eauto. }
      inversion He; subst;
        try match goal with Hd : dead_use _ _ _ _ |- _ => exfalso; destruct Hd as (n0 & x0 & [] & _) end;
        try match goal with Hl : leaf _ |- _ => cbn in Hl; contradiction end.
      match goal with Hx : exec_iter _ _ _ _ _ _ |- _ => revert Hx end. clear He. revert o.
      induction k as [|k IHk]; intros o Hit; inversion Hit; subst.
      + reflexivity.
      + match goal with Hx : exec_l _ _ _ b _, Hy : scope_exit _ _ = _ |- _ =>
          rewrite (Hb _ Hx), scope_exit_same in Hy; inversion Hy; subst end. apply IHk; auto.
      + match goal with Hx : exec_l _ _ _ b _, Hy : scope_exit _ _ = _ |- _ =>
          rewrite (Hb _ Hx), scope_exit_same in Hy; discriminate end.
    - (* Alloc *)
      inversion He; subst; try reflexivity;
        try match goal with Hd : dead_use _ _ _ _ |- _ => exfalso; destruct Hd as (n0 & x0 & [] & _) end;
        try match goal with Hl : leaf _ |- _ => cbn in Hl; contradiction end.
      exfalso. eapply Hdisj; eauto. cbn. auto.
    - (* Free *)
      pose proof (Hfree x eq_refl) as Hin.
      inversion He; subst; try reflexivity; try contradiction;
        try match goal with Hd : dead_use _ _ _ _ |- _ => exfalso; destruct Hd as (n0 & x0 & [] & _) end;
        try match goal with Hl : leaf _ |- _ => cbn in Hl; contradiction end.
  Qed.
End Run.

(* ------------------------------------------------------------------ scoping is indifferent to Free statements *)
Lemma ascoped_erase : forall W AN,
  forall l D, ascoped_list (ascoped_s W AN) D (erase_frees l) = ascoped_list (ascoped_s W AN) D l.
Proof.
  intros W AN.
  assert (Hl : forall l, Forall (fun s => forall D, ascoped_s W AN D (erase_s s) = ascoped_s W AN D s) l ->
            forall D, ascoped_list (ascoped_s W AN) D (erase_frees l) = ascoped_list (ascoped_s W AN) D l).
  { induction 1 as [|s r Hs Hr IH]; intros D. reflexivity.
    unfold erase_frees in *. cbn [flat_map]. destruct (is_free s) eqn:Ef.
    - destruct s; cbn in Ef; try discriminate. cbn [app ascoped_list ascoped_s abinds andb]. apply IH.
    - cbn [app ascoped_list]. rewrite Hs. f_equal.
      assert (Eb : abinds (erase_s s) = abinds s) by (destruct s; reflexivity). rewrite Eb. apply IH. }
  assert (Hs : forall s D, ascoped_s W AN D (erase_s s) = ascoped_s W AN D s).
  { induction s using stmt_ind'; intros D; try reflexivity.
    - cbn [erase_s ascoped_s]. fold (erase_frees b). fold (erase_frees e). rewrite (Hl _ H), (Hl _ H0). reflexivity.
    - cbn [erase_s ascoped_s]. fold (erase_frees b). rewrite (Hl _ H). reflexivity. }
  intros l D. apply Hl. apply Forall_forall. intros s _. apply Hs.
Qed.

Theorem runs_clean_all : forall p q,
  wf_b p = true -> ascoped_b p = true -> insert_frees p = Ok q -> runs_clean q.
Proof.
  intros p q Hwf Hasc E o He.
  destruct (wf_b_parts _ Hwf) as (Hnw & Hna & _ & _).
  pose proof (insert_frees_erase _ _ E) as Eer.
  pose proof (insert_frees_wins _ _ E) as Ew.
  assert (Ea : allocs q = allocs p) by (rewrite <- (allocs_erase q), Eer; reflexivity).
  rewrite Ew, Ea in He.
  assert (HQ : Forall (Q (wins p) (allocs p)) q) by (apply Forall_forall; intros s _; apply Q_all; exact Hnw).
  assert (H1 : OKS (wins p) q) by (intros T HT; eapply scopes_ok; eauto).
  assert (H2 : NoDup (allocs q)) by (rewrite Ea; exact Hna).
  assert (H3 : forall x, In x (@nil sym) -> ~ In x (allocs q)) by (intros x []).
  assert (H4 : ascoped_list (ascoped_s (wins p) (allocs p)) [] q = true).
  { unfold ascoped_b in Hasc. rewrite <- (ascoped_erase (wins p) (allocs p) q []), Eer. exact Hasc. }
  assert (H5 : forall x, In x (@nil sym) -> (exists s, In s q /\ usedx (wins p) s x) -> In x (allocs p) -> In x (@nil sym))
    by (intros x []).
  exact (scope_run (wins p) (allocs p) q HQ [] [] H1 H2 H3 H4 H5 o He).
Qed.

(* hypotheses satisfiable on the running example *)
Example runs_clean_example :
  let p := [Alloc 1; WindowStmt 2 (WindowExpr 1 1 []);
            If Other [Alloc 3; Assign 3 [] (Read 2 [Other])] [Alloc 4; Assign 4 [Other] Other];
            For Other Other [Alloc 6; WindowStmt 7 (WindowExpr 6 6 []); Call [8] [] [Read 7 []]];
            Assign 5 [Other] (Read 2 [Other])] in
  wf_b p = true /\ ascoped_b p = true /\ exists q, insert_frees p = Ok q /\ exec_safe_b q = true.
Proof. cbn zeta. split; [vm_compute; reflexivity|split; [vm_compute; reflexivity|]]. eexists. split; vm_compute; reflexivity. Qed.
