(* MemSafe/ModelScope.v — lexical scoping of allocated buffers in a procedure body (executable check, evaluated by the
   harness on every exported real procedure; hypothesis of C08_runs_clean).  A name mentioned by a statement, or the root
   of its window chain, that is an allocation of the procedure must be allocated earlier in the same or an enclosing
   scope.  Free statements are transparent.  Executable Gallina only. *)
From Coq Require Import ZArith List Bool.
Import ListNotations.
From MemSafe Require Import Model Gen_Used ModelMem Spec ModelExec.
Open Scope Z_scope.

Definition abinds (s : stmt) : list sym := match s with Alloc x => [x] | _ => [] end.

Section AScoped.
  Variable W : dict.
  Variable AN : list sym.

  Section AList.
    Variable f : list sym -> stmt -> bool.
    Fixpoint ascoped_list (D : list sym) (l : list stmt) : bool :=
      match l with
      | [] => true
      | s :: r => f D s && ascoped_list (abinds s ++ D) r
      end.
  End AList.

  Fixpoint ascoped_s (D : list sym) (s : stmt) {struct s} : bool :=
    match s with
    | Alloc _ | Free _ => true
    | If c b e =>
        names_live W AN D (used_e c) && ascoped_list ascoped_s D b && ascoped_list ascoped_s D e
    | For _ _ b => ascoped_list ascoped_s D b
    | _ => names_live W AN D (direct_uses s)
    end.
End AScoped.

Definition ascoped_b (p : list stmt) : bool :=
  ascoped_list (ascoped_s (wins p) (allocs p)) [] p.
