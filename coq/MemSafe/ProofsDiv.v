(* MemSafe/ProofsDiv.v — the C helpers compute floor division / modulus; the backend emits the raw C operators only
   where they agree with the floor operators; no emitted division can divide by zero. *)
From Coq Require Import ZArith List Bool Lia.
Import ListNotations.
From MemSafe Require Import Model Gen_Helpers ModelDiv.
Open Scope Z_scope.

(* ------------------------------------------------------------------ the helpers (translated C text) *)
Lemma floor_div_helper : forall n q, 0 < q -> exo_floor_div n q = n / q.
Proof.
  intros n q Hq. unfold exo_floor_div.
  destruct (Z.geb n 0) eqn:E.
  - apply Z.geb_le in E. rewrite Z.sub_0_r. apply Z.quot_div_nonneg; lia.
  - assert (n < 0) by (destruct (Z.geb_spec n 0); [discriminate|lia]).
    rewrite <- (Z.opp_involutive (n - (q - 1))).
    rewrite Z.quot_opp_l by lia.
    rewrite Z.quot_div_nonneg by lia.
    assert (Hq0 : q <> 0) by lia.
    assert (Hd := Z.div_mod n q Hq0).
    assert (Hm := Z.mod_pos_bound n q Hq).
    symmetry. apply Z.opp_inj. rewrite Z.opp_involutive.
    apply Z.div_unique with (r := q - 1 - n mod q); nia.
Qed.

Lemma floor_mod_helper : forall n q, 0 < q -> exo_floor_mod n q = n mod q.
Proof.
  intros n q Hq. unfold exo_floor_mod.
  assert (Hq0 : q <> 0) by lia.
  assert (Hqr := Z.quot_rem' n q).
  assert (Hd := Z.div_mod n q Hq0).
  assert (Hm := Z.mod_pos_bound n q Hq).
  destruct (Z.ltb (Z.rem n q) 0) eqn:E.
  - apply Z.ltb_lt in E.
    assert (n < 0). { destruct (Z_lt_le_dec n 0); auto. pose proof (Z.rem_nonneg n q Hq0 l). lia. }
    assert (Hn : n <= 0) by lia.
    assert (Hb := Z.rem_bound_pos_neg n q Hq Hn).
    apply Z.mod_unique with (q := Z.quot n q - 1); nia.
  - apply Z.ltb_ge in E.
    assert (Hb : Z.rem n q < q).
    { destruct (Z_lt_le_dec n 0).
      - assert (Hn : n <= 0) by lia. pose proof (Z.rem_bound_pos_neg n q Hq Hn). lia.
      - pose proof (Z.rem_bound_pos n q l Hq). lia. }
    apply Z.mod_unique with (q := Z.quot n q); nia.
Qed.

(* the hypotheses of both lemmas are satisfiable, and the helpers differ from the raw C operators exactly on
   negative dividends *)
Example helper_example : exo_floor_div (-7) 2 = -4 /\ exo_floor_mod (-7) 2 = 1 /\ Z.quot (-7) 2 = -3 /\ Z.rem (-7) 2 = -1.
Proof. vm_compute. repeat split. Qed.

Lemma quot_nonneg : forall a c, 0 < c -> 0 <= a -> Z.quot a c = a / c.
Proof. intros. apply Z.quot_div_nonneg; lia. Qed.

Lemma rem_nonneg_mod : forall a c, 0 < c -> 0 <= a -> Z.rem a c = a mod c.
Proof. intros. apply Z.rem_mod_nonneg; lia. Qed.

Lemma div_nonneg_inv : forall a c, 0 < c -> 0 <= a / c -> 0 <= a.
Proof.
  intros a c Hc H. destruct (Z_lt_le_dec a 0) as [Hn|]; [|assumption].
  assert (a / c < 0) by (apply Z.div_lt_upper_bound; lia). lia.
Qed.

(* ------------------------------------------------------------------ predicates of the statements *)
(* every divisor is a positive integer literal (enforced by the front end) *)
Fixpoint lit_div (e : iexp) : Prop :=
  match e with
  | IBin o l r _ =>
      lit_div l /\ lit_div r /\
      match o with
      | ODiv | OMod => exists c nn, r = IConst c nn /\ 0 < c
      | _ => True
      end
  | INeg a _ => lit_div a
  | _ => True
  end.

(* the range analysis' answers are sound for the valuation at hand (property C13) *)
Fixpoint flags_sound (rho : sym -> Z) (e : iexp) : Prop :=
  (flag e = true -> 0 <= ieval rho e) /\
  match e with
  | IBin _ l r _ => flags_sound rho l /\ flags_sound rho r
  | INeg a _ => flags_sound rho a
  | _ => True
  end.

(* no emitted division or modulus (raw or through a helper) can divide by zero: the divisor is a positive literal *)
Fixpoint div_safe (c : cexp) : Prop :=
  match c with
  | CBin o l r =>
      div_safe l /\ div_safe r /\
      match o with ODiv | OMod => exists k, r = CConst k /\ 0 < k | _ => True end
  | CNeg a => div_safe a
  | CFloorDiv l r | CFloorMod l r => div_safe l /\ div_safe r /\ exists k, r = CConst k /\ 0 < k
  | _ => True
  end.

(* every raw C `/` or `%` has a non-negative dividend *)
Fixpoint raw_nonneg (rho : sym -> Z) (sigma : sym -> Z -> Z) (c : cexp) : Prop :=
  match c with
  | CBin o l r =>
      raw_nonneg rho sigma l /\ raw_nonneg rho sigma r /\
      match o with ODiv | OMod => 0 <= ceval rho sigma l | _ => True end
  | CNeg a => raw_nonneg rho sigma a
  | CFloorDiv l r | CFloorMod l r => raw_nonneg rho sigma l /\ raw_nonneg rho sigma r
  | _ => True
  end.

Definition correct (rho : sym -> Z) (sigma : sym -> Z -> Z) (c : cexp) (v : Z) : Prop :=
  ceval rho sigma c = v /\ div_safe c /\ raw_nonneg rho sigma c.

(* ------------------------------------------------------------------ Compiler.comp_e *)
Lemma comp_e_correct : forall rho sigma e,
  lit_div e -> flags_sound rho e -> correct rho sigma (comp_e e) (ieval rho e).
Proof.
  intros rho sigma. unfold correct.
  induction e as [x nn|c nn|o l IHl r IHr nn|a IHa nn]; intros Hl Hf; cbn [comp_e ieval].
  - cbn. auto.
  - cbn. auto.
  - cbn [lit_div] in Hl. destruct Hl as (Hll & Hlr & Hdiv).
    cbn [flags_sound] in Hf. destruct Hf as (Hnn & Hfl & Hfr).
    destruct (IHl Hll Hfl) as (El & Sl & Rl). destruct (IHr Hlr Hfr) as (Er & Sr & Rr).
    destruct o; cbn [op_floor].
    + cbn. rewrite El, Er. auto.
    + cbn. rewrite El, Er. auto.
    + cbn. rewrite El, Er. auto.
    + destruct Hdiv as (c & nnc & -> & Hc). cbn [comp_e ieval] in *.
      destruct nn.
      * assert (0 <= ieval rho l) by (apply div_nonneg_inv with c; auto; apply Hnn; reflexivity).
        cbn. rewrite El. repeat split; auto; try (exists c; auto); try lia.
        apply quot_nonneg; auto.
      * cbn. rewrite El. repeat split; auto; try (exists c; auto).
        apply floor_div_helper; auto.
    + destruct Hdiv as (c & nnc & -> & Hc). cbn [comp_e ieval] in *.
      destruct (flag l) eqn:Fl.
      * assert (0 <= ieval rho l).
        { destruct l; cbn [flags_sound flag] in *; destruct Hfl as (Hx & _); apply Hx; assumption. }
        cbn. rewrite El. repeat split; auto; try (exists c; auto); try lia.
        apply rem_nonneg_mod; auto.
      * cbn. rewrite El. repeat split; auto; try (exists c; auto).
        apply floor_mod_helper; auto.
  - cbn [lit_div] in Hl. cbn [flags_sound] in Hf. destruct Hf as (_ & Hfa).
    destruct (IHa Hl Hfa) as (Ea & Sa & Ra). cbn. rewrite Ea. auto.
Qed.

(* ------------------------------------------------------------------ CIR *)
Fixpoint klit (k : cir) : Prop :=
  match k with
  | KBin o l r _ =>
      klit l /\ klit r /\
      match o with ODiv | OMod => exists c, r = KConst c /\ 0 < c | _ => True end
  | KUSub a _ => klit a
  | _ => True
  end.

Fixpoint ksound (rho : sym -> Z) (sigma : sym -> Z -> Z) (k : cir) : Prop :=
  match k with
  | KRead x nn => nn = true -> 0 <= rho x
  | KBin o l r nn =>
      (nn = true -> 0 <= keval rho sigma (KBin o l r nn)) /\ ksound rho sigma l /\ ksound rho sigma r
  | KUSub a nn => (nn = true -> 0 <= keval rho sigma (KUSub a nn)) /\ ksound rho sigma a
  | _ => True
  end.

Lemma lift_keval : forall rho sigma e, keval rho sigma (lift_to_cir e) = ieval rho e.
Proof. induction e; cbn; congruence. Qed.

Lemma lift_klit : forall e, lit_div e -> klit (lift_to_cir e).
Proof.
  induction e as [| |o l IHl r IHr nn|a IHa nn]; cbn; auto.
  intros (Hl & Hr & Hd). repeat split; auto.
  destruct o; auto; destruct Hd as (c & nnc & -> & Hc); exists c; auto.
Qed.

Lemma lift_ksound : forall rho sigma e, flags_sound rho e -> ksound rho sigma (lift_to_cir e).
Proof.
  induction e as [x nn|c nn|o l IHl r IHr nn|a IHa nn]; cbn [flags_sound lift_to_cir ksound flag]; auto.
  - intros (H & _). exact H.
  - intros (H & Hl & Hr). repeat split; auto.
    intros E. cbn [keval]. rewrite !lift_keval. apply H; auto.
  - intros (H & Ha). split; auto.
    intros E. cbn [keval]. rewrite lift_keval. apply H; auto.
Qed.

Definition kgood rho sigma k v := keval rho sigma k = v /\ klit k /\ ksound rho sigma k.

Lemma simplify_cir_correct : forall rho sigma k k',
  klit k -> ksound rho sigma k -> simplify_cir k = Some k' ->
  kgood rho sigma k' (keval rho sigma k).
Proof.
  intros rho sigma. unfold kgood.
  induction k as [x nn|x d|c|o l IHl r IHr nn|a IHa nn]; intros k' Hl Hs E.
  - cbn in E. inversion E; subst. auto.
  - cbn in E. inversion E; subst. auto.
  - cbn in E. inversion E; subst. auto.
  - cbn [klit] in Hl. destruct Hl as (Hll & Hlr & Hdiv).
    cbn [ksound] in Hs. destruct Hs as (Hnn & Hsl & Hsr).
    cbn [simplify_cir] in E.
    destruct (simplify_cir l) as [lhs|] eqn:El; [|discriminate].
    destruct (simplify_cir r) as [rhs|] eqn:Er; [|discriminate].
    destruct (IHl lhs Hll Hsl eq_refl) as (Vl & Ll & Sl).
    destruct (IHr rhs Hlr Hsr eq_refl) as (Vr & Lr & Sr).
    assert (Hrhs : match o with ODiv | OMod => exists c, rhs = KConst c /\ 0 < c | _ => True end).
    { destruct o; auto; destruct Hdiv as (c & -> & Hc); cbn in Er; inversion Er; exists c; auto. }
    assert (Hgen : kgood rho sigma (KBin o lhs rhs nn) (keval rho sigma (KBin o l r nn))).
    { unfold kgood. cbn [keval klit ksound]. rewrite Vl, Vr. repeat split; auto. }
    unfold kgood in Hgen. cbn [keval] in Hgen |- *.
    rewrite <- Vl, <- Vr in Hgen |- *. clear Vl Vr Hnn IHl IHr El Er Hsl Hsr Hll Hlr Hdiv.
    pose proof Hgen as (G1 & (G2 & G3 & G4) & (G5 & G6 & G7)).
    (* case analysis following the Python *)
    destruct lhs as [lx lnn|lx ld|lc|lo ll lr lnn|la lnn];
      destruct rhs as [rx rnn|rx rd|rc|ro rl rr rnn|ra rnn];
      try (inversion E; subst; exact Hgen).
    all: try (destruct rc as [|[rp|rp|]|rp]; destruct o; inversion E; subst; cbn [keval klit ksound op_floor] in *;
              try exact Hgen;
              try (destruct Hrhs as (c0 & Hc0 & Hpos); inversion Hc0; subst; lia);
              repeat split; auto; try lia; try (rewrite Z.div_1_r; reflexivity); try tauto; fail).
    all: try (destruct lc as [|[lp|lp|]|lp]; destruct o; inversion E; subst; cbn [keval klit ksound op_floor] in *;
              try exact Hgen;
              repeat split; auto; try lia; try tauto; fail).
  - cbn [klit] in Hl. cbn [ksound] in Hs. destruct Hs as (Hnn & Hsa).
    cbn [simplify_cir] in E.
    destruct (simplify_cir a) as [arg|] eqn:Ea; [|discriminate].
    destruct (IHa arg Hl Hsa eq_refl) as (Va & La & Sa).
    cbn [keval] in *.
    destruct arg as [x xnn|x d|c|o l r bnn|b bnn]; inversion E; subst; cbn [keval klit ksound] in *;
      rewrite <- Va; repeat split; auto; try lia; try tauto.
    all: intros Hn; specialize (Hnn Hn); rewrite <- Va in Hnn; exact Hnn.
Qed.

Lemma raw_div_ok_nonneg : forall rho sigma l, ksound rho sigma l -> raw_div_ok l = true -> 0 <= keval rho sigma l.
Proof.
  intros rho sigma l Hs H. destruct l; cbn in *; try discriminate.
  - auto.
  - apply Z.ltb_lt in H. lia.
  - destruct Hs as (Hn & _). apply Hn. exact H.
Qed.

Lemma raw_mod_ok_nonneg : forall rho sigma l, ksound rho sigma l -> raw_mod_ok l = true -> 0 <= keval rho sigma l.
Proof.
  intros rho sigma l Hs H. destruct l; cbn in *; try discriminate.
  - auto.
  - apply Z.leb_le in H. lia.
  - destruct Hs as (Hn & _). apply Hn. exact H.
Qed.

Lemma comp_cir_correct : forall rho sigma k,
  klit k -> ksound rho sigma k -> correct rho sigma (comp_cir k) (keval rho sigma k).
Proof.
  intros rho sigma. unfold correct.
  induction k as [x nn|x d|c|o l IHl r IHr nn|a IHa nn]; intros Hl Hs; cbn [comp_cir keval].
  - cbn. auto.
  - cbn. auto.
  - cbn. auto.
  - cbn [klit] in Hl. destruct Hl as (Hll & Hlr & Hdiv).
    cbn [ksound] in Hs. destruct Hs as (Hnn & Hsl & Hsr).
    destruct (IHl Hll Hsl) as (El & Sl & Rl). destruct (IHr Hlr Hsr) as (Er & Sr & Rr).
    destruct o; cbn [op_floor].
    + cbn. rewrite El, Er. auto.
    + cbn. rewrite El, Er. auto.
    + cbn. rewrite El, Er. auto.
    + destruct Hdiv as (c & -> & Hc). cbn [comp_cir keval] in *.
      destruct (raw_div_ok l) eqn:Ok.
      * assert (0 <= keval rho sigma l) by (apply raw_div_ok_nonneg; auto).
        cbn. rewrite El. repeat split; auto; try (exists c; auto); try lia.
        apply quot_nonneg; auto.
      * cbn. rewrite El. repeat split; auto; try (exists c; auto).
        apply floor_div_helper; auto.
    + destruct Hdiv as (c & -> & Hc). cbn [comp_cir keval] in *.
      destruct (raw_mod_ok l) eqn:Ok.
      * assert (0 <= keval rho sigma l) by (apply raw_mod_ok_nonneg; auto).
        cbn. rewrite El. repeat split; auto; try (exists c; auto); try lia.
        apply rem_nonneg_mod; auto.
      * cbn. rewrite El. repeat split; auto; try (exists c; auto).
        apply floor_mod_helper; auto.
  - cbn [klit] in Hl. cbn [ksound] in Hs. destruct Hs as (_ & Hsa).
    destruct (IHa Hl Hsa) as (Ea & Sa & Ra). cbn. rewrite Ea. auto.
Qed.

(* access_str / window_struct_fields: lift ; simplify ; comp_cir *)
Lemma comp_index_correct : forall rho sigma e c,
  lit_div e -> flags_sound rho e -> comp_index e = Some c -> correct rho sigma c (ieval rho e).
Proof.
  intros rho sigma e c Hl Hf E. unfold comp_index in E.
  destruct (simplify_cir (lift_to_cir e)) as [k|] eqn:Es; [|discriminate]. inversion E; subst c.
  destruct (simplify_cir_correct rho sigma _ _ (lift_klit e Hl) (lift_ksound rho sigma e Hf) Es) as (V & L & S).
  rewrite lift_keval in V. rewrite <- V. apply comp_cir_correct; auto.
Qed.

(* offsets built by get_idx_offset contain Stride nodes: the statement for arbitrary CIR *)
Lemma comp_cir_simplified_correct : forall rho sigma k k',
  klit k -> ksound rho sigma k -> simplify_cir k = Some k' -> correct rho sigma (comp_cir k') (keval rho sigma k).
Proof.
  intros rho sigma k k' Hl Hs E.
  destruct (simplify_cir_correct rho sigma _ _ Hl Hs E) as (V & L & S).
  rewrite <- V. apply comp_cir_correct; auto.
Qed.

Theorem divmod_choice : forall rho sigma e,
  lit_div e -> flags_sound rho e ->
  correct rho sigma (comp_e e) (ieval rho e) /\
  (forall c, comp_index e = Some c -> correct rho sigma c (ieval rho e)).
Proof.
  intros. split. apply comp_e_correct; auto. intros; eapply comp_index_correct; eauto.
Qed.

(* The hypotheses are satisfiable, on an expression where the choice matters: (i - 3) % 4 and (i - 3) / 4 with i >= 0
   unknown sign of i - 3: both lowered to helpers; (i + 1) / 2 with the flag set: raw operators. *)
Example divmod_example :
  let rho := fun _ : sym => 1 in
  let e1 := IBin OMod (IBin OSub (IVar 1 true) (IConst 3 true) false) (IConst 4 true) true in
  let e2 := IBin ODiv (IBin OAdd (IVar 1 true) (IConst 1 true) true) (IConst 2 true) true in
  lit_div e1 /\ flags_sound rho e1 /\ lit_div e2 /\ flags_sound rho e2 /\
  comp_e e1 = CFloorMod (CBin OSub (CVar 1) (CConst 3)) (CConst 4) /\
  comp_e e2 = CBin ODiv (CBin OAdd (CVar 1) (CConst 1)) (CConst 2) /\
  ieval rho e1 = 2 /\ Z.rem (1 - 3) 4 = -2.
Proof.
  cbn. repeat split; auto; try lia; try (eexists; eexists; split; [reflexivity|lia]); try discriminate.
Qed.

(* hypotheses of comp_cir_simplified_correct are satisfiable: offset (i - 3) % 4 * stride(w, 0) with i = 1 *)
Example divmod_cir_example :
  let rho := fun _ : sym => 1 in
  let sigma := fun (_ : sym) (_ : Z) => 2 in
  let k := KBin OMul (KBin OMod (KBin OSub (KRead 1 true) (KConst 3) false) (KConst 4) true) (KStride 2 0) true in
  klit k /\ ksound rho sigma k /\
  simplify_cir k = Some k /\
  comp_cir k = CBin OMul (CFloorMod (CBin OSub (CVar 1) (CConst 3)) (CConst 4)) (CStride 2 0) /\
  keval rho sigma k = 4.
Proof.
  cbn. repeat split; auto; try lia; try discriminate. eexists; split; [reflexivity|lia].
Qed.
