(* MemSafe/ProofsTotal.v — on well-formed input the modelled analysis raises none of its exceptions: no assertion of
   pop fails, no dictionary chase diverges.  (Non-vacuity of the C08_free_* theorems.) *)
From Coq Require Import ZArith List Bool Lia.
Import ListNotations.
From MemSafe Require Import Model Gen_Used ModelMem Spec ProofsBase ProofsPlace ProofsMem.
Open Scope Z_scope.

(* a dictionary built by consing fresh keys: the new key is neither a key nor a value of the rest, nor its own base *)
Fixpoint wfd (d : dict) : Prop :=
  match d with
  | [] => True
  | (w, b) :: d' => wfd d' /\ ~ In w (keys d') /\ w <> b /\ (forall n b', In (n, b') d' -> b' <> w)
  end.

Lemma lookup_cons_neq : forall n w b d, n <> w -> lookup n ((w, b) :: d) = lookup n d.
Proof. intros. cbn. destruct (Z.eqb n w) eqn:E; auto. apply Z.eqb_eq in E. contradiction. Qed.

Lemma chase_skip : forall w b d, (forall n b', In (n, b') d -> b' <> w) ->
  forall fuel n, n <> w -> chase fuel ((w, b) :: d) n = chase fuel d n.
Proof.
  intros w b d Hv. induction fuel as [|f IH]; intros n Hn; cbn [chase]; rewrite lookup_cons_neq by assumption.
  - reflexivity.
  - destruct (lookup n d) as [b'|] eqn:El; auto.
    rewrite IH; auto. apply (Hv n). apply lookup_In. exact El.
Qed.

Lemma chase_total : forall d, wfd d -> forall fuel n, (length d <= fuel)%nat -> exists l, chase fuel d n = Ok l.
Proof.
  induction d as [|(w, b) d IH]; intros Hw fuel n Hf.
  - destruct fuel; cbn; eauto.
  - cbn [wfd] in Hw. destruct Hw as (Hw & Hk & Hne & Hv). cbn [length] in Hf.
    destruct (Z.eq_dec n w) as [->|Hn].
    + destruct fuel as [|f]; [lia|]. cbn [chase lookup]. rewrite Z.eqb_refl.
      rewrite (chase_skip w b d Hv f b) by congruence.
      destruct (IH Hw f b) as (l & El); [lia|]. rewrite El. cbn. eauto.
    + rewrite (chase_skip w b d Hv fuel n Hn). apply IH; auto. lia.
Qed.

Lemma closure_total : forall d, wfd d -> forall names, exists u, closure d names = Ok u.
Proof.
  intros d Hw names. unfold closure.
  assert (H : exists e, close_uses d names = Ok e).
  { induction names as [|m r IH]; cbn [close_uses]. eauto.
    destruct (chase_total d Hw (S (length d)) m) as (c & Ec); [lia|]. rewrite Ec. cbn [bind].
    destruct IH as (e & Ee). rewrite Ee. cbn. eauto. }
  destruct H as (e & Ee). rewrite Ee. cbn. eauto.
Qed.

Lemma place_total : forall d, wfd d -> forall rs top body, exists r, place d rs top body = Ok r.
Proof.
  intros d Hw. induction rs as [|b rs IH]; intros top body; cbn [place]. eauto.
  destruct (closure_total d Hw (used_s b)) as (u & Eu). rewrite Eu. cbn [bind]. apply IH.
Qed.

Section WithW.
  Variable W : dict.
  Hypothesis W_nodup : NoDup (map fst W).
  Let WN := map fst W.

  Definition Pre (st : mstate) (D : list sym) : Prop :=
    (exists top rest, tofree st = top :: rest) /\ GoodWB W (win_base st) /\ wfd (win_base st) /\
    incl D (keys (win_base st)).

  Definition PreW (st : mstate) (D : list sym) : Prop :=
    GoodWB W (win_base st) /\ wfd (win_base st) /\ incl D (keys (win_base st)).

  (* the window definitions still to come: W = processed (in order) ++ those of s ++ rest *)
  Definition Ahead (st : mstate) (ws : dict) : Prop := exists rest, W = rev (win_base st) ++ ws ++ rest.

  Definition P3 (s : stmt) : Prop :=
    forall st D, Pre st D -> Ahead st (wins_s s) ->
      wscoped_s WN D s = true -> rhs_ok_s s = true -> has_free_s s = false ->
      exists s' st', mem_s s st = Ok (s', st') /\ wfd (win_base st').

  Lemma ahead_incl : forall st ws, Ahead st ws -> incl ws W.
  Proof. intros st ws (rest & ->) p Hp. apply in_or_app. right. apply in_or_app. left. exact Hp. Qed.

  Lemma pre_after : forall s st D s' st', Pre st D -> Ahead st (wins_s s) -> wscoped_s WN D s = true ->
    mem_s s st = Ok (s', st') -> wfd (win_base st') -> Pre st' (binds s ++ D).
  Proof.
    intros s st D s' st' ((top & rest & Ht) & Hg & Hw & Hd) Ha Hsc E Hw'.
    destruct (mem_s_struct s _ _ _ _ _ E Ht) as (W1 & T1 & R1).
    destruct (mem_s_wf W W_nodup s _ _ _ D E (ex_intro _ top (ex_intro _ rest Ht)) Hsc Hg Hd (ahead_incl _ _ Ha))
      as (G1 & _ & _).
    split; [eauto|split; [exact G1|split; [exact Hw'|]]].
    intros w Hin. rewrite W1, keys_app. apply in_or_app. apply in_app_or in Hin. destruct Hin as [Hin|Hin].
    - left. unfold keys. rewrite map_rev, <- in_rev. eapply binds_in_wins; eauto.
    - right. apply Hd. exact Hin.
  Qed.

  Lemma ahead_after : forall s st s' st' ws, Ahead st (wins_s s ++ ws) ->
    (exists top rest, tofree st = top :: rest) -> mem_s s st = Ok (s', st') -> Ahead st' ws.
  Proof.
    intros s st s' st' ws (rest & EW) (top & r & Ht) E.
    destruct (mem_s_struct s _ _ _ _ _ E Ht) as (W1 & _ & _).
    exists rest. rewrite W1, rev_app_distr, rev_involutive, EW, <- !app_assoc. reflexivity.
  Qed.

  Lemma ahead_head : forall st ws1 ws2, Ahead st (ws1 ++ ws2) -> Ahead st ws1.
  Proof. intros st ws1 ws2 (rest & EW). exists (ws2 ++ rest). rewrite EW, <- app_assoc. reflexivity. Qed.

  Lemma map_mem_total : forall l, Forall P3 l ->
    forall st D, Pre st D -> Ahead st (wins l) ->
      wscoped WN D l = true -> forallb rhs_ok_s l = true -> existsb has_free_s l = false ->
      exists ss st', map_mem mem_s l st = Ok (ss, st') /\ wfd (win_base st').
  Proof.
    induction 1 as [|b r Hb Hr IH]; intros st D Hp Ha Hsc Hrhs Hnf.
    - cbn. destruct Hp as (_ & _ & Hw & _). eauto.
    - unfold wscoped in Hsc. cbn [scoped_list] in Hsc. apply andb_true_iff in Hsc. destruct Hsc as (Hs1 & Hs2).
      cbn [forallb] in Hrhs. apply andb_true_iff in Hrhs. destruct Hrhs as (Hr1 & Hr2).
      cbn [existsb] in Hnf. apply orb_false_iff in Hnf. destruct Hnf as (Hn1 & Hn2).
      unfold wins in Ha. cbn [flat_map] in Ha. fold (wins r) in Ha.
      destruct (Hb st D Hp (ahead_head _ _ _ Ha) Hs1 Hr1 Hn1) as (b' & st1 & E1 & Hw1).
      pose proof (pre_after _ _ _ _ _ Hp (ahead_head _ _ _ Ha) Hs1 E1 Hw1) as Hp1.
      pose proof (ahead_after _ _ _ _ _ Ha (proj1 Hp) E1) as Ha1.
      destruct (IH st1 _ Hp1 Ha1 Hs2 Hr2 Hn2) as (r' & st2 & E2 & Hw2).
      exists (b' :: r'), st2. cbn [map_mem]. rewrite E1. cbn [bind]. rewrite E2. cbn. auto.
  Qed.

  Lemma scope_total : forall b, Forall P3 b ->
    forall st D, PreW st D -> Ahead st (wins b) ->
      wscoped WN D b = true -> forallb rhs_ok_s b = true -> existsb has_free_s b = false ->
      exists b' st', scope_with mem_s b st = Ok (b', st') /\ wfd (win_base st').
  Proof.
    intros b Hb st D Hp Ha Hsc Hrhs Hnf. unfold scope_with, mem_stmts_with.
    destruct b as [|s0 b0].
    - cbn. destruct Hp as (_ & Hw & _). eauto.
    - remember (s0 :: b0) as b eqn:Eb.
      assert (Hp' : Pre (push st) D).
      { destruct Hp as (Hg & Hw & Hd). split; [cbn; eauto|auto]. }
      assert (Ha' : Ahead (push st) (wins b)) by exact Ha.
      destruct (map_mem_total _ Hb _ _ Hp' Ha' Hsc Hrhs Hnf) as (ss & st1 & E1 & Hw1).
      assert (Ht : tofree (push st) = [] :: tofree st) by reflexivity.
      destruct (map_mem_struct _ (mem_s_struct_all b) _ _ _ _ _ E1 Ht) as (W1 & T1 & R1).
      destruct (place_total _ Hw1 (rev ss) (allocs_top b) []) as ((body & top') & Ep).
      assert (Hnfr : Forall (fun s => is_free s = false) (rev ss)) by (apply Forall_rev; eapply R_nofree; eauto).
      assert (K : forall x, In x (allocs_top b) -> In (Alloc x) (rev ss)).
      { intros x Hx. rewrite <- in_rev. apply allocs_top_In. rewrite (R_allocs _ _ R1). exact Hx. }
      destruct (place_spec _ _ _ _ _ _ Ep Hnfr K) as (Htop & _).
      { intros x s _ []. }
      subst top'.
      exists (rev body), (MS (tofree st) (win_base st1)).
      rewrite Eb in *. cbn [bind]. rewrite <- Eb in *. rewrite E1. cbn [bind]. rewrite T1. cbn [app].
      rewrite Ep. cbn. auto.
  Qed.

  Lemma mem_s_total : forall s, P3 s.
  Proof.
    induction s using stmt_ind'; unfold P3; intros st D Hp Ha Hsc Hrhs Hnf; cbn [mem_s].
    1-4: destruct Hp as (_ & _ & Hw & _); eauto.
    - (* If *)
      cbn [wscoped_s] in Hsc. apply andb_true_iff in Hsc. destruct Hsc as (Hu & Hsc).
      apply andb_true_iff in Hsc. destruct Hsc as (Hsb & Hse).
      cbn [rhs_ok_s] in Hrhs. apply andb_true_iff in Hrhs. destruct Hrhs as (Hrb & Hre).
      cbn [has_free_s] in Hnf. apply orb_false_iff in Hnf. destruct Hnf as (Hnb & Hne).
      cbn [wins_s] in Ha. fold (wins b) in Ha. fold (wins e) in Ha.
      destruct Hp as ((top & rest & Ht) & Hg & Hw & Hd).
      assert (HpW : PreW st D) by (split; [exact Hg|split; [exact Hw|exact Hd]]).
      destruct (scope_total _ H st D HpW (ahead_head _ _ _ Ha) Hsb Hrb Hnb) as (b' & st1 & E1 & Hw1).
      destruct (scope_struct _ (mem_s_struct_all b) _ _ _ E1) as (W1 & T1 & _).
      assert (Hall : Forall (P2 W) b) by (apply Forall_forall; intros x _; apply mem_s_wf; exact W_nodup).
      destruct (scope_wf W W_nodup b Hall _ _ _ D E1 Hsb Hg Hd (ahead_incl _ _ (ahead_head _ _ _ Ha))) as (G1 & _).
      assert (Hp1 : PreW st1 D).
      { split; [exact G1|split; [exact Hw1|]].
        intros w Hin. rewrite W1, keys_app. apply in_or_app. right. apply Hd. exact Hin. }
      assert (Ha1 : Ahead st1 (wins e)).
      { destruct Ha as (rest0 & EW). exists rest0. rewrite W1, rev_app_distr, rev_involutive, EW, <- !app_assoc. reflexivity. }
      destruct (scope_total _ H0 st1 D Hp1 Ha1 Hse Hre Hne) as (e' & st2 & E2 & Hw2).
      exists (If c b' e'), st2. rewrite E1. cbn [bind]. rewrite E2. cbn. auto.
    - (* For *)
      cbn [wscoped_s] in Hsc. apply andb_true_iff in Hsc. destruct Hsc as (Hu & Hsb).
      cbn [rhs_ok_s] in Hrhs. cbn [has_free_s] in Hnf. cbn [wins_s] in Ha. fold (wins b) in Ha.
      assert (HpW : PreW st D) by (destruct Hp as (_ & Hg & Hw & Hd); split; [exact Hg|split; [exact Hw|exact Hd]]).
      destruct (scope_total _ H st D HpW Ha Hsb Hrhs Hnf) as (b' & st1 & E1 & Hw1).
      exists (For lo hi b'), st1. rewrite E1. cbn. auto.
    - (* Alloc *)
      destruct Hp as ((top & rest & Ht) & _ & Hw & _). unfold add_malloc. rewrite Ht. cbn. eauto.
    - cbn in Hnf. discriminate.
    - destruct Hp as (_ & _ & Hw & _); eauto.
    - (* WindowStmt *)
      destruct Hp as ((top & rest & Ht) & (Hi & Hc) & Hw & Hd).
      cbn [wscoped_s] in Hsc. apply andb_true_iff in Hsc. destruct Hsc as (Hu & _).
      assert (Hnew : forall b, wins_s (WindowStmt w rhs) = [(w, b)] -> In b (direct_uses (WindowStmt w rhs)) ->
                wfd ((w, b) :: win_base st)).
      { intros b Ews Hb. rewrite Ews in Ha. destruct Ha as (rest0 & EW).
        assert (HwWN : In w WN).
        { unfold WN. rewrite EW, !map_app. apply in_or_app. right. cbn. auto. }
        assert (Hfresh : ~ In w (keys (win_base st))).
        { intros Hin. pose proof W_nodup as Hn. rewrite EW, map_app in Hn.
          cbn [app map fst] in Hn. apply NoDup_remove_2 in Hn. apply Hn. apply in_or_app. left.
          rewrite map_rev, <- in_rev. exact Hin. }
        cbn [wfd]. split; [exact Hw|split; [exact Hfresh|split]].
        - intros ->. pose proof (uses_ok_spec W D _ Hu b Hb HwWN) as HbD. apply Hfresh. apply Hd. exact HbD.
        - intros n b' Hin ->. apply Hfresh. eapply Hc; eauto. }
      destruct rhs; cbn in Hrhs; try discriminate.
      + eexists _, _. split; [reflexivity|]. apply Hnew; cbn; auto.
      + eexists _, _. split; [reflexivity|]. apply Hnew; cbn; auto.
  Qed.
End WithW.

Theorem insert_frees_total : forall p, wf_b p = true -> forallb rhs_ok_s p = true ->
  exists q, insert_frees p = Ok q.
Proof.
  intros p Hwf Hrhs. unfold wf_b in Hwf.
  apply andb_true_iff in Hwf. destruct Hwf as (Hwf & H4). apply negb_true_iff in H4.
  apply andb_true_iff in Hwf. destruct Hwf as (Hwf & H3).
  apply andb_true_iff in Hwf. destruct Hwf as (H1 & H2).
  apply nodupb_NoDup in H1.
  assert (Hall : Forall (P3 (wins p)) p) by (apply Forall_forall; intros s _; apply mem_s_total; exact H1).
  assert (Hp : PreW (wins p) (MS [] []) []).
  { split; [split; [intros x []|intros n b []]|split; [exact I|intros x []]]. }
  assert (Ha : Ahead (wins p) (MS [] []) (wins p)) by (exists []; cbn; rewrite app_nil_r; reflexivity).
  destruct (scope_total (wins p) H1 p Hall (MS [] []) [] Hp Ha H3 Hrhs H4) as (b' & st' & Es & _).
  unfold insert_frees, scope. rewrite Es. cbn [bind].
  destruct (scope_struct _ (mem_s_struct_all p) _ _ _ Es) as (_ & T & _).
  rewrite T. cbn. eauto.
Qed.

(* on well-formed input with window expressions on the right of window statements, all C08_free_* hypotheses hold *)
Example total_example :
  let p := [Alloc 1; WindowStmt 2 (WindowExpr 1 1 []); For Other Other [Alloc 3; Assign 3 [] (Read 2 [Other])]] in
  wf_b p = true /\ forallb rhs_ok_s p = true.
Proof. vm_compute. split; reflexivity. Qed.
