#!/venv/bin/python
"""Regenerate Gen_Used.v and Gen_Helpers.v from the CURRENT exo/backend/mem_analysis.py and LoopIR_compiler.py
(EXO_REPO, default /repo).  Exits non-zero, naming the construct and line, when the source leaves the translator's
grammar; stale Gen_*.v are then removed so that nothing can be proved about an outdated translation."""
import os
import subprocess
import sys

here = os.path.dirname(os.path.abspath(__file__))
tr = os.path.join(here, "..", "..", "translator", "py2coq_memanalysis.py")
sys.exit(subprocess.call([sys.executable, tr, "--repo", os.environ.get("EXO_REPO", "/repo"), "--outdir", here]))
