(* MemSafe/ProofsPlace.v — the reversed loop of MemoryAnalysis.mem_stmts (`place`): where the Frees of one scope go. *)
From Coq Require Import ZArith List Bool Lia.
Import ListNotations.
From MemSafe Require Import Model Gen_Used ModelMem Spec ProofsBase.
Open Scope Z_scope.

Definition frees_top (l : list stmt) : list sym :=
  flat_map (fun s => match s with Free y => [y] | _ => [] end) l.
Definition alloc_top_s (s : stmt) : list sym := match s with Alloc y => [y] | _ => [] end.
Definition allocs_top (l : list stmt) : list sym := flat_map alloc_top_s l.
Definition strip (l : list stmt) : list stmt := filter (fun s => negb (is_free s)) l.

(* statement s mentions (according to used_s) a name that denotes x according to dictionary d *)
Definition uses (d : dict) (s : stmt) (x : sym) : Prop :=
  exists n, In n (used_s s) /\ dreach d n x.

Lemma uses_free : forall d y x, ~ uses d (Free y) x.
Proof. intros d y x (n & Hin & _). cbn in Hin. exact Hin. Qed.

Lemma uses_alloc : forall d x, uses d (Alloc x) x.
Proof. intros. exists x. split. cbn; auto. constructor. Qed.

Lemma strip_app : forall l1 l2, strip (l1 ++ l2) = strip l1 ++ strip l2.
Proof. intros. unfold strip. apply filter_app. Qed.

Lemma strip_map_free : forall rm, strip (map Free rm) = [].
Proof. induction rm; cbn; auto. Qed.

Lemma strip_nofree : forall l, Forall (fun s => is_free s = false) l -> strip l = l.
Proof.
  induction l as [|s r IH]; intros H; cbn. reflexivity.
  inversion H; subst. rewrite H2. cbn. f_equal. apply IH. assumption.
Qed.

Lemma strip_In : forall s l, In s (strip l) -> In s l.
Proof. intros s l H. unfold strip in H. apply filter_In in H. tauto. Qed.

Lemma strip_rev : forall l, strip (rev l) = rev (strip l).
Proof.
  induction l as [|s r IH]; cbn. reflexivity.
  rewrite strip_app, IH. cbn. destruct (is_free s); cbn; auto. rewrite app_nil_r. reflexivity.
Qed.

Lemma frees_top_app : forall l1 l2, frees_top (l1 ++ l2) = frees_top l1 ++ frees_top l2.
Proof. intros. unfold frees_top. apply flat_map_app. Qed.

Lemma frees_top_map_free : forall rm, frees_top (map Free rm) = rm.
Proof. induction rm; cbn; auto. f_equal. exact IHrm. Qed.

Lemma frees_top_nofree : forall s, is_free s = false -> frees_top [s] = [].
Proof. intros s H. destruct s; cbn in *; auto. discriminate. Qed.

Lemma frees_top_strip_nil : forall l, Forall (fun s => is_free s = false) l -> frees_top l = [].
Proof.
  induction l as [|s r IH]; intros H. reflexivity. inversion H; subst.
  change (s :: r) with ([s] ++ r). rewrite frees_top_app, frees_top_nofree, IH; auto.
Qed.

Lemma split_app_cons : forall (A : Type) (l1 l2 m1 m2 : list A) (a : A),
  l1 ++ l2 = m1 ++ a :: m2 ->
  (exists k, l1 = m1 ++ a :: k /\ m2 = k ++ l2) \/ (exists k, l2 = k ++ a :: m2 /\ m1 = l1 ++ k).
Proof.
  intros A. induction l1 as [|x l1 IH]; intros l2 m1 m2 a E.
  - right. exists m1. auto.
  - destruct m1 as [|y m1]; cbn in E.
    + inversion E; subst. left. exists l1. auto.
    + inversion E; subst. destruct (IH _ _ _ _ H1) as [(k & -> & ->)|(k & -> & ->)].
      * left. exists k. auto.
      * right. exists k. auto.
Qed.

Lemma place_spec : forall d rs top body body' top',
  place d rs top body = Ok (body', top') ->
  Forall (fun s => is_free s = false) rs ->
  (forall x, In x top -> In (Alloc x) rs) ->
  (forall x s, In x top -> In s body -> ~ uses d s x) ->
  top' = [] /\
  exists added, body' = body ++ added /\ strip added = rs /\
    (forall x, cnt x (frees_top added) = cnt x top) /\
    (forall m1 x m2, added = m1 ++ Free x :: m2 ->
        In (Alloc x) m2 /\ forall s, In s (body ++ m1) -> ~ uses d s x).
Proof.
  intros d. induction rs as [|b rs IH]; intros top body body' top' E Hnf K I.
  - cbn in E. inversion E; subst. split.
    + destruct top' as [|x t]; auto. exfalso. apply (K x). left; reflexivity.
    + exists []. rewrite app_nil_r. repeat split; auto.
      * intros x. destruct top' as [|y t]; auto. exfalso. apply (K y). left; reflexivity.
      * destruct m1; discriminate.
      * destruct m1; discriminate.
  - cbn [place] in E.
    destruct (closure d (used_s b)) as [used|] eqn:Ec; cbn [bind] in E; [|discriminate].
    inversion Hnf as [|? ? Hb Hnf']; subst.
    rewrite fold_remove_filter in E.
    set (rm := filter (fun nm => memb nm used) top) in *.
    set (top1 := filter (fun x => negb (memb x used)) top) in *.
    assert (Hused : forall x, uses d b x -> In x used).
    { intros x (n & Hin & Hr). eapply closure_complete; eauto. }
    assert (K' : forall x, In x top1 -> In (Alloc x) rs).
    { intros x Hx. apply filter_In in Hx. destruct Hx as (Hx & Hm).
      apply negb_true_iff in Hm. apply memb_false in Hm.
      destruct (K x Hx) as [->|]; auto.
      exfalso. apply Hm. apply Hused. apply uses_alloc. }
    assert (I' : forall x s, In x top1 -> In s ((body ++ map Free rm) ++ [b]) -> ~ uses d s x).
    { intros x s Hx Hs. apply filter_In in Hx. destruct Hx as (Hx & Hm).
      apply negb_true_iff in Hm. apply memb_false in Hm.
      apply in_app_or in Hs. destruct Hs as [Hs|[<-|[]]].
      - apply in_app_or in Hs. destruct Hs as [Hs|Hs]. apply I; auto.
        apply in_map_iff in Hs. destruct Hs as (y & <- & _). apply uses_free.
      - intros Hu. apply Hm. apply Hused. exact Hu. }
    destruct (IH _ _ _ _ E Hnf' K' I') as (Ht & added' & Eb & Es & Hc & Hsplit).
    split; auto.
    exists (map Free rm ++ [b] ++ added'). repeat split.
    + rewrite Eb. rewrite <- !app_assoc. reflexivity.
    + rewrite strip_app, strip_map_free. cbn [app]. unfold strip. cbn [filter]. rewrite Hb. cbn [negb].
      f_equal. exact Es.
    + intros x. rewrite frees_top_app, frees_top_map_free.
      change ([b] ++ added') with ([b] ++ added'). rewrite (frees_top_app [b] added'), frees_top_nofree by assumption.
      cbn [app]. rewrite cnt_app, Hc. unfold rm, top1. apply cnt_filter_split.
    + apply split_app_cons in H. destruct H as [(k & Ek & ->)|(k & Ek & ->)].
      * (* the Free is one of those placed after b *)
        assert (Hx : In x rm).
        { rewrite <- (frees_top_map_free rm), Ek, frees_top_app. apply in_or_app. right. left. reflexivity. }
        apply filter_In in Hx. destruct Hx as (Hx & _).
        destruct (K x Hx) as [<-|Hin].
        -- apply in_or_app. right. apply in_eq.
        -- apply in_or_app. right. apply in_cons. apply (strip_In _ added'). rewrite Es. exact Hin.
      * destruct k as [|b0 k]; cbn in Ek.
        -- inversion Ek; subst. cbn in Hb. discriminate.
        -- inversion Ek; subst. apply (Hsplit _ _ _ eq_refl).
    + apply split_app_cons in H. destruct H as [(k & Ek & ->)|(k & Ek & ->)].
      * intros s Hs. apply in_app_or in Hs. destruct Hs as [Hs|Hs].
        -- assert (Hx : In x rm).
           { rewrite <- (frees_top_map_free rm), Ek, frees_top_app. apply in_or_app. right. left. reflexivity. }
           apply filter_In in Hx. destruct Hx as (Hx & _). apply I; auto.
        -- assert (Hs' : In s (map Free rm)) by (rewrite Ek; apply in_or_app; left; exact Hs).
           apply in_map_iff in Hs'. destruct Hs' as (y & <- & _). apply uses_free.
      * destruct k as [|b0 k]; cbn in Ek.
        -- inversion Ek; subst. cbn in Hb. discriminate.
        -- inversion Ek; subst. intros s Hs.
           apply (proj2 (Hsplit _ _ _ eq_refl)).
           rewrite <- !app_assoc in *. cbn [app] in *. exact Hs.
Qed.
