(* MemSafe/ModelDiv.v — lowering of index `/` and `%` to C (exo/backend/LoopIR_compiler.py).
   Executable Gallina only; the Python text is quoted next to each definition.

   Two code paths emit index arithmetic:
     * `Compiler.comp_e` on LoopIR expressions (loop bounds, conditions, call arguments, config writes, predicates)
     * `lift_to_cir` ; `simplify_cir` ; `Compiler.comp_cir` on buffer/window index expressions.
   Both ask the range analysis (`range_env.check_expr_bound(0, leq, e)`) whether an expression is known to be
   non-negative.  The answer is not recomputed here: every node of the source expression carries the answer the
   range analysis gave for it (`nn`); soundness of those answers (property C13) is a hypothesis of the theorems.

   C semantics (C99 6.5.5): `/` truncates towards zero (Z.quot), `%` has the sign of the dividend (Z.rem);
   the helper functions are the translations of their C text (Gen_Helpers.v).  `int`/`int_fast32_t` are unbounded Z. *)
From Coq Require Import ZArith List Bool.
Import ListNotations.
From MemSafe Require Import Model Gen_Helpers.
Open Scope Z_scope.

Inductive op : Type := OAdd | OSub | OMul | ODiv | OMod.

(* index-typed LoopIR expression; nn = check_expr_bound(0, leq, <this node>) *)
Inductive iexp : Type :=
| IVar (x : sym) (nn : bool)
| IConst (c : Z) (nn : bool)
| IBin (o : op) (l r : iexp) (nn : bool)
| INeg (a : iexp) (nn : bool).

Definition flag (e : iexp) : bool :=
  match e with IVar _ nn | IConst _ nn | IBin _ _ _ nn | INeg _ nn => nn end.

(* Exo semantics: floor division and modulus *)
Definition op_floor (o : op) (a b : Z) : Z :=
  match o with
  | OAdd => a + b | OSub => a - b | OMul => a * b
  | ODiv => a / b | OMod => a mod b
  end.

Fixpoint ieval (rho : sym -> Z) (e : iexp) : Z :=
  match e with
  | IVar x _ => rho x
  | IConst c _ => c
  | IBin o l r _ => op_floor o (ieval rho l) (ieval rho r)
  | INeg a _ => - ieval rho a
  end.

(* emitted C expression *)
Inductive cexp : Type :=
| CVar (x : sym)
| CStride (x : sym) (dim : Z)
| CConst (c : Z)
| CBin (o : op) (l r : cexp)          (* the C operator itself *)
| CNeg (a : cexp)
| CFloorDiv (l r : cexp)              (* exo_floor_div(l, r) *)
| CFloorMod (l r : cexp).             (* exo_floor_mod(l, r) *)

Definition op_c (o : op) (a b : Z) : Z :=
  match o with
  | OAdd => a + b | OSub => a - b | OMul => a * b
  | ODiv => Z.quot a b | OMod => Z.rem a b
  end.

Fixpoint ceval (rho : sym -> Z) (sigma : sym -> Z -> Z) (e : cexp) : Z :=
  match e with
  | CVar x => rho x
  | CStride x d => sigma x d
  | CConst c => c
  | CBin o l r => op_c o (ceval rho sigma l) (ceval rho sigma r)
  | CNeg a => - ceval rho sigma a
  | CFloorDiv l r => exo_floor_div (ceval rho sigma l) (ceval rho sigma r)
  | CFloorMod l r => exo_floor_mod (ceval rho sigma l) (ceval rho sigma r)
  end.

(* ---------------------------------------------------------------- Compiler.comp_e, index-typed BinOp/USub/Read/Const
      int_div = e.op == "/" and not e.type.is_numeric()
      if int_div:
          if self.range_env.check_expr_bound(0, IndexRangeEnvironment.leq, e):   return f"(({lhs}) / ({rhs}))"
          return self._call_static_helper("exo_floor_div", lhs, rhs)
      if e.op == "%" and not e.type.is_numeric():
          if not self.range_env.check_expr_bound(0, IndexRangeEnvironment.leq, e.lhs):
              return self._call_static_helper("exo_floor_mod", lhs, rhs)
      s = f"{lhs} {op} {rhs}"                                                                                        *)
Fixpoint comp_e (e : iexp) : cexp :=
  match e with
  | IVar x _ => CVar x
  | IConst c _ => CConst c
  | IBin o l r nn =>
      let lc := comp_e l in
      let rc := comp_e r in
      match o with
      | ODiv => if nn then CBin ODiv lc rc else CFloorDiv lc rc
      | OMod => if flag l then CBin OMod lc rc else CFloorMod lc rc
      | _ => CBin o lc rc
      end
  | INeg a _ => CNeg (comp_e a)
  end.

(* ---------------------------------------------------------------- CIR
   expr = Read(sym name, bool is_non_neg) | Stride(sym name, int dim) | Const(object val)
        | BinOp(op op, expr lhs, expr rhs, bool is_non_neg) | USub(expr arg, bool is_non_neg)                      *)
Inductive cir : Type :=
| KRead (x : sym) (nn : bool)
| KStride (x : sym) (dim : Z)
| KConst (c : Z)
| KBin (o : op) (l r : cir) (nn : bool)
| KUSub (a : cir) (nn : bool).

Fixpoint keval (rho : sym -> Z) (sigma : sym -> Z -> Z) (k : cir) : Z :=
  match k with
  | KRead x _ => rho x
  | KStride x d => sigma x d
  | KConst c => c
  | KBin o l r _ => op_floor o (keval rho sigma l) (keval rho sigma r)
  | KUSub a _ => - keval rho sigma a
  end.

(*  def lift_to_cir(e, range_env):   is_non_neg = lambda e: range_env.check_expr_bound(0, leq, e)
        Read  -> CIR.Read(e.name, is_non_neg(e))      Const -> CIR.Const(e.val)
        BinOp -> CIR.BinOp(e.op, lhs, rhs, is_non_neg(e))      USub -> CIR.USub(arg, is_non_neg(e))                 *)
Fixpoint lift_to_cir (e : iexp) : cir :=
  match e with
  | IVar x nn => KRead x nn
  | IConst c _ => KConst c
  | IBin o l r nn => KBin o (lift_to_cir l) (lift_to_cir r) nn
  | INeg a nn => KUSub (lift_to_cir a) nn
  end.

(*  operations = {"+": x + y, "-": x - y, "*": x * y, "/": x // y, "%": x % y}      (Python ints) *)
Definition fold_const (o : op) (a b : Z) : option Z :=
  match o with
  | ODiv | OMod => if Z.eqb b 0 then None (* ZeroDivisionError *) else Some (op_floor o a b)
  | _ => Some (op_floor o a b)
  end.

(*  def simplify_cir(e): ...   `None` = one of its `assert False` / ZeroDivisionError *)
Fixpoint simplify_cir (e : cir) : option cir :=
  match e with
  | KRead _ _ | KConst _ | KStride _ _ => Some e
  | KBin o l r nn =>
      match simplify_cir l, simplify_cir r with
      | Some lhs, Some rhs =>
          match lhs, rhs with
          | KConst a, KConst b =>
              (* if isinstance(lhs, CIR.Const) and isinstance(rhs, CIR.Const): return CIR.Const(operations[e.op](..)) *)
              match fold_const o a b with Some v => Some (KConst v) | None => None end
          | _, _ =>
              let after_lhs0 : option (option cir) :=      (* Some r = returned r / raised; None = fell through *)
                match lhs with
                | KConst 0 =>
                    match o with
                    | OAdd => Some (Some rhs)
                    | OMul | ODiv => Some (Some (KConst 0))
                    | OSub => None
                    | OMod => Some None                      (* assert False *)
                    end
                | _ => None
                end in
              match after_lhs0 with
              | Some res => res
              | None =>
                  let after_rhs0 : option (option cir) :=
                    match rhs with
                    | KConst 0 =>
                        match o with
                        | OAdd | OSub => Some (Some lhs)
                        | OMul => Some (Some (KConst 0))
                        | ODiv => Some None                  (* assert False, "division by zero??" *)
                        | OMod => Some None                  (* assert False, "bad case" *)
                        end
                    | _ => None
                    end in
                  match after_rhs0 with
                  | Some res => res
                  | None =>
                      match lhs, o with
                      | KConst 1, OMul => Some rhs
                      | _, _ =>
                          match rhs, o with
                          | KConst 1, OMul | KConst 1, ODiv => Some lhs
                          | _, _ => Some (KBin o lhs rhs nn)
                          end
                      end
                  end
              end
          end
      | _, _ => None
      end
  | KUSub a nn =>
      match simplify_cir a with
      | Some (KUSub b _) => Some b
      | Some (KConst c) => Some (KConst (- c))
      | Some arg => Some (KUSub arg nn)
      | None => None
      end
  end.

(*  comp_cir:
      if e.op == "/":
          if (isinstance(e.lhs, (CIR.Read, CIR.BinOp)) and e.lhs.is_non_neg) or (isinstance(e.lhs, CIR.Const) and e.lhs.val > 0):
              return f"({lhs} / {rhs})"
          else: return self._call_static_helper("exo_floor_div", lhs, rhs)
      if e.op == "%":
          if not ((isinstance(e.lhs, (CIR.Read, CIR.BinOp)) and e.lhs.is_non_neg) or (isinstance(e.lhs, CIR.Const) and e.lhs.val >= 0)):
              return self._call_static_helper("exo_floor_mod", lhs, rhs)                                            *)
Definition raw_div_ok (l : cir) : bool :=
  match l with
  | KRead _ nn | KBin _ _ _ nn => nn
  | KConst c => Z.ltb 0 c
  | _ => false
  end.

Definition raw_mod_ok (l : cir) : bool :=
  match l with
  | KRead _ nn | KBin _ _ _ nn => nn
  | KConst c => Z.leb 0 c
  | _ => false
  end.

Fixpoint comp_cir (k : cir) : cexp :=
  match k with
  | KRead x _ => CVar x
  | KStride x d => CStride x d
  | KConst c => CConst c
  | KBin o l r _ =>
      let lc := comp_cir l in
      let rc := comp_cir r in
      match o with
      | ODiv => if raw_div_ok l then CBin ODiv lc rc else CFloorDiv lc rc
      | OMod => if raw_mod_ok l then CBin OMod lc rc else CFloorMod lc rc
      | _ => CBin o lc rc
      end
  | KUSub a _ => CNeg (comp_cir a)
  end.

(*  access_str / window_struct_fields:  self.comp_cir(simplify_cir(lift_to_cir(i, self.range_env)), ...)  *)
Definition comp_index (e : iexp) : option cexp :=
  match simplify_cir (lift_to_cir e) with
  | Some k => Some (comp_cir k)
  | None => None
  end.

(* Text order of the division/modulus operators of an emitted expression, for the correspondence with the C text:
   1 = ` / `, 2 = ` % `, 3 = `exo_floor_div(`, 4 = `exo_floor_mod(`.  A raw operator is printed between its operands,
   a helper name before them. *)
Fixpoint div_tokens (e : cexp) : list Z :=
  match e with
  | CVar _ | CStride _ _ | CConst _ => []
  | CBin o l r =>
      div_tokens l ++ match o with ODiv => [1] | OMod => [2] | _ => [] end ++ div_tokens r
  | CNeg a => div_tokens a
  | CFloorDiv l r => [3] ++ div_tokens l ++ div_tokens r
  | CFloorMod l r => [4] ++ div_tokens l ++ div_tokens r
  end.
