(* MemSafe/ModelExec.v — an executable checker that a statement list WITH its Free statements (the output of
   MemoryAnalysis) respects the allocation discipline on every execution path.  Executable Gallina only.
   Soundness w.r.t. the execution semantics of SpecExec.v is proved in ProofsExec.v; the harness evaluates the checker
   on every real MemoryAnalysis output it exports (per-instance certificate). *)
From Coq Require Import ZArith List Bool.
Import ListNotations.
From MemSafe Require Import Model Gen_Used ModelMem Spec.
Open Scope Z_scope.

Fixpoint list_eqb (a b : list sym) : bool :=
  match a, b with
  | [], [] => true
  | x :: a', y :: b' => Z.eqb x y && list_eqb a' b'
  | _, _ => false
  end.

Section Check.
  Variable W : dict.            (* window definitions of the procedure, unique keys *)
  Variable AN : list sym.       (* allocation names of the procedure *)

  (* every allocation that name n denotes (n itself or the root of its window chain) is live *)
  Definition name_live (A : list sym) (n : sym) : bool :=
    match chase (S (length W)) W n with
    | Ok l => forallb (fun x => negb (memb x AN) || memb x A) (n :: l)
    | Err _ => false
    end.

  Definition names_live (A : list sym) (names : list sym) : bool := forallb (name_live A) names.

  Section CheckList.
    Variable check_s : list sym -> stmt -> option (list sym).
    Fixpoint check_list (A : list sym) (l : list stmt) : option (list sym) :=
      match l with
      | [] => Some A
      | s :: r => match check_s A s with Some A1 => check_list A1 r | None => None end
      end.
  End CheckList.

  (* live set after the statement, or None if some execution could fault *)
  Fixpoint check_s (A : list sym) (s : stmt) {struct s} : option (list sym) :=
    match s with
    | Alloc x => if memb x A then None else Some (x :: A)
    | Free x => if memb x A then Some (remove_first x A) else None
    | If c b e =>
        if names_live A (used_e c) then
          match check_list check_s A b, check_list check_s A e with
          | Some A1, Some A2 => if list_eqb A1 A && list_eqb A2 A then Some A else None
          | _, _ => None
          end
        else None
    | For _ _ b =>
        match check_list check_s A b with
        | Some A1 => if list_eqb A1 A then Some A else None
        | None => None
        end
    | _ => if names_live A (direct_uses s) then Some A else None
    end.
End Check.

Definition exec_safe_b (q : list stmt) : bool :=
  nodupb (map fst (wins q)) &&
  match check_list (check_s (wins q) (allocs q)) [] q with
  | Some [] => true
  | _ => false
  end.
