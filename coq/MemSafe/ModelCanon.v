(* MemSafe/ModelCanon.v — canonical integer encodings of model results, evaluated by `Eval vm_compute` in the
   generated correspondence shards (harness/props/C08.py) and decoded / mirrored by harness/c08_export.py.
   Executable Gallina only. *)
From Coq Require Import ZArith List Bool.
Import ListNotations.
From MemSafe Require Import Model Gen_Used Gen_Helpers ModelMem ModelWrites ModelDiv Spec ModelExec ModelScope.
Open Scope Z_scope.

Definition err_code (e : err) : Z :=
  match e with
  | EAssertPop => 1 | EAssertFree => 2 | EBadWindowRhs => 3 | EEmptyStack => 4 | EDiverge => 5
  end.

(* statement lists: pre-order tags; blocks are closed by -2, `else` is introduced by -1 *)
Fixpoint canon_s (s : stmt) : list Z :=
  match s with
  | Assign n _ _ => [1; n]
  | Reduce n _ _ => [2; n]
  | WriteConfig _ => [3]
  | Pass => [4]
  | If _ b e => [5] ++ flat_map canon_s b ++ [-1] ++ flat_map canon_s e ++ [-2]
  | For _ _ b => [6] ++ flat_map canon_s b ++ [-2]
  | Alloc n => [7; n]
  | Free n => [8; n]
  | Call _ _ _ => [9]
  | WindowStmt n _ => [10; n]
  end.
Definition canon (l : list stmt) : list Z := flat_map canon_s l.

Definition b2z (b : bool) : Z := if b then 1 else 0.

(* [hyps ; 0 ; canon (insert_frees p)]   or   [hyps ; - err_code]
   hyps = wf_b p + 2 * ascoped_b p + 4 * (forallb rhs_ok_s p): the hypotheses of the C08 Free theorems *)
Definition mem_case (p : list stmt) : list Z :=
  (b2z (wf_b p) + 2 * b2z (ascoped_b p) + 4 * b2z (forallb rhs_ok_s p)) ::
  match insert_frees p with
  | Ok q => 0 :: canon q
  | Err e => [- err_code e]
  end.

(* [0 ; wfw_b ; #args ; arg flags ... ; struct flags ... ; -7 ; non_const ...]  or  [- err_code] *)
Definition const_case (buf_args : list sym) (body : list stmt) : list Z :=
  match const_decisions buf_args body, non_const body with
  | Ok (a, f), Ok nc => 0 :: b2z (wfw_b body) :: Z.of_nat (length a) :: map b2z a ++ map b2z f ++ [-7] ++ nc
  | Err e, _ => [- err_code e]
  | _, Err e => [- err_code e]
  end.

(* verdict of the proved-sound allocation-discipline checker on a statement list that already contains its Frees *)
Definition exec_case (q : list stmt) : list Z := [b2z (exec_safe_b q)].

Definition writes_case (body : list stmt) : list Z :=
  match get_writes body with
  | Ok w => 0 :: w
  | Err e => [- err_code e]
  end.

Definition op_code (o : op) : Z :=
  match o with OAdd => 1 | OSub => 2 | OMul => 3 | ODiv => 4 | OMod => 5 end.

Fixpoint kcanon (k : cir) : list Z :=
  match k with
  | KRead x nn => [1; x; b2z nn]
  | KStride x d => [2; x; d]
  | KConst c => [3; c]
  | KBin o l r nn => [4; op_code o; b2z nn] ++ kcanon l ++ kcanon r
  | KUSub a nn => [5; b2z nn] ++ kcanon a
  end.

Definition div_e_case (e : iexp) : list Z := div_tokens (comp_e e).
Definition div_cir_case (k : cir) : list Z := div_tokens (comp_cir k).
Definition lift_case (e : iexp) : list Z := kcanon (lift_to_cir e).
Definition simplify_case (k : cir) : list Z :=
  match simplify_cir k with Some k' => 0 :: kcanon k' | None => [-1] end.
(* the helpers on concrete arguments (compared with the compiled C helpers) *)
Definition helper_case (n q : Z) : list Z := [exo_floor_div n q; exo_floor_mod n q].
