(* MemSafe/ProofsExec.v — soundness of the allocation-discipline checker (ModelExec.v) for the execution semantics of
   SpecExec.v: if the checker accepts, no execution path faults and the procedure ends with nothing live. *)
From Coq Require Import ZArith List Bool Lia.
Import ListNotations.
From MemSafe Require Import Model Gen_Used ModelMem Spec ProofsBase ModelExec SpecExec.
Open Scope Z_scope.

Lemma list_eqb_eq : forall a b, list_eqb a b = true -> a = b.
Proof.
  induction a as [|x a IH]; destruct b as [|y b]; cbn; intros H; try discriminate; auto.
  apply andb_true_iff in H. destruct H as (H1 & H2). apply Z.eqb_eq in H1. f_equal; auto.
Qed.

Section Sound.
  Variable W : dict.
  Variable AN : list sym.
  Hypothesis W_nodup : NoDup (map fst W).

  Lemma in_lookup_W : forall n b, In (n, b) W -> lookup n W = Some b.
  Proof.
    intros n b H. assert (Hk : In n (map fst W)) by (change n with (fst (n, b)); apply in_map; exact H).
    destruct (lookup_keys _ _ Hk) as (v & Hv). rewrite Hv. f_equal.
    apply lookup_In in Hv. eapply nodup_fst_inj; eauto.
  Qed.

  Lemma reach_dreach_W : forall n x, reach W n x -> dreach W n x.
  Proof.
    induction 1 as [n|n b x Hin Hr IH]. constructor.
    econstructor; eauto. apply in_lookup_W; exact Hin.
  Qed.

  Lemma names_live_sound : forall A names, names_live W AN A names = true -> ~ dead_use W AN A names.
  Proof.
    intros A names H (n & x & Hn & Hr & Hx & Hdead).
    unfold names_live in H. rewrite forallb_forall in H. specialize (H n Hn).
    unfold name_live in H. destruct (chase (S (length W)) W n) as [l|] eqn:Ec; [|discriminate].
    rewrite forallb_forall in H.
    assert (Hin : In x (n :: l)).
    { apply reach_dreach_W in Hr. inversion Hr as [|? b ? Hl Hr']; subst. left; reflexivity.
      right. eapply chase_complete; eauto. }
    specialize (H x Hin). apply orb_true_iff in H. destruct H as [H|H].
    - apply negb_true_iff in H. apply memb_false in H. contradiction.
    - apply memb_In in H. contradiction.
  Qed.

  Definition Sound_s (s : stmt) : Prop :=
    forall A A', check_s W AN A s = Some A' -> forall o, exec_s W AN A s o -> o = Done A'.

  Lemma check_list_sound : forall l, Forall Sound_s l ->
    forall A A', check_list (check_s W AN) A l = Some A' -> forall o, exec_l W AN A l o -> o = Done A'.
  Proof.
    induction 1 as [|s r Hs Hr IH]; intros A A' Hc o He.
    - cbn in Hc. inversion Hc; subst. inversion He; subst. reflexivity.
    - cbn [check_list] in Hc. destruct (check_s W AN A s) as [A1|] eqn:E1; [|discriminate].
      inversion He as [|? ? ? A1' ? Hes Hel|? ? ? Hes]; subst.
      + pose proof (Hs _ _ E1 _ Hes) as Ho. inversion Ho; subst A1'. eapply IH; eauto.
      + pose proof (Hs _ _ E1 _ Hes) as Ho. discriminate.
  Qed.

  Lemma scope_exit_same : forall A, scope_exit A (Done A) = Done A.
  Proof. intros. unfold scope_exit. destruct (list_eq_dec Z.eq_dec A A); congruence. Qed.

  Lemma leaf_check : forall A A' s, leaf s -> check_s W AN A s = Some A' ->
    names_live W AN A (direct_uses s) = true /\ A' = A.
  Proof.
    intros A A' s Hl Hc. destruct s; cbn in Hl; try contradiction; cbn [check_s] in Hc;
      match type of Hc with (if ?c then _ else _) = _ => destruct c eqn:E; [inversion Hc; auto|discriminate] end.
  Qed.

  Lemma check_s_sound : forall s, Sound_s s.
  Proof.
    induction s using stmt_ind'; unfold Sound_s; intros A A' Hc o He.
    1-4, 9-10:
      (match type of Hc with check_s _ _ _ ?s0 = _ => destruct (leaf_check A A' s0 I Hc) as (Hn & ->) end;
       inversion He; subst; try reflexivity; try (exfalso; eapply names_live_sound; eauto; fail);
       try match goal with Hl : leaf _ |- _ => cbn in Hl; contradiction end).
    - (* If *)
      cbn [check_s] in Hc. destruct (names_live W AN A (used_e c)) eqn:En; [|discriminate].
      destruct (check_list (check_s W AN) A b) as [A1|] eqn:Eb; [|discriminate].
      destruct (check_list (check_s W AN) A e) as [A2|] eqn:Ee; [|discriminate].
      destruct (list_eqb A1 A && list_eqb A2 A) eqn:Eq; [|discriminate]. inversion Hc; subst A'.
      apply andb_true_iff in Eq. destruct Eq as (Q1 & Q2). apply list_eqb_eq in Q1, Q2. subst A1 A2.
      inversion He; subst;
        try (exfalso; eapply names_live_sound; eauto; fail);
        try match goal with Hl : leaf _ |- _ => cbn in Hl; contradiction end.
      + match goal with Hx : exec_l _ _ _ b _ |- _ => rewrite (check_list_sound _ H _ _ Eb _ Hx) end. apply scope_exit_same.
      + match goal with Hx : exec_l _ _ _ e _ |- _ => rewrite (check_list_sound _ H0 _ _ Ee _ Hx) end. apply scope_exit_same.
    - (* For *)
      cbn [check_s] in Hc. destruct (check_list (check_s W AN) A b) as [A1|] eqn:Eb; [|discriminate].
      destruct (list_eqb A1 A) eqn:Q1; [|discriminate]. inversion Hc; subst A'. apply list_eqb_eq in Q1. subst A1.
      inversion He; subst;
        try match goal with Hd : dead_use _ _ _ _ |- _ => exfalso; destruct Hd as (n0 & x0 & [] & _) end;
        try match goal with Hl : leaf _ |- _ => cbn in Hl; contradiction end.
      match goal with Hx : exec_iter _ _ _ _ _ _ |- _ => revert Hx end. clear He. revert o.
      induction k as [|k IHk]; intros o Hit; inversion Hit; subst.
      + reflexivity.
      + match goal with Hx : exec_l _ _ _ b _, Hy : scope_exit _ _ = _ |- _ =>
          rewrite (check_list_sound _ H _ _ Eb _ Hx), scope_exit_same in Hy; inversion Hy; subst end. apply IHk; auto.
      + match goal with Hx : exec_l _ _ _ b _, Hy : scope_exit _ _ = _ |- _ =>
          rewrite (check_list_sound _ H _ _ Eb _ Hx), scope_exit_same in Hy; discriminate end.
    - (* Alloc *)
      cbn [check_s] in Hc. destruct (memb x A) eqn:Em; [discriminate|]. inversion Hc; subst A'.
      apply memb_false in Em. inversion He; subst; try reflexivity; try contradiction;
        try match goal with Hd : dead_use _ _ _ _ |- _ => exfalso; destruct Hd as (n0 & x0 & [] & _) end;
        try match goal with Hl : leaf _ |- _ => cbn in Hl; contradiction end.
    - (* Free *)
      cbn [check_s] in Hc. destruct (memb x A) eqn:Em; [|discriminate]. inversion Hc; subst A'.
      apply memb_In in Em. inversion He; subst; try reflexivity; try contradiction;
        try match goal with Hd : dead_use _ _ _ _ |- _ => exfalso; destruct Hd as (n0 & x0 & [] & _) end;
        try match goal with Hl : leaf _ |- _ => cbn in Hl; contradiction end.
  Qed.
End Sound.

Theorem exec_safe_sound : forall q, exec_safe_b q = true -> runs_clean q.
Proof.
  intros q H o He. unfold exec_safe_b in H. apply andb_true_iff in H. destruct H as (Hn & Hc).
  apply nodupb_NoDup in Hn.
  destruct (check_list (check_s (wins q) (allocs q)) [] q) as [[|x A]|] eqn:E; try discriminate.
  assert (Hall : Forall (Sound_s (wins q) (allocs q)) q).
  { apply Forall_forall. intros s _. apply check_s_sound. exact Hn. }
  exact (check_list_sound _ _ q Hall [] [] E o He).
Qed.

(* the checker accepts the output of the analysis on the running example, and rejects the same program with the Free
   of the windowed buffer placed before the last use through the window *)
Example exec_safe_example :
  exec_safe_b [Alloc 1; WindowStmt 2 (WindowExpr 1 1 []);
               If Other [Alloc 3; Assign 3 [] (Read 2 [Other]); Free 3] [Alloc 4; Assign 4 [Other] Other; Free 4];
               Assign 5 [Other] (Read 2 [Other]); Free 1] = true /\
  exec_safe_b [Alloc 1; WindowStmt 2 (WindowExpr 1 1 []); Free 1; Assign 5 [Other] (Read 2 [Other])] = false /\
  exec_safe_b [If Other [Alloc 3] []] = false.
Proof. vm_compute. repeat split. Qed.
