(* MemSafe/Spec.v — the vocabulary in which the C08 theorems are stated (definitions only, no lemmas).

   Scopes.  A scope is a statement list: the procedure body, a loop body, a branch of an `if`.  The generated C has no
   `break`/`return`/`goto`, so every execution path through a scope runs its top-level statements in order; "on every
   path through the scope" is therefore a statement about the list itself.

   Aliases.  `wins p` lists the window definitions `w = b[...]` of a procedure in program order; `reach W n x` says that
   name `n` denotes (a view of) buffer `x`: n = x, or n is a window whose base reaches x.

   Well-formedness (`wf_b`, a boolean so that the harness evaluates it on every real procedure it exports):
   window names are bound once, allocation names are bound once, a window name is only mentioned where it is in
   (lexical) scope, and the input contains no Free.  These are invariants of LoopIR established by exo's front end and
   maintained by scheduling (Sym uniqueness / scoping); they are hypotheses here, not conclusions. *)
From Coq Require Import ZArith List Bool.
Import ListNotations.
From MemSafe Require Import Model Gen_Used.
Open Scope Z_scope.

(* ------------------------------------------------------------------ sub-scopes *)
Inductive subscope : list stmt -> list stmt -> Prop :=
| sub_refl : forall l, subscope l l
| sub_if_body : forall l c b e S, In (If c b e) l -> subscope b S -> subscope l S
| sub_if_else : forall l c b e S, In (If c b e) l -> subscope e S -> subscope l S
| sub_for : forall l lo hi b S, In (For lo hi b) l -> subscope b S -> subscope l S.

(* ------------------------------------------------------------------ removing the inserted Frees *)
Definition is_free (s : stmt) : bool := match s with Free _ => true | _ => false end.

Fixpoint erase_s (s : stmt) : stmt :=
  match s with
  | If c b e =>
      If c (flat_map (fun x => if is_free x then [] else [erase_s x]) b)
           (flat_map (fun x => if is_free x then [] else [erase_s x]) e)
  | For lo hi b => For lo hi (flat_map (fun x => if is_free x then [] else [erase_s x]) b)
  | _ => s
  end.
Definition erase_frees (l : list stmt) : list stmt :=
  flat_map (fun x => if is_free x then [] else [erase_s x]) l.

(* ------------------------------------------------------------------ binders *)
Definition win_pair (s : stmt) : list (sym * sym) :=
  match s with
  | WindowStmt w (WindowExpr b _ _) => [(w, b)]
  | WindowStmt w (Read b _) => [(w, b)]
  | _ => []
  end.

Fixpoint wins_s (s : stmt) : list (sym * sym) :=
  match s with
  | If _ b e => flat_map wins_s b ++ flat_map wins_s e
  | For _ _ b => flat_map wins_s b
  | _ => win_pair s
  end.
Definition wins (l : list stmt) : list (sym * sym) := flat_map wins_s l.

Fixpoint allocs_s (s : stmt) : list sym :=
  match s with
  | Alloc x => [x]
  | If _ b e => flat_map allocs_s b ++ flat_map allocs_s e
  | For _ _ b => flat_map allocs_s b
  | _ => []
  end.
Definition allocs (l : list stmt) : list sym := flat_map allocs_s l.

Fixpoint has_free_s (s : stmt) : bool :=
  match s with
  | Free _ => true
  | If _ b e => existsb has_free_s b || existsb has_free_s e
  | For _ _ b => existsb has_free_s b
  | _ => false
  end.

(* ------------------------------------------------------------------ aliasing *)
Inductive reach (W : list (sym * sym)) : sym -> sym -> Prop :=
| reach_refl : forall n, reach W n n
| reach_step : forall n b x, In (n, b) W -> reach W b x -> reach W n x.

(* ------------------------------------------------------------------ lexical scoping of window names *)
(* names a statement mentions itself (not in nested blocks), as seen by used_s *)
Definition direct_uses (s : stmt) : list sym :=
  match s with
  | If c _ _ => used_e c
  | For _ _ _ => []
  | _ => used_s s
  end.

Definition binds (s : stmt) : list sym :=
  match s with WindowStmt w _ => [w] | _ => [] end.

Section Scoped.
  Variable WN : list sym.      (* all window names of the procedure *)

  (* a mentioned name that is a window name must be in scope *)
  Definition uses_ok (D : list sym) (names : list sym) : bool :=
    forallb (fun n => negb (memb n WN) || memb n D) names.

  Section ScopedList.
    Variable f : list sym -> stmt -> bool.
    Fixpoint scoped_list (D : list sym) (l : list stmt) : bool :=
      match l with
      | [] => true
      | s :: r => f D s && scoped_list (binds s ++ D) r
      end.
  End ScopedList.

  Fixpoint wscoped_s (D : list sym) (s : stmt) {struct s} : bool :=
    uses_ok D (direct_uses s) &&
    match s with
    | If _ b e => scoped_list wscoped_s D b && scoped_list wscoped_s D e
    | For _ _ b => scoped_list wscoped_s D b
    | _ => true
    end.

  Definition wscoped (D : list sym) (l : list stmt) : bool := scoped_list wscoped_s D l.
End Scoped.

Fixpoint nodupb (l : list sym) : bool :=
  match l with
  | [] => true
  | x :: r => negb (memb x r) && nodupb r
  end.

Definition wf_b (p : list stmt) : bool :=
  nodupb (map fst (wins p)) && nodupb (allocs p) && wscoped (map fst (wins p)) [] p
  && negb (existsb has_free_s p).

(* ------------------------------------------------------------------ what an expression / statement dereferences
   (the specification `used_e` / `used_s` must cover: every buffer or window name whose storage the emitted C for the
   statement may touch).  Index expressions (`idx` of an Assign, loop bounds, window bounds) are index-typed and cannot
   mention buffers; they are not part of this relation. *)
Inductive derefs_e : expr -> sym -> Prop :=
| de_read : forall n idx, derefs_e (Read n idx) n
| de_read_idx : forall n idx e x, In e idx -> derefs_e e x -> derefs_e (Read n idx) x
| de_usub : forall a x, derefs_e a x -> derefs_e (USub a) x
| de_bin_l : forall l r x, derefs_e l x -> derefs_e (BinOp l r) x
| de_bin_r : forall l r x, derefs_e r x -> derefs_e (BinOp l r) x
| de_ext : forall args e x, In e args -> derefs_e e x -> derefs_e (Extern args) x
| de_win : forall n sb idx, derefs_e (WindowExpr n sb idx) n.

Inductive derefs_s : stmt -> sym -> Prop :=
| ds_assign_lhs : forall n idx rhs, derefs_s (Assign n idx rhs) n
| ds_assign_rhs : forall n idx rhs x, derefs_e rhs x -> derefs_s (Assign n idx rhs) x
| ds_reduce_lhs : forall n idx rhs, derefs_s (Reduce n idx rhs) n
| ds_reduce_rhs : forall n idx rhs x, derefs_e rhs x -> derefs_s (Reduce n idx rhs) x
| ds_wconfig : forall rhs x, derefs_e rhs x -> derefs_s (WriteConfig rhs) x
| ds_if_cond : forall c b e x, derefs_e c x -> derefs_s (If c b e) x
| ds_if_body : forall c b e s x, In s b -> derefs_s s x -> derefs_s (If c b e) x
| ds_if_else : forall c b e s x, In s e -> derefs_s s x -> derefs_s (If c b e) x
| ds_for : forall lo hi b s x, In s b -> derefs_s s x -> derefs_s (For lo hi b) x
| ds_call : forall fa fb args a x, In a args -> derefs_e a x -> derefs_s (Call fa fb args) x
| ds_window : forall w rhs x, derefs_e rhs x -> derefs_s (WindowStmt w rhs) x.

(* ------------------------------------------------------------------ what a procedure body may write *)
Definition deep_in (s : stmt) (l : list stmt) : Prop := exists S, subscope l S /\ In s S.

(* `writes_name l n`: some statement of l (at any depth) assigns or reduces into the name n, or passes n (whole, or a
   window of it) to a callee for a formal argument the callee may write.
   `may_write l x`: x is (an alias ancestor of) such a name. *)
Inductive writes_name : list stmt -> sym -> Prop :=
| wn_assign : forall l n idx rhs, deep_in (Assign n idx rhs) l -> writes_name l n
| wn_reduce : forall l n idx rhs, deep_in (Reduce n idx rhs) l -> writes_name l n
| wn_call : forall l fargs fbody args i a f n,
    deep_in (Call fargs fbody args) l ->
    nth_error args i = Some a -> nth_error fargs i = Some f -> name_of a = Some n ->
    may_write fbody f -> writes_name l n
with may_write : list stmt -> sym -> Prop :=
| mw_intro : forall l n x, writes_name l n -> reach (wins l) n x -> may_write l x.

Scheme writes_name_mut := Induction for writes_name Sort Prop
  with may_write_mut := Induction for may_write Sort Prop.

(* well-formedness for the write analysis: per body, window names bound once, used only in scope, window statements
   have a window expression on the right; the same for every callee body (recursively), whose formal arguments are
   not re-bound as windows *)
Fixpoint rhs_ok_s (s : stmt) : bool :=
  match s with
  | WindowStmt _ (WindowExpr _ _ _) => true
  | WindowStmt _ (Read _ _) => true
  | WindowStmt _ _ => false
  | If _ b e => forallb rhs_ok_s b && forallb rhs_ok_s e
  | For _ _ b => forallb rhs_ok_s b
  | _ => true
  end.

Definition body_ok (l : list stmt) : bool :=
  nodupb (map fst (wins l)) && wscoped (map fst (wins l)) [] l && forallb rhs_ok_s l.

Definition disjointb (a b : list sym) : bool := forallb (fun x => negb (memb x b)) a.

Fixpoint callees_ok (s : stmt) : bool :=
  match s with
  | Call fargs fbody _ =>
      body_ok fbody && disjointb fargs (map fst (wins fbody)) && forallb callees_ok fbody
  | If _ b e => forallb callees_ok b && forallb callees_ok e
  | For _ _ b => forallb callees_ok b
  | _ => true
  end.

Definition wfw_b (l : list stmt) : bool := body_ok l && forallb callees_ok l.
