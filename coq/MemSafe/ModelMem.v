(* MemSafe/ModelMem.v — `MemoryAnalysis` (exo/backend/mem_analysis.py) as a function on the statement skeleton.
   Executable Gallina only.  Written from the Python line by line; the Python text is quoted next to each definition.
   `used_e` / `used_s` are NOT written here: they are translated from the source on every run (Gen_Used.v).

   Not modelled: `self.mem_env` (it only drives the memory-consistency TypeError at call sites and never
   influences where a Free is put). *)
From Coq Require Import ZArith List Bool.
Import ListNotations.
From MemSafe Require Import Model Gen_Used.
Open Scope Z_scope.

(* self.tofree : list of lists, last element = innermost scope (head of the Coq list);
   self.win_base : dict window name -> name it was created from *)
Record mstate : Type := MS { tofree : list (list sym); win_base : dict }.

(*  def push(self): ... self.tofree.append([])  *)
Definition push (st : mstate) : mstate := MS ([] :: tofree st) (win_base st).

(*  def pop(self): ... assert len(self.tofree[-1]) == 0 ; self.tofree.pop()  *)
Definition pop (st : mstate) : result mstate :=
  match tofree st with
  | [] => Err EEmptyStack
  | [] :: rest => Ok (MS rest (win_base st))
  | (_ :: _) :: _ => Err EAssertPop
  end.

(*  def add_malloc(self, sym, typ, mem): self.tofree[-1].append((sym, typ, mem))  *)
Definition add_malloc (st : mstate) (x : sym) : result mstate :=
  match tofree st with
  | [] => Err EEmptyStack
  | top :: rest => Ok (MS ((top ++ [x]) :: rest) (win_base st))
  end.

(*      while nm in self.win_base:
            nm = self.win_base[nm]
            used.append(nm)
   The names appended for one starting name.  The Python loop does not terminate on a cyclic dictionary; a chain
   longer than the dictionary has entries must revisit a key, so running out of `fuel = S (length d)` is exactly
   non-termination. *)
Fixpoint chase (fuel : nat) (d : dict) (nm : sym) : result (list sym) :=
  match lookup nm d with
  | None => Ok []
  | Some b =>
      match fuel with
      | O => Err EDiverge
      | S f => do r <- chase f d b; Ok (b :: r)
      end
  end.

(*      for nm in list(used):  <while loop above>      -- `used` after the loop *)
Fixpoint close_uses (d : dict) (names : list sym) : result (list sym) :=
  match names with
  | [] => Ok []
  | nm :: rest =>
      do c <- chase (S (length d)) d nm;
      do r <- close_uses d rest;
      Ok (c ++ r)
  end.

Definition closure (d : dict) (used : list sym) : result (list sym) :=
  do extra <- close_uses d used; Ok (used ++ extra).

(*  list.remove: delete the first equal element  *)
Fixpoint remove_first (x : sym) (l : list sym) : list sym :=
  match l with
  | [] => []
  | y :: l' => if Z.eqb x y then l' else y :: remove_first x l'
  end.

(*  body = []
    for b in reversed([...]):
        used = used_s(b)
        <closure>
        rm = []
        for nm, typ, mem in self.tofree[-1]:
            if nm in used:
                rm += [(nm, typ, mem)]
        for nm, typ, mem in rm:
            body += [LoopIR.Free(nm, typ, mem, b.srcinfo)]
            self.tofree[-1].remove((nm, typ, mem))
        body += [b]
   `rs` is the reversed list of already processed statements; returns (body, tofree[-1]). *)
Fixpoint place (d : dict) (rs : list stmt) (top : list sym) (body : list stmt) : result (list stmt * list sym) :=
  match rs with
  | [] => Ok (body, top)
  | b :: rs' =>
      do used <- closure d (used_s b);
      let rm := filter (fun nm => memb nm used) top in
      let body1 := body ++ map Free rm in
      let top1 := fold_left (fun t nm => remove_first nm t) rm top in
      place d rs' top1 (body1 ++ [b])
  end.

Section MapMem.
  Variable mem_s : stmt -> mstate -> result (stmt * mstate).
  (*  [self.mem_s(b) for b in stmts]   (left to right, the state is threaded)  *)
  Fixpoint map_mem (l : list stmt) (st : mstate) : result (list stmt * mstate) :=
    match l with
    | [] => Ok ([], st)
    | b :: r =>
        do (b', st1) <- mem_s b st;
        do (r', st2) <- map_mem r st1;
        Ok (b' :: r', st2)
    end.

  (*  def mem_stmts(self, stmts):
          if len(stmts) == 0: return stmts
          ...
          return list(reversed(body))  *)
  Definition mem_stmts_with (stmts : list stmt) (st : mstate) : result (list stmt * mstate) :=
    match stmts with
    | [] => Ok (stmts, st)
    | _ =>
        do (ss, st1) <- map_mem stmts st;
        match tofree st1 with
        | [] => Err EEmptyStack
        | top :: rest =>
            do (body, top') <- place (win_base st1) (rev ss) top [];
            Ok (rev body, MS (top' :: rest) (win_base st1))
        end
    end.

  (*  self.push(); body = self.mem_stmts(b); self.pop()  *)
  Definition scope_with (b : list stmt) (st : mstate) : result (list stmt * mstate) :=
    do (b', st1) <- mem_stmts_with b (push st);
    do st2 <- pop st1;
    Ok (b', st2).
End MapMem.

(*  def mem_s(self, s): ...  *)
Fixpoint mem_s (s : stmt) (st : mstate) {struct s} : result (stmt * mstate) :=
  match s with
  | Pass | Assign _ _ _ | Reduce _ _ _ | WriteConfig _ => Ok (s, st)
  | WindowStmt name rhs =>
      (*  mem = self.get_e_mem(s.rhs)  -- asserts WindowExpr or Read;  self.win_base[s.name] = s.rhs.name  *)
      match rhs with
      | WindowExpr b _ _ | Read b _ => Ok (s, MS (tofree st) ((name, b) :: win_base st))
      | _ => Err EBadWindowRhs
      end
  | Call _ _ _ => Ok (s, st)
  | If cond body orelse =>
      do (body', st1) <- scope_with mem_s body st;
      do (ebody', st2) <- scope_with mem_s orelse st1;
      Ok (If cond body' ebody', st2)
  | For lo hi body =>
      do (body', st1) <- scope_with mem_s body st;
      Ok (For lo hi body', st1)
  | Alloc name =>
      do st1 <- add_malloc st name; Ok (s, st1)
  | Free _ => Err EAssertFree
  end.

Definition mem_stmts := mem_stmts_with mem_s.
Definition scope := scope_with mem_s.

(*  def run(self, proc):
        self.tofree = []; self.win_base = {}
        self.push(); body = self.mem_stmts(proc.body); self.pop()
        assert len(self.tofree) == 0  *)
Definition insert_frees (body : list stmt) : result (list stmt) :=
  do (body', st) <- scope body (MS [] []);
  match tofree st with
  | [] => Ok body'
  | _ => Err EAssertPop
  end.
