(* MemSafe/ProofsUsed.v — the translated `used_e` / `used_s` (Gen_Used.v, regenerated from mem_analysis.py on every run)
   mention every buffer or window a statement can dereference.  If a case is dropped from the Python functions, the
   regenerated definitions no longer satisfy these lemmas and the build fails. *)
From Coq Require Import ZArith List Bool.
Import ListNotations.
From MemSafe Require Import Model Gen_Used Spec ProofsBase.
Open Scope Z_scope.

Lemma used_e_covers : forall e x, derefs_e e x -> In x (used_e e).
Proof.
  induction e using expr_ind'; intros x Hd; inversion Hd; subst; cbn [used_e].
  - left; reflexivity.
  - right. apply in_flat_map. exists e. split; auto. rewrite Forall_forall in H. apply H; auto.
  - apply IHe; assumption.
  - apply in_or_app. left. apply IHe1; assumption.
  - apply in_or_app. right. apply IHe2; assumption.
  - apply in_flat_map. exists e. split; auto. rewrite Forall_forall in H. apply H; auto.
  - left; reflexivity.
Qed.

Lemma used_s_covers : forall s x, derefs_s s x -> In x (used_s s).
Proof.
  induction s using stmt_ind'; intros y Hd; inversion Hd; subst; cbn [used_s].
  - left; reflexivity.
  - right. apply used_e_covers; assumption.
  - left; reflexivity.
  - right. apply used_e_covers; assumption.
  - apply used_e_covers; assumption.
  - apply in_or_app. left. apply used_e_covers; assumption.
  - apply in_or_app. right. apply in_or_app. left. apply in_flat_map. exists s. split; auto.
    rewrite Forall_forall in H. apply H; auto.
  - apply in_or_app. right. apply in_or_app. right. apply in_flat_map. exists s. split; auto.
    rewrite Forall_forall in H0. apply H0; auto.
  - apply in_flat_map. exists s. split; auto. rewrite Forall_forall in H. apply H; auto.
  - apply in_flat_map. exists a. split; auto. apply used_e_covers; assumption.
  - apply used_e_covers; assumption.
Qed.

(* the analysis relies on an allocation statement counting as a use of its own buffer (the Free can then never be
   placed before the allocation, and the `assert len(self.tofree[-1]) == 0` of pop cannot fail) *)
Lemma used_s_alloc : forall x, In x (used_s (Alloc x)).
Proof. intros. cbn. auto. Qed.

(* Free statements mention nothing *)
Lemma used_s_free : forall x, used_s (Free x) = [].
Proof. reflexivity. Qed.
