(* MemSafe/Model.v — syntax skeleton shared by the C08 models.  Executable Gallina only, no proofs.

   Mirrors the part of LoopIR (exo/core/LoopIR.py) that MemoryAnalysis (backend/mem_analysis.py),
   GetWrites (core/LoopIR.py) and the const decisions of the C backend (backend/LoopIR_compiler.py) look at.
   Symbols are the exporter's numbering of exo `Sym` objects (harness/c08_export.py).

   Expressions keep exactly the constructors `used_e` dispatches on; every other LoopIR expression
   (Const, ReadConfig, ...) is `Other`.  A `WindowExpr` carries, besides the name of the buffer or window it
   slices, the `src_buf` field of its `T.Window` type (the root tensor according to the type checker), because
   `Compiler.get_window_type` decides const-ness from it.  The index expressions of window accesses
   (lo/hi/pt) are flattened into one list.

   A `Call` node carries the callee's formal argument names and the callee's body, like the Python object graph
   (`s.f.args`, `s.f.body`): `get_writes_of_stmts` recurses into `s.f.body`. *)
From Coq Require Import ZArith List Bool.
Import ListNotations.
Open Scope Z_scope.

Definition sym := Z.

Inductive expr : Type :=
| Read (name : sym) (idx : list expr)
| USub (arg : expr)
| BinOp (lhs rhs : expr)
| Extern (args : list expr)
| WindowExpr (name : sym) (src_buf : sym) (idx : list expr)
| StrideExpr (name : sym)
| Other.

Inductive stmt : Type :=
| Assign (name : sym) (idx : list expr) (rhs : expr)
| Reduce (name : sym) (idx : list expr) (rhs : expr)
| WriteConfig (rhs : expr)
| Pass
| If (cond : expr) (body orelse : list stmt)
| For (lo hi : expr) (body : list stmt)
| Alloc (name : sym)
| Free (name : sym)
| Call (fargs : list sym) (fbody : list stmt) (args : list expr)
| WindowStmt (name : sym) (rhs : expr).

(* Outcome of a modelled Python function: a value or the exception it raises. *)
Inductive err : Type :=
| EAssertPop      (* mem_analysis.py: `assert len(self.tofree[-1]) == 0` in pop / `assert len(self.tofree) == 0` in run *)
| EAssertFree     (* `assert False, "There should not be frees inserted before mem analysis"` *)
| EBadWindowRhs   (* get_e_mem: `assert False` (rhs of a WindowStmt that is neither WindowExpr nor Read) *)
| EEmptyStack     (* IndexError on self.tofree[-1] *)
| EDiverge.       (* a `while nm in d: nm = d[nm]` loop that does not terminate (cyclic dictionary) *)

Inductive result (A : Type) : Type :=
| Ok (a : A)
| Err (e : err).
Arguments Ok {A} a.
Arguments Err {A} e.

Definition bind {A B} (r : result A) (f : A -> result B) : result B :=
  match r with Ok a => f a | Err e => Err e end.

Notation "'do' x <- r ; k" := (bind r (fun x => k)) (at level 200, x pattern, r at level 100, k at level 200).

Definition memb (x : sym) (l : list sym) : bool := existsb (Z.eqb x) l.

(* Python dict as an association list: assignment `d[k] = v` conses in front, lookup takes the first hit. *)
Definition dict := list (sym * sym).

Fixpoint lookup (k : sym) (d : dict) : option sym :=
  match d with
  | [] => None
  | (k', v) :: d' => if Z.eqb k k' then Some v else lookup k d'
  end.

Definition dget (d : dict) (k dflt : sym) : sym :=
  match lookup k d with Some v => v | None => dflt end.

(* `x.name` for the expression classes that have a `name` attribute *)
Definition name_of (e : expr) : option sym :=
  match e with
  | Read n _ => Some n
  | WindowExpr n _ _ => Some n
  | StrideExpr n => Some n
  | _ => None
  end.
