(* MemSafe/ProofsMem.v — MemoryAnalysis inserts, in every scope, exactly one Free per allocation, after the allocation
   and after the last statement that mentions the buffer directly or through a chain of windows. *)
From Coq Require Import ZArith List Bool Lia.
Import ListNotations.
From MemSafe Require Import Model Gen_Used ModelMem Spec ProofsBase ProofsPlace.
Open Scope Z_scope.

(* ------------------------------------------------------------------ small facts *)
Lemma bind_ok : forall A B (r : result A) (f : A -> result B) b,
  bind r f = Ok b -> exists a, r = Ok a /\ f a = Ok b.
Proof. intros A B [a|e] f b H; cbn in H. eauto. discriminate. Qed.

Lemma allocs_top_app : forall l1 l2, allocs_top (l1 ++ l2) = allocs_top l1 ++ allocs_top l2.
Proof. intros. unfold allocs_top. apply flat_map_app. Qed.

Lemma allocs_top_In : forall x l, In x (allocs_top l) -> In (Alloc x) l.
Proof.
  intros x l H. unfold allocs_top in H. apply in_flat_map in H. destruct H as (s & Hs & Hx).
  destruct s; cbn in Hx; try contradiction. destruct Hx as [<-|[]]. exact Hs.
Qed.

Lemma In_allocs_top : forall x l, In (Alloc x) l -> In x (allocs_top l).
Proof. intros x l H. unfold allocs_top. apply in_flat_map. exists (Alloc x). split; auto. cbn; auto. Qed.

Lemma allocs_top_free : forall l, allocs_top (strip l) = allocs_top l.
Proof.
  induction l as [|s r IH]; cbn. reflexivity.
  destruct s; cbn; try (f_equal; exact IH); exact IH.
Qed.

Lemma cnt_rev : forall x l, cnt x (rev l) = cnt x l.
Proof.
  intros x. induction l as [|y t IH]; cbn [rev]. reflexivity.
  rewrite cnt_app, IH. unfold cnt. cbn. destruct (Z.eq_dec y x); lia.
Qed.

Lemma frees_top_rev : forall l, frees_top (rev l) = rev (frees_top l).
Proof.
  induction l as [|s r IH]; cbn [rev]. reflexivity.
  rewrite frees_top_app, IH. change (s :: r) with ([s] ++ r). rewrite frees_top_app, rev_app_distr.
  f_equal. destruct s; cbn; auto.
Qed.

Lemma allocs_top_rev : forall l, allocs_top (rev l) = rev (allocs_top l).
Proof.
  induction l as [|s r IH]; cbn [rev]. reflexivity.
  rewrite allocs_top_app, IH. change (s :: r) with ([s] ++ r). rewrite allocs_top_app, rev_app_distr.
  f_equal. destruct s; cbn; auto.
Qed.

Lemma wins_app : forall l1 l2, wins (l1 ++ l2) = wins l1 ++ wins l2.
Proof. intros. unfold wins. apply flat_map_app. Qed.

(* ------------------------------------------------------------------ relation between a statement and its processed form *)
Definition R (s' s : stmt) : Prop :=
  erase_s s' = s /\ is_free s' = false /\ used_s s' = used_s s /\ wins_s s' = wins_s s /\
  alloc_top_s s' = alloc_top_s s /\ has_free_s s = false.

Lemma R_nofree : forall ss l, Forall2 R ss l -> Forall (fun s => is_free s = false) ss.
Proof. induction 1; constructor; auto. destruct H as (_ & H & _). exact H. Qed.

Lemma R_allocs : forall ss l, Forall2 R ss l -> allocs_top ss = allocs_top l.
Proof.
  induction 1; cbn. reflexivity. destruct H as (_ & _ & _ & _ & H & _).
  unfold allocs_top in *. cbn. rewrite H. f_equal. exact IHForall2.
Qed.

Lemma R_wins : forall ss l, Forall2 R ss l -> wins ss = wins l.
Proof.
  induction 1; cbn. reflexivity. destruct H as (_ & _ & _ & H & _).
  unfold wins in *. cbn. rewrite H. f_equal. exact IHForall2.
Qed.

Lemma R_used : forall ss l, Forall2 R ss l -> flat_map used_s ss = flat_map used_s l.
Proof.
  induction 1; cbn. reflexivity. destruct H as (_ & _ & H & _). rewrite H. f_equal. exact IHForall2.
Qed.

Lemma R_hasfree : forall ss l, Forall2 R ss l -> existsb has_free_s l = false.
Proof.
  induction 1; cbn. reflexivity. destruct H as (_ & _ & _ & _ & _ & H). rewrite H. exact IHForall2.
Qed.

Lemma R_erase : forall ss l, Forall2 R ss l -> erase_frees ss = l.
Proof.
  induction 1; cbn. reflexivity. destruct H as (He & Hf & _). unfold erase_frees in *. cbn.
  rewrite Hf. cbn. rewrite He. f_equal. exact IHForall2.
Qed.

Lemma erase_strip : forall l, erase_frees l = erase_frees (strip l).
Proof.
  induction l as [|s r IH]; cbn. reflexivity.
  unfold erase_frees in *. cbn. destruct (is_free s) eqn:E; cbn; auto. rewrite E. cbn. f_equal. exact IH.
Qed.

Lemma used_strip : forall l, flat_map used_s l = flat_map used_s (strip l).
Proof.
  induction l as [|s r IH]; cbn. reflexivity.
  destruct s; cbn; rewrite IH; reflexivity.
Qed.

Lemma wins_strip : forall l, wins l = wins (strip l).
Proof.
  induction l as [|s r IH]; cbn. reflexivity.
  unfold wins in *. destruct s; cbn; rewrite IH; reflexivity.
Qed.

(* ------------------------------------------------------------------ facts about one processed scope, relative to the
   dictionary in force when its Frees were placed *)
Definition scope_facts (d : dict) (S : list stmt) : Prop :=
  (forall x, cnt x (frees_top S) = cnt x (allocs_top S)) /\
  (forall l1 x l2, S = l1 ++ Free x :: l2 -> In (Alloc x) l1) /\
  (forall l1 x l2, S = l1 ++ Free x :: l2 -> forall s, In s l2 -> ~ uses d s x).

(* structural part of the specification of mem_s *)
Definition P1 (s : stmt) : Prop :=
  forall st s' st' top rest,
    mem_s s st = Ok (s', st') -> tofree st = top :: rest ->
    win_base st' = rev (wins_s s) ++ win_base st /\
    tofree st' = (top ++ alloc_top_s s) :: rest /\
    R s' s.

Lemma map_mem_struct : forall l, Forall P1 l ->
  forall st ss st' top rest,
    map_mem mem_s l st = Ok (ss, st') -> tofree st = top :: rest ->
    win_base st' = rev (wins l) ++ win_base st /\
    tofree st' = (top ++ allocs_top l) :: rest /\
    Forall2 R ss l.
Proof.
  induction 1 as [|b r Hb Hr IH]; intros st ss st' top rest E Ht.
  - cbn in E. inversion E; subst. cbn. rewrite app_nil_r. auto.
  - cbn [map_mem] in E.
    apply bind_ok in E. destruct E as ((b' & st1) & E1 & E).
    apply bind_ok in E. destruct E as ((r' & st2) & E2 & E). inversion E; subst ss st'.
    destruct (Hb _ _ _ _ _ E1 Ht) as (W1 & T1 & R1).
    destruct (IH _ _ _ _ _ E2 T1) as (W2 & T2 & R2).
    repeat split.
    + rewrite W2, W1. unfold wins. cbn. rewrite rev_app_distr, app_assoc. reflexivity.
    + rewrite T2. unfold allocs_top. cbn. rewrite app_assoc. reflexivity.
    + constructor; auto.
Qed.

Lemma scope_struct : forall b, Forall P1 b ->
  forall st b' st',
    scope_with mem_s b st = Ok (b', st') ->
    win_base st' = rev (wins b) ++ win_base st /\
    tofree st' = tofree st /\
    Forall2 R (strip b') b /\
    scope_facts (win_base st') b' /\
    exists st3, map_mem mem_s b (push st) = Ok (strip b', st3) /\ win_base st3 = win_base st'.
Proof.
  intros b Hb st b' st' E. unfold scope_with in E.
  apply bind_ok in E. destruct E as ((b1 & st1) & E1 & E).
  apply bind_ok in E. destruct E as (st2 & E2 & E). inversion E; subst b1 st2. clear E.
  unfold mem_stmts_with in E1.
  destruct b as [|s0 b0].
  - inversion E1; subst b' st1. cbn in E2. inversion E2; subst st'. cbn.
    repeat split; auto; try constructor; try (intros; destruct l1; discriminate).
    exists (push st). cbn. auto.
  - remember (s0 :: b0) as b eqn:Eb.
    apply bind_ok in E1. destruct E1 as ((ss & st3) & E3 & E1).
    assert (Ht : tofree (push st) = [] :: tofree st) by reflexivity.
    destruct (map_mem_struct _ Hb _ _ _ _ _ E3 Ht) as (W3 & T3 & R3).
    rewrite T3 in E1. cbn [app] in E1.
    apply bind_ok in E1. destruct E1 as ((body & top') & Ep & E1). inversion E1; subst b' st1. clear E1.
    assert (Hnf : Forall (fun s => is_free s = false) (rev ss)).
    { apply Forall_rev. eapply R_nofree; eauto. }
    assert (K : forall x, In x (allocs_top b) -> In (Alloc x) (rev ss)).
    { intros x Hx. rewrite <- in_rev. apply allocs_top_In. rewrite (R_allocs _ _ R3). exact Hx. }
    destruct (place_spec _ _ _ _ _ _ Ep Hnf K) as (Htop & added & Ea & Es & Hc & Hsplit).
    { intros x s _ []. }
    subst top'. cbn [app] in Ea. subst body.
    cbn in E2. inversion E2; subst st'. cbn [win_base tofree].
    assert (Hstrip : strip (rev added) = ss).
    { rewrite strip_rev, Es, rev_involutive. reflexivity. }
    repeat split.
    + exact W3.
    + rewrite Hstrip. exact R3.
    + intros x. rewrite frees_top_rev, cnt_rev, Hc.
      rewrite <- (allocs_top_free (rev added)), Hstrip, (R_allocs _ _ R3). reflexivity.
    + intros l1 x l2 El.
      assert (Ea : added = rev l2 ++ Free x :: rev l1).
      { rewrite <- (rev_involutive added), El, rev_app_distr. cbn [rev]. rewrite <- app_assoc. reflexivity. }
      apply in_rev. apply (Hsplit _ _ _ Ea).
    + intros l1 x l2 El s Hs.
      assert (Ea : added = rev l2 ++ Free x :: rev l1).
      { rewrite <- (rev_involutive added), El, rev_app_distr. cbn [rev]. rewrite <- app_assoc. reflexivity. }
      apply (proj2 (Hsplit _ _ _ Ea)). cbn [app]. rewrite <- in_rev. exact Hs.
    + exists st3. rewrite Hstrip. auto.
Qed.

Lemma mem_s_struct : forall s, P1 s.
Proof.
  induction s using stmt_ind'; unfold P1; intros st s' st' top rest E Ht; cbn [mem_s] in E.
  - inversion E; subst. cbn. rewrite app_nil_r. repeat split; auto.
  - inversion E; subst. cbn. rewrite app_nil_r. repeat split; auto.
  - inversion E; subst. cbn. rewrite app_nil_r. repeat split; auto.
  - inversion E; subst. cbn. rewrite app_nil_r. repeat split; auto.
  - (* If *)
    apply bind_ok in E. destruct E as ((b' & st1) & E1 & E).
    apply bind_ok in E. destruct E as ((e' & st2) & E2 & E). inversion E; subst s' st'. clear E.
    destruct (scope_struct _ H _ _ _ E1) as (W1 & T1 & R1 & _ & _).
    destruct (scope_struct _ H0 _ _ _ E2) as (W2 & T2 & R2 & _ & _).
    repeat split.
    + rewrite W2, W1. cbn [wins_s]. fold (wins b). fold (wins e). rewrite rev_app_distr, app_assoc. reflexivity.
    + rewrite T2, T1, Ht. cbn. rewrite app_nil_r. reflexivity.
    + cbn [erase_s]. fold (erase_frees b'). fold (erase_frees e').
      rewrite (erase_strip b'), (erase_strip e'), (R_erase _ _ R1), (R_erase _ _ R2). reflexivity.
    + cbn [used_s]. rewrite (used_strip b'), (used_strip e'), (R_used _ _ R1), (R_used _ _ R2). reflexivity.
    + cbn [wins_s]. fold (wins b'). fold (wins e'). fold (wins b). fold (wins e).
      rewrite (wins_strip b'), (wins_strip e'), (R_wins _ _ R1), (R_wins _ _ R2). reflexivity.
    + cbn [has_free_s]. rewrite (R_hasfree _ _ R1), (R_hasfree _ _ R2). reflexivity.
  - (* For *)
    apply bind_ok in E. destruct E as ((b' & st1) & E1 & E). inversion E; subst s' st'. clear E.
    destruct (scope_struct _ H _ _ _ E1) as (W1 & T1 & R1 & _ & _).
    repeat split.
    + rewrite W1. reflexivity.
    + rewrite T1, Ht. cbn. rewrite app_nil_r. reflexivity.
    + cbn [erase_s]. fold (erase_frees b'). rewrite (erase_strip b'), (R_erase _ _ R1). reflexivity.
    + cbn [used_s]. rewrite (used_strip b'), (R_used _ _ R1). reflexivity.
    + cbn [wins_s]. fold (wins b'). fold (wins b). rewrite (wins_strip b'), (R_wins _ _ R1). reflexivity.
    + cbn [has_free_s]. rewrite (R_hasfree _ _ R1). reflexivity.
  - (* Alloc *)
    apply bind_ok in E. destruct E as (st1 & E1 & E). inversion E; subst s' st'. clear E.
    unfold add_malloc in E1. rewrite Ht in E1. inversion E1; subst st1. cbn. repeat split; auto.
  - discriminate.
  - inversion E; subst. cbn. rewrite app_nil_r. repeat split; auto.
  - destruct rhs; try discriminate; inversion E; subst; cbn; rewrite app_nil_r; repeat split; auto.
Qed.

Lemma mem_s_struct_all : forall l, Forall P1 l.
Proof. intros l. apply Forall_forall. intros s _. apply mem_s_struct. Qed.

(* ------------------------------------------------------------------ insert_frees only adds Free statements *)
Lemma scope_erase : forall b st b' st',
  scope b st = Ok (b', st') -> erase_frees b' = b /\ existsb has_free_s b = false.
Proof.
  intros b st b' st' E. unfold scope in E.
  destruct (scope_struct _ (mem_s_struct_all b) _ _ _ E) as (_ & _ & R1 & _ & _).
  split. rewrite erase_strip. eapply R_erase; eauto. eapply R_hasfree; eauto.
Qed.

Lemma insert_frees_scope : forall p q,
  insert_frees p = Ok q -> exists st, scope p (MS [] []) = Ok (q, st).
Proof.
  intros p q E. unfold insert_frees in E.
  apply bind_ok in E. destruct E as ((b' & st) & E1 & E).
  destruct (tofree st); inversion E; subst. eauto.
Qed.

Lemma insert_frees_erase : forall p q, insert_frees p = Ok q -> erase_frees q = p.
Proof.
  intros p q E. destruct (insert_frees_scope _ _ E) as (st & Es). eapply scope_erase; eauto.
Qed.

(* ------------------------------------------------------------------ the part that needs well-formedness *)
Definition keys (d : dict) : list sym := map fst d.

Lemma keys_app : forall d1 d2, keys (d1 ++ d2) = keys d1 ++ keys d2.
Proof. intros. unfold keys. apply map_app. Qed.

Lemma subscope_inv : forall l S, subscope l S ->
  S = l \/ exists s, In s l /\
     match s with
     | If _ b e => subscope b S \/ subscope e S
     | For _ _ b => subscope b S
     | _ => False
     end.
Proof.
  intros l S H. destruct H.
  - left; reflexivity.
  - right. exists (If c b e). auto.
  - right. exists (If c b e). auto.
  - right. exists (For lo hi b). auto.
Qed.

Section WithW.
  Variable W : dict.
  Hypothesis W_nodup : NoDup (map fst W).
  Let WN := map fst W.

  Definition GoodWB (d : dict) : Prop :=
    incl d W /\ forall n b, In (n, b) d -> In b WN -> In b (keys d).

  Lemma good_lookup : forall d n b, incl d W -> In n (keys d) -> In (n, b) W -> lookup n d = Some b.
  Proof.
    intros d n b Hi Hk Hw. destruct (lookup_keys _ _ Hk) as (v & Hv).
    rewrite Hv. f_equal. apply lookup_In in Hv. apply Hi in Hv.
    eapply nodup_fst_inj; eauto.
  Qed.

  Lemma reach_dreach : forall d, GoodWB d ->
    forall n x, reach W n x -> (In n (keys d) \/ ~ In n WN) -> dreach d n x.
  Proof.
    intros d (Hi & Hc) n x Hr. induction Hr as [n|n b x Hw Hr IH]; intros Hn.
    - constructor.
    - assert (HnW : In n WN) by (unfold WN; change n with (fst (n, b)); apply in_map; exact Hw).
      destruct Hn as [Hn|Hn]; [|contradiction].
      assert (Hl : lookup n d = Some b) by (apply good_lookup; auto).
      econstructor; eauto. apply IH.
      destruct (in_dec Z.eq_dec b WN) as [Hb|Hb]; [left|right; exact Hb].
      apply (Hc n b); auto. apply lookup_In; exact Hl.
  Qed.

  Definition ScopeOK (S : list stmt) : Prop :=
    (forall x, cnt x (frees_top S) = cnt x (allocs_top S)) /\
    (forall l1 x l2, S = l1 ++ Free x :: l2 -> In (Alloc x) l1) /\
    (forall l1 x l2, S = l1 ++ Free x :: l2 ->
       forall s n, In s l2 -> In n (used_s s) -> ~ reach W n x).

  Definition nested (s : stmt) (S : list stmt) : Prop :=
    match s with
    | If _ b e => subscope b S \/ subscope e S
    | For _ _ b => subscope b S
    | _ => False
    end.

  Definition AllOK_s (s : stmt) : Prop := forall S, nested s S -> ScopeOK S.

  Lemma uses_ok_spec : forall D names, uses_ok WN D names = true ->
    forall n, In n names -> In n WN -> In n D.
  Proof.
    intros D names H n Hn Hw. unfold uses_ok in H. rewrite forallb_forall in H.
    specialize (H n Hn). apply orb_true_iff in H. destruct H as [H|H].
    - apply negb_true_iff in H. apply memb_false in H. contradiction.
    - apply memb_In. exact H.
  Qed.

  Definition P2 (s : stmt) : Prop :=
    forall st s' st' D,
      mem_s s st = Ok (s', st') -> (exists top rest, tofree st = top :: rest) ->
      wscoped_s WN D s = true -> GoodWB (win_base st) -> incl D (keys (win_base st)) ->
      incl (wins_s s) W ->
      GoodWB (win_base st') /\
      (forall n, In n (used_s s') -> In n WN -> In n (keys (win_base st'))) /\
      AllOK_s s'.

  Lemma binds_in_wins : forall s st s' st', mem_s s st = Ok (s', st') ->
    forall w, In w (binds s) -> In w (keys (wins_s s)).
  Proof.
    intros s st s' st' E w Hw. destruct s; cbn in Hw; try contradiction.
    destruct Hw as [<-|[]]. cbn in E. destruct rhs; try discriminate; cbn; auto.
  Qed.

  Lemma map_mem_wf : forall l, Forall P2 l ->
    forall st ss st' D,
      map_mem mem_s l st = Ok (ss, st') -> (exists top rest, tofree st = top :: rest) ->
      wscoped WN D l = true -> GoodWB (win_base st) -> incl D (keys (win_base st)) ->
      incl (wins l) W ->
      GoodWB (win_base st') /\
      (forall s n, In s ss -> In n (used_s s) -> In n WN -> In n (keys (win_base st'))) /\
      Forall AllOK_s ss.
  Proof.
    induction 1 as [|b r Hb Hr IH]; intros st ss st' D E Ht Hsc Hg Hd Hw.
    - cbn in E. inversion E; subst. split; [exact Hg|split; [intros s n []|constructor]].
    - cbn [map_mem] in E.
      apply bind_ok in E. destruct E as ((b' & st1) & E1 & E).
      apply bind_ok in E. destruct E as ((r' & st2) & E2 & E). inversion E; subst ss st'. clear E.
      unfold wscoped in Hsc. cbn [scoped_list] in Hsc. apply andb_true_iff in Hsc. destruct Hsc as (Hs1 & Hs2).
      unfold wins in Hw. cbn [flat_map] in Hw.
      assert (Hw1 : incl (wins_s b) W) by (intros p Hp; apply Hw; apply in_or_app; left; exact Hp).
      assert (Hw2 : incl (wins r) W) by (intros p Hp; apply Hw; apply in_or_app; right; exact Hp).
      destruct Ht as (top & rest & Ht).
      destruct (mem_s_struct b _ _ _ _ _ E1 Ht) as (W1 & T1 & R1).
      destruct (Hb _ _ _ _ E1 (ex_intro _ top (ex_intro _ rest Ht)) Hs1 Hg Hd Hw1) as (G1 & U1 & A1).
      assert (Hd1 : incl (binds b ++ D) (keys (win_base st1))).
      { intros w Hin. rewrite W1, keys_app. apply in_or_app. apply in_app_or in Hin. destruct Hin as [Hin|Hin].
        - left. unfold keys. rewrite map_rev, <- in_rev. eapply binds_in_wins; eauto.
        - right. apply Hd. exact Hin. }
      destruct (IH _ _ _ _ E2 (ex_intro _ _ (ex_intro _ _ T1)) Hs2 G1 Hd1 Hw2) as (G2 & U2 & A2).
      destruct (map_mem_struct _ (mem_s_struct_all r) _ _ _ _ _ E2 T1) as (W2 & _ & _).
      split; [exact G2|split; [|constructor; auto]].
      intros s n [<-|Hs] Hn HnW.
      + rewrite W2, keys_app. apply in_or_app. right. apply U1; auto.
      + eapply U2; eauto.
  Qed.

  Lemma scope_wf : forall b, Forall P2 b ->
    forall st b' st' D,
      scope_with mem_s b st = Ok (b', st') ->
      wscoped WN D b = true -> GoodWB (win_base st) -> incl D (keys (win_base st)) ->
      incl (wins b) W ->
      GoodWB (win_base st') /\
      (forall s n, In s b' -> In n (used_s s) -> In n WN -> In n (keys (win_base st'))) /\
      ScopeOK b' /\
      (forall s, In s b' -> AllOK_s s).
  Proof.
    intros b Hb st b' st' D E Hsc Hg Hd Hw.
    destruct (scope_struct _ (mem_s_struct_all b) _ _ _ E) as (W1 & T1 & R1 & (F1 & F2 & F3) & st3 & E3 & W3).
    assert (Ht : exists top rest, tofree (push st) = top :: rest) by (cbn; eauto).
    destruct (map_mem_wf _ Hb _ _ _ _ E3 Ht Hsc Hg Hd Hw) as (G & U & A).
    rewrite W3 in G, U.
    assert (U' : forall s n, In s b' -> In n (used_s s) -> In n WN -> In n (keys (win_base st'))).
    { intros s n Hs Hn HnW. destruct (is_free s) eqn:Ef.
      - destruct s; cbn in Ef; try discriminate. cbn in Hn. contradiction.
      - apply (U s n); auto. unfold strip. apply filter_In. rewrite Ef. auto. }
    split; [exact G|split; [exact U'|split; [split; [exact F1|split; [exact F2|]]|]]].
    - intros l1 x l2 El s n Hs Hn Hr.
      apply (F3 _ _ _ El s Hs). exists n. split; auto.
      apply reach_dreach; auto.
      destruct (in_dec Z.eq_dec n WN) as [HnW|HnW]; [left|right; exact HnW].
      apply (U' s n); auto. rewrite El. apply in_or_app. right. right. exact Hs.
    - intros s Hs. destruct (is_free s) eqn:Ef.
      + destruct s; cbn in Ef; try discriminate. intros S [].
      + rewrite Forall_forall in A. apply A. unfold strip. apply filter_In. rewrite Ef. auto.
  Qed.

  Lemma subscope_ok : forall b', ScopeOK b' -> (forall s, In s b' -> AllOK_s s) ->
    forall S, subscope b' S -> ScopeOK S.
  Proof.
    intros b' H1 H2 S Hs. apply subscope_inv in Hs. destruct Hs as [->|(s & Hin & Hn)]; auto.
    apply (H2 s Hin). destruct s; try contradiction; exact Hn.
  Qed.

  Lemma good_mono : forall d1 d2, keys (d1 ++ d2) = keys d1 ++ keys d2.
  Proof. apply keys_app. Qed.

  Lemma mem_s_wf : forall s, P2 s.
  Proof.
    induction s using stmt_ind'; unfold P2; intros st s' st' D E Ht Hsc Hg Hd Hw; cbn [mem_s] in E.
    1-4: inversion E; subst; (split; [exact Hg|split; [|intros S []]]);
      intros m Hm HmW; apply Hd; cbn [wscoped_s] in Hsc; apply andb_true_iff in Hsc; destruct Hsc as (Hu & _);
        eapply uses_ok_spec; eauto.
    - (* If *)
      apply bind_ok in E. destruct E as ((b' & st1) & E1 & E).
      apply bind_ok in E. destruct E as ((e' & st2) & E2 & E). inversion E; subst s' st'. clear E.
      cbn [wscoped_s] in Hsc. apply andb_true_iff in Hsc. destruct Hsc as (Hu & Hsc).
      apply andb_true_iff in Hsc. destruct Hsc as (Hsb & Hse).
      cbn [wins_s] in Hw. fold (wins b) in Hw. fold (wins e) in Hw.
      assert (Hwb : incl (wins b) W) by (intros p Hp; apply Hw; apply in_or_app; left; exact Hp).
      assert (Hwe : incl (wins e) W) by (intros p Hp; apply Hw; apply in_or_app; right; exact Hp).
      destruct (scope_struct _ (mem_s_struct_all b) _ _ _ E1) as (W1 & T1 & _).
      destruct (scope_struct _ (mem_s_struct_all e) _ _ _ E2) as (W2 & T2 & _).
      destruct (scope_wf _ H _ _ _ _ E1 Hsb Hg Hd Hwb) as (G1 & U1 & O1 & A1).
      assert (Hd1 : incl D (keys (win_base st1))).
      { intros w Hin. rewrite W1, keys_app. apply in_or_app. right. apply Hd. exact Hin. }
      destruct (scope_wf _ H0 _ _ _ _ E2 Hse G1 Hd1 Hwe) as (G2 & U2 & O2 & A2).
      split; [exact G2|split].
      + intros m Hm HmW. cbn [used_s] in Hm. apply in_app_or in Hm. destruct Hm as [Hm|Hm].
        * rewrite W2, keys_app. apply in_or_app. right.
          apply Hd1. eapply uses_ok_spec; eauto.
        * apply in_app_or in Hm. destruct Hm as [Hm|Hm]; apply in_flat_map in Hm; destruct Hm as (s & Hs & Hm).
          -- rewrite W2, keys_app. apply in_or_app. right. eapply U1; eauto.
          -- eapply U2; eauto.
      + intros S [HS|HS]; [apply (subscope_ok b' O1 A1 S HS)|apply (subscope_ok e' O2 A2 S HS)].
    - (* For *)
      apply bind_ok in E. destruct E as ((b' & st1) & E1 & E). inversion E; subst s' st'. clear E.
      cbn [wscoped_s] in Hsc. apply andb_true_iff in Hsc. destruct Hsc as (Hu & Hsb).
      cbn [wins_s] in Hw. fold (wins b) in Hw.
      destruct (scope_wf _ H _ _ _ _ E1 Hsb Hg Hd Hw) as (G1 & U1 & O1 & A1).
      split; [exact G1|split].
      + intros m Hm HmW. cbn [used_s] in Hm. apply in_flat_map in Hm. destruct Hm as (s & Hs & Hm). eapply U1; eauto.
      + intros S HS. apply (subscope_ok b' O1 A1 S HS).
    - (* Alloc *)
      apply bind_ok in E. destruct E as (st1 & E1 & E). inversion E; subst s' st'. clear E.
      unfold add_malloc in E1. destruct (tofree st); inversion E1; subst st1. cbn [win_base].
      split; [exact Hg|split; [|intros S []]].
      intros m Hm HmW. apply Hd. cbn [wscoped_s] in Hsc. apply andb_true_iff in Hsc. destruct Hsc as (Hu & _).
      eapply uses_ok_spec; eauto.
    - discriminate.
    - (* Call *)
      inversion E; subst. split; [exact Hg|split; [|intros S []]].
      intros m Hm HmW. apply Hd. cbn [wscoped_s] in Hsc. apply andb_true_iff in Hsc. destruct Hsc as (Hu & _).
      eapply uses_ok_spec; eauto.
    - (* WindowStmt *)
      cbn [wscoped_s] in Hsc. apply andb_true_iff in Hsc. destruct Hsc as (Hu & _).
      destruct Hg as (Hi & Hc).
      assert (Hext : forall b, In (w, b) W -> In b (direct_uses (WindowStmt w rhs)) ->
                GoodWB ((w, b) :: win_base st)).
      { intros b HW Hb. split.
        - intros p [<-|Hp]; auto.
        - intros m b0 [Hp|Hp] Hb0.
          + inversion Hp; subst. right. apply Hd. eapply uses_ok_spec; eauto.
          + right. eapply Hc; eauto. }
      destruct rhs; try discriminate; inversion E; subst s' st'; cbn [win_base].
      + assert (HW : In (w, name) W) by (apply Hw; cbn; auto).
        split; [apply Hext; [exact HW|cbn; auto]|split; [|intros S []]].
        intros m Hm HmW. right. apply Hd. eapply uses_ok_spec; eauto.
      + assert (HW : In (w, name) W) by (apply Hw; cbn; auto).
        split; [apply Hext; [exact HW|cbn; auto]|split; [|intros S []]].
        intros m Hm HmW. right. apply Hd. eapply uses_ok_spec; eauto.
  Qed.
End WithW.
