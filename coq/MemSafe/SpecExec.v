(* MemSafe/SpecExec.v — execution of a statement skeleton with explicit Free statements, as far as the allocation
   discipline is concerned (definitions only).

   The state is the list of live allocations.  Branches and trip counts are unconstrained (every path is considered).
   Faults:  a statement mentions a name that denotes (directly or through its window chain) an allocation of the
   procedure that is not live (use before allocation / use after free);  `Free x` when x is not live (double free);
   `Alloc x` when x is already live (the old block is lost);  leaving a scope (if-branch, loop iteration) with a
   different live set than on entry (a block allocated in the scope is lost when its pointer goes out of scope). *)
From Coq Require Import ZArith List Bool.
Import ListNotations.
From MemSafe Require Import Model Gen_Used ModelMem Spec.
Open Scope Z_scope.

Inductive outcome : Type := Done (live : list sym) | Fault.

Definition leaf (s : stmt) : Prop :=
  match s with Alloc _ | Free _ | If _ _ _ | For _ _ _ => False | _ => True end.

(* names the statement itself evaluates before/without entering nested blocks *)
Definition head_uses (s : stmt) : list sym :=
  match s with Alloc _ | Free _ => [] | _ => direct_uses s end.

Section Exec.
  Variable W : dict.
  Variable AN : list sym.

  Definition dead_use (A : list sym) (names : list sym) : Prop :=
    exists n x, In n names /\ reach W n x /\ In x AN /\ ~ In x A.

  (* leaving a scope entered with live set A *)
  Definition scope_exit (A : list sym) (o : outcome) : outcome :=
    match o with
    | Done A1 => if list_eq_dec Z.eq_dec A1 A then Done A else Fault
    | Fault => Fault
    end.

  Inductive exec_s : list sym -> stmt -> outcome -> Prop :=
  | ex_dead : forall A s, dead_use A (head_uses s) -> exec_s A s Fault
  | ex_alloc : forall A x, ~ In x A -> exec_s A (Alloc x) (Done (x :: A))
  | ex_realloc : forall A x, In x A -> exec_s A (Alloc x) Fault
  | ex_free : forall A x, In x A -> exec_s A (Free x) (Done (remove_first x A))
  | ex_free_dead : forall A x, ~ In x A -> exec_s A (Free x) Fault
  | ex_leaf : forall A s, leaf s -> exec_s A s (Done A)
  | ex_if_body : forall A c b e o, exec_l A b o -> exec_s A (If c b e) (scope_exit A o)
  | ex_if_else : forall A c b e o, exec_l A e o -> exec_s A (If c b e) (scope_exit A o)
  | ex_for : forall A lo hi b k o, exec_iter k A b o -> exec_s A (For lo hi b) o
  with exec_l : list sym -> list stmt -> outcome -> Prop :=
  | ex_nil : forall A, exec_l A [] (Done A)
  | ex_cons : forall A s l A1 o, exec_s A s (Done A1) -> exec_l A1 l o -> exec_l A (s :: l) o
  | ex_cons_fault : forall A s l, exec_s A s Fault -> exec_l A (s :: l) Fault
  with exec_iter : nat -> list sym -> list stmt -> outcome -> Prop :=
  | ex_iter_0 : forall A b, exec_iter 0 A b (Done A)
  | ex_iter_S : forall k A b o A1 o', exec_l A b o -> scope_exit A o = Done A1 -> exec_iter k A1 b o' ->
                                      exec_iter (S k) A b o'
  | ex_iter_fault : forall k A b o, exec_l A b o -> scope_exit A o = Fault -> exec_iter (S k) A b Fault.
End Exec.

(* run of a whole procedure body: starts and must end with nothing live *)
Definition runs_clean (q : list stmt) : Prop :=
  forall o, exec_l (wins q) (allocs q) [] q o -> o = Done [].
