(* MemSafe/ModelWrites.v — `GetWrites` / `get_writes_of_stmts` (exo/core/LoopIR.py) and the const decisions of the
   C backend (`Compiler.__init__`: non_const; `get_window_type`; `comp_fnarg`) on the statement skeleton.
   Executable Gallina only; the Python text is quoted next to each definition. *)
From Coq Require Import ZArith List Bool.
Import ListNotations.
From MemSafe Require Import Model.
Open Scope Z_scope.

(* class GetWrites: self.writes = [] ; self.window_dict = {} *)
Record wstate : Type := WS { writes : list sym; wdict : dict }.

(*      while base_sym in self.window_dict:
            base_sym = self.window_dict[base_sym]                (fuel: see ModelMem.chase) *)
Fixpoint chase_root (fuel : nat) (d : dict) (b : sym) : result sym :=
  match lookup b d with
  | None => Ok b
  | Some b' =>
      match fuel with
      | O => Err EDiverge
      | S f => chase_root f d b'
      end
  end.

(*      for arg, call_arg in zip(s.args, s.f.args):
            if call_arg.name in writes_in_subproc:
                if isinstance(arg, (LoopIR.Read, LoopIR.WindowExpr, LoopIR.StrideExpr)):
                    sym = arg.name
                    self.writes.append((self.window_dict.get(sym, sym), arg.type))  *)
Fixpoint call_writes (d : dict) (wsub : list sym) (args : list expr) (fargs : list sym) : list sym :=
  match args, fargs with
  | a :: args', f :: fargs' =>
      (if memb f wsub then
         match name_of a with
         | Some nm => [dget d nm nm]
         | None => []
         end
       else []) ++ call_writes d wsub args' fargs'
  | _, _ => []
  end.

Section GwList.
  Variable gw_s : stmt -> wstate -> result wstate.
  (* LoopIR_Do.do_stmts *)
  Fixpoint gw_list (l : list stmt) (st : wstate) : result wstate :=
    match l with
    | [] => Ok st
    | s :: r => do st1 <- gw_s s st; gw_list r st1
    end.
End GwList.

(* GetWrites.do_s followed by super().do_s(s) (which only recurses into If/For bodies: do_e is overridden to return) *)
Fixpoint gw_s (s : stmt) (st : wstate) {struct s} : result wstate :=
  match s with
  | Assign n _ _ | Reduce n _ _ =>
      Ok (WS (writes st ++ [dget (wdict st) n n]) (wdict st))
  | Call fargs fbody args =>
      (* writes_in_subproc = [a for a, _ in get_writes_of_stmts(s.f.body)] *)
      do sub <- gw_list gw_s fbody (WS [] []);
      Ok (WS (writes st ++ call_writes (wdict st) (writes sub) args fargs) (wdict st))
  | WindowStmt w rhs =>
      (* w_sym, base_sym = s.name, s.rhs.name ; <while> ; self.window_dict[w_sym] = base_sym *)
      match name_of rhs with
      | None => Err EBadWindowRhs
      | Some b =>
          do r <- chase_root (S (length (wdict st))) (wdict st) b;
          Ok (WS (writes st) ((w, r) :: wdict st))
      end
  | If _ body orelse =>
      do st1 <- gw_list gw_s body st; gw_list gw_s orelse st1
  | For _ _ body => gw_list gw_s body st
  | _ => Ok st
  end.

(* def get_writes_of_stmts(stmts): gw = GetWrites(); gw.do_stmts(stmts); return gw.writes     (names only) *)
Definition get_writes (body : list stmt) : result (list sym) :=
  do st <- gw_list gw_s body (WS [] []); Ok (writes st).

(* self.non_const = set(e for e, _ in get_writes_of_stmts(self.proc.body)) *)
Definition non_const := get_writes.

(* Compiler.__init__:  const_kwd = "const " if a.name not in self.non_const else ""       (tensor / scalar argument)
   get_window_type(fnarg): is_const = typ.name not in self.non_const                      (window argument) *)
Definition arg_is_const (nc : list sym) (a : sym) : bool := negb (memb a nc).

(* get_window_type(T.Window): is_const = typ.src_buf not in self.non_const *)
Definition win_is_const (nc : list sym) (src_buf : sym) : bool := negb (memb src_buf nc).

(* comp_fnarg, WindowExpr argument i of a call:
       callee_buf = fn.args[i].name
       is_const = callee_buf not in set(x for x, _ in get_writes_of_stmts(fn.body)) *)
Fixpoint call_arg_flags (wsub : list sym) (args : list expr) (fargs : list sym) : list bool :=
  match args, fargs with
  | a :: args', f :: fargs' =>
      match a with
      | WindowExpr _ _ _ => [negb (memb f wsub)]
      | _ => []
      end ++ call_arg_flags wsub args' fargs'
  | _, _ => []
  end.

(* The const-ness of every window struct the compiler names while emitting the body, in emission order:
   one flag per WindowStmt (comp_s -> get_window_type(s.rhs.type)) and one per WindowExpr call argument.
   comp_s keeps `self._win_root : window variable -> root buffer it aliases` (never popped):
       get_window_type(T.Window):  root = self._win_root.get(typ.src_buf, typ.src_buf) ; is_const = root not in self.non_const
       WindowStmt:  win_struct = self.get_window_type(s.rhs.type) ; ... ;
                    self._win_root[s.name] = self._win_root.get(s.rhs.name, s.rhs.name)                                  *)
Section SfList.
  Variable sf : dict -> stmt -> result (list bool * dict).
  Fixpoint sf_list (wr : dict) (l : list stmt) : result (list bool * dict) :=
    match l with
    | [] => Ok ([], wr)
    | x :: r =>
        do (fx, wr1) <- sf wr x;
        do (fr, wr2) <- sf_list wr1 r;
        Ok (fx ++ fr, wr2)
    end.
End SfList.

Fixpoint struct_flags (nc : list sym) (wr : dict) (s : stmt) {struct s} : result (list bool * dict) :=
  match s with
  | WindowStmt w (WindowExpr b src _) =>
      Ok ([win_is_const nc (dget wr src src)], (w, dget wr b b) :: wr)
  | WindowStmt _ _ => Err EBadWindowRhs
  | Call fargs fbody args =>
      do wsub <- get_writes fbody; Ok (call_arg_flags wsub args fargs, wr)
  | If _ body orelse =>
      do (a, wr1) <- sf_list (struct_flags nc) wr body;
      do (b, wr2) <- sf_list (struct_flags nc) wr1 orelse;
      Ok (a ++ b, wr2)
  | For _ _ body => sf_list (struct_flags nc) wr body
  | _ => Ok ([], wr)
  end.

Definition struct_flags_list (nc : list sym) (l : list stmt) : result (list bool) :=
  do (f, _) <- sf_list (struct_flags nc) [] l; Ok f.

(* All const decisions for one procedure: the buffer arguments in signature order, then the structs of the body. *)
Definition const_decisions (buf_args : list sym) (body : list stmt) : result (list bool * list bool) :=
  do nc <- non_const body;
  do fl <- struct_flags_list nc body;
  Ok (map (arg_is_const nc) buf_args, fl).
