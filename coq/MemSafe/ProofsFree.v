(* MemSafe/ProofsFree.v — the C08 statements about Free placement, assembled from ProofsMem. *)
From Coq Require Import ZArith List Bool Lia.
Import ListNotations.
From MemSafe Require Import Model Gen_Used ModelMem Spec ProofsBase ProofsPlace ProofsMem.
Open Scope Z_scope.

Lemma wf_b_parts : forall p, wf_b p = true ->
  NoDup (map fst (wins p)) /\ NoDup (allocs p) /\ wscoped (map fst (wins p)) [] p = true /\
  existsb has_free_s p = false.
Proof.
  intros p H. unfold wf_b in H.
  apply andb_true_iff in H. destruct H as (H & H4).
  apply andb_true_iff in H. destruct H as (H & H3).
  apply andb_true_iff in H. destruct H as (H1 & H2).
  repeat split; auto using nodupb_NoDup. apply negb_true_iff in H4. exact H4.
Qed.

(* every scope of the output satisfies the three scope properties *)
Theorem scopes_ok : forall p q, wf_b p = true -> insert_frees p = Ok q ->
  forall S, subscope q S -> ScopeOK (wins p) S.
Proof.
  intros p q Hwf E S HS.
  destruct (wf_b_parts _ Hwf) as (Hn & _ & Hsc & _).
  destruct (insert_frees_scope _ _ E) as (st & Es). unfold scope in Es.
  assert (Hall : Forall (P2 (wins p)) p) by (apply Forall_forall; intros s _; apply mem_s_wf; exact Hn).
  assert (Hg : GoodWB (wins p) (win_base (MS [] []))) by (split; [intros x []|intros n b []]).
  assert (Hd : incl [] (keys (win_base (MS [] [])))) by (intros x []).
  destruct (scope_wf (wins p) Hn p Hall _ _ _ [] Es Hsc Hg Hd (incl_refl _)) as (_ & _ & O & A).
  eapply subscope_ok; eauto.
Qed.

(* ------------------------------------------------------------------ allocation names stay unique in every scope *)
Lemma allocs_top_incl : forall l, incl (allocs_top l) (allocs l).
Proof.
  induction l as [|s r IH]; intros x Hx. contradiction.
  unfold allocs_top, allocs in *. cbn in *. apply in_app_or in Hx. apply in_or_app. destruct Hx as [Hx|Hx].
  - left. destruct s; cbn in *; try contradiction. exact Hx.
  - right. apply IH. exact Hx.
Qed.

Lemma allocs_top_nodup : forall l, NoDup (allocs l) -> NoDup (allocs_top l).
Proof.
  induction l as [|s r IH]; intros H. constructor.
  unfold allocs in H. cbn in H.
  assert (Hr : NoDup (allocs r)) by (eapply nodup_app_r; eauto).
  unfold allocs_top. cbn. destruct s; cbn; try (apply IH; exact Hr).
  cbn in H. inversion H; subst. constructor. intros Hin. apply H2. apply allocs_top_incl. exact Hin.
  apply IH. exact Hr.
Qed.

Lemma allocs_in_split : forall s l, In s l -> exists a b, allocs l = a ++ allocs_s s ++ b.
Proof.
  intros s l H. apply in_split in H. destruct H as (l1 & l2 & ->).
  exists (allocs l1), (allocs l2). unfold allocs. rewrite flat_map_app. reflexivity.
Qed.

Lemma nodup_mid : forall (a m b : list sym), NoDup (a ++ m ++ b) -> NoDup m.
Proof. intros a m b H. apply nodup_app_r in H. apply nodup_app_l in H. exact H. Qed.

Lemma subscope_allocs_nodup : forall l S, subscope l S -> NoDup (allocs l) -> NoDup (allocs S).
Proof.
  induction 1 as [l|l c b e S Hin Hs IH|l c b e S Hin Hs IH|l lo hi b S Hin Hs IH]; intros Hn; auto; apply IH;
    destruct (allocs_in_split _ _ Hin) as (a & z & Ea); rewrite Ea in Hn; apply nodup_mid in Hn; cbn [allocs_s] in Hn.
  - eapply nodup_app_l; eauto.
  - eapply nodup_app_r; eauto.
  - exact Hn.
Qed.

Lemma allocs_erase_s : forall s, allocs_s (erase_s s) = allocs_s s.
Proof.
  assert (Hl : forall l, Forall (fun s => allocs_s (erase_s s) = allocs_s s) l ->
                allocs (flat_map (fun x => if is_free x then [] else [erase_s x]) l) = allocs l).
  { induction 1 as [|s r Hs Hr IH]; cbn. reflexivity.
    unfold allocs in *. destruct (is_free s) eqn:Ef; cbn.
    - destruct s; cbn in Ef; try discriminate. cbn. exact IH.
    - rewrite Hs, IH. reflexivity. }
  induction s using stmt_ind'; cbn [erase_s allocs_s]; auto.
  - fold (allocs (flat_map (fun x => if is_free x then [] else [erase_s x]) b)).
    fold (allocs (flat_map (fun x => if is_free x then [] else [erase_s x]) e)).
    rewrite (Hl _ H), (Hl _ H0). reflexivity.
Qed.

Lemma allocs_erase : forall l, allocs (erase_frees l) = allocs l.
Proof.
  induction l as [|s r IH]; cbn. reflexivity.
  unfold allocs, erase_frees in *. cbn. destruct (is_free s) eqn:Ef; cbn.
  - destruct s; cbn in Ef; try discriminate. cbn. exact IH.
  - rewrite allocs_erase_s, IH. reflexivity.
Qed.

(* ------------------------------------------------------------------ from counts to the "exactly once, afterwards" shape *)
Lemma In_free_top : forall x l, In (Free x) l <-> In x (frees_top l).
Proof.
  intros x l. unfold frees_top. rewrite in_flat_map. split.
  - intros H. exists (Free x). split; auto. cbn; auto.
  - intros (s & Hs & Hx). destruct s; cbn in Hx; try contradiction. destruct Hx as [<-|[]]. exact Hs.
Qed.

Lemma In_alloc_top : forall x l, In (Alloc x) l <-> In x (allocs_top l).
Proof. intros. split. apply In_allocs_top. apply allocs_top_In. Qed.

Lemma cntF_app : forall x a b, cnt x (frees_top (a ++ b)) = (cnt x (frees_top a) + cnt x (frees_top b))%nat.
Proof. intros. rewrite frees_top_app, cnt_app. reflexivity. Qed.
Lemma cntA_app : forall x a b, cnt x (allocs_top (a ++ b)) = (cnt x (allocs_top a) + cnt x (allocs_top b))%nat.
Proof. intros. rewrite allocs_top_app, cnt_app. reflexivity. Qed.
Lemma cntF_free : forall x l, cnt x (frees_top (Free x :: l)) = S (cnt x (frees_top l)).
Proof. intros. unfold cnt, frees_top. cbn. destruct (Z.eq_dec x x); congruence. Qed.
Lemma cntF_alloc : forall x y l, cnt x (frees_top (Alloc y :: l)) = cnt x (frees_top l).
Proof. intros. reflexivity. Qed.
Lemma cntA_alloc : forall x l, cnt x (allocs_top (Alloc x :: l)) = S (cnt x (allocs_top l)).
Proof. intros. unfold cnt, allocs_top. cbn. destruct (Z.eq_dec x x); congruence. Qed.
Lemma cntA_free : forall x y l, cnt x (allocs_top (Free y :: l)) = cnt x (allocs_top l).
Proof. intros. reflexivity. Qed.

Lemma once_split : forall S x,
  cnt x (frees_top S) = cnt x (allocs_top S) -> NoDup (allocs_top S) ->
  (forall l1 l2, S = l1 ++ Free x :: l2 -> In (Alloc x) l1) ->
  In (Alloc x) S ->
  exists l1 l2 l3, S = l1 ++ Alloc x :: l2 ++ Free x :: l3 /\
    ~ In (Free x) (l1 ++ l2 ++ l3) /\ ~ In (Alloc x) (l1 ++ l2 ++ l3).
Proof.
  intros S x Hc Hn Hafter Hin.
  assert (Ha : cnt x (allocs_top S) = 1%nat).
  { pose proof (cnt_nodup x _ Hn). apply In_alloc_top in Hin. apply cnt_pos_In in Hin. lia. }
  assert (Hf : In (Free x) S) by (apply In_free_top; apply cnt_pos_In; lia).
  apply in_split in Hf. destruct Hf as (m1 & m2 & ES).
  pose proof (Hafter _ _ ES) as Hal. apply in_split in Hal. destruct Hal as (l1 & l2 & Em1).
  exists l1, l2, m2. subst m1.
  assert (ES' : S = l1 ++ Alloc x :: l2 ++ Free x :: m2) by (rewrite ES, <- app_assoc; reflexivity).
  split; [exact ES'|].
  rewrite ES' in Hc, Ha.
  rewrite cntF_app, cntF_alloc, cntF_app, cntF_free in Hc.
  rewrite cntA_app, cntA_alloc, cntA_app, cntA_free in Hc, Ha.
  split.
  - intros Hbad. apply in_app_or in Hbad. rewrite (In_free_top x l1) in Hbad.
    destruct Hbad as [Hbad|Hbad]; [apply cnt_pos_In in Hbad; lia|].
    apply in_app_or in Hbad. rewrite (In_free_top x l2), (In_free_top x m2) in Hbad.
    destruct Hbad as [Hbad|Hbad]; apply cnt_pos_In in Hbad; lia.
  - intros Hbad. apply in_app_or in Hbad. rewrite (In_alloc_top x l1) in Hbad.
    destruct Hbad as [Hbad|Hbad]; [apply cnt_pos_In in Hbad; lia|].
    apply in_app_or in Hbad. rewrite (In_alloc_top x l2), (In_alloc_top x m2) in Hbad.
    destruct Hbad as [Hbad|Hbad]; apply cnt_pos_In in Hbad; lia.
Qed.

(* ------------------------------------------------------------------ the two statements *)
Theorem free_once : forall p q, wf_b p = true -> insert_frees p = Ok q ->
  erase_frees q = p /\
  forall S, subscope q S -> forall x,
    (In (Alloc x) S ->
       exists l1 l2 l3, S = l1 ++ Alloc x :: l2 ++ Free x :: l3 /\
         ~ In (Free x) (l1 ++ l2 ++ l3) /\ ~ In (Alloc x) (l1 ++ l2 ++ l3)) /\
    (In (Free x) S -> In (Alloc x) S).
Proof.
  intros p q Hwf E. split. apply insert_frees_erase; exact E.
  intros S HS x.
  destruct (scopes_ok _ _ Hwf E S HS) as (F1 & F2 & _).
  destruct (wf_b_parts _ Hwf) as (_ & Hn & _ & _).
  assert (HnS : NoDup (allocs_top S)).
  { apply allocs_top_nodup. eapply subscope_allocs_nodup; eauto.
    rewrite <- (allocs_erase q), (insert_frees_erase _ _ E). exact Hn. }
  split.
  - intros Hin. apply once_split; auto. intros; eapply F2; eauto.
  - intros Hin. apply in_split in Hin. destruct Hin as (l1 & l2 & ES).
    pose proof (F2 _ _ _ ES) as Ha. rewrite ES. apply in_or_app. left. exact Ha.
Qed.

Theorem free_after : forall p q, wf_b p = true -> insert_frees p = Ok q ->
  forall S l1 x l2, subscope q S -> S = l1 ++ Free x :: l2 ->
  forall s n, In s l2 -> In n (used_s s) -> ~ reach (wins p) n x.
Proof.
  intros p q Hwf E S l1 x l2 HS ES.
  destruct (scopes_ok _ _ Hwf E S HS) as (_ & _ & F3). eapply F3; eauto.
Qed.

(* the alias relation of the output is that of the input (Free statements define no windows) *)
Lemma insert_frees_wins : forall p q, insert_frees p = Ok q -> wins q = wins p.
Proof.
  intros p q E. destruct (insert_frees_scope _ _ E) as (st & Es). unfold scope in Es.
  destruct (scope_struct _ (mem_s_struct_all p) _ _ _ Es) as (_ & _ & R1 & _).
  rewrite (wins_strip q). eapply R_wins; eauto.
Qed.

(* the hypotheses are satisfiable (and the output is what the real compiler produces for
     x : R[8] ; w = x[0:4] ; if ..: (y : R ; y = w[0]) else: (z : R[2] ; z[0] = 1.0) ; a[0] = w[1]  ) *)
Example free_example :
  let p := [Alloc 1; WindowStmt 2 (WindowExpr 1 1 []);
            If Other [Alloc 3; Assign 3 [] (Read 2 [Other])] [Alloc 4; Assign 4 [Other] Other];
            Assign 5 [Other] (Read 2 [Other])] in
  wf_b p = true /\
  insert_frees p = Ok [Alloc 1; WindowStmt 2 (WindowExpr 1 1 []);
            If Other [Alloc 3; Assign 3 [] (Read 2 [Other]); Free 3] [Alloc 4; Assign 4 [Other] Other; Free 4];
            Assign 5 [Other] (Read 2 [Other]); Free 1].
Proof. vm_compute. split; reflexivity. Qed.
