(* MemSafe/ProofsBase.v — induction principle for the nested statement type, list/dictionary lemmas. *)
From Coq Require Import ZArith List Bool Lia.
Import ListNotations.
From MemSafe Require Import Model Gen_Used ModelMem Spec.
Open Scope Z_scope.

(* ------------------------------------------------------------------ induction over statements with nested lists *)
Section StmtInd.
  Variable P : stmt -> Prop.
  Hypothesis H_assign : forall n i r, P (Assign n i r).
  Hypothesis H_reduce : forall n i r, P (Reduce n i r).
  Hypothesis H_wconfig : forall r, P (WriteConfig r).
  Hypothesis H_pass : P Pass.
  Hypothesis H_if : forall c b e, Forall P b -> Forall P e -> P (If c b e).
  Hypothesis H_for : forall lo hi b, Forall P b -> P (For lo hi b).
  Hypothesis H_alloc : forall x, P (Alloc x).
  Hypothesis H_free : forall x, P (Free x).
  Hypothesis H_call : forall fa fb args, Forall P fb -> P (Call fa fb args).
  Hypothesis H_window : forall w rhs, P (WindowStmt w rhs).

  Fixpoint stmt_ind' (s : stmt) : P s :=
    let fix go (l : list stmt) : Forall P l :=
      match l with
      | [] => Forall_nil P
      | x :: r => Forall_cons x (stmt_ind' x) (go r)
      end in
    match s with
    | Assign n i r => H_assign n i r
    | Reduce n i r => H_reduce n i r
    | WriteConfig r => H_wconfig r
    | Pass => H_pass
    | If c b e => H_if c b e (go b) (go e)
    | For lo hi b => H_for lo hi b (go b)
    | Alloc x => H_alloc x
    | Free x => H_free x
    | Call fa fb args => H_call fa fb args (go fb)
    | WindowStmt w rhs => H_window w rhs
    end.
End StmtInd.

Section ExprInd.
  Variable P : expr -> Prop.
  Hypothesis H_read : forall n idx, Forall P idx -> P (Read n idx).
  Hypothesis H_usub : forall a, P a -> P (USub a).
  Hypothesis H_binop : forall l r, P l -> P r -> P (BinOp l r).
  Hypothesis H_extern : forall args, Forall P args -> P (Extern args).
  Hypothesis H_winexpr : forall n sb idx, Forall P idx -> P (WindowExpr n sb idx).
  Hypothesis H_stride : forall n, P (StrideExpr n).
  Hypothesis H_other : P Other.

  Fixpoint expr_ind' (e : expr) : P e :=
    let fix go (l : list expr) : Forall P l :=
      match l with
      | [] => Forall_nil P
      | x :: r => Forall_cons x (expr_ind' x) (go r)
      end in
    match e with
    | Read n idx => H_read n idx (go idx)
    | USub a => H_usub a (expr_ind' a)
    | BinOp l r => H_binop l r (expr_ind' l) (expr_ind' r)
    | Extern args => H_extern args (go args)
    | WindowExpr n sb idx => H_winexpr n sb idx (go idx)
    | StrideExpr n => H_stride n
    | Other => H_other
    end.
End ExprInd.

(* ------------------------------------------------------------------ membership *)
Lemma memb_In : forall x l, memb x l = true <-> In x l.
Proof.
  intros x l. unfold memb. rewrite existsb_exists. split.
  - intros (y & Hy & E). apply Z.eqb_eq in E. subst. exact Hy.
  - intros H. exists x. split; auto. apply Z.eqb_refl.
Qed.

Lemma memb_false : forall x l, memb x l = false <-> ~ In x l.
Proof.
  intros x l. rewrite <- memb_In. destruct (memb x l); split; intros; try discriminate; auto.
  exfalso; auto.
Qed.

Lemma nodupb_NoDup : forall l, nodupb l = true -> NoDup l.
Proof.
  induction l as [|x r IH]; cbn; intros H. constructor.
  apply andb_true_iff in H. destruct H as (H1 & H2).
  constructor; auto. apply negb_true_iff in H1. apply memb_false in H1. exact H1.
Qed.

(* ------------------------------------------------------------------ dictionaries *)
Lemma lookup_In : forall k d v, lookup k d = Some v -> In (k, v) d.
Proof.
  induction d as [|(k', v') d IH]; cbn; intros v H. discriminate.
  destruct (Z.eqb k k') eqn:E.
  - apply Z.eqb_eq in E. inversion H; subst. left; reflexivity.
  - right. auto.
Qed.

Lemma lookup_keys : forall k d, In k (map fst d) -> exists v, lookup k d = Some v.
Proof.
  induction d as [|(k', v') d IH]; cbn; intros H. contradiction.
  destruct (Z.eqb k k') eqn:E. eexists; reflexivity.
  destruct H as [H|H]. subst. rewrite Z.eqb_refl in E. discriminate. auto.
Qed.

Lemma lookup_none : forall k d, ~ In k (map fst d) -> lookup k d = None.
Proof.
  induction d as [|(k', v') d IH]; cbn; intros H. reflexivity.
  destruct (Z.eqb k k') eqn:E.
  - apply Z.eqb_eq in E. subst. exfalso. apply H. left; reflexivity.
  - apply IH. intros Hin. apply H. right; exact Hin.
Qed.

Lemma nodup_fst_inj : forall (d : dict) k v1 v2,
  NoDup (map fst d) -> In (k, v1) d -> In (k, v2) d -> v1 = v2.
Proof.
  induction d as [|(k', v') d IH]; cbn; intros k v1 v2 Hn H1 H2. contradiction.
  inversion Hn as [|? ? Hnotin Hn']; subst.
  destruct H1 as [H1|H1]; destruct H2 as [H2|H2].
  - congruence.
  - inversion H1; subst. exfalso. apply Hnotin. change k with (fst (k, v2)). apply in_map. exact H2.
  - inversion H2; subst. exfalso. apply Hnotin. change k with (fst (k, v1)). apply in_map. exact H1.
  - eapply IH; eauto.
Qed.

(* ------------------------------------------------------------------ reachability in the model's dictionary *)
Inductive dreach (d : dict) : sym -> sym -> Prop :=
| dr_refl : forall n, dreach d n n
| dr_step : forall n b x, lookup n d = Some b -> dreach d b x -> dreach d n x.

Lemma chase_complete : forall d fuel n l,
  chase fuel d n = Ok l -> forall b x, lookup n d = Some b -> dreach d b x -> In x l.
Proof.
  intros d. induction fuel as [|f IH]; intros n l E b x Hl Hr; cbn in E; rewrite Hl in E.
  - discriminate.
  - destruct (chase f d b) as [r|] eqn:Er; cbn in E; [|discriminate]. inversion E; subst l.
    inversion Hr as [|? b' ? Hl' Hr']; subst.
    + left; reflexivity.
    + right. eapply IH; eauto.
Qed.

Lemma close_uses_complete : forall d names u,
  close_uses d names = Ok u -> forall n b x, In n names -> lookup n d = Some b -> dreach d b x -> In x u.
Proof.
  intros d. induction names as [|m rest IH]; intros u E n b x Hin Hl Hr. contradiction.
  cbn [close_uses] in E.
  destruct (chase (S (length d)) d m) as [c|] eqn:Ec; cbn in E; [|discriminate].
  destruct (close_uses d rest) as [r|] eqn:Er; cbn in E; [|discriminate].
  inversion E; subst u. apply in_or_app.
  destruct Hin as [->|Hin].
  - left. eapply chase_complete; eauto.
  - right. eapply IH; eauto.
Qed.

Lemma closure_complete : forall d names u,
  closure d names = Ok u -> forall n x, In n names -> dreach d n x -> In x u.
Proof.
  intros d names u E n x Hin Hr. unfold closure in E.
  destruct (close_uses d names) as [extra|] eqn:Ec; cbn in E; [|discriminate].
  inversion E; subst u. apply in_or_app.
  inversion Hr as [|? b ? Hl Hr']; subst.
  - left; exact Hin.
  - right. eapply close_uses_complete; eauto.
Qed.

(* ------------------------------------------------------------------ list.remove / filter *)
Lemma remove_first_neq_head : forall x y t, x <> y -> remove_first x (y :: t) = y :: remove_first x t.
Proof. intros. cbn. destruct (Z.eqb x y) eqn:E; auto. apply Z.eqb_eq in E. contradiction. Qed.

Lemma fold_remove_head : forall rm y t,
  (forall nm, In nm rm -> nm <> y) ->
  fold_left (fun t nm => remove_first nm t) rm (y :: t) = y :: fold_left (fun t nm => remove_first nm t) rm t.
Proof.
  induction rm as [|a rm IH]; intros y t H; cbn [fold_left]. reflexivity.
  rewrite remove_first_neq_head by (apply H; left; reflexivity).
  apply IH. intros; apply H; right; assumption.
Qed.

Lemma fold_remove_filter : forall (f : sym -> bool) top,
  fold_left (fun t nm => remove_first nm t) (filter f top) top = filter (fun x => negb (f x)) top.
Proof.
  intros f. induction top as [|y t IH]; cbn [filter fold_left]. reflexivity.
  destruct (f y) eqn:Fy; cbn [negb fold_left].
  - cbn [remove_first]. rewrite Z.eqb_refl. exact IH.
  - rewrite fold_remove_head. rewrite IH. reflexivity.
    intros nm Hin Heq. subst. apply filter_In in Hin. destruct Hin as (_ & Hf). congruence.
Qed.

Definition cnt (x : sym) (l : list sym) : nat := count_occ Z.eq_dec l x.

Lemma cnt_app : forall x l1 l2, cnt x (l1 ++ l2) = (cnt x l1 + cnt x l2)%nat.
Proof. intros. unfold cnt. apply count_occ_app. Qed.

Lemma cnt_filter_split : forall (f : sym -> bool) x l,
  (cnt x (filter f l) + cnt x (filter (fun y => negb (f y)) l) = cnt x l)%nat.
Proof.
  intros f x. induction l as [|y t IH]; cbn [filter]. reflexivity.
  unfold cnt in *. destruct (f y); cbn [negb count_occ]; destruct (Z.eq_dec y x); lia.
Qed.

Lemma cnt_pos_In : forall x l, (0 < cnt x l)%nat <-> In x l.
Proof. intros. unfold cnt. symmetry. apply count_occ_In. Qed.

Lemma cnt_zero : forall x l, cnt x l = 0%nat <-> ~ In x l.
Proof. intros. unfold cnt. symmetry. apply count_occ_not_In. Qed.

Lemma cnt_nodup : forall x l, NoDup l -> (cnt x l <= 1)%nat.
Proof. intros. unfold cnt. apply NoDup_count_occ; auto. Qed.

Lemma nodup_app_r : forall (A : Type) (l1 l2 : list A), NoDup (l1 ++ l2) -> NoDup l2.
Proof. induction l1 as [|a l1 IH]; cbn; intros l2 H; auto. inversion H; subst. apply IH; assumption. Qed.

Lemma nodup_app_l : forall (A : Type) (l1 l2 : list A), NoDup (l1 ++ l2) -> NoDup l1.
Proof.
  induction l1 as [|a l1 IH]; cbn; intros l2 H. constructor.
  inversion H; subst. constructor.
  - intros Hin. apply H2. apply in_or_app. left; exact Hin.
  - eapply IH; eauto.
Qed.
