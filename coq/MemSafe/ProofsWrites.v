(* MemSafe/ProofsWrites.v — get_writes_of_stmts finds every buffer a body may write (directly, through a window alias,
   or in a callee); hence an argument the backend qualifies `const`, and a window struct it declares const, is never
   written through. *)
From Coq Require Import ZArith List Bool Lia.
Import ListNotations.
From MemSafe Require Import Model Gen_Used ModelMem ModelWrites Spec ProofsBase ProofsMem.
Open Scope Z_scope.

Lemma forallb_In : forall (A : Type) (f : A -> bool) l x, forallb f l = true -> In x l -> f x = true.
Proof. intros A f l x H Hin. rewrite forallb_forall in H. auto. Qed.

Definition inner (s : stmt) (S : list stmt) : Prop :=
  match s with
  | If _ b e => subscope b S \/ subscope e S
  | For _ _ b => subscope b S
  | _ => False
  end.

Lemma deep_in_cases : forall t l, deep_in t l -> In t l \/ exists s S, In s l /\ inner s S /\ In t S.
Proof.
  intros t l (S & Hs & Hin). apply subscope_inv in Hs. destruct Hs as [->|(s & Hsl & Hn)]; auto.
  right. exists s, S. split; [exact Hsl|split; [|exact Hin]]. destruct s; try contradiction; exact Hn.
Qed.

Lemma call_writes_in : forall d wsub args fargs i a f n,
  nth_error args i = Some a -> nth_error fargs i = Some f -> name_of a = Some n -> In f wsub ->
  In (dget d n n) (call_writes d wsub args fargs).
Proof.
  intros d wsub. induction args as [|a0 args IH]; intros fargs i a f n Ha Hf Hn Hw.
  - destruct i; discriminate.
  - destruct fargs as [|f0 fargs]. destruct i; discriminate.
    destruct i as [|i]; cbn in Ha, Hf.
    + inversion Ha; inversion Hf; subst. cbn [call_writes].
      apply memb_In in Hw. rewrite Hw, Hn. left; reflexivity.
    + cbn [call_writes]. apply in_or_app. right. eapply IH; eauto.
Qed.

Lemma name_of_used : forall a n, name_of a = Some n -> In n (used_e a).
Proof. intros a n H. destruct a; cbn in H; inversion H; subst; cbn; auto. Qed.

Section WithW.
  Variable W : dict.
  Hypothesis W_nodup : NoDup (map fst W).
  Let WN := map fst W.

  Definition InvW (wd : dict) : Prop :=
    incl (keys wd) WN /\ forall w r, lookup w wd = Some r -> reach W w r /\ ~ In r WN.

  Lemma reach_root_refl : forall n x, reach W n x -> ~ In n WN -> x = n.
  Proof.
    intros n x H Hn. inversion H; subst; auto.
    exfalso. apply Hn. unfold WN. change n with (fst (n, b)). apply in_map. assumption.
  Qed.

  Lemma root_unique : forall n r, reach W n r -> forall x, reach W n x -> ~ In r WN -> ~ In x WN -> r = x.
  Proof.
    induction 1 as [n|n b r Hw Hr IH]; intros x Hx Hrn Hxn.
    - symmetry. eapply reach_root_refl; eauto.
    - inversion Hx as [|? b' ? Hw' Hx']; subst.
      + exfalso. apply Hxn. unfold WN. change x with (fst (x, b)). apply in_map. assumption.
      + assert (b = b') by (eapply nodup_fst_inj; eauto). subst b'. apply IH; auto.
  Qed.

  Lemma dget_root : forall wd n x, InvW wd -> (In n (keys wd) \/ ~ In n WN) ->
    reach W n x -> ~ In x WN -> dget wd n n = x.
  Proof.
    intros wd n x (Hk & Hl) Hn Hr Hx. unfold dget.
    destruct Hn as [Hn|Hn].
    - destruct (lookup_keys _ _ Hn) as (r & Er). rewrite Er.
      destruct (Hl _ _ Er) as (Hr' & Hrn). eapply root_unique; eauto.
    - rewrite lookup_none. symmetry. eapply reach_root_refl; eauto.
      intros Hin. apply Hn. apply Hk. exact Hin.
  Qed.

  (* what the traversal has recorded for statement t once it is behind it *)
  Definition rec_stmt (t : stmt) (ws : list sym) : Prop :=
    match t with
    | Assign n _ _ | Reduce n _ _ => forall x, reach W n x -> ~ In x WN -> In x ws
    | Call fargs fbody args =>
        exists wsub, get_writes fbody = Ok wsub /\
          forall i a f n, nth_error args i = Some a -> nth_error fargs i = Some f ->
            name_of a = Some n -> In f wsub -> forall x, reach W n x -> ~ In x WN -> In x ws
    | _ => True
    end.

  Lemma rec_mono : forall t ws ws', rec_stmt t ws -> incl ws ws' -> rec_stmt t ws'.
  Proof.
    intros t ws ws' H Hi. destruct t; cbn in *; auto.
    destruct H as (wsub & E & H). exists wsub. split; auto. intros. apply Hi. eapply H; eauto.
  Qed.

  Definition GA (s : stmt) : Prop :=
    forall st st' D,
      gw_s s st = Ok st' -> wscoped_s WN D s = true -> InvW (wdict st) -> incl D (keys (wdict st)) ->
      incl (wins_s s) W -> rhs_ok_s s = true ->
      InvW (wdict st') /\ incl (writes st) (writes st') /\
      incl (keys (wdict st)) (keys (wdict st')) /\ incl (binds s) (keys (wdict st')) /\
      rec_stmt s (writes st') /\
      (forall S t, inner s S -> In t S -> rec_stmt t (writes st')).

  Lemma gw_list_spec : forall l, Forall GA l ->
    forall st st' D,
      gw_list gw_s l st = Ok st' -> wscoped WN D l = true -> InvW (wdict st) -> incl D (keys (wdict st)) ->
      incl (wins l) W -> forallb rhs_ok_s l = true ->
      InvW (wdict st') /\ incl (writes st) (writes st') /\
      incl (keys (wdict st)) (keys (wdict st')) /\
      (forall S t, subscope l S -> In t S -> rec_stmt t (writes st')).
  Proof.
    induction 1 as [|b r Hb Hr IH]; intros st st' D E Hsc Hi Hd Hw Hrhs.
    - cbn in E. inversion E; subst. split; [exact Hi|split; [apply incl_refl|split; [apply incl_refl|]]].
      intros S t HS Ht. apply subscope_inv in HS. destruct HS as [->|(s & [] & _)]. destruct Ht.
    - cbn [gw_list] in E. apply bind_ok in E. destruct E as (st1 & E1 & E2).
      unfold wscoped in Hsc. cbn [scoped_list] in Hsc. apply andb_true_iff in Hsc. destruct Hsc as (Hs1 & Hs2).
      cbn [forallb] in Hrhs. apply andb_true_iff in Hrhs. destruct Hrhs as (Hr1 & Hr2).
      unfold wins in Hw. cbn [flat_map] in Hw.
      assert (Hw1 : incl (wins_s b) W) by (intros p Hp; apply Hw; apply in_or_app; left; exact Hp).
      assert (Hw2 : incl (wins r) W) by (intros p Hp; apply Hw; apply in_or_app; right; exact Hp).
      destruct (Hb _ _ _ E1 Hs1 Hi Hd Hw1 Hr1) as (I1 & X1 & K1 & B1 & Rb & Rn).
      assert (Hd1 : incl (binds b ++ D) (keys (wdict st1))).
      { intros w Hin. apply in_app_or in Hin. destruct Hin as [Hin|Hin]; auto. }
      destruct (IH _ _ _ E2 Hs2 I1 Hd1 Hw2 Hr2) as (I2 & X2 & K2 & R2).
      split; [exact I2|split; [eapply incl_tran; eauto|split; [eapply incl_tran; eauto|]]].
      intros S t HS Ht. apply subscope_inv in HS. destruct HS as [->|(s & [<-|Hsr] & Hn)].
      + destruct Ht as [<-|Ht].
        * eapply rec_mono; eauto.
        * apply (R2 r t (sub_refl r) Ht).
      + eapply rec_mono; [|exact X2]. eapply Rn; eauto.
      + apply (R2 S t); auto. destruct s; try contradiction.
        * destruct Hn as [Hn|Hn]; [eapply sub_if_body|eapply sub_if_else]; eauto.
        * eapply sub_for; eauto.
  Qed.

  Lemma uses_in : forall D names n wd, uses_ok WN D names = true -> incl D (keys wd) -> In n names ->
    In n (keys wd) \/ ~ In n WN.
  Proof.
    intros D names n wd Hu Hd Hn. destruct (in_dec Z.eq_dec n WN) as [Hw|Hw]; [left|right; exact Hw].
    apply Hd. eapply uses_ok_spec; eauto.
  Qed.

  Lemma gw_s_spec : forall s, GA s.
  Proof.
    induction s using stmt_ind'; unfold GA; intros st st' D E Hsc Hi Hd Hw Hrhs; cbn [gw_s] in E.
    - (* Assign *)
      inversion E; subst st'. cbn [wdict writes].
      cbn [wscoped_s] in Hsc. apply andb_true_iff in Hsc. destruct Hsc as (Hu & _).
      split; [exact Hi|split; [apply incl_appl, incl_refl|split; [apply incl_refl|split; [intros x []|split]]]].
      + cbn [rec_stmt]. intros x Hr Hx. apply in_or_app. right. left.
        apply dget_root; auto. eapply uses_in; eauto. cbn. auto.
      + intros S t [].
    - (* Reduce *)
      inversion E; subst st'. cbn [wdict writes].
      cbn [wscoped_s] in Hsc. apply andb_true_iff in Hsc. destruct Hsc as (Hu & _).
      split; [exact Hi|split; [apply incl_appl, incl_refl|split; [apply incl_refl|split; [intros x []|split]]]].
      + cbn [rec_stmt]. intros x Hr Hx. apply in_or_app. right. left.
        apply dget_root; auto. eapply uses_in; eauto. cbn. auto.
      + intros S t [].
    - inversion E; subst st'.
      split; [exact Hi|split; [apply incl_refl|split; [apply incl_refl|split; [intros x []|split; [exact I|intros S t []]]]]].
    - inversion E; subst st'.
      split; [exact Hi|split; [apply incl_refl|split; [apply incl_refl|split; [intros x []|split; [exact I|intros S t []]]]]].
    - (* If *)
      apply bind_ok in E. destruct E as (st1 & E1 & E2).
      cbn [wscoped_s] in Hsc. apply andb_true_iff in Hsc. destruct Hsc as (Hu & Hsc).
      apply andb_true_iff in Hsc. destruct Hsc as (Hsb & Hse).
      cbn [wins_s] in Hw. fold (wins b) in Hw. fold (wins e) in Hw.
      assert (Hwb : incl (wins b) W) by (intros p Hp; apply Hw; apply in_or_app; left; exact Hp).
      assert (Hwe : incl (wins e) W) by (intros p Hp; apply Hw; apply in_or_app; right; exact Hp).
      cbn [rhs_ok_s] in Hrhs. apply andb_true_iff in Hrhs. destruct Hrhs as (Hrb & Hre).
      destruct (gw_list_spec _ H _ _ _ E1 Hsb Hi Hd Hwb Hrb) as (I1 & X1 & K1 & R1).
      assert (Hd1 : incl D (keys (wdict st1))) by (eapply incl_tran; eauto).
      destruct (gw_list_spec _ H0 _ _ _ E2 Hse I1 Hd1 Hwe Hre) as (I2 & X2 & K2 & R2).
      split; [exact I2|split; [eapply incl_tran; eauto|split; [eapply incl_tran; eauto|split; [intros x []|split; [exact I|]]]]].
      intros S t [HS|HS] Ht.
      + eapply rec_mono; [|exact X2]. eapply R1; eauto.
      + eapply R2; eauto.
    - (* For *)
      cbn [wscoped_s] in Hsc. apply andb_true_iff in Hsc. destruct Hsc as (Hu & Hsb).
      cbn [wins_s] in Hw. fold (wins b) in Hw. cbn [rhs_ok_s] in Hrhs.
      destruct (gw_list_spec _ H _ _ _ E Hsb Hi Hd Hw Hrhs) as (I1 & X1 & K1 & R1).
      split; [exact I1|split; [exact X1|split; [exact K1|split; [intros x []|split; [exact I|]]]]].
      intros S t HS Ht. eapply R1; eauto.
    - inversion E; subst st'.
      split; [exact Hi|split; [apply incl_refl|split; [apply incl_refl|split; [intros y []|split; [exact I|intros S t []]]]]].
    - inversion E; subst st'.
      split; [exact Hi|split; [apply incl_refl|split; [apply incl_refl|split; [intros y []|split; [exact I|intros S t []]]]]].
    - (* Call *)
      apply bind_ok in E. destruct E as (sub & Es & E). inversion E; subst st'. cbn [wdict writes].
      cbn [wscoped_s] in Hsc. apply andb_true_iff in Hsc. destruct Hsc as (Hu & _).
      split; [exact Hi|split; [apply incl_appl, incl_refl|split; [apply incl_refl|split; [intros x []|split]]]].
      + cbn [rec_stmt]. exists (writes sub). split.
        * unfold get_writes. rewrite Es. reflexivity.
        * intros i a f n Ha Hf Hn Hfw x Hr Hx. apply in_or_app. right.
          assert (Hd' : dget (wdict st) n n = x).
          { apply dget_root; auto. eapply uses_in; eauto. cbn [direct_uses used_s].
            apply in_flat_map. exists a. split. eapply nth_error_In; eauto. apply name_of_used; auto. }
          rewrite <- Hd'. eapply call_writes_in; eauto.
      + intros S t [].
    - (* WindowStmt *)
      cbn [wscoped_s] in Hsc. apply andb_true_iff in Hsc. destruct Hsc as (Hu & _).
      destruct (name_of rhs) as [b|] eqn:En; [|discriminate].
      apply bind_ok in E. destruct E as (r & Er & E). inversion E; subst st'. cbn [wdict writes].
      assert (HW : In (w, b) W).
      { apply Hw. cbn [wins_s win_pair]. destruct rhs; cbn in Hrhs, En; try discriminate; inversion En; subst; cbn; auto. }
      assert (Hb : In b (keys (wdict st)) \/ ~ In b WN).
      { eapply uses_in; eauto. cbn [direct_uses used_s]. apply name_of_used; auto. }
      destruct Hi as (Hk & Hl).
      assert (Hroot : reach W b r /\ ~ In r WN).
      { cbn [chase_root] in Er. destruct (lookup b (wdict st)) as [r1|] eqn:El.
        - destruct (Hl _ _ El) as (Hr1 & Hn1).
          assert (Hnone : lookup r1 (wdict st) = None).
          { apply lookup_none. intros Hin. apply Hn1. apply Hk. exact Hin. }
          destruct (wdict st) as [|p d0] eqn:Ed; [cbn in El; discriminate|].
          cbn [length chase_root] in Er. rewrite <- Ed in *. rewrite Hnone in Er. inversion Er; subst. auto.
        - inversion Er; subst. split. constructor.
          destruct Hb as [Hb|Hb]; auto. destruct (lookup_keys _ _ Hb) as (v & Hv). congruence. }
      destruct Hroot as (Hr & Hrn).
      split; [|split; [apply incl_refl|split; [intros x Hx; right; exact Hx|split; [intros x [<-|[]]; left; reflexivity|split; [exact I|intros S t []]]]]].
      split.
      + intros x [<-|Hx]. exact (in_map fst W (w, b) HW). apply Hk. exact Hx.
      + intros w' r' Hl'. cbn [lookup] in Hl'. destruct (Z.eqb w' w) eqn:Ew.
        * apply Z.eqb_eq in Ew. inversion Hl'; subst. split; auto. econstructor; eauto.
        * apply Hl. exact Hl'.
  Qed.
End WithW.

(* ------------------------------------------------------------------ from the traversal to the specification *)
Lemma body_ok_parts : forall l, body_ok l = true ->
  NoDup (map fst (wins l)) /\ wscoped (map fst (wins l)) [] l = true /\ forallb rhs_ok_s l = true.
Proof.
  intros l H. unfold body_ok in H.
  apply andb_true_iff in H. destruct H as (H & H3).
  apply andb_true_iff in H. destruct H as (H1 & H2).
  repeat split; auto using nodupb_NoDup.
Qed.

Lemma callees_subscope : forall l S, subscope l S -> forallb callees_ok l = true -> forallb callees_ok S = true.
Proof.
  induction 1 as [l|l c b e S Hin Hs IH|l c b e S Hin Hs IH|l lo hi b S Hin Hs IH]; intros H; auto; apply IH;
    pose proof (forallb_In _ _ _ _ H Hin) as Hc; cbn [callees_ok] in Hc.
  - apply andb_true_iff in Hc. tauto.
  - apply andb_true_iff in Hc. tauto.
  - exact Hc.
Qed.

Lemma callee_wf : forall l fargs fbody args, wfw_b l = true -> deep_in (Call fargs fbody args) l ->
  wfw_b fbody = true /\ disjointb fargs (map fst (wins fbody)) = true.
Proof.
  intros l fargs fbody args H (S & HS & Hin). unfold wfw_b in H. apply andb_true_iff in H. destruct H as (_ & H).
  pose proof (callees_subscope _ _ HS H) as HcS. pose proof (forallb_In _ _ _ _ HcS Hin) as Hc.
  cbn [callees_ok] in Hc. apply andb_true_iff in Hc. destruct Hc as (Hc & H3).
  apply andb_true_iff in Hc. destruct Hc as (H1 & H2).
  split; auto. unfold wfw_b. rewrite H1, H3. reflexivity.
Qed.

Lemma recorded : forall l nc, wfw_b l = true -> get_writes l = Ok nc ->
  forall t, deep_in t l -> rec_stmt (wins l) t nc.
Proof.
  intros l nc Hwf E t (S & HS & Hin).
  unfold wfw_b in Hwf. apply andb_true_iff in Hwf. destruct Hwf as (Hb & _).
  destruct (body_ok_parts _ Hb) as (Hn & Hsc & Hr).
  unfold get_writes in E. apply bind_ok in E. destruct E as (st & Eg & E). inversion E; subst nc.
  assert (Hall : Forall (GA (wins l)) l) by (apply Forall_forall; intros s _; apply gw_s_spec; exact Hn).
  assert (Hi : InvW (wins l) (wdict (WS [] []))) by (split; [intros x []|intros w r Hl; discriminate]).
  assert (Hd : incl [] (keys (wdict (WS [] [])))) by (intros x []).
  destruct (gw_list_spec (wins l) l Hall _ _ [] Eg Hsc Hi Hd (incl_refl _) Hr) as (_ & _ & _ & R).
  eapply R; eauto.
Qed.

Theorem writes_sound : forall l x, may_write l x ->
  wfw_b l = true -> forall nc, get_writes l = Ok nc -> ~ In x (map fst (wins l)) -> In x nc.
Proof.
  apply (may_write_mut
    (fun l n _ => wfw_b l = true -> forall nc, get_writes l = Ok nc ->
                  forall x, reach (wins l) n x -> ~ In x (map fst (wins l)) -> In x nc)
    (fun l x _ => wfw_b l = true -> forall nc, get_writes l = Ok nc -> ~ In x (map fst (wins l)) -> In x nc)).
  - intros l n idx rhs Hd Hwf nc E x Hr Hx.
    pose proof (recorded _ _ Hwf E _ Hd) as R. cbn [rec_stmt] in R. auto.
  - intros l n idx rhs Hd Hwf nc E x Hr Hx.
    pose proof (recorded _ _ Hwf E _ Hd) as R. cbn [rec_stmt] in R. auto.
  - intros l fargs fbody args i a f n Hd Ha Hf Hn Hmw IH Hwf nc E x Hr Hx.
    pose proof (recorded _ _ Hwf E _ Hd) as R. cbn [rec_stmt] in R. destruct R as (wsub & Es & R).
    destruct (callee_wf _ _ _ _ Hwf Hd) as (Hwf' & Hdis).
    eapply R; eauto. apply (IH Hwf' wsub Es).
    apply nth_error_In in Hf. unfold disjointb in Hdis. pose proof (forallb_In _ _ _ _ Hdis Hf) as Hx'.
    apply negb_true_iff in Hx'. apply memb_false in Hx'. exact Hx'.
  - intros l n x Hwn IH Hr Hwf nc E Hx. eapply IH; eauto.
Qed.

(* ------------------------------------------------------------------ the const decisions *)
Theorem const_sound : forall l nc, wfw_b l = true -> non_const l = Ok nc ->
  (* every buffer the body may write is in non_const *)
  (forall x, may_write l x -> ~ In x (map fst (wins l)) -> In x nc) /\
  (* an argument declared const (pointer or window struct) is not written through *)
  (forall a, ~ In a (map fst (wins l)) -> arg_is_const nc a = true -> ~ may_write l a) /\
  (* a window statement whose struct is const (decided on the source buffer) is on a buffer that is never written *)
  (forall src, ~ In src (map fst (wins l)) -> win_is_const nc src = true -> ~ may_write l src) /\
  (* a window passed to a callee as a const struct is not written by the callee *)
  (forall fargs fbody args wsub, deep_in (Call fargs fbody args) l -> get_writes fbody = Ok wsub ->
     forall i a f, nth_error args i = Some a -> nth_error fargs i = Some f ->
       negb (memb f wsub) = true -> ~ may_write fbody f).
Proof.
  intros l nc Hwf E. unfold non_const in E.
  assert (S1 : forall x, may_write l x -> ~ In x (map fst (wins l)) -> In x nc).
  { intros x Hm Hx. eapply writes_sound; eauto. }
  repeat split; auto.
  - intros a Ha Hc Hm. unfold arg_is_const in Hc. apply negb_true_iff in Hc. apply memb_false in Hc. auto.
  - intros a Ha Hc Hm. unfold win_is_const in Hc. apply negb_true_iff in Hc. apply memb_false in Hc. auto.
  - intros fargs fbody args wsub Hd Es i a f Ha Hf Hc Hm.
    apply negb_true_iff in Hc. apply memb_false in Hc. apply Hc.
    destruct (callee_wf _ _ _ _ Hwf Hd) as (Hwf' & Hdis).
    eapply writes_sound; eauto.
    apply nth_error_In in Hf. unfold disjointb in Hdis. pose proof (forallb_In _ _ _ _ Hdis Hf) as Hx'.
    apply negb_true_iff in Hx'. apply memb_false in Hx'. exact Hx'.
Qed.

(* hypotheses satisfiable:  foo(x, y, z): w = x[..]; v = w[..]; v[0] = y[0]; callee(v2 := window of z) where the callee
   writes its formal through a window of its own; y is only read.  non_const = {x, z}; y is const. *)
Example const_example :
  let callee := [WindowStmt 11 (WindowExpr 10 10 []); Assign 11 [Other] Other] in
  let l := [WindowStmt 4 (WindowExpr 1 1 []); WindowStmt 5 (WindowExpr 4 1 []);
            Assign 5 [Other] (Read 2 [Other]);
            Call [10] callee [WindowExpr 3 3 []]] in
  wfw_b l = true /\ non_const l = Ok [1; 3] /\
  const_decisions [1; 2; 3] l = Ok ([false; true; false], [false; false; false]) /\
  may_write l 1 /\ may_write l 3.
Proof.
  cbn zeta. split; [vm_compute; reflexivity|split; [vm_compute; reflexivity|split; [vm_compute; reflexivity|split]]].
  - apply mw_intro with (n := 5).
    + eapply wn_assign with (idx := [Other]) (rhs := Read 2 [Other]). eexists. split. apply sub_refl. cbn. auto.
    + cbn. eapply reach_step with (b := 4). cbn; auto. eapply reach_step with (b := 1). cbn; auto. constructor.
  - apply mw_intro with (n := 3).
    + eapply wn_call with (i := 0%nat) (f := 10) (a := WindowExpr 3 3 []).
      * eexists. split. apply sub_refl. cbn. auto 6.
      * reflexivity.
      * reflexivity.
      * reflexivity.
      * apply mw_intro with (n := 11).
        -- eapply wn_assign with (idx := [Other]) (rhs := Other). eexists. split. apply sub_refl. cbn. auto.
        -- cbn. eapply reach_step with (b := 10). cbn; auto. constructor.
    + constructor.
Qed.
