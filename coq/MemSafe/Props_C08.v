(* Props_C08.v — property C08 "Generated C is free of undefined behaviour and leaks": the theorems, nothing else.
   Models: ModelMem.v (MemoryAnalysis), Gen_Used.v (used_e/used_s, translated), ModelWrites.v (GetWrites + const
   decisions), ModelDiv.v (division lowering), Gen_Helpers.v (C text of the helpers, translated).
   Vocabulary: Spec.v.  Integers are unbounded Z (no machine overflow in these statements). *)
From Coq Require Import ZArith List Bool.
Import ListNotations.
From MemSafe Require Import Model Gen_Used Gen_Helpers ModelMem ModelWrites ModelDiv Spec
  ModelExec SpecExec ModelScope ProofsUsed ProofsFree ProofsDiv ProofsWrites ProofsTotal ProofsExec ProofsRun.
Open Scope Z_scope.

(* Every allocation of every scope is released exactly once, in the same scope (hence on every path through it and in
   every loop iteration), after the allocation; and the analysis changes nothing but adding Free statements. *)
Theorem C08_free_once : forall p q, wf_b p = true -> insert_frees p = Ok q ->
  erase_frees q = p /\
  forall S, subscope q S -> forall x,
    (In (Alloc x) S ->
       exists l1 l2 l3, S = l1 ++ Alloc x :: l2 ++ Free x :: l3 /\
         ~ In (Free x) (l1 ++ l2 ++ l3) /\ ~ In (Alloc x) (l1 ++ l2 ++ l3)) /\
    (In (Free x) S -> In (Alloc x) S).
Proof. exact free_once. Qed.
Print Assumptions C08_free_once.

(* No statement after `Free x` in its scope (nested statements included) mentions x, or a window whose base is
   transitively x. *)
Theorem C08_free_after : forall p q, wf_b p = true -> insert_frees p = Ok q ->
  forall S l1 x l2, subscope q S -> S = l1 ++ Free x :: l2 ->
  forall s n, In s l2 -> In n (used_s s) -> ~ reach (wins p) n x.
Proof. exact free_after. Qed.
Print Assumptions C08_free_after.

(* `used_s` (as the Python source defines it today) mentions every buffer or window a statement dereferences. *)
Theorem C08_used_covers : forall s x, derefs_s s x -> In x (used_s s).
Proof. exact used_s_covers. Qed.
Print Assumptions C08_used_covers.

(* Every buffer the procedure may write — directly, through a window alias, or in a callee — is in non_const; so an
   argument qualified const, a window struct declared const, and a window passed as a const struct are never written
   through. *)
Theorem C08_const : forall l nc, wfw_b l = true -> non_const l = Ok nc ->
  (forall x, may_write l x -> ~ In x (map fst (wins l)) -> In x nc) /\
  (forall a, ~ In a (map fst (wins l)) -> arg_is_const nc a = true -> ~ may_write l a) /\
  (forall src, ~ In src (map fst (wins l)) -> win_is_const nc src = true -> ~ may_write l src) /\
  (forall fargs fbody args wsub, deep_in (Call fargs fbody args) l -> get_writes fbody = Ok wsub ->
     forall i a f, nth_error args i = Some a -> nth_error fargs i = Some f ->
       negb (memb f wsub) = true -> ~ may_write fbody f).
Proof. exact const_sound. Qed.
Print Assumptions C08_const.

(* The C text of the helpers computes floor division and floor modulus (C `/` `%` = Z.quot / Z.rem). *)
Theorem C08_floor_div_helper : forall n q, 0 < q -> exo_floor_div n q = n / q.
Proof. exact floor_div_helper. Qed.
Print Assumptions C08_floor_div_helper.

Theorem C08_floor_mod_helper : forall n q, 0 < q -> exo_floor_mod n q = n mod q.
Proof. exact floor_mod_helper. Qed.
Print Assumptions C08_floor_mod_helper.

(* Both lowering paths (comp_e; lift_to_cir + simplify_cir + comp_cir) emit an expression that (1) has the value of
   the Exo expression under floor semantics, (2) divides only by positive literals (no division by zero), (3) uses a raw
   C `/` or `%` only on a non-negative dividend — provided divisors are positive literals and the range-analysis flags
   are sound. *)
Theorem C08_divmod_choice : forall rho sigma e,
  lit_div e -> flags_sound rho e ->
  correct rho sigma (comp_e e) (ieval rho e) /\
  (forall c, comp_index e = Some c -> correct rho sigma c (ieval rho e)).
Proof. exact divmod_choice. Qed.
Print Assumptions C08_divmod_choice.

(* The same for arbitrary CIR (buffer offsets contain stride nodes), through simplify_cir. *)
Theorem C08_divmod_cir : forall rho sigma k k',
  klit k -> ksound rho sigma k -> simplify_cir k = Some k' ->
  correct rho sigma (comp_cir k') (keval rho sigma k).
Proof. exact comp_cir_simplified_correct. Qed.
Print Assumptions C08_divmod_cir.

(* On well-formed input the modelled analysis raises none of its exceptions (no assertion of pop fails, no dictionary
   chase diverges): the hypotheses `insert_frees p = Ok q` above are not vacuous. *)
Theorem C08_total : forall p, wf_b p = true -> forallb rhs_ok_s p = true -> exists q, insert_frees p = Ok q.
Proof. exact insert_frees_total. Qed.
Print Assumptions C08_total.

(* Per-instance certificate: if the executable checker accepts a statement list with its Frees (the harness runs it on
   every real MemoryAnalysis output it exports), then on EVERY execution path — any branch, any trip count — no statement
   touches an allocation that is not live, nothing is freed twice or re-allocated while live, no scope is left with a
   block still allocated, and the procedure ends with nothing live. *)
Theorem C08_exec_certificate : forall q, exec_safe_b q = true -> runs_clean q.
Proof. exact exec_safe_sound. Qed.
Print Assumptions C08_exec_certificate.

(* The dynamic reading of C08's allocation clause, for ALL procedures: if the input is well-formed and its buffers are
   lexically scoped (both executable predicates, evaluated by the harness on every exported real procedure), then every
   execution of the analysed procedure — any branch, any trip count — touches live allocations only, frees nothing twice,
   leaves no scope with a block still allocated, and ends with nothing live. *)
Theorem C08_runs_clean : forall p q,
  wf_b p = true -> ascoped_b p = true -> insert_frees p = Ok q -> runs_clean q.
Proof. exact runs_clean_all. Qed.
Print Assumptions C08_runs_clean.
