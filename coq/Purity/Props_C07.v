(* Props_C07.v — property C07: "Scheduling operations and queries are pure: no call, successful or failing, alters
   any existing procedure, sub-procedure or cursor."
   Only the property theorems; proofs are in Proofs_PyHeap.v / Proofs_ListProg.v / Gen_Helpers.v (generated: one
   reflective proof per function translated from the CURRENT source by translator/py2listprog.py).

   frame h h'  :=  forall l o, hget h l = Some o -> hget h' l = Some o      (every old object is still there, unchanged) *)
From Coq Require Import List Bool NArith.
From Purity Require Import Model Proofs_PyHeap Proofs_ListProg Gen_ListProgs Gen_Helpers Gen_Fixtures.
Import ListNotations.

(* ---- (a) the atomic tree edits of internal_cursors.py only allocate, also when they raise part-way *)
Theorem C07_edit_frame :
  forall edit h t h' t', apply_heap edit h t = (h', t') -> forall l o, hget h l = Some o -> hget h' l = Some o.
Proof. exact edit_frame. Qed.
Print Assumptions C07_edit_frame.

Theorem C07_edits_frame :
  forall edits h t h' t', apply_edits edits h t = (h', t') -> forall l o, hget h l = Some o -> hget h' l = Some o.
Proof. exact edits_frame. Qed.
Print Assumptions C07_edits_frame.

(* ... hence every previously obtained root / cursor path denotes the same nodes afterwards *)
Theorem C07_old_cursors_still_resolve :
  forall edits h t h' t' old_root p x,
    apply_edits edits h t = (h', t') -> resolve h (VRef old_root) p = Some x -> resolve h' (VRef old_root) p = Some x.
Proof. exact old_cursors_still_resolve. Qed.
Print Assumptions C07_old_cursors_still_resolve.

(* sensitivity: Block._replace written with a slice assignment would not have the frame property *)
Theorem C07_inplace_replace_refuted :
  exists h t h' t' l o, replace_block_inplace [] 0%N 0 1 [] h t = (h', t') /\ hget h l = Some o /\ hget h' l <> Some o.
Proof. exact inplace_replace_breaks_frame. Qed.
Print Assumptions C07_inplace_replace_refuted.

(* ---- (b) soundness of the static analysis w.r.t. the heap semantics of ListProg: for every fuel (= every prefix of
   every execution, including those cut short by an exception), every oracle (= every resolution of the
   nondeterministic choices, indices, unknown results), every heap and every argument values *)
Theorem C07_analysis_sound :
  forall prog, may_mutate_shared prog = false ->
  forall fuel oracle h inputs h', run prog fuel oracle h inputs = h' -> frame h h'.
Proof. exact analysis_sound. Qed.
Print Assumptions C07_analysis_sound.

(* ---- (c) every function / method / closure / lambda translated from the current sources is pure *)
Theorem C07_all_helpers_pure :
  forallb (fun p => negb (may_mutate_shared p)) all_helpers = true.
Proof. exact all_helpers_pure. Qed.
Print Assumptions C07_all_helpers_pure.

Theorem C07_all_helpers_frame :
  forall p, In p all_helpers -> forall fuel oracle h inputs, frame h (run p fuel oracle h inputs).
Proof.
  intros p Hp fuel oracle h inputs. eapply analysis_sound; [|reflexivity].
  pose proof all_helpers_pure as A. rewrite forallb_forall in A. specialize (A p Hp).
  destruct (may_mutate_shared p); [discriminate|reflexivity].
Qed.
Print Assumptions C07_all_helpers_frame.

(* ---- (d) sensitivity: DoMultiplyDim as it was BEFORE the repair (fixtures/mult_dim_prefix.py, translated by the same
   translator on every run) is flagged, and the flag is not a false alarm: a concrete run of the translated
   remap_idx edits the list it was given *)
Theorem C07_prefix_mult_dim_flagged :
  may_mutate_shared fx_h_mult_dim_prefix_DoMultiplyDim_remap_idx = true /\
  may_mutate_shared fx_h_mult_dim_prefix_DoMultiplyDim_mk_read = true /\
  may_mutate_shared fx_h_mult_dim_prefix_DoMultiplyDim_mk_write = true.
Proof. vm_compute. repeat split. Qed.
Print Assumptions C07_prefix_mult_dim_flagged.

Theorem C07_prefix_mult_dim_refuted :
  exists fuel oracle h inputs, ~ frame h (run fx_h_mult_dim_prefix_DoMultiplyDim_remap_idx fuel oracle h inputs).
Proof.
  exists 100, (repeat 1 60), [OList [VRef 1; VRef 1]; ONode 0%N [(5%N, VOpq); (2%N, VOpq)]], [VRef 0].
  intro F. specialize (F 0 _ eq_refl). vm_compute in F. discriminate.
Qed.
Print Assumptions C07_prefix_mult_dim_refuted.
