"""FIXTURE (not imported by anything): DoMultiplyDim exactly as it was in /repo before the repair
`fix: mult_dim must not mutate the index lists of the source procedure` (git show 59eb0d81^).
The translator + analysis must flag remap_idx (in-place `idx[hi_idx] = ...; del idx[lo_idx]` on the list read
from the node); Props_C07.v proves it (C07_prefix_mult_dim_flagged)."""
def DoMultiplyDim(alloc_cursor, hi_idx, lo_idx):
    alloc_s = alloc_cursor._node
    alloc_sym = alloc_s.name

    assert isinstance(alloc_s, LoopIR.Alloc)
    assert isinstance(hi_idx, int)
    assert isinstance(lo_idx, int)

    lo_dim = alloc_s.type.shape()[lo_idx]
    if not isinstance(lo_dim, LoopIR.Const):
        raise SchedulingError(
            f"Cannot multiply with non-literal second dimension: {str(lo_dim)}"
        )

    lo_val = lo_dim.val

    old_typ = alloc_s.type
    shp = old_typ.shape().copy()
    hi_dim = shp[hi_idx]
    lo_dim = shp[lo_idx]
    prod = LoopIR.BinOp("*", lo_dim, hi_dim, hi_dim.type, hi_dim.srcinfo)
    shp[hi_idx] = prod
    del shp[lo_idx]
    new_typ = T.Tensor(shp, False, old_typ.basetype())

    ir, fwd = alloc_cursor._child_node("type")._replace(new_typ)

    def remap_idx(idx):
        hi = idx[hi_idx]
        lo = idx[lo_idx]
        mulval = LoopIR.Const(lo_val, T.int, hi.srcinfo)
        mul_hi = LoopIR.BinOp("*", mulval, hi, hi.type, hi.srcinfo)
        prod = LoopIR.BinOp("+", mul_hi, lo, T.index, hi.srcinfo)
        idx[hi_idx] = prod
        del idx[lo_idx]
        return idx

    def mk_read(c):
        rd = c._node

        if isinstance(rd, LoopIR.Read) and not rd.idx:
            raise SchedulingError(
                f"Cannot multiply {alloc_sym} because "
                f"buffer is passed as an argument"
            )

        if isinstance(rd, LoopIR.WindowExpr):
            raise SchedulingError(
                f"Cannot multiply {alloc_sym} because "
                f"the buffer is windowed later on"
            )

        return {"idx": remap_idx(rd.idx)}

    def mk_write(c):
        s = c._node
        return {"idx": remap_idx(s.idx)}

    for c in get_rest_of_block(alloc_cursor):
        ir, fwd = _replace_reads(ir, fwd, c, alloc_s.name, mk_read)
        ir, fwd = _replace_writes(ir, fwd, c, alloc_s.name, mk_write)

    return ir, fwd
