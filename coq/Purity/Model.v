(* Model.v — engine Purity (property C07).  Executable Gallina only, no proofs.

   Part 1  PyHeap   : a heap of Python objects.  LoopIR ADT nodes are immutable records (attrs.frozen) whose
                      list-valued fields hold REFERENCES to mutable list objects.  The atomic tree edits of
                      exo/core/internal_cursors.py (_rewrite, Block._replace/_delete/_wrap/_move, Gap._insert,
                      Node._replace) are re-expressed over this heap exactly as the code builds them:
                      `children[:i] + nodes + children[j:]` allocates a new list, `node.update(...)` allocates a
                      new node (asdl_adt rebuilds every sequence field in the generated __init__, so the new node
                      holds fresh copies of ALL its lists and shares the child NODES).
   Part 2  ListProg : a tiny imperative language of list operations with aliasing, its concrete heap semantics
                      (fuel + oracle for every nondeterministic choice, exceptions, return, break) and the static
                      may-alias analysis `may_mutate_shared`.                                                    *)
From Coq Require Import List Bool Arith PeanoNat NArith.
Import ListNotations.

(* ------------------------------------------------------------------------------------------------ *)
(** * Heap *)

Definition loc := nat.

Inductive val :=
| VRef (l : loc)      (* reference to a heap object (node or list) *)
| VOpq.               (* anything that is not a container: int, str, Sym, None, ... *)

Inductive obj :=
| ONode (cls : N) (fields : list (N * val))       (* attribute id -> value *)
| OList (elems : list val).                       (* list / dict / set: any mutable container *)

Definition heap := list obj.

Definition hget (h : heap) (l : loc) : option obj := nth_error h l.

Definition alloc (h : heap) (o : obj) : heap * loc := (h ++ [o], length h).

Fixpoint hset (h : heap) (l : loc) (o : obj) : heap :=
  match h, l with
  | [], _ => []
  | _ :: t, 0 => o :: t
  | x :: t, S l' => x :: hset t l' o
  end.

Fixpoint get_field (fs : list (N * val)) (a : N) : option val :=
  match fs with
  | [] => None
  | (b, v) :: t => if N.eqb a b then Some v else get_field t a
  end.

Fixpoint set_field (fs : list (N * val)) (a : N) (v : val) : list (N * val) :=
  match fs with
  | [] => [(a, v)]
  | (b, w) :: t => if N.eqb a b then (b, v) :: t else (b, w) :: set_field t a v
  end.

(* the frame: every object of h is still there, unchanged, in h' *)
Definition frame (h h' : heap) : Prop := forall l o, hget h l = Some o -> hget h' l = Some o.

(* ------------------------------------------------------------------------------------------------ *)
(** * Part 1: PyHeap — the tree edits of internal_cursors.py *)

Definition step := (N * option nat)%type.     (* (attribute, index in the list or None) *)
Definition path := list step.

(* asdl_adt's generated __init__:  `name = _validate_name(name)` returns `[point_valid(y) for y in val]` for every
   sequence field, i.e. a NEW list object; all other fields are stored as given. *)
Definition copy_if_list (h : heap) (v : val) : heap * val :=
  match v with
  | VRef l => match hget h l with
              | Some (OList es) => let (h', l') := alloc h (OList es) in (h', VRef l')
              | _ => (h, v)
              end
  | VOpq => (h, v)
  end.

Fixpoint copy_fields (h : heap) (fs : list (N * val)) : heap * list (N * val) :=
  match fs with
  | [] => (h, [])
  | (a, v) :: t => let (h1, v') := copy_if_list h v in
                   let (h2, t') := copy_fields h1 t in (h2, (a, v') :: t')
  end.

(* C(fields...) *)
Definition mk_node (h : heap) (c : N) (fs : list (N * val)) : heap * loc :=
  let (h1, fs1) := copy_fields h fs in alloc h1 (ONode c fs1).

(* node.update(attr = v)  ==  attrs.evolve(node, attr = v)  ==  type(node)(all fields..., attr = v) *)
Definition node_update (h : heap) (n : loc) (a : N) (v : val) : heap * option loc :=
  match hget h n with
  | Some (ONode c fs) => let (h', l) := mk_node h c (set_field fs a v) in (h', Some l)
  | _ => (h, None)
  end.

(* what `fn` / `impl` return inside Node._rewrite: one node or a (temporary) Python list of nodes *)
Inductive res := RVal (v : val) | RList (vs : list val).

Definition list_of (h : heap) (v : val) : option (list val) :=
  match v with
  | VRef l => match hget h l with Some (OList es) => Some es | _ => None end
  | VOpq => None
  end.

Definition fields_of (h : heap) (v : val) : option (loc * N * list (N * val)) :=
  match v with
  | VRef l => match hget h l with Some (ONode c fs) => Some (l, c, fs) | _ => None end
  | VOpq => None
  end.

(* Node._rewrite.impl(node, path, j) ; None = the Python code raises at that point (what was allocated stays) *)
Fixpoint rewrite (fn : heap -> val -> heap * option res) (p : path) (h : heap) (node : val) : heap * option res :=
  match p with
  | [] => fn h node
  | (a, i) :: p' =>
      match fields_of h node with
      | None => (h, None)
      | Some (n, _, fs) =>
          match get_field fs a with
          | None => (h, None)
          | Some children =>
              match i with
              | None =>                                   (* node.update(attr = impl(children, path, j + 1)) *)
                  match rewrite fn p' h children with
                  | (h1, Some (RVal v)) =>
                      match node_update h1 n a v with
                      | (h2, Some n') => (h2, Some (RVal (VRef n')))
                      | (h2, None) => (h2, None)
                      end
                  | (h1, _) => (h1, None)
                  end
              | Some k =>
                  match list_of h children with
                  | None => (h, None)
                  | Some cs =>
                      match nth_error cs k with
                      | None => (h, None)
                      | Some child =>
                          match rewrite fn p' h child with
                          | (h1, Some r) =>
                              let new_nodes := match r with RVal v => [v] | RList vs => vs end in
                              (* children[:i] + new_nodes + children[i + 1:] : a new list object *)
                              let (h2, l) := alloc h1 (OList (firstn k cs ++ new_nodes ++ skipn (S k) cs)) in
                              match node_update h2 n a (VRef l) with
                              | (h3, Some n') => (h3, Some (RVal (VRef n')))
                              | (h3, None) => (h3, None)
                              end
                          | (h1, None) => (h1, None)
                          end
                      end
                  end
              end
          end
      end
  end.

Definition root_of (r : heap * option res) : heap * option loc :=
  match r with
  | (h, Some (RVal (VRef l))) => (h, Some l)
  | (h, _) => (h, None)
  end.

(* walk a path (cursor._node) *)
Fixpoint resolve (h : heap) (node : val) (p : path) : option val :=
  match p with
  | [] => Some node
  | (a, i) :: p' =>
      match fields_of h node with
      | None => None
      | Some (_, _, fs) =>
          match get_field fs a with
          | None => None
          | Some c =>
              match i with
              | None => resolve h c p'
              | Some k => match list_of h c with
                          | Some cs => match nth_error cs k with Some x => resolve h x p' | None => None end
                          | None => None
                          end
              end
          end
      end
  end.

(* Block._replace.update *)
Definition block_update (a : N) (lo hi : nat) (nodes empty_default : list val) (h : heap) (node : val) : heap * option res :=
  match fields_of h node with
  | None => (h, None)
  | Some (n, _, fs) =>
      match get_field fs a with
      | None => (h, None)
      | Some c =>
          match list_of h c with
          | None => (h, None)
          | Some cs =>
              let nc := firstn lo cs ++ nodes ++ skipn hi cs in
              let nc' := match nc with [] => empty_default | _ => nc end in
              let (h1, l) := alloc h (OList nc') in
              match node_update h1 n a (VRef l) with
              | (h2, Some n') => (h2, Some (RVal (VRef n')))
              | (h2, None) => (h2, None)
              end
          end
      end
  end.

Definition replace_block (anchor : path) (a : N) (lo hi : nat) (nodes dflt : list val) (h : heap) (root : loc) : heap * option loc :=
  root_of (rewrite (block_update a lo hi nodes dflt) anchor h (VRef root)).

(* Gap._insert.update : `stmts + [anchor]` or `[anchor] + stmts` *)
Definition insert_update (after : bool) (stmts : list val) (h : heap) (node : val) : heap * option res :=
  (h, Some (RList (if after then node :: stmts else stmts ++ [node]))).

Definition insert_at (anchor : path) (after : bool) (stmts : list val) (h : heap) (root : loc) : heap * option loc :=
  match rev anchor with
  | (_, Some _) :: _ => root_of (rewrite (insert_update after stmts) anchor h (VRef root))
  | _ => (h, None)
  end.

(* Block._wrap *)
Definition wrap_block (anchor : path) (a : N) (lo hi : nat) (cls : N) (fs : list (N * val)) (wrap_attr : N)
           (h : heap) (root : loc) : heap * option loc :=
  match resolve h (VRef root) anchor with
  | None => (h, None)
  | Some node =>
      match fields_of h node with
      | None => (h, None)
      | Some (_, _, nfs) =>
          match get_field nfs a with
          | None => (h, None)
          | Some c =>
              match list_of h c with
              | None => (h, None)
              | Some cs =>
                  (* nodes = self.resolve_all()  (a slice: new list) ; new_node = ctor(wrap_attr = nodes) *)
                  let (h1, l) := alloc h (OList (firstn (hi - lo) (skipn lo cs))) in
                  let (h2, w) := mk_node h1 cls (set_field fs wrap_attr (VRef l)) in
                  root_of (rewrite (block_update a lo hi [VRef w] []) anchor h2 (VRef root))
              end
          end
      end
  end.

(* Block._delete : pass_stmt = [LoopIR.Pass(srcinfo)] ; self._replace([], empty_default=pass_stmt) *)
Definition delete_block (anchor : path) (a : N) (lo hi : nat) (pass_cls : N) (h : heap) (root : loc) : heap * option loc :=
  let (h1, p) := mk_node h pass_cls [] in
  replace_block anchor a lo hi [] [VRef p] h1 root.

(* Block._move helpers *)
Definition opt_nat_eqb (a b : option nat) : bool :=
  match a, b with
  | None, None => true
  | Some x, Some y => Nat.eqb x y
  | _, _ => false
  end.

Fixpoint is_before (g b : path) : bool :=
  match g, b with
  | (ga, gi) :: g', (ba, bi) :: b' =>
      if negb (N.eqb ga ba) then false
      else if negb (opt_nat_eqb gi bi)
           then match gi, bi with Some x, Some y => Nat.ltb x y | _, _ => false end
           else is_before g' b'
  | _, _ => true
  end.

Fixpoint set_last_idx (p : path) (k : nat) : path :=
  match p with
  | [] => []
  | [(a, _)] => [(a, Some k)]
  | s :: t => s :: set_last_idx t k
  end.

Definition path_eqb (p q : path) : bool :=
  Nat.eqb (length p) (length q) &&
  forallb (fun '((a, i), (b, j)) => N.eqb a b && opt_nat_eqb i j) (combine p q).

Definition last_step (p : path) : option step := match rev p with s :: _ => Some s | [] => None end.

(* `target in self` for a (non-edge) gap: its anchor node lies inside the block *)
Definition gap_in_block (anchor : path) (a : N) (lo hi : nat) (gap_anchor : path) : bool :=
  match last_step gap_anchor with
  | Some (ga, Some gi) =>
      path_eqb (removelast gap_anchor) anchor && N.eqb ga a && Nat.leb lo gi && Nat.ltb gi hi
  | _ => false
  end.

Definition move_block (anchor : path) (a : N) (lo hi : nat) (gap_anchor : path) (gap_after : bool) (pass_cls : N)
           (h : heap) (root : loc) : heap * option loc :=
  (* if target in self: target = self.before() *)
  let '(gap_anchor, gap_after) :=
    if gap_in_block anchor a lo hi gap_anchor then (anchor ++ [(a, Some lo)], false) else (gap_anchor, gap_after) in
  match resolve h (VRef root) anchor with
  | None => (h, None)
  | Some node =>
      match fields_of h node with
      | None => (h, None)
      | Some (_, _, nfs) =>
          match get_field nfs a with
          | None => (h, None)
          | Some c =>
              match list_of h c with
              | None => (h, None)
              | Some cs =>
                  let nodes := firstn (hi - lo) (skipn lo cs) in
                  let ins_idx := match last_step gap_anchor with
                                 | Some (_, Some i) => if gap_after then S i else i
                                 | _ => 0
                                 end in
                  if is_before (set_last_idx gap_anchor ins_idx) (anchor ++ [(a, Some lo)])
                  then match delete_block anchor a lo hi pass_cls h root with
                       | (h1, Some r1) => insert_at gap_anchor gap_after nodes h1 r1
                       | (h1, None) => (h1, None)
                       end
                  else match insert_at gap_anchor gap_after nodes h root with
                       | (h1, Some r1) => delete_block anchor a lo hi pass_cls h1 r1
                       | (h1, None) => (h1, None)
                       end
              end
          end
      end
  end.

Inductive edit :=
| EReplaceBlock (anchor : path) (attr : N) (lo hi : nat) (nodes : list val)            (* Block._replace(nodes) *)
| EReplaceNode (p : path) (new : val)                                            (* Node._replace(ast), ast not a list *)
| EInsert (anchor : path) (after : bool) (stmts : list val)                      (* Gap._insert(stmts) *)
| EDelete (anchor : path) (attr : N) (lo hi : nat) (pass_cls : N)                    (* Block._delete() *)
| EWrap (anchor : path) (attr : N) (lo hi : nat) (cls : N) (fs : list (N * val)) (wrap_attr : N)   (* Block._wrap *)
| EMove (anchor : path) (attr : N) (lo hi : nat) (gap_anchor : path) (gap_after : bool) (pass_cls : N). (* Block._move *)

Definition apply_heap (e : edit) (h : heap) (root : loc) : heap * option loc :=
  match e with
  | EReplaceBlock anchor a lo hi nodes => replace_block anchor a lo hi nodes [] h root
  | EReplaceNode p new => root_of (rewrite (fun h _ => (h, Some (RVal new))) p h (VRef root))
  | EInsert anchor after stmts => insert_at anchor after stmts h root
  | EDelete anchor a lo hi pc => delete_block anchor a lo hi pc h root
  | EWrap anchor a lo hi c fs wa => wrap_block anchor a lo hi c fs wa h root
  | EMove anchor a lo hi ga gaft pc => move_block anchor a lo hi ga gaft pc h root
  end.

(* a whole rewrite = a list of edits, each applied to the root produced by the previous one; a failing edit
   (the Python code raises) stops the sequence and leaves whatever was allocated so far *)
Fixpoint apply_edits (es : list edit) (h : heap) (root : loc) : heap * option loc :=
  match es with
  | [] => (h, Some root)
  | e :: es' => match apply_heap e h root with
                | (h1, Some r1) => apply_edits es' h1 r1
                | (h1, None) => (h1, None)
                end
  end.

(* NOT what the code does — used only for the sensitivity example: Block._replace editing `children` in place
   (children[lo:hi] = nodes) and returning the same root *)
Definition replace_block_inplace (anchor : path) (a : N) (lo hi : nat) (nodes : list val) (h : heap) (root : loc) : heap * option loc :=
  match resolve h (VRef root) anchor with
  | None => (h, None)
  | Some node =>
      match fields_of h node with
      | None => (h, None)
      | Some (_, _, fs) =>
          match get_field fs a with
          | Some (VRef lc) =>
              match hget h lc with
              | Some (OList cs) => (hset h lc (OList (firstn lo cs ++ nodes ++ skipn hi cs)), Some root)
              | _ => (h, None)
              end
          | _ => (h, None)
          end
      end
  end.

(* ------------------------------------------------------------------------------------------------ *)
(** * Part 2: ListProg *)

Inductive var :=
| Loc (n : N)          (* a local of the current activation *)
| Glob (n : N).        (* a variable shared between function bodies: `self.<field>`, a captured variable *)

Inductive elem := EV (x : var) | EO.

Inductive rkind :=
| RAttr (a : N)        (* x := y.a *)
| RItem.               (* x := y[i]  /  for x in y  /  x = y.pop()  (the element) *)

Inductive akind :=     (* everything that creates a NEW object *)
| ACopy (y : var)                          (* y.copy() | list(y) | sorted(y) | y[:] | dict(y) ... *)
| ASlice (y : var)                         (* y[i:j] *)
| AConcat (y z : var)                      (* y + z *)
| ALit (es : list elem)                    (* [e1, ..., en] | comprehension | {..} | set() *)
| ANode (cls : N) (fs : list (N * elem))         (* C(f1 = e1, ...) *)
| AUpdate (y : var) (fs : list (N * elem)).      (* y.update(f1 = e1, ...) *)

Inductive mkind :=     (* everything that changes an EXISTING object *)
| MSetItem | MDelItem | MPop | MAppend | MExtend | MInsert | MRemove | MSort | MReverse | MClear
| MSetAttr (a : N).

Inductive stmt :=
| SSkip
| SAssign (x y : var)
| SOpq (x : var)                           (* x := <not a container> *)
| SRead (x : var) (k : rkind) (y : var)
| SAlloc (x : var) (k : akind)
| SMut (lbl : N) (k : mkind) (x : var) (e : elem)     (* lbl = source line, for diagnostics only *)
| SCall (x : var) (f : N) (args : list var)
| SCallUnk (x : var) (args : list var)     (* callee outside the translated sources: assumed not to mutate its arguments *)
| SReturn (e : elem)
| SRaise
| SBreak                                   (* break / continue *)
| SSeq (s1 s2 : stmt)
| SIf (s1 s2 : stmt)                       (* nondeterministic choice *)
| SLoop (b : stmt)                         (* zero or more iterations *)
| STry (s1 s2 : stmt).                     (* s2 runs if s1 raised *)

Record fdef := mkFdef { params : list N; body : stmt }.

Record prog := mkProg {
  defs : list fdef;       (* function id = position *)
  gshd : list N;          (* globals that may hold a reference to a shared object *)
  scope : list N;         (* the entry and every function it can reach through SCall *)
  entry : N }.

(* ---- concrete semantics *)

Inductive mode := MNormal | MRet (v : val) | MExn | MBrk.

Record state := mkSt { hp : heap; lenv : list (N * val); genv : list (N * val); orc : list nat; md : mode }.

Fixpoint alookup (e : list (N * val)) (n : N) : val :=
  match e with
  | [] => VOpq
  | (m, v) :: t => if N.eqb n m then v else alookup t n
  end.

Definition getv (st : state) (x : var) : val :=
  match x with Loc n => alookup (lenv st) n | Glob g => alookup (genv st) g end.

Definition setv (st : state) (x : var) (v : val) : state :=
  match x with
  | Loc n => mkSt (hp st) ((n, v) :: lenv st) (genv st) (orc st) (md st)
  | Glob g => mkSt (hp st) (lenv st) ((g, v) :: genv st) (orc st) (md st)
  end.

Definition set_md (st : state) (m : mode) : state := mkSt (hp st) (lenv st) (genv st) (orc st) m.
Definition set_hp (st : state) (h : heap) : state := mkSt h (lenv st) (genv st) (orc st) (md st).

Definition next (st : state) : nat * state :=
  match orc st with
  | [] => (0, st)
  | n :: t => (n, mkSt (hp st) (lenv st) (genv st) t (md st))
  end.

Definition evale (st : state) (e : elem) : val := match e with EV x => getv st x | EO => VOpq end.

Definition eval_fields (st : state) (fs : list (N * elem)) : list (N * val) :=
  map (fun '(a, e) => (a, evale st e)) fs.

Fixpoint set_fields (fs : list (N * val)) (upd : list (N * val)) : list (N * val) :=
  match upd with [] => fs | (a, v) :: t => set_fields (set_field fs a v) t end.

(* the object built by an allocation (None: the Python expression raises) ; n, m : oracle numbers *)
Definition build (k : akind) (st : state) (n m : nat) : option obj :=
  match k with
  | ACopy y => match getv st y with
               | VRef l => match hget (hp st) l with Some o => Some o | None => None end
               | VOpq => Some (OList [])
               end
  | ASlice y => match list_of (hp st) (getv st y) with
                | Some es => Some (OList (firstn m (skipn n es)))
                | None => None
                end
  | AConcat y z => match list_of (hp st) (getv st y), list_of (hp st) (getv st z) with
                   | Some a, Some b => Some (OList (a ++ b))
                   | _, _ => None
                   end
  | ALit es => Some (OList (map (evale st) es))
  | ANode c fs => Some (ONode c (eval_fields st fs))
  | AUpdate y fs => match fields_of (hp st) (getv st y) with
                    | Some (_, c, ofs) => Some (ONode c (set_fields ofs (eval_fields st fs)))
                    | None => None
                    end
  end.

Definition read (k : rkind) (h : heap) (v : val) (n : nat) : option val :=
  match v with
  | VRef l => match hget h l, k with
              | Some (ONode _ fs), RAttr a => get_field fs a
              | Some (OList es), RItem => nth_error es n
              | Some (ONode _ fs), RItem => option_map snd (nth_error fs n)
              | _, _ => None
              end
  | VOpq => None
  end.

Definition apply_mut (k : mkind) (h : heap) (o : obj) (v : val) (n : nat) : option obj :=
  match k, o with
  | MSetItem, OList es => if Nat.ltb n (length es) then Some (OList (firstn n es ++ v :: skipn (S n) es))
                          else Some (OList (es ++ [v]))         (* dict: new key *)
  | MDelItem, OList es | MPop, OList es | MRemove, OList es =>
      if Nat.ltb n (length es) then Some (OList (firstn n es ++ skipn (S n) es)) else None
  | MAppend, OList es => Some (OList (es ++ [v]))
  | MExtend, OList es => match list_of h v with Some es2 => Some (OList (es ++ es2)) | None => None end
  | MInsert, OList es => Some (OList (firstn n es ++ v :: skipn n es))
  | MSort, OList es | MReverse, OList es => Some (OList (rev es))
  | MClear, OList _ => Some (OList [])
  | MSetAttr a, ONode c fs => Some (ONode c (set_field fs a v))
  | _, _ => None
  end.

Fixpoint bind (ps : list N) (vs : list val) : list (N * val) :=
  match ps, vs with
  | p :: ps', v :: vs' => (p, v) :: bind ps' vs'
  | _, _ => []
  end.

(* fuel bounds the depth of the evaluation; running out of it is an asynchronous exception (RecursionError,
   KeyboardInterrupt, MemoryError can strike anywhere in Python as well), so every prefix of every execution is
   covered by the semantics and hence by the frame theorem *)
Fixpoint exec (fuel : nat) (P : list fdef) (s : stmt) (st : state) : state :=
  match md st with
  | MNormal =>
      match fuel with
      | 0 => set_md st MExn
      | S f =>
          match s with
          | SSkip => st
          | SAssign x y => setv st x (getv st y)
          | SOpq x => setv st x VOpq
          | SRead x k y =>
              let (n, st1) := next st in
              match read k (hp st1) (getv st1 y) n with
              | Some v => setv st1 x v
              | None => set_md st1 MExn
              end
          | SAlloc x k =>
              let (n, st1) := next st in
              let (m, st2) := next st1 in
              match build k st2 n m with
              | Some o => let (h', l) := alloc (hp st2) o in setv (set_hp st2 h') x (VRef l)
              | None => set_md st2 MExn
              end
          | SMut _ k x e =>
              let (n, st1) := next st in
              match getv st1 x with
              | VRef l =>
                  match hget (hp st1) l with
                  | Some o => match apply_mut k (hp st1) o (evale st1 e) n with
                              | Some o' => set_hp st1 (hset (hp st1) l o')
                              | None => set_md st1 MExn
                              end
                  | None => set_md st1 MExn
                  end
              | VOpq => set_md st1 MExn
              end
          | SCall x g args =>
              match nth_error P (N.to_nat g) with
              | None => set_md st MExn
              | Some d =>
                  let st0 := mkSt (hp st) (bind (params d) (map (getv st) args)) (genv st) (orc st) MNormal in
                  let st1 := exec f P (body d) st0 in
                  let stc := mkSt (hp st1) (lenv st) (genv st1) (orc st1) MNormal in
                  match md st1 with
                  | MExn => set_md stc MExn
                  | MRet v => setv stc x v
                  | _ => setv stc x VOpq
                  end
              end
          | SCallUnk x args =>
              let (n, st1) := next st in
              match n with
              | 0 => set_md st1 MExn
              | 1 => setv st1 x VOpq
              | S (S l) => setv st1 x (VRef l)
              end
          | SReturn e => set_md st (MRet (evale st e))
          | SRaise => set_md st MExn
          | SBreak => set_md st MBrk
          | SSeq a b => exec f P b (exec f P a st)
          | SIf a b => let (n, st1) := next st in if Nat.eqb n 0 then exec f P a st1 else exec f P b st1
          | SLoop b =>
              let (n, st1) := next st in
              if Nat.eqb n 0 then st1
              else let st2 := exec f P b st1 in
                   let st3 := match md st2 with MBrk => set_md st2 MNormal | _ => st2 end in
                   exec f P (SLoop b) st3
          | STry a b =>
              let st1 := exec f P a st in
              match md st1 with
              | MExn => exec f P b (set_md st1 MNormal)
              | _ => st1
              end
          end
      end
  | _ => st
  end.

(* run the entry function on a heap and argument values; the result is the final heap *)
Definition run (P : prog) (fuel : nat) (o : list nat) (h : heap) (args : list val) : heap :=
  match nth_error (defs P) (N.to_nat (entry P)) with
  | None => h
  | Some d => hp (exec fuel (defs P) (body d) (mkSt h (bind (params d) args) [] o MNormal))
  end.

(* ---- the static analysis *)

Definition aset := list N.

Fixpoint mem (n : N) (X : aset) : bool :=
  match X with [] => false | m :: t => N.eqb n m || mem n t end.

Definition addn (n : N) (X : aset) : aset := if mem n X then X else n :: X.
Definition union (X T : aset) : aset := fold_right addn X T.
Fixpoint remn (n : N) (X : aset) : aset :=
  match X with [] => [] | m :: t => if N.eqb n m then remn n t else m :: remn n t end.
Definition subset (X T : aset) : bool := forallb (fun n => mem n T) X.

Inductive viol :=
| VMut (x : var) (lbl : N)   (* the statement at source line lbl may mutate an object that existed before the call *)
| VGlob (g : N)       (* a maybe-shared reference is stored in a global declared fresh *)
| VUnstable.            (* the loop invariant computed for a loop is not stable *)

(* may x hold a reference to a shared (pre-existing) object? *)
Definition cls (gsh X : aset) (x : var) : bool :=
  match x with Loc n => mem n X | Glob g => mem g gsh end.

Definition setc (gsh : aset) (x : var) (c : bool) (X : aset) : aset * list viol :=
  match x with
  | Loc n => (if c then addn n X else remn n X, [])
  | Glob g => (X, if c && negb (mem g gsh) then [VGlob g] else [])
  end.

Definition lvar (x : var) : list N := match x with Loc n => [n] | Glob _ => [] end.

(* locals to which a statement may assign a value that is possibly shared (everything except a new object or a
   non-container); a local outside this list is, at every intermediate point of the statement, either unchanged
   or holds a new object *)
Fixpoint assigned (s : stmt) : list N :=
  match s with
  | SAssign x _ | SRead x _ _ | SCall x _ _ | SCallUnk x _ => lvar x
  | SSeq a b | SIf a b | STry a b => assigned a ++ assigned b
  | SLoop b => assigned b
  | _ => []
  end.

(* does the statement contain a break that belongs to the enclosing loop? *)
Fixpoint has_brk (s : stmt) : bool :=
  match s with
  | SBreak => true
  | SSeq a b | SIf a b | STry a b => has_brk a || has_brk b
  | _ => false
  end.

Fixpoint iter_n {A : Type} (k : nat) (f : A -> A) (x : A) : A :=
  match k with 0 => x | S k' => iter_n k' f (f x) end.

(* X = locals that may hold a shared reference on entry; result: the same on (normal) exit + violations *)
Fixpoint an (gsh : aset) (s : stmt) (X : aset) : aset * list viol :=
  match s with
  | SSkip | SReturn _ | SRaise | SBreak => (X, [])
  | SAssign x y => setc gsh x (cls gsh X y) X
  | SOpq x | SAlloc x _ => setc gsh x false X
  | SRead x _ _ | SCall x _ _ | SCallUnk x _ => setc gsh x true X
  | SMut lbl _ x _ => (X, if cls gsh X x then [VMut x lbl] else [])
  | SSeq a b => let (X1, v1) := an gsh a X in let (X2, v2) := an gsh b X1 in (X2, v1 ++ v2)
  | SIf a b => let (X1, v1) := an gsh a X in let (X2, v2) := an gsh b X in (union X1 X2, v1 ++ v2)
  | SLoop b =>
      let X0 := if has_brk b then union X (assigned b) else X in
      (* two rounds of widening; whether the result is an invariant is CHECKED below (VUnstable otherwise) *)
      let Xx := iter_n 2 (fun T => union T (fst (an gsh b T))) X0 in
      let (X1, v1) := an gsh b Xx in
      (Xx, v1 ++ (if subset X1 Xx then [] else [VUnstable]))
  | STry a b =>
      let (X1, v1) := an gsh a X in
      let (X2, v2) := an gsh b (union X (assigned a)) in
      (union X1 X2, v1 ++ v2)
  end.

Fixpoint calls (s : stmt) : list N :=
  match s with
  | SCall _ f _ => [f]
  | SSeq a b | SIf a b | STry a b => calls a ++ calls b
  | SLoop b => calls b
  | _ => []
  end.

Definition nullb {A : Type} (l : list A) : bool := match l with [] => true | _ => false end.

(* parameters are shared: a function is analysed once, for every caller *)
Definition fun_ok (ds : list fdef) (gsh scp : aset) (f : N) : bool :=
  match nth_error ds (N.to_nat f) with
  | None => false
  | Some d => nullb (snd (an gsh (body d) (params d))) && forallb (fun g => mem g scp) (calls (body d))
  end.

Definition prog_ok (P : prog) : bool :=
  mem (entry P) (scope P) && forallb (fun_ok (defs P) (gshd P) (scope P)) (scope P).

Definition may_mutate_shared (P : prog) : bool := negb (prog_ok P).

(* ---- inference of the shared globals (any result is sound: prog_ok re-checks it) *)

Definition glob_viols (vs : list viol) : list N :=
  flat_map (fun v => match v with VGlob g => [g] | _ => [] end) vs.

Definition infer_step (ds : list fdef) (gsh : aset) : aset :=
  fold_left (fun acc d => union acc (glob_viols (snd (an gsh (body d) (params d))))) ds gsh.

Fixpoint infer_gsh_from (rounds : nat) (ds : list fdef) (gsh : aset) : aset :=
  match rounds with
  | 0 => gsh
  | S r => let g' := infer_step ds gsh in
           if Nat.eqb (length g') (length gsh) then gsh else infer_gsh_from r ds g'
  end.

Definition infer_gsh (rounds : nat) (ds : list fdef) : aset := infer_gsh_from rounds ds [].

(* diagnostics for the harness: the violations of one function *)
Definition fun_viols (ds : list fdef) (gsh : aset) (f : N) : list viol :=
  match nth_error ds (N.to_nat f) with None => [VUnstable] | Some d => snd (an gsh (body d) (params d)) end.

(* ---- the same check with the per-function analysis results tabulated once (what the generated examples evaluate) *)

Definition viol_table (ds : list fdef) (gsh : aset) : list (list viol) :=
  map (fun d => snd (an gsh (body d) (params d))) ds.

Definition fun_ok_t (ds : list fdef) (tbl : list (list viol)) (scp : aset) (f : N) : bool :=
  match nth_error ds (N.to_nat f), nth_error tbl (N.to_nat f) with
  | Some d, Some vs => nullb vs && forallb (fun g => mem g scp) (calls (body d))
  | _, _ => false
  end.

Definition prog_ok_t (tbl : list (list viol)) (P : prog) : bool :=
  mem (entry P) (scope P) && forallb (fun_ok_t (defs P) tbl (scope P)) (scope P).

(* a helper = the whole translated program, entered at one function, with the functions it can reach *)
Definition helper (ds : list fdef) (gsh : aset) (se : list N * N) : prog := mkProg ds gsh (fst se) (snd se).

