(* Proofs_ListProg.v — soundness of the may-alias analysis `may_mutate_shared` w.r.t. the heap semantics of ListProg. *)
From Coq Require Import List Bool Arith PeanoNat NArith Lia.
From Purity Require Import Model.
Import ListNotations.

(* ------------------------------------------------------------------------------------------------ *)
(** * finite sets as lists *)

Lemma mem_addn : forall m n X, mem m (addn n X) = N.eqb m n || mem m X.
Proof.
  intros. unfold addn. destruct (mem n X) eqn:E; simpl; auto.
  destruct (N.eqb m n) eqn:F; simpl; auto. apply N.eqb_eq in F. subst. auto.
Qed.

Lemma mem_union : forall m T X, mem m (union X T) = mem m X || mem m T.
Proof.
  induction T; intros; simpl.
  - rewrite orb_false_r. reflexivity.
  - unfold union in *. simpl. rewrite mem_addn. rewrite IHT.
    destruct (N.eqb m a), (mem m X), (mem m T); reflexivity.
Qed.

Lemma mem_remn : forall m n X, mem m (remn n X) = negb (N.eqb m n) && mem m X.
Proof.
  induction X; intros; simpl.
  - rewrite andb_false_r. reflexivity.
  - destruct (N.eqb n a) eqn:E.
    + apply N.eqb_eq in E. subst. rewrite IHX. destruct (N.eqb m a); reflexivity.
    + simpl. rewrite IHX. destruct (N.eqb m a) eqn:F; simpl.
      * apply N.eqb_eq in F. subst. rewrite N.eqb_sym in E. rewrite E. reflexivity.
      * reflexivity.
Qed.

Lemma subset_spec : forall X T, subset X T = true -> forall n, mem n X = true -> mem n T = true.
Proof.
  unfold subset. induction X; simpl; intros; try discriminate.
  apply andb_true_iff in H. destruct H.
  apply orb_true_iff in H0. destruct H0.
  - apply N.eqb_eq in H0. subst. assumption.
  - eauto.
Qed.

Lemma subset_intro : forall X T, (forall n, mem n X = true -> mem n T = true) -> subset X T = true.
Proof.
  unfold subset. induction X; simpl; intros; auto.
  apply andb_true_iff. split.
  - apply H. rewrite N.eqb_refl. reflexivity.
  - apply IHX. intros. apply H. rewrite H0. apply orb_true_r.
Qed.

Lemma mem_In : forall n X, mem n X = true <-> In n X.
Proof.
  induction X; simpl; split; intros; try discriminate; try contradiction.
  - apply orb_true_iff in H. destruct H.
    + apply N.eqb_eq in H. auto.
    + right. apply IHX. assumption.
  - apply orb_true_iff. destruct H.
    + left. subst. apply N.eqb_refl.
    + right. apply IHX. assumption.
Qed.

(* adding what is already there returns the very same list *)
Lemma union_absorb : forall T X, subset T X = true -> union X T = X.
Proof.
  unfold union, subset. induction T; simpl; intros; auto.
  apply andb_true_iff in H. destruct H. rewrite IHT by assumption.
  unfold addn. rewrite H. reflexivity.
Qed.

Lemma iter_n_fix : forall (A : Type) (f : A -> A) x k, f x = x -> iter_n k f x = x.
Proof. induction k; simpl; intros; auto. rewrite H. auto. Qed.

Lemma iter_n_incl : forall (f : aset -> aset),
    (forall T n, mem n T = true -> mem n (f T) = true) ->
    forall k T n, mem n T = true -> mem n (iter_n k f T) = true.
Proof. induction k; simpl; intros; auto. Qed.

(* ------------------------------------------------------------------------------------------------ *)
(** * heap facts *)

Lemma hset_length : forall h l o, length (hset h l o) = length h.
Proof. induction h; destruct l; simpl; intros; auto. Qed.

Lemma hset_other : forall h l o l', l' <> l -> nth_error (hset h l o) l' = nth_error h l'.
Proof.
  induction h; intros; simpl.
  - destruct l; reflexivity.
  - destruct l; destruct l'; simpl; try reflexivity; try congruence.
    apply IHh. congruence.
Qed.

Lemma alookup_bind_notin : forall ps vs n, mem n ps = false -> alookup (bind ps vs) n = VOpq.
Proof.
  induction ps; intros; simpl; auto.
  destruct vs; simpl; auto.
  simpl in H. apply orb_false_iff in H. destruct H. rewrite H. auto.
Qed.

(* ------------------------------------------------------------------------------------------------ *)
(** * statements that do not touch a local leave it alone; break does not escape a loop *)

Lemma next_lenv : forall st n st', next st = (n, st') -> lenv st' = lenv st /\ genv st' = genv st /\ hp st' = hp st /\ md st' = md st.
Proof. unfold next. intros. destruct (orc st); inversion H; subst; simpl; auto. Qed.

Lemma lenv_setv_other : forall st x v n, ~ In n (lvar x) -> alookup (lenv (setv st x v)) n = alookup (lenv st) n.
Proof.
  intros. destruct x; simpl in *; auto.
  destruct (N.eqb n n0) eqn:E; auto. apply N.eqb_eq in E. subst. tauto.
Qed.

Lemma exec_abort : forall fuel ds s st, md st <> MNormal -> exec fuel ds s st = st.
Proof. intros. destruct fuel; simpl; destruct (md st); congruence. Qed.

Lemma hp_setv : forall st x v, hp (setv st x v) = hp st.
Proof. destruct x; reflexivity. Qed.
Lemma md_setv : forall st x v, md (setv st x v) = md st.
Proof. destruct x; reflexivity. Qed.

(* the heap never shrinks *)
Lemma exec_hp_mono : forall ds fuel s st, length (hp st) <= length (hp (exec fuel ds s st)).
Proof.
  induction fuel; intros s st.
  { simpl. destruct (md st); simpl; auto. }
  simpl. destruct (md st) eqn:M; auto.
  destruct s; simpl; auto; try (rewrite hp_setv; auto; fail).
  - destruct (next st) as [j st1] eqn:N. apply next_lenv in N. destruct N as (_ & _ & H1 & _).
    destruct (read k (hp st1) (getv st1 y) j); [rewrite hp_setv|simpl]; rewrite H1; auto.
  - destruct (next st) as [j st1] eqn:N. apply next_lenv in N. destruct N as (_ & _ & H1 & _).
    destruct (next st1) as [j' st2] eqn:N2. apply next_lenv in N2. destruct N2 as (_ & _ & H2 & _).
    destruct (build k st2 j j'); simpl.
    + rewrite hp_setv. simpl. rewrite app_length, H2, H1. lia.
    + rewrite H2, H1. auto.
  - destruct (next st) as [j st1] eqn:N. apply next_lenv in N. destruct N as (_ & _ & H1 & _).
    destruct (getv st1 x); simpl; try (rewrite H1; auto; fail).
    destruct (hget (hp st1) l); simpl; try (rewrite H1; auto; fail).
    destruct (apply_mut k (hp st1) o (evale st1 e) j); simpl; try rewrite hset_length; rewrite H1; auto.
  - destruct (nth_error ds (N.to_nat f)) as [d|]; simpl; auto.
    set (st0 := mkSt _ _ _ _ _). pose proof (IHfuel (body d) st0) as I. simpl in I.
    destruct (md (exec fuel ds (body d) st0)); simpl; try rewrite hp_setv; simpl; auto.
  - destruct (next st) as [j st1] eqn:N. apply next_lenv in N. destruct N as (_ & _ & H1 & _).
    destruct j as [|[|j]]; simpl; try rewrite hp_setv; rewrite H1; auto.
  - etransitivity; [apply (IHfuel s1 st)|apply IHfuel].
  - destruct (next st) as [j st1] eqn:N. apply next_lenv in N. destruct N as (_ & _ & H1 & _).
    rewrite <- H1. destruct (Nat.eqb j 0); apply IHfuel.
  - destruct (next st) as [j st1] eqn:N. apply next_lenv in N. destruct N as (_ & _ & H1 & _).
    rewrite <- H1. destruct (Nat.eqb j 0); auto.
    etransitivity; [apply (IHfuel s st1)|].
    etransitivity; [|apply IHfuel].
    destruct (md (exec fuel ds s st1)); simpl; auto.
  - pose proof (IHfuel s1 st) as I1.
    destruct (md (exec fuel ds s1 st)); auto.
    etransitivity; [exact I1|]. etransitivity; [|apply IHfuel]. simpl. auto.
Qed.

Definition lfresh (k : nat) (v : val) : Prop := match v with VRef l => k <= l | VOpq => True end.

Lemma lfresh_mono : forall k k' v, k <= k' -> lfresh k' v -> lfresh k v.
Proof. unfold lfresh. intros. destruct v; auto. lia. Qed.

(* a local outside `assigned s` is unchanged or holds an object allocated during the execution of s *)
Lemma exec_lenv_keep : forall ds fuel s st n,
    ~ In n (assigned s) ->
    alookup (lenv (exec fuel ds s st)) n = alookup (lenv st) n \/
    lfresh (length (hp st)) (alookup (lenv (exec fuel ds s st)) n).
Proof.
  induction fuel; intros s st n H.
  { simpl. destruct (md st); auto. }
  simpl. destruct (md st) eqn:M; auto.
  destruct s; simpl in *; auto.
  - left. apply lenv_setv_other; auto.
  - destruct x; simpl; auto. destruct (N.eqb n n0); simpl; auto.
  - destruct (next st) as [j st1] eqn:N. apply next_lenv in N. destruct N as (L & _).
    left. destruct (read k (hp st1) (getv st1 y) j).
    + rewrite lenv_setv_other; auto. rewrite L. auto.
    + simpl. rewrite L. auto.
  - destruct (next st) as [j st1] eqn:N. apply next_lenv in N. destruct N as (L & _ & H1 & _).
    destruct (next st1) as [j' st2] eqn:N2. apply next_lenv in N2. destruct N2 as (L2 & _ & H2 & _).
    destruct (build k st2 j j').
    + simpl. destruct x; simpl.
      * destruct (N.eqb n n0); simpl; [right; rewrite H2, H1; auto | left; rewrite L2, L; auto].
      * left. rewrite L2, L. auto.
    + left. simpl. rewrite L2, L. auto.
  - destruct (next st) as [j st1] eqn:N. apply next_lenv in N. destruct N as (L & _).
    left. destruct (getv st1 x); simpl; try (rewrite L; auto; fail).
    destruct (hget (hp st1) l); simpl; try (rewrite L; auto; fail).
    destruct (apply_mut k (hp st1) o (evale st1 e) j); simpl; rewrite L; auto.
  - left. destruct (nth_error ds (N.to_nat f)) as [d|]; simpl; auto.
    set (st1 := exec fuel ds (body d) _). destruct (md st1); simpl; auto;
      rewrite lenv_setv_other; auto.
  - destruct (next st) as [j st1] eqn:N. apply next_lenv in N. destruct N as (L & _).
    left. destruct j as [|[|j]]; simpl; try (rewrite L; auto; fail);
      rewrite lenv_setv_other; auto; rewrite L; auto.
  - assert (N1 : ~ In n (assigned s1)) by (intro; apply H; apply in_or_app; auto).
    assert (N2 : ~ In n (assigned s2)) by (intro; apply H; apply in_or_app; auto).
    destruct (IHfuel s2 (exec fuel ds s1 st) n N2) as [E|F].
    + rewrite E. apply IHfuel; auto.
    + right. eapply lfresh_mono; [apply (exec_hp_mono ds fuel s1 st)|exact F].
  - destruct (next st) as [j st1] eqn:N. apply next_lenv in N. destruct N as (L & _ & H1 & _).
    rewrite <- L, <- H1.
    destruct (Nat.eqb j 0); apply IHfuel; intro; apply H; apply in_or_app; auto.
  - destruct (next st) as [j st1] eqn:N. apply next_lenv in N. destruct N as (L & _ & H1 & _).
    rewrite <- L, <- H1.
    destruct (Nat.eqb j 0); auto.
    set (st2 := exec fuel ds s st1).
    set (st3 := match md st2 with MBrk => set_md st2 MNormal | _ => st2 end).
    assert (L3 : lenv st3 = lenv st2) by (unfold st3; destruct (md st2); reflexivity).
    assert (H3 : hp st3 = hp st2) by (unfold st3; destruct (md st2); reflexivity).
    destruct (IHfuel (SLoop s) st3 n H) as [E|F].
    + rewrite E, L3. apply IHfuel; auto.
    + right. eapply lfresh_mono; [|exact F]. rewrite H3. apply exec_hp_mono.
  - assert (N1 : ~ In n (assigned s1)) by (intro; apply H; apply in_or_app; auto).
    assert (N2 : ~ In n (assigned s2)) by (intro; apply H; apply in_or_app; auto).
    destruct (md (exec fuel ds s1 st)) eqn:M1; try (apply IHfuel; auto; fail).
    destruct (IHfuel s2 (set_md (exec fuel ds s1 st) MNormal) n N2) as [E|F].
    + rewrite E. simpl. apply IHfuel; auto.
    + right. eapply lfresh_mono; [|exact F]. simpl. apply exec_hp_mono.
Qed.

Lemma exec_no_brk : forall ds fuel s st,
    md st <> MBrk -> has_brk s = false -> md (exec fuel ds s st) <> MBrk.
Proof.
  induction fuel; intros s st H H0.
  { simpl. destruct (md st) eqn:M; simpl; congruence. }
  simpl. destruct (md st) eqn:M; try congruence.
  destruct s; simpl in *; try discriminate; try congruence.
  - rewrite md_setv. congruence.
  - rewrite md_setv. congruence.
  - destruct (next st) as [j st1] eqn:N. apply next_lenv in N. destruct N as (_ & _ & _ & MM).
    destruct (read k (hp st1) (getv st1 y) j); simpl; try congruence.
    rewrite md_setv. congruence.
  - destruct (next st) as [j st1] eqn:N. apply next_lenv in N. destruct N as (_ & _ & _ & MM).
    destruct (next st1) as [j' st2] eqn:N2. apply next_lenv in N2. destruct N2 as (_ & _ & _ & MM2).
    destruct (build k st2 j j'); simpl; try congruence.
    rewrite md_setv. simpl. congruence.
  - destruct (next st) as [j st1] eqn:N. apply next_lenv in N. destruct N as (_ & _ & _ & MM).
    destruct (getv st1 x); simpl; try congruence.
    destruct (hget (hp st1) l); simpl; try congruence.
    destruct (apply_mut k (hp st1) o (evale st1 e) j); simpl; congruence.
  - destruct (nth_error ds (N.to_nat f)) as [d|]; simpl; try congruence.
    set (st1 := exec fuel ds (body d) _). destruct (md st1); simpl; try congruence;
      rewrite md_setv; simpl; congruence.
  - destruct (next st) as [j st1] eqn:N. apply next_lenv in N. destruct N as (_ & _ & _ & MM).
    destruct j as [|[|j]]; simpl; try congruence; rewrite md_setv; congruence.
  - apply orb_false_iff in H0. destruct H0. apply IHfuel; auto. apply IHfuel; auto. congruence.
  - apply orb_false_iff in H0. destruct H0.
    destruct (next st) as [j st1] eqn:N. apply next_lenv in N. destruct N as (_ & _ & _ & MM).
    destruct (Nat.eqb j 0); apply IHfuel; auto; congruence.
  - destruct (next st) as [j st1] eqn:N. apply next_lenv in N. destruct N as (_ & _ & _ & MM).
    destruct (Nat.eqb j 0); try congruence.
    apply IHfuel; auto.
    destruct (md (exec fuel ds s st1)) eqn:E; simpl; congruence.
  - apply orb_false_iff in H0. destruct H0 as [B1 B2].
    destruct (md (exec fuel ds s1 st)) eqn:M1; try congruence.
    + apply IHfuel; [simpl; congruence | auto].
    + exfalso. apply (IHfuel s1 st); [congruence | auto | auto].
Qed.

(* ------------------------------------------------------------------------------------------------ *)
(** * soundness *)

Section Sound.
  Variable ds : list fdef.
  Variable gsh scp : aset.
  Variable h0 : heap.
  Hypothesis Hscope : forall f, mem f scp = true -> fun_ok ds gsh scp f = true.

  Let n0 := length h0.

  Definition fresh_val (v : val) : Prop := match v with VRef l => n0 <= l | VOpq => True end.
  Definition okL (X : aset) (le : list (N * val)) : Prop := forall n, mem n X = false -> fresh_val (alookup le n).
  Definition okG (ge : list (N * val)) : Prop := forall g, mem g gsh = false -> fresh_val (alookup ge g).
  Definition okH (h : heap) : Prop := n0 <= length h /\ forall l, l < n0 -> nth_error h l = nth_error h0 l.
  Definition calls_ok (s : stmt) : Prop := forall g, In g (calls s) -> mem g scp = true.

  Lemma okL_weaken : forall X T le, (forall n, mem n X = true -> mem n T = true) -> okL X le -> okL T le.
  Proof.
    unfold okL. intros. apply H0. destruct (mem n X) eqn:E; auto. apply H in E. congruence.
  Qed.

  Lemma cls_fresh : forall X st x, okL X (lenv st) -> okG (genv st) -> cls gsh X x = false -> fresh_val (getv st x).
  Proof. intros. destruct x; simpl in *; auto. Qed.

  Lemma setc_sound : forall x c X X' st v,
      setc gsh x c X = (X', []) -> (c = false -> fresh_val v) ->
      okL X (lenv st) -> okG (genv st) ->
      okL X' (lenv (setv st x v)) /\ okG (genv (setv st x v)).
  Proof.
    intros. destruct x; simpl in *.
    - inversion H; subst; clear H. split; auto.
      unfold okL in *. intros m Hm. simpl.
      destruct c.
      + rewrite mem_addn in Hm. apply orb_false_iff in Hm. destruct Hm as [E Hm]. rewrite E. auto.
      + rewrite mem_remn in Hm. destruct (N.eqb m n) eqn:E; simpl in Hm; auto.
    - inversion H; subst; clear H. split; auto.
      unfold okG in *. intros g Hg. simpl.
      destruct (N.eqb g n) eqn:E; auto.
      apply N.eqb_eq in E. subst.
      destruct c; auto. rewrite Hg in H5. simpl in H5. discriminate.
  Qed.

  Lemma okH_alloc : forall h o, okH h -> okH (fst (alloc h o)).
  Proof.
    unfold okH, alloc. simpl. intros. destruct H. split.
    - rewrite app_length. lia.
    - intros. rewrite nth_error_app1 by lia. auto.
  Qed.

  Lemma okH_hset : forall h l o, okH h -> n0 <= l -> okH (hset h l o).
  Proof.
    unfold okH. intros. destruct H. split.
    - rewrite hset_length. auto.
    - intros. rewrite hset_other by lia. auto.
  Qed.

  Lemma app_nil_both : forall (A : Type) (a b : list A), a ++ b = [] -> a = [] /\ b = [].
  Proof. intros. destruct a; simpl in *; auto. discriminate. Qed.

  Lemma fun_ok_inv : forall f, fun_ok ds gsh scp f = true ->
      exists d, nth_error ds (N.to_nat f) = Some d /\ snd (an gsh (body d) (params d)) = [] /\ calls_ok (body d).
  Proof.
    unfold fun_ok. intros. destruct (nth_error ds (N.to_nat f)); try discriminate.
    apply andb_true_iff in H. destruct H. exists f0. split; auto. split.
    - destruct (snd (an gsh (body f0) (params f0))); auto; discriminate.
    - unfold calls_ok. intros. rewrite forallb_forall in H0. auto.
  Qed.

  Lemma loop_inv_incl : forall b X n,
      mem n X = true ->
      mem n (iter_n 2 (fun T => union T (fst (an gsh b T)))
                    (if has_brk b then union X (assigned b) else X)) = true.
  Proof.
    intros. apply iter_n_incl.
    - intros. rewrite mem_union. rewrite H0. reflexivity.
    - destruct (has_brk b); auto. rewrite mem_union. rewrite H. reflexivity.
  Qed.

  Lemma loop_inv_assigned : forall b X n,
      has_brk b = true -> mem n (assigned b) = true ->
      mem n (iter_n 2 (fun T => union T (fst (an gsh b T)))
                    (if has_brk b then union X (assigned b) else X)) = true.
  Proof.
    intros. apply iter_n_incl.
    - intros. rewrite mem_union. rewrite H1. reflexivity.
    - rewrite H. rewrite mem_union. rewrite H0. apply orb_true_r.
  Qed.

  (* re-analysing a loop from its own (stable) invariant gives the same answer *)
  Lemma an_loop_stable : forall b Xx X1,
      an gsh b Xx = (X1, []) -> subset X1 Xx = true ->
      (has_brk b = true -> subset (assigned b) Xx = true) ->
      an gsh (SLoop b) Xx = (Xx, []).
  Proof.
    intros. cbn [an].
    assert (E0 : (if has_brk b then union Xx (assigned b) else Xx) = Xx).
    { destruct (has_brk b); auto. apply union_absorb. auto. }
    rewrite E0.
    assert (E1 : (fun T : aset => union T (fst (an gsh b T))) Xx = Xx).
    { simpl. rewrite H. simpl. apply union_absorb. auto. }
    rewrite iter_n_fix by exact E1.
    rewrite H. rewrite H0. reflexivity.
  Qed.

  Definition post (s : stmt) (X : aset) (st' : state) : Prop :=
    okG (genv st') /\ okH (hp st') /\ (md st' = MNormal -> okL (fst (an gsh s X)) (lenv st')).

  Lemma post_abort : forall s X st, okG (genv st) -> okH (hp st) -> md st <> MNormal -> post s X st.
  Proof. unfold post. intros. split; [assumption | split; [assumption | intros; congruence]]. Qed.

  Lemma calls_ok_app : forall a b, (forall g, In g (calls a ++ calls b) -> mem g scp = true) ->
      calls_ok a /\ calls_ok b.
  Proof. unfold calls_ok. intros. split; intros; apply H; apply in_or_app; auto. Qed.

  Lemma exec_sound : forall fuel s X st,
      calls_ok s -> snd (an gsh s X) = [] ->
      okG (genv st) -> okH (hp st) -> (md st = MNormal -> okL X (lenv st)) ->
      post s X (exec fuel ds s st).
  Proof.
    induction fuel; intros s X st Hc Hv HG HH HL.
    { simpl. destruct (md st) eqn:M; try (apply post_abort; auto; congruence).
      apply post_abort; simpl; auto. congruence. }
    simpl. destruct (md st) eqn:M; try (apply post_abort; auto; congruence).
    specialize (HL eq_refl).
    destruct s.
    - (* SSkip *)
      unfold post. simpl. split; [|split]; auto.
    - (* SAssign *)
      cbn [an] in Hv. destruct (setc gsh x (cls gsh X y) X) as [X' v] eqn:E. simpl in Hv. subst v.
      destruct (setc_sound x _ X X' st (getv st y) E) as [A B]; auto.
      { intro C. eapply cls_fresh; eauto. }
      unfold post. cbn [an]. rewrite E. cbn [fst]. rewrite hp_setv, md_setv. split; [|split]; auto.
    - (* SOpq *)
      cbn [an] in Hv. destruct (setc gsh x false X) as [X' v] eqn:E. simpl in Hv. subst v.
      destruct (setc_sound x _ X X' st VOpq E) as [A B]; simpl; auto.
      unfold post. cbn [an]. rewrite E. cbn [fst]. rewrite hp_setv, md_setv. split; [|split]; auto.
    - (* SRead *)
      cbn [an] in Hv. destruct (setc gsh x true X) as [X' v] eqn:E. simpl in Hv. subst v.
      destruct (next st) as [j st1] eqn:N. apply next_lenv in N. destruct N as (L1 & G1 & H1 & M1).
      destruct (read k (hp st1) (getv st1 y) j) as [w|].
      + destruct (setc_sound x _ X X' st1 w E) as [A B]; try discriminate; try (rewrite ?L1, ?G1; auto; fail).
        unfold post. cbn [an]. rewrite E. cbn [fst]. rewrite hp_setv, md_setv. rewrite H1. split; [|split]; auto.
      + apply post_abort; simpl; try congruence; rewrite ?G1, ?H1; auto.
    - (* SAlloc *)
      cbn [an] in Hv. destruct (setc gsh x false X) as [X' v] eqn:E. simpl in Hv. subst v.
      destruct (next st) as [j st1] eqn:N. apply next_lenv in N. destruct N as (L1 & G1 & H1 & M1).
      destruct (next st1) as [j' st2] eqn:N2. apply next_lenv in N2. destruct N2 as (L2 & G2 & H2 & M2).
      destruct (build k st2 j j') as [o|].
      + unfold alloc.
        destruct (setc_sound x false X X' (set_hp st2 (hp st2 ++ [o])) (VRef (length (hp st2))) E) as [A B].
        * intros _. simpl. rewrite H2, H1. apply HH.
        * simpl. rewrite L2, L1. auto.
        * simpl. rewrite G2, G1. auto.
        * unfold post. cbn [an]. rewrite E. cbn [fst]. rewrite hp_setv, md_setv. split; [|split]; auto.
          simpl. rewrite H2, H1. apply (okH_alloc (hp st) o HH).
      + apply post_abort; simpl; try congruence; rewrite ?G2, ?G1, ?H2, ?H1; auto.
    - (* SMut *)
      cbn [an] in Hv. simpl in Hv. destruct (cls gsh X x) eqn:C; [discriminate|].
      destruct (next st) as [j st1] eqn:N. apply next_lenv in N. destruct N as (L1 & G1 & H1 & M1).
      assert (F : fresh_val (getv st1 x)).
      { apply cls_fresh with (X := X); rewrite ?L1, ?G1; auto. }
      destruct (getv st1 x) as [l|].
      + destruct (hget (hp st1) l) as [o|].
        * destruct (apply_mut k (hp st1) o (evale st1 e) j) as [o'|].
          -- unfold post. cbn [an]. simpl. rewrite G1, L1, H1. split; [|split]; auto.
             apply okH_hset; auto.
          -- apply post_abort; simpl; try congruence; rewrite ?G1, ?H1; auto.
        * apply post_abort; simpl; try congruence; rewrite ?G1, ?H1; auto.
      + apply post_abort; simpl; try congruence; rewrite ?G1, ?H1; auto.
    - (* SCall *)
      cbn [an] in Hv. destruct (setc gsh x true X) as [X' v] eqn:E. simpl in Hv. subst v.
      assert (Hf : mem f scp = true) by (apply Hc; simpl; auto).
      destruct (fun_ok_inv f (Hscope f Hf)) as (d & Hd & Hvd & Hcd).
      rewrite Hd.
      set (st0 := mkSt (hp st) (bind (params d) (map (getv st) args)) (genv st) (orc st) MNormal).
      assert (P1 : post (body d) (params d) (exec fuel ds (body d) st0)).
      { apply IHfuel; auto. intros _. simpl. intros n Hn. rewrite alookup_bind_notin; simpl; auto. }
      destruct P1 as (G1 & H1 & _).
      set (st1 := exec fuel ds (body d) st0) in *.
      destruct (md st1) eqn:M1.
      + destruct (setc_sound x true X X' (mkSt (hp st1) (lenv st) (genv st1) (orc st1) MNormal) VOpq E) as [A B];
          simpl; auto; try discriminate.
        unfold post. cbn [an]. rewrite E. cbn [fst]. rewrite hp_setv, md_setv. simpl. split; [|split]; auto.
      + destruct (setc_sound x true X X' (mkSt (hp st1) (lenv st) (genv st1) (orc st1) MNormal) v E) as [A B];
          simpl; auto; try discriminate.
        unfold post. cbn [an]. rewrite E. cbn [fst]. rewrite hp_setv, md_setv. simpl. split; [|split]; auto.
      + apply post_abort; simpl; auto; congruence.
      + destruct (setc_sound x true X X' (mkSt (hp st1) (lenv st) (genv st1) (orc st1) MNormal) VOpq E) as [A B];
          simpl; auto; try discriminate.
        unfold post. cbn [an]. rewrite E. cbn [fst]. rewrite hp_setv, md_setv. simpl. split; [|split]; auto.
    - (* SCallUnk *)
      cbn [an] in Hv. destruct (setc gsh x true X) as [X' v] eqn:E. simpl in Hv. subst v.
      destruct (next st) as [j st1] eqn:N. apply next_lenv in N. destruct N as (L1 & G1 & H1 & M1).
      destruct j as [|[|j]].
      + apply post_abort; simpl; try congruence; rewrite ?G1, ?H1; auto.
      + destruct (setc_sound x _ X X' st1 VOpq E) as [A B]; try discriminate; try (rewrite ?L1, ?G1; auto; fail).
        unfold post. cbn [an]. rewrite E. cbn [fst]. rewrite hp_setv, md_setv. rewrite H1. split; [|split]; auto.
      + destruct (setc_sound x _ X X' st1 (VRef j) E) as [A B]; try discriminate; try (rewrite ?L1, ?G1; auto; fail).
        unfold post. cbn [an]. rewrite E. cbn [fst]. rewrite hp_setv, md_setv. rewrite H1. split; [|split]; auto.
    - (* SReturn *) apply post_abort; simpl; auto; congruence.
    - (* SRaise *) apply post_abort; simpl; auto; congruence.
    - (* SBreak *) apply post_abort; simpl; auto; congruence.
    - (* SSeq *)
      cbn [an] in Hv. destruct (an gsh s1 X) as [X1 v1] eqn:E1. destruct (an gsh s2 X1) as [X2 v2] eqn:E2.
      simpl in Hv. apply app_nil_both in Hv. destruct Hv; subst.
      destruct (calls_ok_app s1 s2 Hc) as [Hc1 Hc2].
      assert (P1 : post s1 X (exec fuel ds s1 st)).
      { apply IHfuel; auto. rewrite E1. reflexivity. }
      destruct P1 as (G1 & H1 & L1). rewrite E1 in L1. simpl in L1.
      assert (P2 : post s2 X1 (exec fuel ds s2 (exec fuel ds s1 st))).
      { apply IHfuel; auto. rewrite E2. reflexivity. }
      unfold post in *. cbn [an]. rewrite E1, E2. cbn [fst]. rewrite E2 in P2. exact P2.
    - (* SIf *)
      cbn [an] in Hv. destruct (an gsh s1 X) as [X1 v1] eqn:E1. destruct (an gsh s2 X) as [X2 v2] eqn:E2.
      simpl in Hv. apply app_nil_both in Hv. destruct Hv; subst.
      destruct (calls_ok_app s1 s2 Hc) as [Hc1 Hc2].
      destruct (next st) as [j st1] eqn:N. apply next_lenv in N. destruct N as (L1 & G1 & H1 & M1).
      destruct (Nat.eqb j 0).
      + assert (P1 : post s1 X (exec fuel ds s1 st1)).
        { apply IHfuel; auto; rewrite ?E1, ?G1, ?H1, ?L1; auto. }
        destruct P1 as (A & B & C). rewrite E1 in C. simpl in C.
        unfold post. cbn [an]. rewrite E1, E2. cbn [fst]. split; [|split]; auto.
        intro MM. eapply okL_weaken; [|apply C; auto]. intros. rewrite mem_union. rewrite H. reflexivity.
      + assert (P1 : post s2 X (exec fuel ds s2 st1)).
        { apply IHfuel; auto; rewrite ?E2, ?G1, ?H1, ?L1; auto. }
        destruct P1 as (A & B & C). rewrite E2 in C. simpl in C.
        unfold post. cbn [an]. rewrite E1, E2. cbn [fst]. split; [|split]; auto.
        intro MM. eapply okL_weaken; [|apply C; auto]. intros. rewrite mem_union. rewrite H. apply orb_true_r.
    - (* SLoop *)
      unfold post. cbn [an] in *.
      set (Xx := iter_n 2 (fun T => union T (fst (an gsh s T)))
                        (if has_brk s then union X (assigned s) else X)) in *.
      destruct (an gsh s Xx) as [X1 v1] eqn:E1. simpl in Hv. apply app_nil_both in Hv. destruct Hv as [Hv1 Hst]. subst v1.
      destruct (subset X1 Xx) eqn:Sub; [|discriminate]. cbn [fst].
      assert (WX : forall n, mem n X = true -> mem n Xx = true) by (intros; apply loop_inv_incl; auto).
      assert (WA : has_brk s = true -> subset (assigned s) Xx = true).
      { intro HB. apply subset_intro. intros. apply loop_inv_assigned; auto. }
      assert (Hc' : calls_ok s) by exact Hc.
      destruct (next st) as [j st1] eqn:N. apply next_lenv in N. destruct N as (L1 & G1 & H1 & M1).
      destruct (Nat.eqb j 0).
      + rewrite G1, H1, L1. split; [|split]; auto. intros _. eapply okL_weaken; eauto.
      + assert (P1 : post s Xx (exec fuel ds s st1)).
        { apply IHfuel; auto; rewrite ?E1, ?G1, ?H1, ?L1; auto. intros _. eapply okL_weaken; eauto. }
        destruct P1 as (G2 & H2 & L2). rewrite E1 in L2. simpl in L2.
        set (st2 := exec fuel ds s st1) in *.
        assert (P2 : post (SLoop s) Xx (exec fuel ds (SLoop s)
                        (match md st2 with MBrk => set_md st2 MNormal | _ => st2 end))).
        { apply IHfuel;
            [ exact Hc
            | rewrite (an_loop_stable s Xx X1 E1 Sub WA); reflexivity
            | destruct (md st2); simpl; auto
            | destruct (md st2); simpl; auto
            | ].
          - destruct (md st2) eqn:M2; simpl; intro MM; try congruence.
            + eapply okL_weaken; [apply subset_spec; eauto | auto].
            + (* the iteration was left by break / continue *)
              destruct (has_brk s) eqn:HB.
              * intros n Hn.
                assert (NA : ~ In n (assigned s)).
                { intro I. apply mem_In in I. apply (subset_spec _ _ (WA eq_refl)) in I. congruence. }
                destruct (exec_lenv_keep ds fuel s st1 n NA) as [E|F].
                -- unfold st2. rewrite E. rewrite L1. apply HL.
                   destruct (mem n X) eqn:MX; auto. apply WX in MX. congruence.
                -- unfold st2. rewrite H1 in F. destruct HH as [HH1 _].
                   unfold fresh_val. unfold lfresh in F. destruct (alookup _ n); auto. lia.
              * exfalso. apply (exec_no_brk ds fuel s st1); auto. congruence. }
        unfold post in P2. rewrite (an_loop_stable s Xx X1 E1 Sub WA) in P2. exact P2.
    - (* STry *)
      cbn [an] in Hv. destruct (an gsh s1 X) as [X1 v1] eqn:E1.
      destruct (an gsh s2 (union X (assigned s1))) as [X2 v2] eqn:E2.
      simpl in Hv. apply app_nil_both in Hv. destruct Hv; subst.
      destruct (calls_ok_app s1 s2 Hc) as [Hc1 Hc2].
      assert (P1 : post s1 X (exec fuel ds s1 st)).
      { apply IHfuel; auto. rewrite E1. reflexivity. }
      destruct P1 as (G1 & H1 & L1). rewrite E1 in L1. simpl in L1.
      set (st1 := exec fuel ds s1 st) in *.
      destruct (md st1) eqn:M1.
      + unfold post. cbn [an]. rewrite E1, E2. cbn [fst]. split; [|split]; auto.
        intros _. eapply okL_weaken; [|apply L1; auto]. intros. rewrite mem_union. rewrite H. reflexivity.
      + apply post_abort; auto; congruence.
      + assert (P2 : post s2 (union X (assigned s1)) (exec fuel ds s2 (set_md st1 MNormal))).
        { apply IHfuel; auto.
          - rewrite E2. reflexivity.
          - intros _. simpl. intros n Hn. rewrite mem_union in Hn. apply orb_false_iff in Hn. destruct Hn as [HX HA].
            assert (NA : ~ In n (assigned s1)). { intro I. apply mem_In in I. congruence. }
            destruct (exec_lenv_keep ds fuel s1 st n NA) as [E|F].
            + unfold st1. rewrite E. apply HL. exact HX.
            + unfold st1. destruct HH as [HH1 _].
              unfold fresh_val. unfold lfresh in F. destruct (alookup _ n); auto. lia. }
        destruct P2 as (A & B & C). rewrite E2 in C. simpl in C.
        unfold post. cbn [an]. rewrite E1, E2. cbn [fst]. split; [|split]; auto.
        intro MM. eapply okL_weaken; [|apply C; auto]. intros. rewrite mem_union. rewrite H. apply orb_true_r.
      + apply post_abort; auto; congruence.
  Qed.
End Sound.

(* ------------------------------------------------------------------------------------------------ *)
(** * the theorem *)

Theorem analysis_sound : forall P,
    may_mutate_shared P = false ->
    forall fuel o h args h', run P fuel o h args = h' -> frame h h'.
Proof.
  unfold may_mutate_shared, prog_ok, run. intros P H fuel o h args h' R. subst h'.
  apply negb_false_iff in H. apply andb_true_iff in H. destruct H as [He Hall].
  rewrite forallb_forall in Hall.
  assert (Hscope : forall f, mem f (scope P) = true -> fun_ok (defs P) (gshd P) (scope P) f = true).
  { intros. apply Hall. apply mem_In. assumption. }
  destruct (fun_ok_inv (defs P) (gshd P) (scope P) (entry P) (Hscope _ He)) as (d & Hd & Hv & Hc).
  rewrite Hd.
  pose proof (exec_sound (defs P) (gshd P) (scope P) h Hscope fuel (body d) (params d)
                         (mkSt h (bind (params d) args) [] o MNormal) Hc Hv) as S.
  destruct S as (_ & (HL & HF) & _).
  - intros g _. simpl. exact I.
  - simpl. split; auto.
  - intros _. simpl. intros n Hn. rewrite alookup_bind_notin by assumption. simpl. exact I.
  - unfold frame, hget. intros l ob Hl.
    assert (l < length h) by (apply nth_error_Some; congruence).
    rewrite HF; auto.
Qed.

(* ------------------------------------------------------------------------------------------------ *)
(** * the tabulated check agrees with the direct one *)

Lemma fun_ok_t_eq : forall ds gsh scp f, fun_ok_t ds (viol_table ds gsh) scp f = fun_ok ds gsh scp f.
Proof.
  intros. unfold fun_ok_t, fun_ok, viol_table.
  rewrite nth_error_map. destruct (nth_error ds (N.to_nat f)); reflexivity.
Qed.

Lemma prog_ok_t_eq : forall P, prog_ok_t (viol_table (defs P) (gshd P)) P = prog_ok P.
Proof.
  intros. unfold prog_ok_t, prog_ok. f_equal.
  generalize (scope P) at 1 3. intro scp. generalize (scope P). intro l.
  induction l; simpl; auto. rewrite fun_ok_t_eq, IHl. reflexivity.
Qed.

Lemma cached_pure : forall tbl P,
    tbl = viol_table (defs P) (gshd P) -> prog_ok_t tbl P = true -> may_mutate_shared P = false.
Proof.
  intros. subst. rewrite prog_ok_t_eq in H0. unfold may_mutate_shared. rewrite H0. reflexivity.
Qed.

Lemma cached_all_pure : forall ds gsh tbl specs,
    tbl = viol_table ds gsh ->
    forallb (fun se => prog_ok_t tbl (helper ds gsh se)) specs = true ->
    forallb (fun p => negb (may_mutate_shared p)) (map (helper ds gsh) specs) = true.
Proof.
  intros. rewrite forallb_forall in *. intros p Hp.
  apply in_map_iff in Hp. destruct Hp as (se & E & I). subst p.
  rewrite (cached_pure tbl); auto.
Qed.

(* ------------------------------------------------------------------------------------------------ *)
(** * the hypothesis of [analysis_sound] is satisfiable; the analysis is not vacuous *)

Local Open Scope N_scope.

(* DoMultiplyDim.remap_idx as repaired:   idx = idx.copy(); ...; idx[hi_idx] = prod; del idx[lo_idx]; return idx *)
Definition remap_idx_fixed : fdef :=
  mkFdef [0] (SSeq (SAlloc (Loc 0) (ACopy (Loc 0)))
             (SSeq (SRead (Loc 1) RItem (Loc 0))
             (SSeq (SMut 1908 MSetItem (Loc 0) (EV (Loc 1)))
             (SSeq (SMut 1909 MDelItem (Loc 0) EO)
                   (SReturn (EV (Loc 0))))))).

(* ... and before the repair: the same without the copy *)
Definition remap_idx_prefix : fdef :=
  mkFdef [0] (SSeq (SRead (Loc 1) RItem (Loc 0))
             (SSeq (SMut 1908 MSetItem (Loc 0) (EV (Loc 1)))
             (SSeq (SMut 1909 MDelItem (Loc 0) EO)
                   (SReturn (EV (Loc 0)))))).

Example fixed_is_pure : may_mutate_shared (mkProg [remap_idx_fixed] [] [0] 0) = false.
Proof. vm_compute. reflexivity. Qed.

Example prefix_is_flagged : may_mutate_shared (mkProg [remap_idx_prefix] [] [0] 0) = true.
Proof. vm_compute. reflexivity. Qed.

(* the flag is not a false alarm: a concrete run edits the caller's list in place *)
Example prefix_breaks_frame :
  exists fuel o h args, ~ frame h (run (mkProg [remap_idx_prefix] [] [0] 0) fuel o h args).
Proof.
  exists 10%nat, [0; 0; 1]%nat, [OList [VOpq; VOpq]], [VRef 0%nat].
  intro F. specialize (F 0%nat _ eq_refl). vm_compute in F. discriminate.
Qed.

(* and the repaired version leaves it alone on the same input *)
Example fixed_keeps_frame :
  run (mkProg [remap_idx_fixed] [] [0] 0) 10%nat [0; 0; 0; 0; 1]%nat [OList [VOpq; VOpq]] [VRef 0%nat]
  = [OList [VOpq; VOpq]; OList [VOpq]].
Proof. vm_compute. reflexivity. Qed.

