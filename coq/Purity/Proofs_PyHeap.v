(* Proofs_PyHeap.v — every atomic tree edit of internal_cursors.py (as modelled in Model.v, Part 1) only ALLOCATES:
   the resulting heap is the old heap followed by new objects, whether the edit succeeds or raises part-way. *)
From Coq Require Import List Bool Arith PeanoNat NArith Lia.
From Purity Require Import Model.
Import ListNotations.

Arguments node_update : simpl never.
Arguments mk_node : simpl never.
Arguments copy_if_list : simpl never.

Definition extends (h h' : heap) : Prop := exists ext, h' = h ++ ext.

Lemma extends_refl : forall h, extends h h.
Proof. intros. exists []. rewrite app_nil_r. reflexivity. Qed.

Lemma extends_trans : forall a b c, extends a b -> extends b c -> extends a c.
Proof. intros a b c [x Hx] [y Hy]. exists (x ++ y). subst. rewrite app_assoc. reflexivity. Qed.

Lemma extends_frame : forall h h', extends h h' -> frame h h'.
Proof.
  intros h h' [ext E] l o Hl. subst. unfold hget in *.
  rewrite nth_error_app1; auto. apply nth_error_Some. congruence.
Qed.

Lemma extends_length : forall h h', extends h h' -> length h <= length h'.
Proof. intros h h' [ext E]. subst. rewrite app_length. lia. Qed.

Lemma ext_snoc : forall h o, extends h (h ++ [o]).
Proof. intros. exists [o]. reflexivity. Qed.

Lemma alloc_ext : forall h o h' l, alloc h o = (h', l) -> extends h h'.
Proof. unfold alloc. intros. inversion H. exists [o]. reflexivity. Qed.

Lemma copy_if_list_ext : forall h v h' v', copy_if_list h v = (h', v') -> extends h h'.
Proof.
  unfold copy_if_list. intros. destruct v.
  - destruct (hget h l) as [[c fs|es]|]; inversion H; subst; try apply extends_refl.
    exists [OList es]. reflexivity.
  - inversion H. apply extends_refl.
Qed.

Lemma copy_fields_ext : forall fs h h' fs', copy_fields h fs = (h', fs') -> extends h h'.
Proof.
  induction fs as [|[a v] t IH]; simpl; intros.
  - inversion H. apply extends_refl.
  - destruct (copy_if_list h v) as [h1 v1] eqn:E1. destruct (copy_fields h1 t) as [h2 t2] eqn:E2.
    inversion H; subst. eapply extends_trans; [eapply copy_if_list_ext; eauto | eapply IH; eauto].
Qed.

Lemma mk_node_ext : forall h c fs h' l, mk_node h c fs = (h', l) -> extends h h'.
Proof.
  unfold mk_node. intros. destruct (copy_fields h fs) as [h1 fs1] eqn:E.
  eapply extends_trans; [eapply copy_fields_ext; eauto | eapply alloc_ext; eauto].
Qed.

Lemma node_update_ext : forall h n a v h' r, node_update h n a v = (h', r) -> extends h h'.
Proof.
  unfold node_update. intros. destruct (hget h n) as [[c fs|es]|]; try (inversion H; apply extends_refl).
  destruct (mk_node h c (set_field fs a v)) as [h1 l] eqn:E. inversion H; subst.
  eapply mk_node_ext; eauto.
Qed.

Definition fn_ext (fn : heap -> val -> heap * option res) : Prop :=
  forall h v h' r, fn h v = (h', r) -> extends h h'.

Lemma rewrite_ext : forall fn, fn_ext fn -> forall p h node h' r, rewrite fn p h node = (h', r) -> extends h h'.
Proof.
  intros fn Hfn. induction p as [|[a i] p IH]; simpl; intros h node h' r H.
  - eapply Hfn; eauto.
  - destruct (fields_of h node) as [[[n c] fs]|]; [|inversion H; apply extends_refl].
    destruct (get_field fs a) as [children|]; [|inversion H; apply extends_refl].
    destruct i as [k|].
    + destruct (list_of h children) as [cs|]; [|inversion H; apply extends_refl].
      destruct (nth_error cs k) as [child|]; [|inversion H; apply extends_refl].
      destruct (rewrite fn p h child) as [h1 [r1|]] eqn:E1.
      * unfold alloc in H.
        destruct (node_update _ n a _) as [h3 [n'|]] eqn:E3; inversion H; subst;
          (eapply extends_trans; [eapply IH; eauto|]);
          (eapply extends_trans; [apply ext_snoc|]);
          eapply node_update_ext; eauto.
      * inversion H; subst. eapply IH; eauto.
    + destruct (rewrite fn p h children) as [h1 [[v|vs]|]] eqn:E1.
      * destruct (node_update h1 n a v) as [h2 [n'|]] eqn:E2; inversion H; subst;
          (eapply extends_trans; [eapply IH; eauto|]); eapply node_update_ext; eauto.
      * inversion H; subst. eapply IH; eauto.
      * inversion H; subst. eapply IH; eauto.
Qed.

Lemma root_of_fst : forall r, fst (root_of r) = fst r.
Proof. intros [h [[[l|]|vs]|]]; reflexivity. Qed.

Lemma block_update_ext : forall a lo hi nodes dflt, fn_ext (block_update a lo hi nodes dflt).
Proof.
  unfold fn_ext, block_update. intros.
  destruct (fields_of h v) as [[[n c] fs]|]; [|inversion H; apply extends_refl].
  destruct (get_field fs a) as [cv|]; [|inversion H; apply extends_refl].
  destruct (list_of h cv) as [cs|]; [|inversion H; apply extends_refl].
  unfold alloc in H.
  destruct (node_update _ n a _) as [h2 [n'|]] eqn:E2; inversion H; subst;
    (eapply extends_trans; [apply ext_snoc|]); eapply node_update_ext; eauto.
Qed.

Lemma insert_update_ext : forall after stmts, fn_ext (insert_update after stmts).
Proof. unfold fn_ext, insert_update. intros. inversion H. apply extends_refl. Qed.

Lemma const_fn_ext : forall new, fn_ext (fun h _ => (h, Some (RVal new))).
Proof. unfold fn_ext. intros. inversion H. apply extends_refl. Qed.

Lemma root_of_rewrite_ext : forall fn p h root h' r,
    fn_ext fn -> root_of (rewrite fn p h (VRef root)) = (h', r) -> extends h h'.
Proof.
  intros. destruct (rewrite fn p h (VRef root)) as [h1 r1] eqn:E.
  assert (fst (root_of (h1, r1)) = h1) by (rewrite root_of_fst; reflexivity).
  rewrite H0 in H1. simpl in H1. subst. eapply rewrite_ext; eauto.
Qed.

Lemma replace_block_ext : forall anchor a lo hi nodes dflt h root h' r,
    replace_block anchor a lo hi nodes dflt h root = (h', r) -> extends h h'.
Proof. unfold replace_block. intros. eapply root_of_rewrite_ext; [apply block_update_ext | eauto]. Qed.

Lemma insert_at_ext : forall anchor after stmts h root h' r,
    insert_at anchor after stmts h root = (h', r) -> extends h h'.
Proof.
  unfold insert_at. intros. destruct (rev anchor) as [|[a [i|]] t]; try (inversion H; apply extends_refl).
  eapply root_of_rewrite_ext; [apply insert_update_ext | eauto].
Qed.

Lemma delete_block_ext : forall anchor a lo hi pc h root h' r,
    delete_block anchor a lo hi pc h root = (h', r) -> extends h h'.
Proof.
  unfold delete_block. intros. destruct (mk_node h pc []) as [h1 p] eqn:E.
  eapply extends_trans; [eapply mk_node_ext; eauto | eapply replace_block_ext; eauto].
Qed.

Lemma wrap_block_ext : forall anchor a lo hi c fs wa h root h' r,
    wrap_block anchor a lo hi c fs wa h root = (h', r) -> extends h h'.
Proof.
  unfold wrap_block. intros.
  destruct (resolve h (VRef root) anchor) as [node|]; [|inversion H; apply extends_refl].
  destruct (fields_of h node) as [[[n cc] nfs]|]; [|inversion H; apply extends_refl].
  destruct (get_field nfs a) as [cv|]; [|inversion H; apply extends_refl].
  destruct (list_of h cv) as [cs|]; [|inversion H; apply extends_refl].
  unfold alloc in H.
  destruct (mk_node _ c _) as [h2 w] eqn:E2.
  eapply extends_trans; [apply ext_snoc|].
  eapply extends_trans; [eapply mk_node_ext; eauto|].
  eapply root_of_rewrite_ext; [apply block_update_ext | eauto].
Qed.

Lemma move_block_ext : forall anchor a lo hi ga gaft pc h root h' r,
    move_block anchor a lo hi ga gaft pc h root = (h', r) -> extends h h'.
Proof.
  unfold move_block. intros.
  destruct (if gap_in_block anchor a lo hi ga then (anchor ++ [(a, Some lo)], false) else (ga, gaft)) as [ga' gaft'].
  destruct (resolve h (VRef root) anchor) as [node|]; [|inversion H; apply extends_refl].
  destruct (fields_of h node) as [[[n cc] nfs]|]; [|inversion H; apply extends_refl].
  destruct (get_field nfs a) as [cv|]; [|inversion H; apply extends_refl].
  destruct (list_of h cv) as [cs|]; [|inversion H; apply extends_refl].
  destruct (is_before _ _).
  - destruct (delete_block anchor a lo hi pc h root) as [h1 [r1|]] eqn:E1.
    + eapply extends_trans; [eapply delete_block_ext; eauto | eapply insert_at_ext; eauto].
    + inversion H; subst. eapply delete_block_ext; eauto.
  - destruct (insert_at ga' gaft' _ h root) as [h1 [r1|]] eqn:E1.
    + eapply extends_trans; [eapply insert_at_ext; eauto | eapply delete_block_ext; eauto].
    + inversion H; subst. eapply insert_at_ext; eauto.
Qed.

Lemma apply_heap_ext : forall e h t h' t', apply_heap e h t = (h', t') -> extends h h'.
Proof.
  destruct e; simpl; intros.
  - eapply replace_block_ext; eauto.
  - eapply root_of_rewrite_ext; [apply const_fn_ext | eauto].
  - eapply insert_at_ext; eauto.
  - eapply delete_block_ext; eauto.
  - eapply wrap_block_ext; eauto.
  - eapply move_block_ext; eauto.
Qed.

Theorem edit_frame : forall e h t h' t',
    apply_heap e h t = (h', t') -> forall l o, hget h l = Some o -> hget h' l = Some o.
Proof. intros. eapply extends_frame; [eapply apply_heap_ext; eauto | eauto]. Qed.

Lemma apply_edits_ext : forall es h t h' t', apply_edits es h t = (h', t') -> extends h h'.
Proof.
  induction es; simpl; intros.
  - inversion H. apply extends_refl.
  - destruct (apply_heap a h t) as [h1 [r1|]] eqn:E.
    + eapply extends_trans; [eapply apply_heap_ext; eauto | eapply IHes; eauto].
    + inversion H; subst. eapply apply_heap_ext; eauto.
Qed.

Theorem edits_frame : forall es h t h' t',
    apply_edits es h t = (h', t') -> forall l o, hget h l = Some o -> hget h' l = Some o.
Proof. intros. eapply extends_frame; [eapply apply_edits_ext; eauto | eauto]. Qed.

(* consequence: every procedure (root) obtained earlier still denotes the same tree: resolving any path from it
   gives the same answer in the new heap *)
Lemma fields_of_ext : forall h h' v x, extends h h' -> fields_of h v = Some x -> fields_of h' v = Some x.
Proof.
  unfold fields_of. intros. destruct v; try discriminate.
  destruct (hget h l) as [[c fs|es]|] eqn:E; try discriminate.
  rewrite (extends_frame _ _ H _ _ E). assumption.
Qed.

Lemma list_of_ext : forall h h' v x, extends h h' -> list_of h v = Some x -> list_of h' v = Some x.
Proof.
  unfold list_of. intros. destruct v; try discriminate.
  destruct (hget h l) as [[c fs|es]|] eqn:E; try discriminate.
  rewrite (extends_frame _ _ H _ _ E). assumption.
Qed.

Lemma resolve_ext : forall h h', extends h h' -> forall p node x, resolve h node p = Some x -> resolve h' node p = Some x.
Proof.
  intros h h' E. induction p as [|[a i] p IH]; simpl; intros; auto.
  destruct (fields_of h node) as [[[n c] fs]|] eqn:F; try discriminate.
  rewrite (fields_of_ext _ _ _ _ E F).
  destruct (get_field fs a) as [cv|]; try discriminate.
  destruct i as [k|]; auto.
  destruct (list_of h cv) as [cs|] eqn:L; try discriminate.
  rewrite (list_of_ext _ _ _ _ E L).
  destruct (nth_error cs k); try discriminate. auto.
Qed.

Theorem old_cursors_still_resolve : forall es h t h' t' old_root p x,
    apply_edits es h t = (h', t') -> resolve h (VRef old_root) p = Some x -> resolve h' (VRef old_root) p = Some x.
Proof. intros. eapply resolve_ext; eauto. eapply apply_edits_ext; eauto. Qed.

(* ------------------------------------------------------------------------------------------------ *)
(** * the hypotheses are satisfiable, and an in-place edit is NOT a frame-preserving edit *)

Local Open Scope N_scope.

(* proc(body=[s0, s1]) with attribute 0 = body ; node classes 0 = proc, 1 = stmt, 2 = Pass *)
Definition ex_heap : heap := [ONode 1 []; ONode 1 []; OList [VRef 0%nat; VRef 1%nat]; ONode 0 [(0, VRef 2%nat)]].

Example delete_succeeds :
  apply_heap (EDelete [] 0 0%nat 1%nat 2) ex_heap 3%nat =
  (ex_heap ++ [ONode 2 []; OList [VRef 1%nat]; OList [VRef 1%nat]; ONode 0 [(0, VRef 6%nat)]], Some 7%nat).
Proof. vm_compute. reflexivity. Qed.

Example inplace_replace_breaks_frame :
  exists h t h' t' l o, replace_block_inplace [] 0 0%nat 1%nat [] h t = (h', t') /\ hget h l = Some o /\ hget h' l <> Some o.
Proof.
  exists ex_heap, 3%nat. eexists. eexists. exists 2%nat. eexists.
  split; [vm_compute; reflexivity|]. split; [vm_compute; reflexivity|]. vm_compute. discriminate.
Qed.
