#!/venv/bin/python
"""Regenerate Gen_ListProgs.v / Gen_Helpers.v (from the CURRENT LoopIR_scheduling.py, internal_cursors.py, LoopIR.py under
EXO_REPO, default /repo) and Gen_Fixtures.v (from fixtures/mult_dim_prefix.py).  Exits non-zero, naming file:line and the
construct, when a source leaves the translator's grammar; stale generated files are then removed so that nothing can be
proved about an outdated translation.  Writes the translation report to /verif/.scratch/c07/report.json."""
import os
import subprocess
import sys

here = os.path.dirname(os.path.abspath(__file__))
tr = os.path.join(here, "..", "..", "translator", "py2listprog.py")
repo = os.environ.get("EXO_REPO", "/repo")
scratch = os.path.join(here, "..", "..", ".scratch", "c07")
os.makedirs(scratch, exist_ok=True)
outs = [os.path.join(here, f) for f in ("Gen_ListProgs.v", "Gen_Helpers.v", "Gen_Fixtures.v")]


def write_if_changed(tmp, dst):
    new = open(tmp).read()
    if not os.path.exists(dst) or open(dst).read() != new:
        os.replace(tmp, dst)
    else:
        os.remove(tmp)


rc = subprocess.call([sys.executable, tr, "--repo", repo, "-o", outs[0] + ".tmp", "--examples", outs[1] + ".tmp",
                      "--report", os.path.join(scratch, "report.json")])
if rc == 0:
    rc = subprocess.call([sys.executable, tr, "--repo", repo, "--files", os.path.join(here, "fixtures", "mult_dim_prefix.py"),
                          "--prefix", "fx_", "-o", outs[2] + ".tmp", "--report", os.path.join(scratch, "fx_report.json")])
if rc != 0:
    for o in outs:
        for p in (o, o + ".tmp"):
            if os.path.exists(p):
                os.remove(p)
    sys.exit(rc)
for o in outs:
    # keep the time stamp of unchanged files so that make does not rebuild them
    write_if_changed(o + ".tmp", o)
sys.exit(0)
