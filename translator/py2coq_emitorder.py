#!/venv/bin/python
"""Fail-closed site scan for property C18 (determinism):  exo sources  ->  coq/Determ/Gen_Sites.v

The scan lists every place of the scanned modules where the ITERATION ORDER of a hash-ordered collection (or an
address-/counter-dependent value) can be observed, and checks each one against the reviewed table
coq/Determ/sites_reviewed.json.  A site that is not in the table (new code, or a reviewed statement whose text
changed) makes this program exit with status 2 naming the site; so does a reviewed site whose `requires` (the
consumer that sorts its result) has disappeared.

What is a hash-ordered collection (small flow-insensitive type inference, per function, closures included;
global tables by bare name for function results, method results, attributes and parameters):
   set        set(...), frozenset(...), {a, b}, {.. for ..}, |,&,-,^ of sets, .union/.intersection/.difference/
              .symmetric_difference/.copy of sets, set.union(...), results of functions/methods classified as
              returning sets (fixpoint over all scanned modules), attributes assigned such values (self._fvs ...),
              parameters that receive such values at some call site of the scanned modules
   hlist      a list/tuple/iterator whose ORDER derives from iterating a set: list(S), tuple(S), [.. for x in S],
              reversed/filter/map/enumerate/zip/iter of those, slices and + of them, lists appended to inside a
              loop over S, results of functions returning them
   dictview   D.keys()/D.values()/D.items() and iteration over a name inferred to be a dict (insertion-ordered in
              CPython >= 3.7: listed so that the insertion order itself is reviewed)
Order-observing contexts (= sites): for-loops and comprehension generators over such a collection; list/tuple/
sorted/enumerate/zip/iter/next/reversed/map/filter/min/max/sum/any/all/str/repr/print/format/"..".join/.extend
applied to one; *-unpacking; f-string interpolation; S.pop(); passing one to a callee that the scan cannot see
(kind `escape`).  Unconditional sites: every sorted(...)/.sort(...) call (the key must be reviewed), every
id(...)/hash(...) call (addresses), every access to ._id/_unq_count and every repr(...)/{..!r} (repr of a Sym
shows the counter value).
Receivers the scan cannot type (x.m() / x.a for an x that is not `self` or a local bound to C(...)) are typed
unknown: the scan is a reviewed syntactic approximation, the seed/history sweep of harness/props/C18.py is the
runtime check of the same obligation.

Fingerprint of a site (line independent): file, qualified function name, kind, source of the collection
expression, normalised source (ast.unparse) of the enclosing simple statement; for `for` statements the header
plus a digest of the loop body (what is done in hash order must be re-reviewed when it changes)."""
import argparse
import ast
import hashlib
import json
import os
import sys

DEFAULT_FILES = [
    "src/exo/backend/LoopIR_compiler.py",
    "src/exo/rewrite/LoopIR_scheduling.py",
    "src/exo/core/prelude.py",
    "src/exo/core/LoopIR_pprint.py",
    "src/exo/API.py",
    # context only (function-result tables): sites of these files are not part of the obligation
]
CONTEXT_FILES = [
    "src/exo/core/LoopIR.py",
    "src/exo/core/internal_cursors.py",
    "src/exo/rewrite/LoopIR_unification.py",
    "src/exo/rewrite/range_analysis.py",
    "src/exo/rewrite/new_eff.py",
]

SET_METHODS = {"union", "intersection", "difference", "symmetric_difference", "copy"}
INSENSITIVE_CALLS = {
    "len", "bool", "set", "frozenset", "isinstance", "type", "id", "hash", "issubclass", "callable", "dict",
}
SET_MUTATORS = {
    "add", "update", "discard", "remove", "clear", "issubset", "issuperset", "isdisjoint", "union", "intersection",
    "difference", "symmetric_difference", "copy", "intersection_update", "difference_update", "__contains__",
    "symmetric_difference_update", "get", "setdefault", "keys", "values", "items",
}
ORDER_CALLS = {
    "list", "tuple", "sorted", "enumerate", "zip", "iter", "next", "reversed", "map", "filter", "min", "max", "sum",
    "any", "all", "str", "repr", "print", "format",
}
HLIST_MAKERS = {"list", "tuple", "reversed", "filter", "map", "enumerate", "zip", "iter"}
DICT_MAKERS = {"dict", "defaultdict", "ChainMap", "OrderedDict"}
HASHED = ("set", "hlist", "dictview")


def src(node):
    return ast.unparse(node)


class Module:
    def __init__(self, rel, path, obligation):
        self.rel = rel
        self.obligation = obligation
        self.tree = ast.parse(open(path).read(), filename=path)


class Tables:
    """inferred types: function results and parameters by function node, attributes by (class, name)"""

    def __init__(self):
        self.ret = {}  # id(function node) -> type
        self.attr = {}  # (class name, attribute) -> type
        self.param = {}  # (id(function node), parameter name) -> type
        self.changed = False

    def set(self, table, key, ty):
        if ty is None:
            return
        old = table.get(key)
        if old == ty:
            return
        rank = {"set": 4, "hlist": 3, "dictview": 2, "dict": 1}
        if old is None or rank.get(ty, 0) > rank.get(old, 0):
            table[key] = ty
            self.changed = True


class FuncInfo:
    def __init__(self, node, qual, parent, cls, module):
        self.node, self.qual, self.parent, self.cls, self.module = node, qual, parent, cls, module
        self.env = {}  # local name -> type
        self.children = {}  # nested function name -> node
        self.nonlocals = set()

    def lookup(self, name):
        f = self
        while f is not None:
            if name in f.env:
                return f.env[name]
            f = f.parent
        return None

    def params(self):
        if not isinstance(self.node, (ast.FunctionDef, ast.AsyncFunctionDef)):
            return []
        a = self.node.args
        return [x.arg for x in a.posonlyargs + a.args]

    def all_params(self):
        if not isinstance(self.node, (ast.FunctionDef, ast.AsyncFunctionDef)):
            return []
        a = self.node.args
        return [x.arg for x in a.posonlyargs + a.args + a.kwonlyargs]


class ClassInfo:
    def __init__(self, node, module):
        self.node, self.module = node, module
        self.bases = [b.id if isinstance(b, ast.Name) else b.attr if isinstance(b, ast.Attribute) else None
                      for b in node.bases]
        self.methods = {}  # name -> function node


class Scanner:
    def __init__(self, modules):
        self.modules = modules
        self.t = Tables()
        self.funcs = {}  # id(node) -> FuncInfo
        self.classes = {}  # bare class name -> ClassInfo (first definition wins)
        self.global_funcs = {}  # bare name of a module-level function -> node (first definition wins)
        self.sites = []
        for m in modules:
            self.collect_funcs(m)

    # ------------------------------------------------------------------ structure
    def collect_funcs(self, m):
        def walk(node, qual, parent, cls):
            for ch in ast.iter_child_nodes(node):
                if isinstance(ch, (ast.FunctionDef, ast.AsyncFunctionDef)):
                    q = (qual + "." if qual else "") + ch.name
                    fi = FuncInfo(ch, q, parent, cls, m)
                    self.funcs[id(ch)] = fi
                    if cls is not None and isinstance(node, ast.ClassDef):
                        self.classes[cls].methods.setdefault(ch.name, ch)
                    else:
                        parent.children.setdefault(ch.name, ch)
                        if parent is m.top:
                            self.global_funcs.setdefault(ch.name, ch)
                    walk(ch, q, fi, cls)
                elif isinstance(ch, ast.ClassDef):
                    self.classes.setdefault(ch.name, ClassInfo(ch, m))
                    walk(ch, (qual + "." if qual else "") + ch.name, parent, ch.name)
                else:
                    walk(ch, qual, parent, cls)

        top = FuncInfo(m.tree, "<module>", None, None, m)  # module-level pseudo function
        self.funcs[id(m.tree)] = top
        m.top = top
        walk(m.tree, "", top, None)

    def resolve_func(self, name, fi):
        f = fi
        while f is not None:
            if name in f.children:
                return f.children[name]
            f = f.parent
        return self.global_funcs.get(name)

    def resolve_method(self, cls, name, seen=()):
        ci = self.classes.get(cls)
        if ci is None or cls in seen:
            return None
        if name in ci.methods:
            return ci.methods[name]
        for b in ci.bases:
            if b:
                r = self.resolve_method(b, name, seen + (cls,))
                if r is not None:
                    return r
        return None

    def attr_type(self, cls, name, seen=()):
        if cls is None or cls in seen:
            return None
        v = self.t.attr.get((cls, name))
        if v:
            return v
        ci = self.classes.get(cls)
        for b in (ci.bases if ci else []):
            v = self.attr_type(b, name, seen + (cls,))
            if v:
                return v
        return None

    def callee_of(self, call, fi):
        """function node called by `call`, when the scan can tell"""
        f = call.func
        if isinstance(f, ast.Name):
            if fi.lookup(f.id) is not None:
                return None
            if f.id in self.classes:
                return self.resolve_method(f.id, "__init__")
            return self.resolve_func(f.id, fi)
        if isinstance(f, ast.Attribute):
            recv = self.ty(f.value, fi)
            if isinstance(recv, tuple):
                return self.resolve_method(recv[1], f.attr)
        return None

    # ------------------------------------------------------------------ typing
    def ty(self, e, fi):
        t = self.t
        if e is None:
            return None
        if isinstance(e, (ast.Set, ast.SetComp)):
            return "set"
        if isinstance(e, ast.Name):
            if e.id == "self" and fi.cls:
                return ("inst", fi.cls)
            f = fi
            while f is not None:
                if e.id in f.env:
                    return f.env[e.id]
                if e.id in f.all_params():
                    return t.param.get((id(f.node), e.id))
                f = f.parent
            return None
        if isinstance(e, ast.Attribute):
            recv = self.ty(e.value, fi)
            if isinstance(recv, tuple):
                return self.attr_type(recv[1], e.attr)
            return None
        if isinstance(e, (ast.Starred, ast.NamedExpr)):
            return self.ty(e.value, fi)
        if isinstance(e, ast.BinOp):
            l, r = self.ty(e.left, fi), self.ty(e.right, fi)
            if isinstance(e.op, (ast.BitOr, ast.BitAnd, ast.Sub, ast.BitXor)) and "set" in (l, r):
                return "set"
            if isinstance(e.op, ast.Add) and "hlist" in (l, r):
                return "hlist"
            return None
        if isinstance(e, (ast.BoolOp, ast.IfExp)):
            vals = e.values if isinstance(e, ast.BoolOp) else [e.body, e.orelse]
            ts = [self.ty(v, fi) for v in vals]
            for k in HASHED + ("dict",):
                if k in ts:
                    return k
            return None
        if isinstance(e, (ast.ListComp, ast.GeneratorExp)):
            for g in e.generators:
                if self.ty(g.iter, fi) in ("set", "hlist"):
                    return "hlist"
            return None
        if isinstance(e, (ast.DictComp, ast.Dict)):
            return "dict"
        if isinstance(e, (ast.List, ast.Tuple)):
            for el in e.elts:
                if isinstance(el, ast.Starred) and self.ty(el.value, fi) in ("set", "hlist"):
                    return "hlist"
            return None
        if isinstance(e, ast.Subscript):
            if isinstance(e.slice, ast.Slice) and self.ty(e.value, fi) == "hlist":
                return "hlist"
            return None
        if isinstance(e, ast.Call):
            f = e.func
            if isinstance(f, ast.Name) and fi.lookup(f.id) is None:
                if f.id in ("set", "frozenset"):
                    return "set"
                if f.id == "sorted":
                    return None
                if f.id in HLIST_MAKERS:
                    for a in e.args:
                        if self.ty(a, fi) in ("set", "hlist"):
                            return "hlist"
                    return None
                if f.id in DICT_MAKERS:
                    return "dict"
                if f.id in self.classes:
                    return ("inst", f.id)
            if isinstance(f, ast.Attribute):
                base = self.ty(f.value, fi)
                if isinstance(f.value, ast.Name) and f.value.id in ("set", "frozenset") and f.attr in SET_METHODS:
                    return "set"
                if f.attr in SET_METHODS and base == "set":
                    return "set"
                if f.attr == "copy" and base in ("hlist", "dict"):
                    return base
                if f.attr in ("keys", "values", "items") and not isinstance(base, tuple):
                    return "dictview"
            callee = self.callee_of(e, fi)
            if callee is not None:
                if callee.name == "__init__":
                    return ("inst", f.id) if isinstance(f, ast.Name) else None
                return t.ret.get(id(callee))
            return None
        return None

    # ------------------------------------------------------------------ one inference pass over a function
    def infer(self, fi):
        t = self.t
        node = fi.node
        is_fn = isinstance(node, (ast.FunctionDef, ast.AsyncFunctionDef))
        rank = {"set": 4, "hlist": 3, "dictview": 2, "dict": 1}

        def setenv(name, ty):
            if ty is None:
                return
            tgt = fi
            if name in fi.nonlocals:
                f = fi.parent
                while f is not None and name not in f.env and name not in f.all_params():
                    f = f.parent
                tgt = f or fi
            old = tgt.env.get(name)
            if old == ty:
                return
            if old is None or (not isinstance(ty, tuple) and not isinstance(old, tuple) and rank[ty] > rank[old]) \
                    or (isinstance(old, tuple) and not isinstance(ty, tuple)):
                tgt.env[name] = ty
                t.changed = True

        def assign(target, ty):
            if isinstance(target, ast.Name):
                setenv(target.id, ty)
            elif isinstance(target, ast.Attribute):
                recv = self.ty(target.value, fi)
                if isinstance(recv, tuple) and not isinstance(ty, tuple):
                    t.set(t.attr, (recv[1], target.attr), ty if ty != "dictview" else None)

        def visit(n, in_hash_loop):
            if isinstance(n, (ast.FunctionDef, ast.AsyncFunctionDef, ast.ClassDef)):
                return
            if isinstance(n, (ast.Nonlocal, ast.Global)):
                fi.nonlocals.update(n.names)
            elif isinstance(n, ast.Assign):
                ty = self.ty(n.value, fi)
                for tg in n.targets:
                    assign(tg, ty)
                    if in_hash_loop and isinstance(tg, ast.Subscript) and isinstance(tg.value, ast.Name):
                        setenv(tg.value.id, "hlist")
            elif isinstance(n, ast.AnnAssign) and n.value is not None:
                assign(n.target, self.ty(n.value, fi))
            elif isinstance(n, ast.AugAssign):
                ty = self.ty(n.value, fi)
                if isinstance(n.op, (ast.BitOr, ast.BitAnd, ast.Sub, ast.BitXor)) and ty == "set":
                    assign(n.target, "set")
                elif isinstance(n.op, ast.Add) and ty == "hlist":
                    assign(n.target, "hlist")
                elif isinstance(n.op, ast.Add) and in_hash_loop and isinstance(n.target, ast.Name):
                    setenv(n.target.id, "hlist")  # list or string accumulated in hash order
            elif isinstance(n, ast.NamedExpr):
                assign(n.target, self.ty(n.value, fi))
            elif isinstance(n, ast.Return) and is_fn:
                ty = self.ty(n.value, fi)
                if not isinstance(ty, tuple):
                    t.set(t.ret, id(node), ty)
            elif isinstance(n, ast.Call):
                if isinstance(n.func, ast.Attribute) and isinstance(n.func.value, ast.Name):
                    # lists filled inside a loop over a hash-ordered collection inherit its order
                    if in_hash_loop and n.func.attr in ("append", "extend", "insert"):
                        setenv(n.func.value.id, "hlist")
                    if n.func.attr == "extend" and n.args and self.ty(n.args[0], fi) in ("set", "hlist"):
                        setenv(n.func.value.id, "hlist")
                callee = self.callee_of(n, fi)
                if callee is not None:
                    cfi = self.funcs[id(callee)]
                    params = cfi.params()
                    if cfi.cls is not None and params and params[0] in ("self", "cls") and \
                            callee in self.classes[cfi.cls].methods.values():
                        params = params[1:]
                    for i, a in enumerate(n.args):
                        if isinstance(a, ast.Starred):
                            break
                        ty = self.ty(a, fi)
                        if ty in ("set", "hlist") and i < len(params):
                            t.set(t.param, (id(callee), params[i]), ty)
                    for kw in n.keywords:
                        ty = self.ty(kw.value, fi)
                        if kw.arg and ty in ("set", "hlist"):
                            t.set(t.param, (id(callee), kw.arg), ty)
            if isinstance(n, (ast.For, ast.AsyncFor)):
                h = self.ty(n.iter, fi) in ("set", "hlist")
                visit(n.iter, in_hash_loop)
                for ch in n.body + n.orelse:
                    visit(ch, in_hash_loop or h)
                return
            for ch in ast.iter_child_nodes(n):
                visit(ch, in_hash_loop)

        for ch in ast.iter_child_nodes(node):
            visit(ch, False)

    def fixpoint(self):
        for _ in range(40):
            self.t.changed = False
            for fi in self.funcs.values():
                self.infer(fi)
            if not self.t.changed:
                return
        raise SystemExit("py2coq_emitorder: type inference did not reach a fixpoint")

    # ------------------------------------------------------------------ sites
    def find_sites(self):
        for m in self.modules:
            if not m.obligation:
                continue
            self.sites_in(m, m.tree.body, m.top)

    def add(self, m, fi, kind, coll, stmt, extra=""):
        if isinstance(stmt, (ast.For, ast.AsyncFor)):
            text = "for %s in %s:" % (src(stmt.target), src(stmt.iter))
            body = hashlib.sha1("\n".join(src(s) for s in stmt.body + stmt.orelse).encode()).hexdigest()[:12]
        elif isinstance(stmt, (ast.If, ast.While)):
            text = "%s %s:" % ("if" if isinstance(stmt, ast.If) else "while", src(stmt.test))
            body = ""
        elif isinstance(stmt, (ast.With, ast.AsyncWith)):
            text = "with %s:" % ", ".join(src(i) for i in stmt.items)
            body = ""
        elif isinstance(stmt, (ast.FunctionDef, ast.AsyncFunctionDef)):
            text = "def %s(%s):" % (stmt.name, src(stmt.args))
            body = ""
        else:
            text = src(stmt)
            body = ""
        if kind != "for":
            body = ""
        self.sites.append({
            "file": m.rel, "func": fi.qual, "kind": kind, "coll": src(coll) if coll is not None else extra,
            "stmt": " ".join(text.split()), "body": body, "line": getattr(coll if coll is not None else stmt, "lineno", 0),
        })

    def sites_in(self, m, body, fi):
        for s in body:
            if isinstance(s, (ast.FunctionDef, ast.AsyncFunctionDef)):
                for d in s.decorator_list + s.args.defaults + s.args.kw_defaults:
                    if d is not None:
                        self.expr_sites(m, d, fi, s)
                self.sites_in(m, s.body, self.funcs[id(s)])
            elif isinstance(s, ast.ClassDef):
                self.sites_in(m, s.body, fi)
            elif isinstance(s, (ast.For, ast.AsyncFor)):
                if self.ty(s.iter, fi) in HASHED or self.is_dict(s.iter, fi):
                    self.add(m, fi, "for", s.iter, s)
                self.expr_sites(m, s.iter, fi, s)
                self.sites_in(m, s.body + s.orelse, fi)
            elif isinstance(s, (ast.If, ast.While)):
                self.expr_sites(m, s.test, fi, s)
                self.sites_in(m, s.body + s.orelse, fi)
            elif isinstance(s, (ast.With, ast.AsyncWith)):
                for it in s.items:
                    self.expr_sites(m, it.context_expr, fi, s)
                self.sites_in(m, s.body, fi)
            elif isinstance(s, ast.Try):
                self.sites_in(m, s.body + s.orelse + s.finalbody, fi)
                for h in s.handlers:
                    self.sites_in(m, h.body, fi)
            elif hasattr(ast, "Match") and isinstance(s, ast.Match):
                self.expr_sites(m, s.subject, fi, s)
                for c in s.cases:
                    self.sites_in(m, c.body, fi)
            else:
                self.expr_sites(m, s, fi, s)

    def is_dict(self, e, fi):
        return self.ty(e, fi) == "dict"

    def expr_sites(self, m, root, fi, stmt):
        """order-observing uses inside one simple statement / header expression (lambdas included)"""
        for n in ast.walk(root):
            if isinstance(n, (ast.ListComp, ast.SetComp, ast.GeneratorExp, ast.DictComp)):
                for g in n.generators:
                    if self.ty(g.iter, fi) in HASHED or self.is_dict(g.iter, fi):
                        self.add(m, fi, "comp:" + type(n).__name__, g.iter, stmt)
            elif isinstance(n, ast.Call):
                f = n.func
                name = f.id if isinstance(f, ast.Name) and fi.lookup(f.id) is None else None
                if name == "sorted" or (isinstance(f, ast.Attribute) and f.attr == "sort"):
                    self.add(m, fi, "sorted", n, stmt)
                    continue
                if name in ("id", "hash"):
                    self.add(m, fi, "identity-value", n, stmt)
                    continue
                if name == "repr":
                    self.add(m, fi, "counter-value", n, stmt)
                hashed_args = [a for a in list(n.args) + [k.value for k in n.keywords] if self.ty(a, fi) in HASHED]
                if name in ORDER_CALLS:
                    for a in hashed_args:
                        self.add(m, fi, "call:" + name, a, stmt)
                elif isinstance(f, ast.Attribute) and f.attr in ("join", "extend"):
                    for a in hashed_args:
                        self.add(m, fi, "call:" + f.attr, a, stmt)
                elif isinstance(f, ast.Attribute) and f.attr == "pop" and self.ty(f.value, fi) == "set":
                    self.add(m, fi, "call:set.pop", f.value, stmt)
                elif hashed_args:
                    callee = name or (f.attr if isinstance(f, ast.Attribute) else None)
                    if name in INSENSITIVE_CALLS:
                        continue
                    if isinstance(f, ast.Attribute) and f.attr in SET_MUTATORS and \
                            (self.ty(f.value, fi) in ("set", "dict") or
                             (isinstance(f.value, ast.Name) and f.value.id in ("set", "frozenset"))):
                        continue
                    if self.callee_of(n, fi) is not None and not any(isinstance(a, ast.Starred) for a in n.args):
                        continue  # the callee is scanned and its parameter is typed
                    for a in hashed_args:
                        self.add(m, fi, "escape:" + str(callee), a, stmt)
            elif isinstance(n, ast.FormattedValue):
                if self.ty(n.value, fi) in HASHED:
                    self.add(m, fi, "format", n.value, stmt)
                elif n.conversion == ord("r"):
                    self.add(m, fi, "counter-value", n, stmt)
            elif isinstance(n, ast.Starred):
                if self.ty(n.value, fi) in HASHED:
                    self.add(m, fi, "star", n.value, stmt)
            elif isinstance(n, ast.Attribute) and n.attr in ("_id", "_unq_count"):
                self.add(m, fi, "counter-value", n, stmt)
            elif isinstance(n, ast.Assign):
                # tuple unpacking of a hash-ordered value:  a, b = S
                if any(isinstance(tg, (ast.Tuple, ast.List)) for tg in n.targets) and self.ty(n.value, fi) in HASHED:
                    self.add(m, fi, "unpack", n.value, stmt)


def scan(repo, files=None, context=None):
    files = DEFAULT_FILES if files is None else files
    context = CONTEXT_FILES if context is None else context
    mods = []
    for rel in files:
        mods.append(Module(rel, os.path.join(repo, rel), True))
    for rel in context:
        p = os.path.join(repo, rel)
        if os.path.exists(p):
            mods.append(Module(rel, p, False))
    sc = Scanner(mods)
    sc.fixpoint()
    sc.find_sites()
    # merge identical fingerprints (count them)
    merged = {}
    for s in sc.sites:
        k = fingerprint(s)
        if k in merged:
            merged[k]["count"] += 1
            merged[k]["lines"].append(s["line"])
        else:
            d = dict(s)
            d["count"] = 1
            d["lines"] = [d.pop("line")]
            merged[k] = d
    return list(merged.values()), sc


def fingerprint(s):
    return "|".join([s["file"], s["func"], s["kind"], s["coll"], s["stmt"], s.get("body", "")])


CLASSES = {
    "order-insensitive": "OrderInsensitive",
    "sorted-before-use": "SortedBeforeUse",
    "sorted-no-unique-guard": "SortedNoUniqueGuard",
    "insertion-ordered": "InsertionOrdered",
    "seed-independent-hash": "SeedIndependentHash",
    "monotone-invariant": "MonotoneInvariant",
    "error-text-only": "ErrorTextOnly",
    "order-reaches-output": "OrderReachesOutput",
}


def coq_str(s):
    s = "".join(c if 32 <= ord(c) < 127 else "?" for c in s)
    return '"' + s.replace('"', '""') + '"'


def main():
    ap = argparse.ArgumentParser()
    ap.add_argument("--repo", default=os.environ.get("EXO_REPO", "/repo"))
    ap.add_argument("--table", required=True)
    ap.add_argument("-o", "--out")
    ap.add_argument("--dump", action="store_true", help="print the scanned sites as JSON (for reviewing) and exit")
    a = ap.parse_args()
    try:
        sites, _ = scan(a.repo)
    except (SyntaxError, OSError) as e:
        print("py2coq_emitorder: cannot scan: %s" % e)
        sys.exit(2)
    if a.dump:
        json.dump(sites, sys.stdout, indent=1)
        return
    table = json.load(open(a.table))
    entries = table["sites"]
    by_fp = {}
    for e in entries:
        by_fp[fingerprint(e)] = e
    errors = []
    matched = {}
    for s in sites:
        e = by_fp.get(fingerprint(s))
        if e is None:
            errors.append("UNCLASSIFIED site %s:%s in %s: kind=%s collection=`%s` statement=`%s`%s"
                          % (s["file"], s["lines"], s["func"], s["kind"], s["coll"], s["stmt"][:200],
                             " body-digest=%s" % s["body"] if s["body"] else ""))
            continue
        if e.get("count", 1) != s["count"]:
            errors.append("site %s occurs %d times (reviewed: %d) in %s %s: `%s`"
                          % (e["id"], s["count"], e.get("count", 1), s["file"], s["func"], s["stmt"][:200]))
        if e["class"] not in CLASSES:
            errors.append("site %s has unknown class %r" % (e["id"], e["class"]))
        matched[e["id"]] = (e, s)
    ids = [e["id"] for e in entries]
    if len(set(ids)) != len(ids):
        errors.append("duplicate ids in the reviewed table")
    for e, s in matched.values():
        for r in e.get("requires", []):
            if r not in matched:
                errors.append("site %s (%s) relies on site %s, which is no longer present in the source" % (e["id"], e["class"], r))
    stale = [e["id"] for e in entries if e["id"] not in matched]
    if stale:
        print("note: reviewed sites no longer present in the source (harmless): %s" % ", ".join(stale))
    if errors:
        for x in errors:
            print("py2coq_emitorder: " + x)
        sys.exit(2)
    known_all = table.get("known_finding_sites", [])
    known = [k for k in known_all if k in matched]
    gone = [k for k in known_all if k not in matched]
    if gone:
        print("note: known-finding sites no longer present in the source (repaired?): %s" % ", ".join(gone))
    lines = [
        "(* GENERATED by translator/py2coq_emitorder.py from the current exo source and coq/Determ/sites_reviewed.json;",
        "   do not edit.  One record per hash-order / identity-value site of the scanned modules. *)",
        "From Coq Require Import String List.",
        "From Determ Require Import ModelSites.",
        "Import ListNotations.",
        "Open Scope string_scope.",
        "",
        "Definition scanned_files : list string := [%s]." % "; ".join(coq_str(f) for f in DEFAULT_FILES),
        "",
        "Definition sites : list site := [",
    ]
    rows = []
    for sid in sorted(matched):
        e, s = matched[sid]
        rows.append("  mkSite %s %s %s %s %s" % (coq_str(e["id"]), coq_str(e["file"]), coq_str(e["func"]),
                                              CLASSES[e["class"]], coq_str(e.get("theorem", ""))))
    lines.append(";\n".join(rows))
    lines.append("].")
    lines.append("")
    lines.append("Definition known_finding_sites : list string := [%s]." % "; ".join(coq_str(k) for k in known))
    lines.append("")
    lines.append("(* does compile_to_strings emit the static helpers through sorted(needed_helpers)?  (site "
                 "static-helpers-sorted present and the unsorted comprehension static-helpers absent) *)")
    lines.append("Definition helpers_emission_sorted : bool := %s."
                 % ("true" if "static-helpers-sorted" in matched and "static-helpers" not in matched else "false"))
    lines.append("")
    if a.out:
        open(a.out, "w").write("\n".join(lines) + "\n")
    counts = {}
    for e, _ in matched.values():
        counts[e["class"]] = counts.get(e["class"], 0) + 1
    print("py2coq_emitorder: %d sites, all classified: %s" % (len(matched), json.dumps(counts, sort_keys=True)))


if __name__ == "__main__":
    main()
