#!/venv/bin/python
"""py2coq_effpreds.py — fail-closed Python-ast -> Gallina translator for the effect-predicate algebra of
``exo/rewrite/new_eff.py`` (properties C09 and C01).

    py2coq_effpreds.py [--repo DIR] [-o OUT.v]

Translated (Gen_EffPreds.v, over coq/Par/SetAlg.v):
    class ES(Enum)                 -> Inductive ES (every public member)
    getsets(codes, effs)           -> get_code (effs : basic) (code : ES) : lset      (the derived-set block and
                                      the code dispatch; `getsets([c1,..], a)` is  [get_code a c1; ..])
    Disjoint_Memory, Commutes, AllocCommutes, Shadows, Commutes_Fissioning
                                   -> Prop-valued definitions of the same names
    Check_ParallelizeLoop          -> Check_ParallelizeLoop_pred (lo hi : Z) (a_bd : basic) (fam : Z -> basic) : Prop
                                      the formula handed to the solver: `a` is the body's effect at iteration i
                                      (fam i), `a2` the same effect with i replaced by i2 (fam i2)

Set algebra: a location set is a predicate `loc -> Prop` (SetAlg.v): LUnion -> union, LIsct -> intersection,
LDiff -> difference, is_empty s -> forall x, ~ s x, ADef/AMay p -> p (on exact footprints the ternary logic of
the analysis collapses: every membership is definite), AAnd -> /\\, AOr -> \\/, AImplies -> ->, AForAll -> forall
over Z, `AInt(x) < AInt(y)` -> x < y, `lift_e(lo) <= AInt(x)` -> lo <= x.
The six basic sets returned by get_basic_locsets (RG, WG, RH, WH, preRed, Alc) are the fields of `basic`, in that
order (the translator checks the order of the returned tuple); how they are extracted from a statement is the
analysis' oracle part and is not translated.  get_changing_globset(env) is abstracted by the set it returns.

Supported grammar (anything else => exit 2 naming the construct and the line):
  predicate functions:   v1, .., vn = getsets([ES.c1, .., ES.cn], a) | v = getsets([ES.c], a)[0]
                         | v = get_changing_globset(a) | v = <formula> | if <bool parameter>: <assignments>
                         | string-literal statement (ignored) | return <name or formula>
  formulas:              AAnd(..) AOr(..) ADef(f) AMay(f) is_empty(s) | names | calls of translated predicates
  sets:                  LUnion(s,s) LIsct(s,s) LDiff(s,s) | names
  getsets:               the tuple assignment from get_basic_locsets(effs), `X = <set>` lines, the nested
                         `def get_code(code)` if/elif chain of `code == ES.c: return X`, `else: assert False`,
                         `return [get_code(c) for c in codes]`
  Check_ParallelizeLoop: a fixed list of glue statements (compared textually, see GLUE) and the formula
                         statements `def bds`, `no_bound_change = ..`, `bodies_commute = ..`, `pred = ..`,
                         `is_ok = slv.verify(pred)`, `if not is_ok: raise ..`
"""
import ast
import os
import sys

SRC = "src/exo/rewrite/new_eff.py"
PREDICATES = ["Disjoint_Memory", "Commutes", "Commutes_Fissioning", "AllocCommutes", "Shadows"]
BASIC_FIELDS = ["b_RG", "b_WG", "b_RH", "b_WH", "b_preRed", "b_Alc"]
BASIC_RETURN = ["RG", "WG", "RH", "WH", "Red", "Alc"]   # names in get_basic_locsets' return tuple


class Unsupported(Exception):
    pass


def fail(node, msg):
    try:
        txt = ast.unparse(node)
    except Exception:
        txt = "?"
    raise Unsupported("%s:%s: unsupported construct: %s: `%s`" % (SRC, getattr(node, "lineno", "?"), msg,
                                                                   txt.replace("\n", " ")[:120]))


def strip_doc(body):
    return [s for s in body if not (isinstance(s, ast.Expr) and isinstance(s.value, ast.Constant)
                                    and isinstance(s.value.value, str))]


def call_name(e):
    if isinstance(e, ast.Call) and isinstance(e.func, ast.Name) and not e.keywords:
        return e.func.id
    return None


def es_member(e):
    if isinstance(e, ast.Attribute) and isinstance(e.value, ast.Name) and e.value.id == "ES":
        return e.attr
    fail(e, "expected ES.<member>")


class Tr:
    def __init__(self, repo):
        path = os.path.join(repo, SRC)
        self.tree = ast.parse(open(path).read(), path)
        self.funcs = {}
        self.classes = {}
        for n in self.tree.body:
            if isinstance(n, ast.FunctionDef):
                if n.name in self.funcs and n.name in PREDICATES + ["getsets", "Check_ParallelizeLoop",
                                                                   "get_basic_locsets"]:
                    fail(n, "function defined twice")
                self.funcs[n.name] = n
            elif isinstance(n, ast.ClassDef):
                self.classes[n.name] = n
        # later rebinding of a translated name at module level would make the translation stale
        watched = set(PREDICATES + ["getsets", "Check_ParallelizeLoop", "get_basic_locsets", "ES", "LUnion", "LIsct",
                                    "LDiff", "is_empty"])
        for n in self.tree.body:
            if isinstance(n, (ast.Assign, ast.AugAssign, ast.AnnAssign)):
                for t in ast.walk(n):
                    if isinstance(t, ast.Name) and isinstance(t.ctx, ast.Store) and t.id in watched:
                        fail(n, "module-level rebinding of a translated name")
        self.es = self.read_es()

    # ---------------------------------------------------------------- ES
    def read_es(self):
        c = self.classes.get("ES")
        if c is None:
            raise Unsupported("%s: class ES not found" % SRC)
        if not (len(c.bases) == 1 and isinstance(c.bases[0], ast.Name) and c.bases[0].id == "Enum"):
            fail(c, "ES must be an Enum")
        names, vals = [], set()
        for st in c.body:
            if not (isinstance(st, ast.Assign) and len(st.targets) == 1 and isinstance(st.targets[0], ast.Name)
                    and isinstance(st.value, ast.Constant) and isinstance(st.value.value, int)):
                fail(st, "ES member")
            if st.value.value in vals:
                fail(st, "ES members with equal values are aliases")
            vals.add(st.value.value)
            if not st.targets[0].id.startswith("_"):
                names.append(st.targets[0].id)
        return names

    # ---------------------------------------------------------------- sets and formulas
    def setx(self, e, env):
        nm = call_name(e)
        if nm in ("LUnion", "LIsct", "LDiff"):
            if len(e.args) != 2:
                fail(e, "arity")
            return "(%s %s %s)" % (nm, self.setx(e.args[0], env), self.setx(e.args[1], env))
        if isinstance(e, ast.Name):
            if env.get(e.id) != "set":
                fail(e, "name is not a location set here")
            return e.id
        fail(e, "location-set expression")

    def formula(self, e, env):
        nm = call_name(e)
        if nm in ("AAnd", "AOr"):
            if any(isinstance(a, ast.Starred) for a in e.args):
                fail(e, "starred arguments")
            if not e.args:
                return "True" if nm == "AAnd" else "False"
            op = " /\\ " if nm == "AAnd" else " \\/ "
            return "(" + op.join(self.formula(a, env) for a in e.args) + ")"
        if nm in ("ADef", "AMay"):
            if len(e.args) != 1:
                fail(e, "arity")
            return "(%s %s)" % (nm, self.formula(e.args[0], env))
        if nm == "is_empty":
            if len(e.args) != 1:
                fail(e, "arity")
            return "(is_empty %s)" % self.setx(e.args[0], env)
        if nm in PREDICATES and nm != "Commutes_Fissioning":
            if len(e.args) != 2:
                fail(e, "arity")
            return "(%s %s %s)" % (nm, self.basicx(e.args[0], env), self.basicx(e.args[1], env))
        if isinstance(e, ast.Name):
            if env.get(e.id) != "prop":
                fail(e, "name is not a formula here")
            return e.id
        fail(e, "formula")

    def basicx(self, e, env):
        if isinstance(e, ast.Name) and env.get(e.id) == "basic":
            return e.id
        if isinstance(e, ast.Name) and env.get(e.id) == "fam_i":
            return "(fam i)"
        if isinstance(e, ast.Name) and env.get(e.id) == "fam_i2":
            return "(fam i2)"
        fail(e, "effect argument")

    # ---------------------------------------------------------------- getsets
    def translate_getsets(self):
        f = self.funcs.get("getsets")
        if f is None:
            raise Unsupported("%s: getsets not found" % SRC)
        if [a.arg for a in f.args.args] != ["codes", "effs"]:
            fail(f, "signature of getsets")
        # order of the basic sets = order of get_basic_locsets' return tuple
        g = self.funcs.get("get_basic_locsets")
        if g is None:
            raise Unsupported("%s: get_basic_locsets not found" % SRC)
        rets = [n for n in ast.walk(g) if isinstance(n, ast.Return)]
        if not (len(rets) == 1 and isinstance(rets[0].value, ast.Tuple)
                and [getattr(x, "id", None) for x in rets[0].value.elts] == BASIC_RETURN):
            fail(rets[0] if rets else g, "get_basic_locsets must return (RG, WG, RH, WH, Red, Alc)")
        body = strip_doc(f.body)
        st = body[0]
        if not (isinstance(st, ast.Assign) and len(st.targets) == 1 and isinstance(st.targets[0], ast.Tuple)
                and call_name(st.value) == "get_basic_locsets" and len(st.value.args) == 1
                and isinstance(st.value.args[0], ast.Name) and st.value.args[0].id == "effs"
                and len(st.targets[0].elts) == 6 and all(isinstance(x, ast.Name) for x in st.targets[0].elts)):
            fail(st, "getsets must start with `RG, WG, RH, WH, preRed, Alc = get_basic_locsets(effs)`")
        env = {}
        lets = []
        for x, fld in zip(st.targets[0].elts, BASIC_FIELDS):
            if x.id in env:
                fail(st, "duplicate name")
            env[x.id] = "set"
            lets.append("  let %s := %s effs in" % (x.id, fld))
        i = 1
        while i < len(body) and isinstance(body[i], ast.Assign):
            st = body[i]
            if not (len(st.targets) == 1 and isinstance(st.targets[0], ast.Name)):
                fail(st, "assignment in getsets")
            v = st.targets[0].id
            lets.append("  let %s := %s in" % (v, self.setx(st.value, env)))
            env[v] = "set"
            i += 1
        d = body[i] if i < len(body) else None
        if not (isinstance(d, ast.FunctionDef) and d.name == "get_code" and [a.arg for a in d.args.args] == ["code"]
                and len(strip_doc(d.body)) == 1 and isinstance(strip_doc(d.body)[0], ast.If)):
            fail(d or f, "expected the nested `def get_code(code)` dispatch")
        arms = {}
        node = strip_doc(d.body)[0]
        while True:
            t = node.test
            if not (isinstance(t, ast.Compare) and len(t.ops) == 1 and isinstance(t.ops[0], ast.Eq)
                    and isinstance(t.left, ast.Name) and t.left.id == "code"):
                fail(t, "dispatch test of get_code")
            m = es_member(t.comparators[0])
            if not (len(node.body) == 1 and isinstance(node.body[0], ast.Return)
                    and isinstance(node.body[0].value, ast.Name)):
                fail(node.body[0], "dispatch branch of get_code must be `return <set name>`")
            if m in arms:
                fail(t, "code tested twice (the second branch is dead)")
            if m not in self.es:
                fail(t, "not a public member of ES")
            arms[m] = self.setx(node.body[0].value, env)
            if len(node.orelse) == 1 and isinstance(node.orelse[0], ast.If):
                node = node.orelse[0]
                continue
            if not (len(node.orelse) == 1 and isinstance(node.orelse[0], ast.Assert)
                    and isinstance(node.orelse[0].test, ast.Constant) and node.orelse[0].test.value is False):
                fail(node, "the dispatch of get_code must end in `else: assert False`")
            break
        for m in self.es:
            if m not in arms:
                raise Unsupported("%s:%s: ES.%s has no branch in get_code (the call would assert)" % (SRC, d.lineno, m))
        i += 1
        r = body[i] if i < len(body) else None
        ok = (isinstance(r, ast.Return) and i == len(body) - 1 and isinstance(r.value, ast.ListComp)
              and call_name(r.value.elt) == "get_code" and len(r.value.generators) == 1
              and not r.value.generators[0].ifs and isinstance(r.value.generators[0].iter, ast.Name)
              and r.value.generators[0].iter.id == "codes" and isinstance(r.value.generators[0].target, ast.Name)
              and isinstance(r.value.elt.args[0], ast.Name)
              and r.value.elt.args[0].id == r.value.generators[0].target.id)
        if not ok:
            fail(r or f, "getsets must end in `return [get_code(c) for c in codes]`")
        out = ["Definition get_code (effs : basic loc) (code : ES) : lset loc :="]
        out += lets
        out.append("  match code with")
        for m in self.es:
            out.append("  | %s => %s" % (m, arms[m]))
        out.append("  end.")
        return "\n".join(out)

    # ---------------------------------------------------------------- predicate functions
    def getsets_call(self, e, env):
        """getsets([ES.a, ..], x) -> (list of members, basic term)"""
        if not (call_name(e) == "getsets" and len(e.args) == 2 and isinstance(e.args[0], ast.List)):
            return None
        return [es_member(x) for x in e.args[0].elts], self.basicx(e.args[1], env)

    def assign(self, st, env, lets):
        """one assignment statement -> appends `let`s, updates env"""
        if len(st.targets) != 1:
            fail(st, "chained assignment")
        tgt, val = st.targets[0], st.value
        if isinstance(tgt, ast.Tuple):
            gs = self.getsets_call(val, env)
            if gs is None or not all(isinstance(x, ast.Name) for x in tgt.elts):
                fail(st, "tuple assignment (expected v1, .., vn = getsets([..], a))")
            ms, a = gs
            if len(ms) != len(tgt.elts):
                fail(st, "number of codes differs from number of targets")
            for x, m in zip(tgt.elts, ms):
                lets.append("let %s := get_code %s %s in" % (x.id, a, m))
                env[x.id] = "set"
            return
        if not isinstance(tgt, ast.Name):
            fail(st, "assignment target")
        v = tgt.id
        if (isinstance(val, ast.Subscript) and isinstance(val.slice, ast.Constant) and val.slice.value == 0):
            gs = self.getsets_call(val.value, env)
            if gs is None or len(gs[0]) != 1:
                fail(st, "expected getsets([ES.c], a)[0]")
            lets.append("let %s := get_code %s %s in" % (v, gs[1], gs[0][0]))
            env[v] = "set"
            return
        if call_name(val) == "get_changing_globset":
            if not (len(val.args) == 1 and isinstance(val.args[0], ast.Name) and env.get(val.args[0].id) == "envset"):
                fail(st, "get_changing_globset must be applied to an environment argument")
            lets.append("let %s := get_changing_globset %s in" % (v, val.args[0].id))
            env[v] = "set"
            return
        if call_name(val) in ("LUnion", "LIsct", "LDiff"):
            lets.append("let %s := %s in" % (v, self.setx(val, env)))
            env[v] = "set"
            return
        lets.append("let %s := %s in" % (v, self.formula(val, env)))
        env[v] = "prop"

    def translate_pred(self, name):
        f = self.funcs.get(name)
        if f is None:
            raise Unsupported("%s: %s not found" % (SRC, name))
        if f.decorator_list or f.args.vararg or f.args.kwarg or f.args.kwonlyargs:
            fail(f, "signature")
        params = [a.arg for a in f.args.args]
        defaults = f.args.defaults
        body = strip_doc(f.body)
        # parameter kinds by use
        kinds = {}
        for n in ast.walk(f):
            if call_name(n) == "getsets" and len(n.args) == 2 and isinstance(n.args[1], ast.Name):
                kinds.setdefault(n.args[1].id, "basic")
            if call_name(n) == "get_changing_globset" and len(n.args) == 1 and isinstance(n.args[0], ast.Name):
                kinds.setdefault(n.args[0].id, "envset")
            if isinstance(n, ast.If) and isinstance(n.test, ast.Name):
                kinds.setdefault(n.test.id, "bool")
        for k, d in zip(params[len(params) - len(defaults):], defaults):
            if kinds.get(k) == "bool" and not (isinstance(d, ast.Constant) and d.value is False):
                fail(d, "default of a boolean flag must be False")
        env = {}
        sig = []
        for p in params:
            k = kinds.get(p)
            if k is None:
                fail(f, "cannot type parameter %s" % p)
            env[p] = k
            sig.append("(%s : %s)" % (p, {"basic": "basic loc", "envset": "lset loc", "bool": "bool"}[k]))
        lets = []
        ret = None
        for idx, st in enumerate(body):
            if isinstance(st, ast.Assign):
                self.assign(st, env, lets)
            elif isinstance(st, ast.If):
                if not (isinstance(st.test, ast.Name) and env.get(st.test.id) == "bool" and not st.orelse):
                    fail(st, "if (expected `if <boolean flag>:` without else)")
                inner_env = dict(env)
                inner = []
                assigned = []
                for q in strip_doc(st.body):
                    if not isinstance(q, ast.Assign):
                        fail(q, "statement inside the conditional block")
                    self.assign(q, inner_env, inner)
                    for t in q.targets:
                        for n in ast.walk(t):
                            if isinstance(n, ast.Name):
                                assigned.append(n.id)
                for v in dict.fromkeys(assigned):
                    if v in env:
                        if env[v] != inner_env[v]:
                            fail(st, "conditional rebinding changes the kind of %s" % v)
                        lets.append("let %s := if %s then (%s %s) else %s in" % (v, st.test.id, " ".join(inner), v, v))
                    else:
                        # defined only under the flag: must not be used afterwards
                        for later in body[idx + 1:]:
                            for n in ast.walk(later):
                                if isinstance(n, ast.Name) and n.id == v:
                                    fail(later, "%s is only defined under `if %s`" % (v, st.test.id))
            elif isinstance(st, ast.Return):
                if st is not body[-1]:
                    fail(st, "return before the end")
                ret = self.formula(st.value, env)
            else:
                fail(st, "statement")
        if ret is None:
            fail(f, "no return")
        out = ["Definition %s %s : Prop :=" % (name, " ".join(sig))]
        out += ["  " + l for l in lets]
        out.append("  %s." % ret)
        return "\n".join(out)

    # ---------------------------------------------------------------- Check_ParallelizeLoop
    GLUE = [
        "ctxt = ContextExtraction(proc, [s])",
        "p = ctxt.get_control_predicate()",
        "G = ctxt.get_pre_globenv()",
        "slv = SMTSolver(verbose=False)",
        "slv.push()",
        "slv.assume(AMay(p))",
        "lo = s.lo",
        "hi = s.hi",
        "body = s.body",
        "i = s.iter",
        "i2 = i.copy()",
        "subenv = {i: LoopIR.Read(i2, [], T.index, null_srcinfo())}",
        "body2 = SubstArgs(body, subenv).result()",
        "a_bd = expr_effs(s.lo) + expr_effs(s.hi)",
        "a = G(stmts_effs(body))",
        "a2 = G(stmts_effs(body2))",
    ]

    def zterm(self, e, env):
        """index terms of the loop formula: AInt(x) | lift_e(lo) | lift_e(hi)"""
        nm = call_name(e)
        if nm == "AInt" and len(e.args) == 1 and isinstance(e.args[0], ast.Name) and env.get(e.args[0].id) == "z":
            return e.args[0].id
        if nm == "lift_e" and len(e.args) == 1 and isinstance(e.args[0], ast.Name) and env.get(e.args[0].id) == "z":
            return e.args[0].id
        fail(e, "index term")

    def lformula(self, e, env):
        nm = call_name(e)
        if nm == "AForAll":
            if not (len(e.args) == 2 and isinstance(e.args[0], ast.List)
                    and all(isinstance(x, ast.Name) and env.get(x.id) == "z" for x in e.args[0].elts)):
                fail(e, "AForAll([vars], body)")
            vs = [x.id for x in e.args[0].elts]
            if not set(vs) <= {"i", "i2"} or len(set(vs)) != len(vs):
                fail(e, "quantified variables")
            return "(forall %s : Z, %s)" % (" ".join(vs), self.lformula(e.args[1], env))
        if nm == "AImplies":
            if len(e.args) != 2:
                fail(e, "arity")
            return "(%s -> %s)" % (self.lformula(e.args[0], env), self.lformula(e.args[1], env))
        if nm in ("AMay", "ADef"):
            if len(e.args) != 1:
                fail(e, "arity")
            return "(%s %s)" % (nm, self.lformula(e.args[0], env))
        if nm in ("AAnd", "AOr"):
            if not e.args or any(isinstance(a, ast.Starred) for a in e.args):
                fail(e, "arguments")
            op = " /\\ " if nm == "AAnd" else " \\/ "
            return "(" + op.join(self.lformula(a, env) for a in e.args) + ")"
        if nm == "bds":
            if not (len(e.args) == 3 and all(isinstance(x, ast.Name) and env.get(x.id) == "z" for x in e.args)):
                fail(e, "bds(x, lo, hi)")
            return "(bds %s %s %s)" % tuple(x.id for x in e.args)
        if nm in ("Commutes", "Disjoint_Memory"):
            if len(e.args) != 2:
                fail(e, "arity")
            return "(%s %s %s)" % (nm, self.basicx(e.args[0], env), self.basicx(e.args[1], env))
        if isinstance(e, ast.Compare) and len(e.ops) == 1:
            op = {ast.Lt: "<", ast.LtE: "<=", ast.Gt: ">", ast.GtE: ">=", ast.Eq: "=", ast.NotEq: "<>"}.get(
                type(e.ops[0]))
            if op is None:
                fail(e, "comparison operator")
            return "(%s %s %s)" % (self.zterm(e.left, env), op, self.zterm(e.comparators[0], env))
        if isinstance(e, ast.Name) and env.get(e.id) == "prop":
            return e.id
        fail(e, "loop formula")

    def translate_check(self):
        f = self.funcs.get("Check_ParallelizeLoop")
        if f is None:
            raise Unsupported("%s: Check_ParallelizeLoop not found" % SRC)
        if [a.arg for a in f.args.args] != ["proc", "s"] or f.decorator_list:
            fail(f, "signature of Check_ParallelizeLoop")
        body = strip_doc(f.body)
        glue = list(self.GLUE)
        env = {"lo": "z", "hi": "z", "i": "z", "i2": "z", "a_bd": "basic", "a": "fam_i", "a2": "fam_i2"}
        lets = []
        seen_pred = False
        k = 0
        while k < len(body):
            st = body[k]
            txt = ast.unparse(st)
            if glue and txt == glue[0]:
                glue.pop(0)
                k += 1
                continue
            if isinstance(st, ast.FunctionDef) and st.name == "bds":
                if glue:
                    fail(st, "statement order (expected `%s` first)" % glue[0])
                if [a.arg for a in st.args.args] != ["x", "lo", "hi"] or len(st.body) != 1 or not isinstance(
                        st.body[0], ast.Return):
                    fail(st, "bds")
                benv = {"x": "z", "lo": "z", "hi": "z"}
                lets.append("let bds := fun x lo hi : Z => %s in" % self.lformula(st.body[0].value, benv))
                k += 1
                continue
            if isinstance(st, ast.Assign) and len(st.targets) == 1 and isinstance(st.targets[0], ast.Name):
                v = st.targets[0].id
                if glue:
                    fail(st, "statement order (expected `%s` first)" % glue[0])
                if v in ("no_bound_change", "bodies_commute", "pred"):
                    lets.append("let %s := %s in" % (v, self.lformula(st.value, env)))
                    env[v] = "prop"
                    seen_pred = seen_pred or v == "pred"
                    k += 1
                    continue
                if v == "is_ok" and txt == "is_ok = slv.verify(pred)" and seen_pred:
                    k += 1
                    continue
            if txt == "slv.pop()":
                k += 1
                continue
            if (isinstance(st, ast.If) and ast.unparse(st.test) == "not is_ok" and not st.orelse
                    and len(st.body) == 1 and isinstance(st.body[0], ast.Raise) and st.body[0].exc is not None
                    and k == len(body) - 1):
                k += 1
                continue
            fail(st, "statement of Check_ParallelizeLoop")
        if glue or not seen_pred:
            raise Unsupported("%s:%s: Check_ParallelizeLoop: missing statement `%s`" % (
                SRC, f.lineno, glue[0] if glue else "pred = .."))
        last = body[-1]
        if not (isinstance(last, ast.If) and ast.unparse(last.test) == "not is_ok"):
            fail(last, "Check_ParallelizeLoop must end in `if not is_ok: raise ..`")
        out = ["Definition Check_ParallelizeLoop_pred (lo hi : Z) (a_bd : basic loc) (fam : Z -> basic loc) : Prop :="]
        out += ["  " + l for l in lets]
        out.append("  pred.")
        return "\n".join(out)

    # ---------------------------------------------------------------- file
    def emit(self):
        out = []
        out.append("(* GENERATED by translator/py2coq_effpreds.py from %s\n   (ES, getsets, %s, Check_ParallelizeLoop).  "
                   "DO NOT EDIT. *)" % (SRC, ", ".join(PREDICATES)))
        out.append("From Coq Require Import ZArith.\nFrom Par Require Import SetAlg.\nLocal Open Scope Z_scope.\n")
        out.append("Inductive ES := " + " | ".join(self.es) + ".\n")
        out.append("Section EffPreds.\nContext {loc : Type}.\n")
        out.append(self.translate_getsets() + "\n")
        # order of definition: dependencies first (Check uses Commutes and Disjoint_Memory)
        for p in PREDICATES:
            out.append(self.translate_pred(p) + "\n")
        out.append(self.translate_check() + "\n")
        out.append("End EffPreds.")
        return "\n".join(out) + "\n"


def main():
    repo = os.environ.get("EXO_REPO", "/repo")
    outp = None
    av = sys.argv[1:]
    while av:
        a = av.pop(0)
        if a == "--repo":
            repo = av.pop(0)
        elif a == "-o":
            outp = av.pop(0)
        else:
            print("usage: py2coq_effpreds.py [--repo DIR] [-o OUT.v]", file=sys.stderr)
            sys.exit(64)
    try:
        txt = Tr(repo).emit()
    except Unsupported as e:
        print("py2coq_effpreds: " + str(e), file=sys.stderr)
        sys.exit(2)
    if outp:
        with open(outp, "w") as f:
            f.write(txt)
    else:
        sys.stdout.write(txt)


if __name__ == "__main__":
    main()
