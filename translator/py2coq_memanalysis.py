#!/venv/bin/python
"""py2coq_memanalysis.py — fail-closed translators for the C08 engine (coq/MemSafe).

    py2coq_memanalysis.py [--repo DIR] [--outdir DIR]

Writes two files into --outdir (default: coq/MemSafe):

  Gen_Used.v     `used_e : expr -> list sym` and `used_s : stmt -> list sym`, translated statement by statement from
                 the two local functions of `MemoryAnalysis.mem_stmts` (exo/backend/mem_analysis.py).
                 Supported grammar of the two functions (anything else => exit 2 naming construct and line):
                     def used_X(v):
                         res = []
                         if isinstance(v, C | (C1, C2, ..)):  <body>      [elif ...]*      (no else)
                         return res
                     <body> ::= ( res += [v.f]                      -- f a sym field
                                | res += used_Y(v.f)                -- f an expr field / stmt field
                                | for b in v.f: res += used_Y(b)    -- f a list field
                                | pass )+
                 C ranges over the LoopIR classes the model knows (table FIELDS below = coq/MemSafe/Model.v).
                 A class the functions mention but the model does not know, a field with the wrong sort, a
                 duplicate case or an `else` branch is a translation failure, not a guess.

  Gen_Helpers.v  `exo_floor_div, exo_floor_mod : Z -> Z -> Z`, translated from the C TEXT of the two static helpers in
                 `_static_helpers` (exo/backend/LoopIR_compiler.py) by a tiny C parser:
                     static int NAME(int a, int b) { (int v = E;)* return E; }
                     E ::= E ? E : E | E relop E | E + E | E - E | E * E | E / E | E % E | - E | (E) | ident | literal
                 C `/` and `%` on int become Z.quot and Z.rem (truncation towards zero, C99 6.5.5); `int` is modelled
                 as unbounded Z (the width limitation is part of the trusted base of C08).
"""
import ast
import os
import re
import sys

MEM_SRC = "src/exo/backend/mem_analysis.py"
COMP_SRC = "src/exo/backend/LoopIR_compiler.py"


class Unsupported(Exception):
    pass


def fail(src, node, msg):
    try:
        txt = ast.unparse(node)
    except Exception:
        txt = "?"
    raise Unsupported("%s:%s: unsupported construct: %s: `%s`" % (src, getattr(node, "lineno", "?"), msg, txt[:120]))


# ----------------------------------------------------------------------------- model signature (Model.v)
# python attribute -> (model binder, sort);  sorts: sym | expr | lexpr | lstmt
EXPR_FIELDS = {
    "Read": [("name", "sym"), ("idx", "lexpr")],
    "USub": [("arg", "expr")],
    "BinOp": [("lhs", "expr"), ("rhs", "expr")],
    "Extern": [("args", "lexpr")],
    "WindowExpr": [("name", "sym"), ("src_buf", None), ("idx", None)],  # None: not reachable as a plain attribute
    "StrideExpr": [("name", "sym")],
}
STMT_FIELDS = {
    "Assign": [("name", "sym"), ("idx", "lexpr"), ("rhs", "expr")],
    "Reduce": [("name", "sym"), ("idx", "lexpr"), ("rhs", "expr")],
    "WriteConfig": [("rhs", "expr")],
    "Pass": [],
    "If": [("cond", "expr"), ("body", "lstmt"), ("orelse", "lstmt")],
    "For": [("lo", "expr"), ("hi", "expr"), ("body", "lstmt")],
    "Alloc": [("name", "sym")],
    "Free": [("name", "sym")],
    "Call": [("fargs", None), ("fbody", None), ("args", "lexpr")],
    "WindowStmt": [("name", "sym"), ("rhs", "expr")],
}
# LoopIR expression classes without a constructor of their own in the model (all mapped to `Other`)
EXPR_OTHER = {"Const", "ReadConfig"}


def class_names(src, node):
    """isinstance second argument -> list of LoopIR class names"""
    def one(n):
        if isinstance(n, ast.Attribute) and isinstance(n.value, ast.Name) and n.value.id == "LoopIR":
            return n.attr
        fail(src, n, "expected LoopIR.<Class>")
    if isinstance(node, ast.Tuple):
        return [one(e) for e in node.elts]
    return [one(node)]


def translate_used(fn: ast.FunctionDef, kind: str):
    """kind = 'e' | 's'; returns list of (constructor, [terms]) in source order"""
    src = MEM_SRC
    table = EXPR_FIELDS if kind == "e" else STMT_FIELDS
    if len(fn.args.args) != 1 or fn.args.vararg or fn.args.kwarg or fn.args.kwonlyargs or fn.args.defaults:
        fail(src, fn, "expected exactly one positional parameter")
    v = fn.args.args[0].arg
    body = list(fn.body)
    if body and isinstance(body[0], ast.Expr) and isinstance(body[0].value, ast.Constant) and isinstance(body[0].value.value, str):
        body = body[1:]
    if len(body) != 3:
        fail(src, fn, "expected `res = []`, one if/elif chain, `return res`")
    init, chain, ret = body
    if not (isinstance(init, ast.Assign) and len(init.targets) == 1 and isinstance(init.targets[0], ast.Name)
            and isinstance(init.value, ast.List) and not init.value.elts):
        fail(src, init, "expected `res = []`")
    res = init.targets[0].id
    if not (isinstance(ret, ast.Return) and isinstance(ret.value, ast.Name) and ret.value.id == res):
        fail(src, ret, "expected `return %s`" % res)

    def field(node, want):
        """v.f with f of one of the sorts in `want` -> model binder"""
        if not (isinstance(node, ast.Attribute) and isinstance(node.value, ast.Name) and node.value.id == v):
            fail(src, node, "expected an attribute of the parameter `%s`" % v)
        return node.attr, want

    def callee_of(node):
        if not (isinstance(node, ast.Call) and isinstance(node.func, ast.Name) and node.func.id in ("used_e", "used_s")
                and len(node.args) == 1 and not node.keywords):
            fail(src, node, "expected used_e(..) or used_s(..)")
        return node.func.id

    cases = []
    seen = set()
    cur = chain
    while True:
        if not isinstance(cur, ast.If):
            fail(src, cur, "expected an if/elif chain without else")
        t = cur.test
        if not (isinstance(t, ast.Call) and isinstance(t.func, ast.Name) and t.func.id == "isinstance" and len(t.args) == 2
                and isinstance(t.args[0], ast.Name) and t.args[0].id == v):
            fail(src, t, "expected isinstance(%s, LoopIR.<Class>)" % v)
        classes = class_names(src, t.args[1])
        terms_src = []
        for st in cur.body:
            if isinstance(st, ast.Pass):
                continue
            if isinstance(st, ast.AugAssign) and isinstance(st.op, ast.Add) and isinstance(st.target, ast.Name) and st.target.id == res:
                val = st.value
                if isinstance(val, ast.List):
                    if len(val.elts) != 1:
                        fail(src, st, "expected a one-element list")
                    terms_src.append(("sym", field(val.elts[0], ("sym",))[0], None))
                else:
                    f = callee_of(val)
                    terms_src.append(("call", field(val.args[0], None)[0], f))
            elif isinstance(st, ast.For):
                if st.orelse or not isinstance(st.target, ast.Name) or len(st.body) != 1:
                    fail(src, st, "expected `for b in %s.f: res += used_X(b)`" % v)
                inner = st.body[0]
                if not (isinstance(inner, ast.AugAssign) and isinstance(inner.op, ast.Add) and isinstance(inner.target, ast.Name)
                        and inner.target.id == res):
                    fail(src, inner, "expected `res += used_X(b)`")
                f = callee_of(inner.value)
                a = inner.value.args[0]
                if not (isinstance(a, ast.Name) and a.id == st.target.id):
                    fail(src, inner, "loop body must apply used_X to the loop variable")
                terms_src.append(("loop", field(st.iter, None)[0], f))
            else:
                fail(src, st, "statement outside the grammar")
        for c in classes:
            if c in seen:
                fail(src, t, "class %s handled twice" % c)
            seen.add(c)
            if c not in table:
                if kind == "e" and c in EXPR_OTHER:
                    if terms_src:
                        fail(src, t, "the model maps LoopIR.%s to `Other` (no fields), but the source uses its fields" % c)
                    continue
                fail(src, t, "LoopIR.%s is not a constructor of the model's %s type" % (c, "expr" if kind == "e" else "stmt"))
            sorts = dict(table[c])
            terms = []
            for (k, attr, f) in terms_src:
                if attr not in sorts or sorts[attr] is None:
                    fail(src, t, "field `%s` of LoopIR.%s is not available in the model" % (attr, c))
                so = sorts[attr]
                if k == "sym":
                    if so != "sym":
                        fail(src, t, "field `%s` of LoopIR.%s is not a symbol" % (attr, c))
                    terms.append("[%s]" % attr)
                elif k == "call":
                    if (so, f) not in (("expr", "used_e"), ):
                        fail(src, t, "%s applied to field `%s` of LoopIR.%s (sort %s)" % (f, attr, c, so))
                    terms.append("used_e %s" % attr)
                else:
                    if (so, f) == ("lexpr", "used_e"):
                        terms.append("flat_map used_e %s" % attr)
                    elif (so, f) == ("lstmt", "used_s"):
                        terms.append("flat_map used_s %s" % attr)
                    else:
                        fail(src, t, "loop with %s over field `%s` of LoopIR.%s (sort %s)" % (f, attr, c, so))
            cases.append((c, terms))
        if not cur.orelse:
            break
        if len(cur.orelse) == 1 and isinstance(cur.orelse[0], ast.If):
            cur = cur.orelse[0]
        else:
            fail(src, cur.orelse[0], "`else` branch")
    return cases


def emit_used(cases_e, cases_s):
    def pat(c, table):
        return " ".join([c] + [b for b, _ in table[c]])

    def rhs(terms):
        return " ++ ".join(terms) if terms else "[]"

    out = []
    out.append("(* GENERATED by translator/py2coq_memanalysis.py from %s — do not edit. *)" % MEM_SRC)
    out.append("From Coq Require Import ZArith List.")
    out.append("Import ListNotations.")
    out.append("From MemSafe Require Import Model.")
    out.append("")
    out.append("Fixpoint used_e (e : expr) : list sym :=")
    out.append("  match e with")
    done = set()
    for c, terms in cases_e:
        out.append("  | %s => %s" % (pat(c, EXPR_FIELDS), rhs(terms)))
        done.add(c)
    for c in EXPR_FIELDS:
        if c not in done:
            out.append("  | %s => []" % pat(c, EXPR_FIELDS))
    out.append("  | Other => []")
    out.append("  end.")
    out.append("")
    out.append("Fixpoint used_s (s : stmt) : list sym :=")
    out.append("  match s with")
    done = set()
    for c, terms in cases_s:
        out.append("  | %s => %s" % (pat(c, STMT_FIELDS), rhs(terms)))
        done.add(c)
    for c in STMT_FIELDS:
        if c not in done:
            out.append("  | %s => []" % pat(c, STMT_FIELDS))
    out.append("  end.")
    out.append("")
    return "\n".join(out)


def find_used_functions(tree):
    for cls in tree.body:
        if isinstance(cls, ast.ClassDef) and cls.name == "MemoryAnalysis":
            for m in cls.body:
                if isinstance(m, ast.FunctionDef) and m.name == "mem_stmts":
                    fns = {f.name: f for f in m.body if isinstance(f, ast.FunctionDef)}
                    if "used_e" not in fns or "used_s" not in fns:
                        fail(MEM_SRC, m, "mem_stmts no longer defines local functions used_e and used_s")
                    # the main loop must apply used_s to each statement of the block (the hand model assumes it)
                    calls = [n for n in ast.walk(m) if isinstance(n, ast.Call) and isinstance(n.func, ast.Name)
                             and n.func.id == "used_s" and n not in list(ast.walk(fns["used_s"])) and n not in list(ast.walk(fns["used_e"]))]
                    if len(calls) != 1:
                        fail(MEM_SRC, m, "expected exactly one call of used_s in the main loop of mem_stmts")
                    return fns["used_e"], fns["used_s"]
            fail(MEM_SRC, cls, "MemoryAnalysis has no method mem_stmts")
    raise Unsupported("%s: class MemoryAnalysis not found" % MEM_SRC)


# ----------------------------------------------------------------------------- C helper parser
TOK = re.compile(r"\s*(?:(\d+)|([A-Za-z_]\w*)|(>=|<=|==|!=|[-+*/%()<>?:;{},=]))")


class CParse:
    def __init__(self, text, name):
        self.name = name
        self.toks = []
        pos = 0
        text = text.strip()
        while pos < len(text):
            m = TOK.match(text, pos)
            if not m:
                raise Unsupported("%s: helper %s: cannot tokenise C text at `%s`" % (COMP_SRC, name, text[pos:pos + 20]))
            pos = m.end()
            if m.group(1):
                self.toks.append(("int", m.group(1)))
            elif m.group(2):
                self.toks.append(("id", m.group(2)))
            else:
                self.toks.append(("op", m.group(3)))
        self.i = 0
        self.vars = []

    def err(self, msg):
        near = " ".join(t[1] for t in self.toks[self.i:self.i + 6])
        raise Unsupported("%s: helper %s: unsupported C construct: %s near `%s`" % (COMP_SRC, self.name, msg, near))

    def peek(self):
        return self.toks[self.i] if self.i < len(self.toks) else ("eof", "")

    def eat(self, kind, val=None):
        t = self.peek()
        if t[0] != kind or (val is not None and t[1] != val):
            self.err("expected %s" % (val or kind))
        self.i += 1
        return t[1]

    def at(self, kind, val=None):
        t = self.peek()
        return t[0] == kind and (val is None or t[1] == val)

    # function
    def function(self):
        self.eat("id", "static")
        self.eat("id", "int")
        fname = self.eat("id")
        if fname != self.name:
            self.err("function is called %s, dictionary key is %s" % (fname, self.name))
        self.eat("op", "(")
        params = []
        while True:
            self.eat("id", "int")
            params.append(self.eat("id"))
            if self.at("op", ","):
                self.eat("op", ",")
                continue
            break
        self.eat("op", ")")
        self.eat("op", "{")
        self.vars = list(params)
        lets = []
        while self.at("id", "int"):
            self.eat("id", "int")
            v = self.eat("id")
            if v in self.vars:
                self.err("redeclaration of %s" % v)
            self.eat("op", "=")
            e, ty = self.expr()
            if ty != "int":
                self.err("initialiser of %s is not an int expression" % v)
            self.eat("op", ";")
            lets.append((v, e))
            self.vars.append(v)
        self.eat("id", "return")
        e, ty = self.expr()
        if ty != "int":
            self.err("returned expression is not an int expression")
        self.eat("op", ";")
        self.eat("op", "}")
        if not self.at("eof"):
            self.err("trailing text")
        return params, lets, e

    # expressions: returns (gallina, type)
    def expr(self):
        c, ty = self.rel()
        if self.at("op", "?"):
            if ty != "bool":
                self.err("condition of ?: must be a comparison")
            self.eat("op", "?")
            a, ta = self.expr()
            self.eat("op", ":")
            b, tb = self.expr()
            if ta != "int" or tb != "int":
                self.err("branches of ?: must be int")
            return "(if %s then %s else %s)" % (c, a, b), "int"
        return c, ty

    def rel(self):
        a, ta = self.add()
        ops = {">=": "Z.geb", "<=": "Z.leb", "<": "Z.ltb", ">": "Z.gtb", "==": "Z.eqb"}
        if self.peek()[0] == "op" and self.peek()[1] in ops:
            op = self.eat("op")
            b, tb = self.add()
            if ta != "int" or tb != "int":
                self.err("comparison of non-int")
            return "(%s %s %s)" % (ops[op], a, b), "bool"
        if self.at("op", "!="):
            self.err("operator !=")
        return a, ta

    def add(self):
        a, ta = self.mul()
        while self.peek()[0] == "op" and self.peek()[1] in ("+", "-"):
            op = self.eat("op")
            b, tb = self.mul()
            if ta != "int" or tb != "int":
                self.err("arithmetic on a comparison")
            a = "(%s %s %s)" % (a, op, b)
        return a, ta

    def mul(self):
        a, ta = self.unary()
        while self.peek()[0] == "op" and self.peek()[1] in ("*", "/", "%"):
            op = self.eat("op")
            b, tb = self.unary()
            if ta != "int" or tb != "int":
                self.err("arithmetic on a comparison")
            if op == "*":
                a = "(%s * %s)" % (a, b)
            elif op == "/":
                a = "(Z.quot %s %s)" % (a, b)
            else:
                a = "(Z.rem %s %s)" % (a, b)
        return a, ta

    def unary(self):
        if self.at("op", "-"):
            self.eat("op", "-")
            a, ta = self.unary()
            if ta != "int":
                self.err("negation of a comparison")
            return "(- %s)" % a, "int"
        return self.primary()

    def primary(self):
        t = self.peek()
        if t[0] == "int":
            self.i += 1
            return t[1], "int"
        if t[0] == "id":
            if t[1] not in self.vars:
                self.err("unknown identifier %s" % t[1])
            self.i += 1
            return t[1], "int"
        if self.at("op", "("):
            self.eat("op", "(")
            e, ty = self.expr()
            self.eat("op", ")")
            return e, ty
        self.err("expression")


def helper_texts(tree):
    for st in tree.body:
        if isinstance(st, ast.Assign) and len(st.targets) == 1 and isinstance(st.targets[0], ast.Name) and st.targets[0].id == "_static_helpers":
            d = st.value
            if not isinstance(d, ast.Dict):
                fail(COMP_SRC, st, "_static_helpers is not a dict literal")
            out = {}
            for k, v in zip(d.keys, d.values):
                if not (isinstance(k, ast.Constant) and isinstance(k.value, str)):
                    fail(COMP_SRC, k, "non-literal key")
                if isinstance(v, ast.Call) and isinstance(v.func, ast.Attribute) and v.func.attr == "dedent" and len(v.args) == 1:
                    v = v.args[0]
                if not (isinstance(v, ast.Constant) and isinstance(v.value, str)):
                    fail(COMP_SRC, v, "helper body is not a string literal")
                out[k.value] = v.value
            return out
    raise Unsupported("%s: _static_helpers not found" % COMP_SRC)


def emit_helpers(texts):
    out = ["(* GENERATED by translator/py2coq_memanalysis.py from the C text of _static_helpers in %s — do not edit." % COMP_SRC,
           "   C `/` = Z.quot, C `%` = Z.rem (truncation towards zero); `int` is unbounded Z here. *)",
           "From Coq Require Import ZArith.", "Open Scope Z_scope.", ""]
    for name in ("exo_floor_div", "exo_floor_mod"):
        if name not in texts:
            raise Unsupported("%s: _static_helpers has no entry %s" % (COMP_SRC, name))
        params, lets, e = CParse(texts[name], name).function()
        if len(params) != 2:
            raise Unsupported("%s: helper %s: expected two int parameters" % (COMP_SRC, name))
        body = ""
        for v, ev in lets:
            body += "  let %s := %s in\n" % (v, ev)
        body += "  %s." % e
        out.append("Definition %s (%s : Z) : Z :=\n%s\n" % (name, " ".join(params), body))
    extra = sorted(set(texts) - {"exo_floor_div", "exo_floor_mod"})
    if extra:
        raise Unsupported("%s: _static_helpers has entries the model does not know: %s" % (COMP_SRC, extra))
    return "\n".join(out)


def main(argv):
    repo = os.environ.get("EXO_REPO", "/repo")
    outdir = os.path.join(os.path.dirname(os.path.dirname(os.path.abspath(__file__))), "coq", "MemSafe")
    i = 1
    while i < len(argv):
        if argv[i] == "--repo":
            repo = argv[i + 1]
            i += 2
        elif argv[i] == "--outdir":
            outdir = argv[i + 1]
            i += 2
        else:
            print("usage: py2coq_memanalysis.py [--repo DIR] [--outdir DIR]", file=sys.stderr)
            return 64
    targets = [os.path.join(outdir, "Gen_Used.v"), os.path.join(outdir, "Gen_Helpers.v")]
    try:
        t1 = ast.parse(open(os.path.join(repo, MEM_SRC)).read())
        fe, fs = find_used_functions(t1)
        used = emit_used(translate_used(fe, "e"), translate_used(fs, "s"))
        t2 = ast.parse(open(os.path.join(repo, COMP_SRC)).read())
        helpers = emit_helpers(helper_texts(t2))
    except (Unsupported, SyntaxError, OSError) as e:
        for t in targets:  # nothing may be proved about a stale translation
            if os.path.exists(t):
                os.remove(t)
        print("py2coq_memanalysis: %s" % e, file=sys.stderr)
        return 2
    for t, txt in zip(targets, (used, helpers)):
        old = open(t).read() if os.path.exists(t) else None
        if old != txt:  # keep mtime when unchanged: no needless rebuild
            open(t, "w").write(txt)
    return 0


if __name__ == "__main__":
    sys.exit(main(sys.argv))
